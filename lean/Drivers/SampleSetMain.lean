import DimodModel.SampleSet
import DimodModel.SampleSetMore
import DimodModel.SamplesObject
import DimodModel.AsSamplesDispatch
import DimodModel.Wire
open Wire SSM

/-! Line-protocol driver for the sample-set model (C14).  Registers hold (possibly deferred) sample
    sets.  Text form of a sample set: `vt;labels;fields;rows`, rows separated by `|`, a row is
    `samples~energy~occ~extras` (extras: fields separated by `,`, values of one field by `:`);
    empty lists are `-`. -/

def showVT : VT → String
  | .spin => "SPIN" | .binary => "BINARY" | .integer => "INTEGER" | .real => "REAL"

def parseVT? : String → Option VT
  | "SPIN" => some .spin | "BINARY" => some .binary | "INTEGER" => some .integer | "REAL" => some .real
  | _ => none

def listOr (sep : String) (f : α → String) (l : List α) : String :=
  if l.isEmpty then "-" else String.intercalate sep (l.map f)

def splitOr (sep : String) (s : String) : List String := if s = "-" then [] else s.splitOn sep

def showRow (r : Row) : String :=
  s!"{listOr "," showRat r.sample}~{showRat r.energy}~{r.occ}~{listOr "," (listOr ":" showRat) r.extra}"

def showSS (s : SS) : String :=
  s!"{showVT s.vt};{listOr "," showLabel s.labels};{listOr "," id s.fields};{listOr "|" showRow s.rows}"

def parseRats? (sep : String) (s : String) : Option (List Rat) := (splitOr sep s).mapM parseRat?

def parseRow? (s : String) : Option Row :=
  match s.splitOn "~" with
  | [a, e, o, x] => do
    let sample ← parseRats? "," a
    let energy ← parseRat? e
    let occ ← o.toInt?
    let extra ← (splitOr "," x).mapM (parseRats? ":")
    pure { sample, energy, occ, extra }
  | _ => none

def parseLabels? (s : String) : Option (List Label) := (splitOr "," s).mapM parseLabel?

def parseSS? (s : String) : Option SS :=
  match s.splitOn ";" with
  | [v, l, f, r] => do
    let vt ← parseVT? v
    let labels ← parseLabels? l
    let rows ← (splitOr "|" r).mapM parseRow?
    pure { labels, rows, vt, fields := splitOr "," f }
  | _ => none

def parseMapping? (s : String) : Option (List (Label × Label)) :=
  (splitOr "," s).mapM fun kv =>
    match kv.splitOn "=" with
    | [k, v] => do let k ← parseLabel? k; let v ← parseLabel? v; pure (k, v)
    | _ => none

def parseOptInt? (s : String) : Option (Option Int) := if s = "-" then some none else s.toInt?.map some

def parseKey? : String → Option (Option Key)
  | "none" => some none
  | "energy" => some (some .energy)
  | "occ" => some (some .occ)
  | "x0" => some (some (.extra 0))
  | "x1" => some (some (.extra 1))
  | _ => none

def parseSampleLike? (s : String) : Option SampleLike :=
  if s.startsWith "d:" then
    ((splitOr "," (s.drop 2).toString).mapM fun (kv : String) =>
      match kv.splitOn "=" with
      | [k, v] => do let k ← parseLabel? k; let v ← parseRat? v; pure (k, v)
      | _ => none).map .dict
  else if s.startsWith "r:" then (parseRats? "," (s.drop 2).toString).map .row
  else none

def showTable (t : List Label × List (List Rat)) : String :=
  s!"{listOr "," showLabel t.1};{listOr "|" (listOr "," showRat) t.2}"

/-- one deferred call: `R@<inplace>@<mapping>` or `C@<inplace>@<vartype>@<offset>` -/
def parseLOp? (s : String) : Option LOp :=
  match s.splitOn "@" with
  | ["R", ip, m] => (parseMapping? m).map fun m => LOp.relabel m (ip = "1")
  | ["C", ip, vt, off] => do let vt ← parseVT? vt; let off ← parseRat? off; pure (LOp.changeVt vt off (ip = "1"))
  | _ => none

/-! ### every `as_samples` form (`DimodModel/AsSamplesDispatch.lean`): prefix notation, tokens separated by `!`:
    `M!items!flt` | `A!src!shape` | `T!src!shape!labels` | `TM!items!flt!labels` | `TI!labels` | `TL!k` |
    `S!labels!rows!dt` | `I!k!<k forms>` | `Q!k!<k forms>`; `src` = `p<dt>` / `n<dt>`; `shape` = `0:x` | `1:row` |
    `2:w:rows` | `3` -/

open SSM.Dispatch in
def parseDT? : String → Option DT
  | "b" => some .bool | "i8" => some .int8 | "i16" => some .int16 | "i32" => some .int32 | "i64" => some .int64
  | "f32" => some .float32 | "f64" => some .float64 | _ => none

open SSM.Dispatch in
def showDT : DT → String
  | .bool => "b" | .int8 => "i8" | .int16 => "i16" | .int32 => "i32" | .int64 => "i64" | .float32 => "f32" | .float64 => "f64"

open SSM.Dispatch in
def parseSrc? (s : String) : Option Src :=
  if s.startsWith "p" then (parseDT? (s.drop 1).toString).map .py
  else if s.startsWith "n" then (parseDT? (s.drop 1).toString).map .nd
  else none

/-- rows separated by `|`, an empty row is `-`, no rows at all is `~` -/
def parseRows? (s : String) : Option (List (List Rat)) :=
  if s = "~" then some [] else (s.splitOn "|").mapM (parseRats? ",")

open SSM.Dispatch in
def parseShape? (s : String) : Option Shape :=
  match s.splitOn ":" with
  | ["0", x] => (parseRat? x).map .d0
  | ["1", row] => (parseRats? "," row).map .d1
  | ["2", w, rows] => do
    let w ← w.toNat?
    let rows ← parseRows? rows
    pure (.d2 rows w)
  | ["3"] => some .d3
  | _ => none

def parseItems? (s : String) : Option (List (Label × Rat)) :=
  (splitOr "," s).mapM fun (kv : String) =>
    match kv.splitOn "=" with
    | [k, v] => do let k ← parseLabel? k; let v ← parseRat? v; pure (k, v)
    | _ => none

open SSM.Dispatch in
def parseForm? : Nat → List String → Option (Form × List String)
  | 0, _ => none
  | fuel + 1, toks =>
    match toks with
    | "M" :: items :: flt :: rest => (parseItems? items).map fun it => (.mapping it (flt = "1"), rest)
    | "A" :: src :: sh :: rest => do
      let src ← parseSrc? src; let sh ← parseShape? sh; pure (.array ⟨src, sh⟩, rest)
    | "T" :: src :: sh :: ls :: rest => do
      let src ← parseSrc? src; let sh ← parseShape? sh; let ls ← parseLabels? ls; pure (.tuple ⟨src, sh⟩ ls, rest)
    | "TM" :: items :: flt :: ls :: rest => do
      let it ← parseItems? items; let ls ← parseLabels? ls; pure (.tupleMapping it (flt = "1") ls, rest)
    | "TI" :: ls :: rest => (parseLabels? ls).map fun ls => (.tupleIterator ls, rest)
    | "TL" :: k :: rest => k.toNat?.map fun k => (.tupleLen k, rest)
    | "S" :: ls :: rows :: dt :: rest => do
      let ls ← parseLabels? ls
      let rows ← parseRows? rows
      let dt ← parseDT? dt
      pure (.sampleset ls rows dt, rest)
    | "I" :: k :: rest => do
      let k ← k.toNat?
      let (l, rest) ← many fuel k rest
      pure (.iterator l, rest)
    | "Q" :: k :: rest => do
      let k ← k.toNat?
      let (l, rest) ← many fuel k rest
      pure (.sequence l, rest)
    | _ => none
where
  many (fuel : Nat) : Nat → List String → Option (List SSM.Dispatch.Form × List String)
    | 0, toks => some ([], toks)
    | k + 1, toks => do
      let (f, rest) ← parseForm? fuel toks
      let (fs, rest) ← many fuel k rest
      pure (f :: fs, rest)

def SSM.Dispatch.parseFormTop? (form : String) : Option SSM.Dispatch.Form :=
  match parseForm? 64 (form.splitOn "!") with
  | some (f, []) => some f
  | _ => none

open SSM.Dispatch in
def showOut (o : Out) : String :=
  s!"{if o.labelsAreVariables then 1 else 0};{showDT o.dtype};{o.rows.length}x{o.width};{listOr "," showLabel o.labels};{listOr "|" (listOr "," showRat) o.rows}"

open SSM.Dispatch in
def runForm (dt cp ord lv form : String) : String :=
  match (if dt = "-" then some none else (parseDT? dt).map some), parseForm? 64 (form.splitOn "!") with
  | some dt, some (f, []) =>
    match run { dtype := dt, copy := cp = "1", fOrder := ord = "1", labelsVariables := lv = "1" } f with
    | .ok o => "ok " ++ showOut o
    | .error .value => "err value"
    | .error .type => "err type"
  | _, _ => "bad-op"

abbrev Regs := List (Nat × LSS)

def Regs.get? (r : Regs) (k : Nat) : Option LSS := (r.find? (·.1 = k)).map (·.2)
def Regs.put (r : Regs) (k : Nat) (v : LSS) : Regs := (k, v) :: r.filter (·.1 ≠ k)

def getSS (regs : Regs) (k : String) : Option SS := do
  let k ← k.toNat?
  let x ← regs.get? k
  x.resolve

/-- run a value-level operation `f` from register `r` into register `d` -/
def valOp (regs : Regs) (r d : String) (f : SS → Option SS) (spec : SS → Option SS := fun _ => none) : Regs × String :=
  match getSS regs r, d.toNat? with
  | some s, some d =>
    match f s with
    | some s' =>
      let tail := match spec s with | some t => " # " ++ showSS t | none => ""
      (regs.put d (.res s'), "ok " ++ showSS s' ++ tail)
    | none => (regs, "err")
  | _, _ => (regs, "bad-reg")

def showL (x : LSS) : String :=
  s!"done={if x.done then 1 else 0} " ++ match x.resolve with | some s => showSS s | none => "err"

def step (regs : Regs) (line : String) : Regs × String :=
  match line.trimAscii.toString.splitOn " " with
  | ["set", d, s] => match d.toNat?, parseSS? s with
    | some d, some s => (regs.put d (.res s), "ok " ++ showSS s)
    | _, _ => (regs, "bad-op")
  | ["aggregate", r, d] => valOp regs r d (fun s => some s.aggregate) (fun s => some { s with rows := aggSpec s.rows })
  | ["slice", r, d, by_, a, b, c] => match parseKey? by_, parseOptInt? a, parseOptInt? b, parseOptInt? c with
    | some k, some a, some b, some c => valOp regs r d (fun s => s.slice k ⟨a, b, c⟩)
    | _, _, _, _ => (regs, "bad-op")
  | ["sliceidx", n, a, b, c] => match n.toNat?, parseOptInt? a, parseOptInt? b, parseOptInt? c with
    | some n, some a, some b, some c => (regs, match sliceIndices ⟨a, b, c⟩ n with
      | some idx => "ok " ++ listOr "," toString idx
      | none => "err")
    | _, _, _, _ => (regs, "bad-op")
  | ["truncate", r, d, by_, n] => match parseKey? by_, n.toInt? with
    | some k, some n => valOp regs r d (fun s => s.truncate n k)
    | _, _ => (regs, "bad-op")
  | ["lowest", r, d, rt, at_] => match parseRat? rt, parseRat? at_ with
    | some rt, some at_ => valOp regs r d (fun s => some (s.lowest rt at_))
    | _, _ => (regs, "bad-op")
  | ["filterle", r, d, k, thr] => match parseKey? k, parseRat? thr with
    | some (some k), some thr => valOp regs r d (fun s => some (s.filter fun row => decide (row.key k ≤ thr)))
        (fun s => some { s with rows := s.rows.filter fun row => decide (row.key k ≤ thr) })
    | _, _ => (regs, "bad-op")
  | ["filternz", r, d, src] =>
    -- a numeric predicate: energy | occm1 (num_occurrences - 1) | col:<j> (the value of column j)
    let val? : Option (Row → Rat) :=
      if src = "energy" then some (·.energy)
      else if src = "occm1" then some (fun row => (row.occ : Rat) - 1)
      else if src.startsWith "col:" then ((src.drop 4).toString.toNat?).map fun j => fun row => row.sample.getD j 0
      else none
    match val? with
    | some val => valOp regs r d (fun s => some { s with rows := filterTruthy s.rows val })
        (fun s => some { s with rows := s.rows.filter fun row => decide (val row ≠ 0) })
    | none => (regs, "bad-op")
  | ["filtermask", r, d, bits] =>
    valOp regs r d (fun s => some { s with rows := maskSelect s.rows ((splitOr "," bits).map (· = "1")) })
  | ["relabel", r, d, m] => match parseMapping? m with
    | some m => valOp regs r d (fun s => s.relabel m)
    | none => (regs, "bad-op")
  | ["keep", r, d, sort, ls] => match parseLabels? ls with
    | some ls => valOp regs r d (fun s => s.keep ls (sort = "1"))
    | none => (regs, "bad-op")
  | ["drop", r, d, ls] => match parseLabels? ls with
    | some ls => valOp regs r d (fun s => s.drop ls)
    | none => (regs, "bad-op")
  | ["appendform", r, d, sort, form] => match SSM.Dispatch.parseFormTop? form with
    | some f => valOp regs r d (fun s => SSM.Dispatch.appendVariablesForm s f (sort = "1"))
    | none => (regs, "bad-op")
  | ["appendvars", r, d, sort, ls, rows] => match parseLabels? ls, (splitOr "|" rows).mapM (parseRats? ",") with
    | some ls, some rows => valOp regs r d (fun s => s.appendVars ls rows (sort = "1"))
    | _, _ => (regs, "bad-op")
  | ["changevt", r, d, vt, off] => match parseVT? vt, parseRat? off with
    | some vt, some off => valOp regs r d (fun s => match s.changeVartype vt off with | (s', true) => some s' | _ => none)
    | _, _ => (regs, "bad-op")
  | ["appendvec", r, d, name, vals] => match (splitOr "|" vals).mapM (parseRats? ":") with
    | some vals => valOp regs r d (fun s => s.appendVec name vals)
    | none => (regs, "bad-op")
  | ["copy", r, d] => valOp regs r d some
  | ["concat", d, rs] => match d.toNat?, (splitOr "," rs).mapM (getSS regs) with
    | some d, some ss => match concatenate ss with
      | some s => (regs.put d (.res s), "ok " ++ showSS s)
      | none => (regs, "err")
    | _, _ => (regs, "bad-reg")
  | ["concatd", d, rs, fills] => match d.toNat?, (splitOr "," rs).mapM (getSS regs) with
    | some d, some ss =>
      -- fills: `name=v:v,name=v` (value per component)
      let tbl : List (String × List Rat) := (splitOr "," fills).filterMap fun (kv : String) => match kv.splitOn "=" with
        | [k, v] => (parseRats? ":" v).map (k, ·)
        | _ => none
      let fill (f : String) : List Rat := ((tbl.find? (·.1 = f)).map (·.2)).getD []
      match concatenateD fill ss with
      | some s => (regs.put d (.res s), "ok " ++ showSS s)
      | none => (regs, "err")
    | _, _ => (regs, "bad-reg")
  | ["dataorder", r, by_, rev] => match getSS regs r, parseKey? by_ with
    | some s, some k => (regs, "ok " ++ listOr "," toString (dataOrder s.rows k (rev = "1")))
    | _, _ => (regs, "bad-op")
  | ["samples", r, n, by_] => match getSS regs r, parseOptInt? n, parseKey? by_ with
    | some s, some n, some k => (regs, match s.samplesView n k with
      | some rows => "ok " ++ listOr "|" (listOr "," showRat) rows
      | none => "err")
    | _, _, _ => (regs, "bad-op")
  | ["getmulti", r, rows, cols] => match getSS regs r, (splitOr "," rows).mapM (·.toNat?), parseLabels? cols with
    | some s, some rows, some cols => (regs, match s.getMulti rows cols with
      | some out => s!"ok {out.length}x{cols.length} " ++ listOr "|" (listOr "," showRat) out
      | none => "err")
    | _, _, _ => (regs, "bad-op")
  | ["first", r] => match getSS regs r with
    | some s => (regs, match s.first with | some row => "ok " ++ showRow row | none => "err")
    | none => (regs, "bad-reg")
  | ["assamples", fixed, form] => match (splitOr "|" form).mapM parseSampleLike? with
    | some l => (regs, match asSamplesIter (fixed = "1") l with | some t => "ok " ++ showTable t | none => "err")
    | none => (regs, "bad-op")
  | ["asform", dt, cp, ord, lv, form] => (regs, runForm dt cp ord lv form)
  | ["astuple", ls, rows] => match parseLabels? ls, (splitOr "|" rows).mapM (parseRats? ",") with
    | some ls, some rows => (regs, match asSamplesTuple rows ls with | some t => "ok " ++ showTable t | none => "err")
    | _, _ => (regs, "bad-op")
  -- deferred objects
  | ["future", r, d, dn] => match getSS regs r, d.toNat? with
    | some s, some d => let x := LSS.fut (dn = "1") s []; (regs.put d x, "ok " ++ showL x)
    | _, _ => (regs, "bad-reg")
  | ["setdone", r] => match r.toNat?.bind regs.get? , r.toNat? with
    | some (.fut _ s h), some k => let x := LSS.fut true s h; (regs.put k x, "ok " ++ showL x)
    | _, _ => (regs, "bad-reg")
  | ["lrelabel", r, d, ip, m] => match r.toNat?.bind regs.get?, d.toNat?, parseMapping? m with
    | some x, some d, some m => match x.relabelOp m (ip = "1") with
      | some y => (regs.put d y, "ok " ++ showL y)
      | none => (regs, "err")
    | _, _, _ => (regs, "bad-op")
  | ["lchangevt", r, d, ip, vt, off] => match r.toNat?.bind regs.get?, d.toNat?, parseVT? vt, parseRat? off with
    | some x, some d, some vt, some off => match x.changeVtOp vt off (ip = "1") with
      | some y => (regs.put d y, "ok " ++ showL y)
      | none => (regs, "err")
    | _, _, _, _ => (regs, "bad-op")
  | ["lchain", r, d, ops] => match r.toNat?.bind regs.get?, d.toNat?, (splitOr ";" ops).mapM parseLOp? with
    | some x, some d, some ops => match chainObject ops (some x) with
      | some y => (regs.put d y, "ok " ++ showL y)
      | none => (regs, "err")
    | _, _, _ => (regs, "bad-op")
  | _ => (regs, "bad-op")

partial def loop (h : IO.FS.Stream) (regs : Regs) : IO Unit := do
  let line ← h.getLine
  if line.isEmpty then return ()
  let (regs', out) := step regs line
  IO.println out
  loop h regs'

def main : IO Unit := do loop (← IO.getStdin) []
