import DimodModel.Pack
import DimodModel.PickleReduce
import DimodModel.CooText
import DimodModel.BytesDoc
import DimodModel.Wire
open Wire SSM Pack

/-! Line-protocol driver for the serialisation model (C11).  Value trees are written
    `n | b0 | b1 | i<int> | f<num>/<den> | s<hex> | T(v,…) | L(v,…)`. -/

partial def showPV : PV → String
  | .none => "n"
  | .bool b => if b then "b1" else "b0"
  | .int z => s!"i{z}"
  | .float q => s!"f{q.num}/{q.den}"
  | .str s => "s" ++ toHex s
  | .tup l => "T(" ++ String.intercalate "," (l.map showPV) ++ ")"
  | .list l => "L(" ++ String.intercalate "," (l.map showPV) ++ ")"

/-- split at top-level commas -/
def splitTopComma (cs : List Char) : List (List Char) :=
  let rec go (cs : List Char) (depth : Nat) (cur : List Char) (acc : List (List Char)) : List (List Char) :=
    match cs with
    | [] => (cur.reverse :: acc).reverse
    | c :: t =>
      if c = '(' then go t (depth + 1) (c :: cur) acc
      else if c = ')' then go t (depth - 1) (c :: cur) acc
      else if c = ',' && depth = 0 then go t depth [] (cur.reverse :: acc)
      else go t depth (c :: cur) acc
  go cs 0 [] []

partial def parsePVChars (cs : List Char) : Option PV :=
  match cs with
  | ['n'] => some .none
  | ['b', '0'] => some (.bool false)
  | ['b', '1'] => some (.bool true)
  | 'i' :: t => (String.ofList t).toInt?.map .int
  | 'f' :: t => (parseRat? (String.ofList t)).map .float
  | 's' :: t => some (.str (hexString t))
  | 'T' :: '(' :: t => (inner t).map .tup
  | 'L' :: '(' :: t => (inner t).map .list
  | _ => none
where
  inner (t : List Char) : Option (List PV) :=
    match t.reverse with
    | ')' :: r => if r.isEmpty then some [] else (splitTopComma r.reverse).mapM parsePVChars
    | _ => none

def parsePV? (s : String) : Option PV := parsePVChars s.toList

def parsePVs? (s : String) : Option (List PV) :=
  if s = "-" then some [] else (splitTopComma s.toList).mapM parsePVChars

def listOr (sep : String) (f : α → String) (l : List α) : String :=
  if l.isEmpty then "-" else String.intercalate sep (l.map f)

def splitOr (sep : String) (s : String) : List String := if s = "-" then [] else s.splitOn sep

def parseBits (s : String) : List Bool := if s = "-" then [] else s.toList.map (· = '1')

def showBits (b : List Bool) : String := if b.isEmpty then "-" else String.ofList (b.map fun x => if x then '1' else '0')

def parseNats? (s : String) : Option (List Nat) := (splitOr "," s).mapM (·.toNat?)

def parseRats? (s : String) : Option (List Rat) := (splitOr "," s).mapM parseRat?

def parseVT? : String → Option VT
  | "SPIN" => some .spin | "BINARY" => some .binary | "INTEGER" => some .integer | "DISCRETE" => some .integer
  | "REAL" => some .real | _ => none

def parseTriples? (s : String) : Option (List (Nat × Nat × Rat)) :=
  (splitOr ";" s).mapM fun t => match t.splitOn ":" with
    | [a, b, c] => do let a ← a.toNat?; let b ← b.toNat?; let c ← parseRat? c; pure (a, b, c)
    | _ => none

def showTriples (l : List (Nat × Nat × Rat)) : String :=
  listOr ";" (fun t => s!"{t.1}:{t.2.1}:{showRat t.2.2}") l

mutual
/-- Python's `<` on labels incl. floats; `none` = TypeError -/
partial def pvLt? : PV → PV → Option Bool
  | .int a, .int b => some (decide (a < b))
  | .int a, .float b => some (decide ((a : Rat) < b))
  | .float a, .int b => some (decide (a < (b : Rat)))
  | .float a, .float b => some (decide (a < b))
  | .str a, .str b => some (decide (a < b))
  | .tup a, .tup b => pvLtList? a b
  | _, _ => none
partial def pvLtList? : List PV → List PV → Option Bool
  | [], [] => some false
  | [], _ :: _ => some true
  | _ :: _, [] => some false
  | x :: xs, y :: ys => if showPV x = showPV y then pvLtList? xs ys else
      match pvLt? x y, pvLt? y x with
      | some false, some false => pvLtList? xs ys      -- equal numbers of different type (1 == 1.0)
      | r, _ => r
end

instance : Inhabited Info := ⟨.leaf .none⟩
instance : Inhabited PV := ⟨.none⟩

/-- `info` trees travel as value trees: `T(s"A", i<kind>, L(shape…), L(data…))` is an array,
    `T(s"D", T(s<key>, value), …)` a dict, `L(…)` a list, anything else a leaf -/
partial def pvToInfo : PV → Info
  | .tup [.str "A", .int k, .list shape, .list data] =>
    .arr ⟨(if k = 0 then .bool else if k = 1 then .int else .float), shape.map (fun v => (elemIn v).floor.toNat), data.map elemIn⟩
  | .tup (.str "D" :: kvs) => .dict (kvs.filterMap fun kv => match kv with
      | .tup [.str k, v] => some (k, pvToInfo v)
      | _ => none)
  | .list l => .list (l.map pvToInfo)
  | v => .leaf v

partial def docToPV : Doc → PV
  | .leaf v => v
  | .arr k shape data => .tup [.str "A", .int (match k with | .bool => 0 | .int => 1 | .float => 2), .list (shape.map fun (n : Nat) => PV.int (n : Int)), data]
  | .list l => .list (l.map docToPV)
  | .dict kv => .tup (.str "D" :: kv.map fun p => .tup [.str p.1, docToPV p.2])

def step (line : String) : String :=
  match line.trimAscii.toString.splitOn " " with
  | ["pack", n, m, rows] => match n.toNat?, m.toNat? with
    | some n, some m =>
      let p := packSamples (if n = 0 then List.replicate m [] else (splitOr "|" rows).map parseBits) n
      s!"ok shape={p.shape.1},{p.shape.2} {listOr "|" (listOr "," toString) p.rows}"
    | _, _ => "bad-op"
  | ["unpack", n, rows] => match n.toNat?, (splitOr "|" rows).mapM parseNats? with
    | some n, some ws =>
      let c := (ws.headD []).length
      "ok " ++ listOr "|" showBits (unpackSamples ⟨(ws.length, c), ws⟩ n)
    | _, _ => "bad-op"
  | ["serarr", kind, shape, data] =>
    let k : DKind := if kind = "b" then .bool else if kind = "f" then .float else .int
    match parseNats? shape, parseRats? data with
    | some sh, some d => "ok " ++ showPV (serializeData ⟨k, sh, d⟩)
    | _, _ => "bad-op"
  | ["desarr", kind, shape, data] =>
    let k : DKind := if kind = "b" then .bool else if kind = "f" then .float else .int
    match parseNats? shape, parsePV? data with
    | some sh, some d => "ok " ++ listOr "," showRat (deserializeNd k sh (jsonRT d)).data
    | _, _ => "bad-op"
  | ["labels", ls] => match parsePVs? ls with
    | some l =>
      let ser := jsonRT (.list (serVarList l))
      let back := match ser with | .list x => deserVarList x | _ => []
      s!"ok {showPV ser} {listOr "," showPV back}"
    | none => "bad-op"
  | ["tobytes", size, signed, vals] => match size.toNat?, (splitOr "," vals).mapM (·.toInt?) with
    | some sz, some vs => "ok " ++ listOr "," toString (tobytesInt ⟨sz, signed = "1"⟩ vs)
    | _, _ => "bad-op"
  | ["bytesdoc", size, signed, shape, vals, ub, drop] =>
    -- the whole dict of `serialize_ndarray(arr, use_bytes)` and what `deserialize_ndarray` makes of it (after dropping `drop` trailing bytes)
    match size.toNat?, parseNats? shape, (splitOr "," vals).mapM (·.toInt?), drop.toNat? with
    | some sz, some sh, some vs, some dr =>
      let doc := serializeArrDoc ⟨⟨sz, signed = "1"⟩, sh, vs⟩ (ub = "1")
      let doc' : ArrDoc := match doc.data with
        | .bytes b => { doc with data := .bytes (b.take (b.length - dr)) }
        | .list _ => doc
      let payload := match doc.data with | .bytes b => "B" ++ listOr "," toString b | .list v => "L" ++ showPV v
      let back := match deserializeArrDoc doc' with
        | some a => "some " ++ listOr "," toString a.shape ++ " " ++ listOr "," toString a.data
        | none => "none"
      s!"ok type={doc.type} size={doc.dataType.size} signed={if doc.dataType.signed then 1 else 0} shape={listOr "," toString doc.shape} use_bytes={if doc.useBytes then 1 else 0} data={payload} back={back}"
    | _, _, _, _ => "bad-op"
  | ["frombytes", size, signed, count, bytes] => match size.toNat?, count.toNat?, parseNats? bytes with
    | some sz, some c, some bs => "ok " ++ listOr "," toString (frombufferInt ⟨sz, signed = "1"⟩ bs c)
    | _, _, _ => "bad-op"
  | ["coovt", arg, hdr] =>
    -- `loads(dumps(bqm, vartype_header), vartype=arg)`: arg / hdr are SPIN | BINARY | -
    let a := if arg = "-" then none else parseVT? arg
    let h := if hdr = "-" then [] else (parseVT? hdr).toList
    (match cooLoadVartype a h with | some .spin => "ok SPIN" | some .binary => "ok BINARY" | some _ => "ok ?" | none => "err")
  | ["infoser", t] => match parsePV? t with
    | some v => "ok " ++ showPV (docToPV (serInfo (pvToInfo v)))
    | none => "bad-op"
  | ["sortlabels", ls] => match parsePVs? ls with
    | some l =>
      if l.all fun a => l.all fun b => (pvLt? a b).isSome then
        "ok " ++ listOr "," toString ((l.zipIdx.mergeSort fun a b => (pvLt? b.1 a.1) != some true).map (·.2))
      else "err"
    | none => "bad-op"
  | ["sser", vt, pf, kind, n, m, rows] => match parseVT? vt, n.toNat?, (if n = "0" then (m.toNat?.map fun m => List.replicate m []) else (splitOr "|" rows).mapM parseRats?) with
    | some vt, some n, some rows =>
      let k : DKind := if kind = "b" then .bool else if kind = "f" then .float else .int
      let d := encodeSamples true vt k (pf = "1") rows n
      s!"ok packed={if d.packed then 1 else 0} shape={listOr "," toString d.shape} data={showPV d.data}"
    | _, _, _ => "bad-op"
  | ["ssde", vt, pk, n, shape, data] => match parseVT? vt, n.toNat?, parseNats? shape, parsePV? data with
    | some vt, some n, some sh, some d =>
      "ok " ++ listOr "|" (listOr "," showRat) (decodeSamples vt n ⟨pk = "1", sh, d⟩)
    | _, _, _, _ => "bad-op"
  | ["cyreduce", order, lin, quad] => match parseNats? order, parseRats? lin, parseTriples? quad with
    | some order, some lin, some quad =>
      let r := CyBQM.reduce ⟨(List.range lin.length).map fun (i : Nat) => Label.int (i : Int), .spin, ⟨lin, quad, 0⟩⟩ order
      s!"ok {listOr "," showRat r.ldata} {showTriples r.quad} {listOr "," (fun l => match l with | Label.int z => toString z | _ => "?") r.labels}"
    | _, _, _ => "bad-op"
  | ["bqmvec", py, order, lin, quad] => match parseNats? order, parseRats? lin, parseTriples? quad with
    | some order, some lin, some quad =>
      let v := toVectors ⟨lin, quad, 0⟩ order (py = "1")
      s!"ok {listOr "," showRat v.ldata} {showTriples v.quad}"
    | _, _, _ => "bad-op"
  | ["coo", labels, lin, nz, quad] => match parseNats? labels, (splitOr "," lin).mapM (·.toInt?), parseTriples? quad with
    | some labels, some lin, some quad =>
      let linf (u : Nat) : Int := (lin.getD (labels.idxOf u) 0)
      let nzs := splitOr "," nz
      let nzf (u : Nat) : Bool := nzs.getD (labels.idxOf u) "0" = "1"
      let quadf (u v : Nat) : Option Int :=
        (quad.find? fun t => (t.1 = u ∧ t.2.1 = v) ∨ (t.1 = v ∧ t.2.1 = u)).map fun t => t.2.2.floor
      "ok " ++ listOr ";" (fun t : Nat × Nat × Int => s!"{t.1}:{t.2.1}:{t.2.2}") (cooDump labels linf nzf quadf)
    | _, _, _ => "bad-op"
  | ["coodump", hdr, vt, labels, lin, quad] => match parseVT? vt, parseNats? labels, parseRats? lin, parseTriples? quad with
    -- the text `coo.dumps(bqm, vartype_header=hdr)` as the text-level model writes it (hex of UTF-8)
    | some vt, some labels, some lin, some quad =>
      let linf (u : Nat) : Rat := lin.getD (labels.idxOf u) 0
      let quadf (u v : Nat) : Option Rat :=
        (quad.find? fun t => (t.1 = u ∧ t.2.1 = v) ∨ (t.1 = v ∧ t.2.1 = u)).map fun t => t.2.2
      "ok " ++ toHex (String.ofList (CooText.dumps (hdr = "1") vt labels linf quadf)) ++ "."
    | _, _, _, _ => "bad-op"
  | ["cooload", arg, hex] =>
    -- `coo.loads(text, vartype=arg)`: vartype, variables in order of first appearance, accumulated biases
    let a := if arg = "-" then none else parseVT? arg
    let text := (hexString (hex.toList.filter (· != '.'))).toList
    (match CooText.loads a text with
     | none => "err"
     | some (vt, calls) =>
       let vars := CooText.varsOf calls
       let pairs := ((calls.filter fun x => x.1 ≠ x.2.1).map fun x => (min x.1 x.2.1, max x.1 x.2.1)).eraseDups
       s!"ok {match vt with | .spin => "SPIN" | .binary => "BINARY" | _ => "?"} " ++ listOr "," toString vars ++ " "
         ++ listOr "," (fun u => showRat (CooText.linOf calls u)) vars ++ " "
         ++ listOr ";" (fun p : Nat × Nat => s!"{p.1}:{p.2}:{showRat (CooText.quadOf calls p.1 p.2)}") pairs)
  | _ => "bad-op"

partial def loop (h : IO.FS.Stream) : IO Unit := do
  let line ← h.getLine
  if line.isEmpty then return ()
  IO.println (step line)
  loop h

def main : IO Unit := do loop (← IO.getStdin)
