import Drivers.PenShow
import DimodModel.PenaltyOpts
open Wire Pen PenShow

/-! Line-protocol driver for the C16 models (`DimodModel/Penalty.lean`).  Every line is self-contained.

    eq <cy|py|pyold|view> <SPIN|BINARY data vartype> <lam> <C> <terms> <lin0> <quad0> <off0>
    dqmeq <ncases> <lam> <C> <v:c=bias,...>
    ineqbqm <lam> <label hex> <C> <lb> <ub> <cross 0|1> <terms (integer biases)>
    ineqdqm <log2|log10|linear> <ncases> <lam> <label hex> <C> <lb> <ub> <cross> <v:c=bias,...>
    benc <label> <ub>
    slack <S>
    cqm <lam|-> <vars> <objective> <constraints>
    inv <vars> <sample>
-/

def parseNats (s : String) : Option (List Nat) := (csv s).mapM fun x => x.toNat?

def parseDqmTerms (s : String) : Option (List (Nat × Nat × Rat)) :=
  (csv s).mapM fun kv =>
    match kv.splitOn "=" with
    | [k, b] =>
      match k.splitOn ":" with
      | [v, c] => do let v ← v.toNat?; let c ← c.toNat?; let b ← parseRat? b; pure (v, c, b)
      | _ => none
    | _ => none

def showBqNat (b : Bq Nat) (total : Nat) : String :=
  let linS := (List.range total).map fun c => s!"{c}={showRat (((b.lin.find? (·.1 = c)).map (·.2)).getD 0)}"
  let quad := sortStrings (b.quad.map fun p =>
    let a := min p.1.1 p.1.2; let c := max p.1.1 p.1.2
    let pad (n : Nat) : String := String.ofList (List.replicate (6 - (toString n).length) '0') ++ toString n
    s!"{pad a}~{pad c}={showRat p.2}")
  s!"{String.intercalate "," linS};{String.intercalate "," quad};{showRat b.off}"

def parseNatQuad (s : String) : Option (List ((Nat × Nat) × Rat)) :=
  (csv s).mapM fun kv =>
    match kv.splitOn "=" with
    | [k, v] =>
      match k.splitOn "~" with
      | [a, b] => do let a ← a.toNat?; let b ← b.toNat?; let v ← parseRat? v; pure ((a, b), v)
      | _ => none
    | _ => none

def parseNatLin (s : String) : Option (List (Nat × Rat)) :=
  (csv s).mapM fun kv =>
    match kv.splitOn "=" with
    | [k, v] => do let k ← k.toNat?; let v ← parseRat? v; pure (k, v)
    | _ => none

/-- adjacency lists `1+2|0|-` -/
def parseAdj (s : String) : Option (List (List Nat)) :=
  if s = "-" then some [] else
  (s.splitOn "|").mapM fun l => if l = "-" then some [] else (l.splitOn "+").mapM fun x => x.toNat?

def showAdj (a : List (List Nat)) : String :=
  if a.isEmpty then "-" else
  String.intercalate "|" (a.map fun l => if l.isEmpty then "-" else String.intercalate "+" (l.map toString))

/-- all samples (one case per variable) in lexicographic order -/
def allSamples : List Nat → List (List Nat)
  | [] => [[]]
  | n :: r => (List.range n).flatMap fun c => (allSamples r).map fun t => c :: t

def showDqm (d : Dqm) : String :=
  let total := d.ncases.foldl (· + ·) 0
  let es := if (allSamples d.ncases).length ≤ 4096 then String.intercalate "," ((allSamples d.ncases).map fun sm => showRat (d.energyCoded sm)) else "-"
  showBqNat d.bq total ++ ";" ++ showAdj d.adj ++ ";" ++ es

def hexLabel (s : String) : String := hexString s.toList

def parseKind (fs : List String) : Option VKind :=
  match fs with
  | ["B"] => some .binary
  | ["S"] => some .spin
  | ["I", lb, ub] => do let lb ← lb.toInt?; let ub ← ub.toInt?; pure (.integer lb ub)
  | _ => none

def parseVars (s : String) : Option (List (Label × VKind)) :=
  (csv s).mapM fun kv =>
    match kv.splitOn "=" with
    | [k, v] => do let k ← parseLabel? k; let kind ← parseKind (v.splitOn ":"); pure (k, kind)
    | _ => none

/-- `lin!quad!off` -/
def parseQM (s : String) : Option QM :=
  match s.splitOn "!" with
  | [l, q, o] => do
    let l ← parseTerms l; let q ← parseQuad q
    let o ← parseRat? o
    pure { lin := l, quad := q, off := o }
  | _ => none

def parseSense (s : String) : Option Sense :=
  if s = "le" then some .le else if s = "ge" then some .ge else if s = "eq" then some .eq else none

/-- `qm@sense@rhs` separated by `&` -/
def parseCons (s : String) : Option (List Cons) :=
  if s = "-" then some [] else
  (s.splitOn "&").mapM fun c =>
    match c.splitOn "@" with
    | [q, se, r] => do let q ← parseQM q; let se ← parseSense se; let r ← parseRat? r; pure { lhs := q, sense := se, rhs := r }
    | _ => none

def errName : CqmErr → String
  | .lowerBound => "lowerBound" | .encoding => "encoding"
  | .quadraticConstraint => "quadraticConstraint" | .infeasible => "infeasible" | .conflict => "conflict"

def showSlackVar (v : SlackVar) : String :=
  s!"{toHex v.label}:{v.ncases}:" ++ String.intercalate "+" (v.cases.map fun c => s!"{c.1}={c.2}")

def answer (line : String) : String :=
  match line.trimAscii.toString.splitOn " " with
  | ["eq", impl, vt, lam, c, terms, lin0, quad0, off0] =>
    match vtOf? vt, parseRat? lam, parseRat? c, parseTerms terms, parseTerms lin0, parseQuad quad0, parseRat? off0 with
    | some vt, some lam, some c, some terms, some lin0, some quad0, some off0 =>
      let b0 : Bq Label := { vt := vt, lin := lin0, quad := quad0, off := off0 }
      let bag :=
        if impl = "cy" then eqTermsCy vt terms lam c
        else if impl = "py" then eqTermsPy vt terms lam c
        else if impl = "pyold" then eqTermsPyUnmerged vt terms lam c
        else eqTermsView (other vt) terms lam c
      "ok " ++ showBq (b0.apply bag) false
    | _, _, _, _, _, _, _ => "bad-op"
  | ["dqmeq", nc, lam, c, terms] =>
    match parseNats nc, parseRat? lam, parseRat? c, parseDqmTerms terms with
    | some nc, some lam, some c, some terms =>
      match dqmEqTerms nc terms lam c with
      | some bag => "ok " ++ showBqNat ((Bq.empty .binary : Bq Nat).apply bag) (nc.foldl (· + ·) 0)
      | none => "err"
    | _, _, _, _ => "bad-op"
  | ["dqmeqs", nc, lam, c, terms, lin0, quad0, off0, adj0] =>
    match parseNats nc, parseRat? lam, parseRat? c, parseDqmTerms terms, parseNatLin lin0, parseNatQuad quad0, parseRat? off0, parseAdj adj0 with
    | some nc, some lam, some c, some terms, some lin0, some quad0, some off0, some adj0 =>
      let b0 : Bq Nat := { vt := .binary, lin := lin0, quad := quad0, off := off0 }
      let d : Dqm := { ncases := nc, bq := b0, adj := adj0 ++ List.replicate (nc.length - adj0.length) [] }
      match dqmAddEq d terms lam c with
      | some d' => "ok " ++ showDqm d'
      | none => "err"
    | _, _, _, _, _, _, _, _ => "bad-op"
  | ["ineqdqms", method, nc, lam, label, c, lb, ub, cross, terms, lin0, quad0, off0, adj0] =>
    match parseNats nc, parseRat? lam, c.toInt?, lb.toInt?, ub.toInt?, parseDqmTerms terms, parseNatLin lin0, parseNatQuad quad0, parseRat? off0, parseAdj adj0 with
    | some nc, some lam, some c, some lb, some ub, some terms, some lin0, some quad0, some off0, some adj0 =>
      let b0 : Bq Nat := { vt := .binary, lin := lin0, quad := quad0, off := off0 }
      let d : Dqm := { ncases := nc, bq := b0, adj := adj0 ++ List.replicate (nc.length - adj0.length) [] }
      match dqmIneq d method (hexLabel label) (terms.map fun t => (t.1, t.2.1, t.2.2.num)) lam c lb ub (cross = "1") with
      | .skipped => "skip"
      | .raises => "raise"
      | .err => "err"
      | .ok d' sv => "ok " ++ String.intercalate "," (sv.map showSlackVar) ++ ";" ++ showDqm d'
    | _, _, _, _, _, _, _, _, _, _ => "bad-op"
  | ["ineqbqm", lam, label, c, lb, ub, cross, terms] =>
    match parseRat? lam, c.toInt?, lb.toInt?, ub.toInt?, parseTerms terms with
    | some lam, some c, some lb, some ub, some terms =>
      match bqmIneq (hexLabel label) (terms.map fun t => (t.1, t.2.num)) lam c lb ub (cross = "1") with
      | .skipped => "skip"
      | .raises => "raise"
      | .err => "err"
      | .ok bag sl =>
        "ok " ++ String.intercalate "," (sl.map fun p => s!"{showLabel p.1}={p.2}") ++ ";"
          ++ showBq ((Bq.empty .binary : Bq Label).apply bag) false
    | _, _, _, _, _ => "bad-op"
  | ["ineqdqm", method, nc, lam, label, c, lb, ub, cross, terms] =>
    match parseNats nc, parseRat? lam, c.toInt?, lb.toInt?, ub.toInt?, parseDqmTerms terms with
    | some nc, some lam, some c, some lb, some ub, some terms =>
      let d : Dqm := { ncases := nc, bq := Bq.empty .binary, adj := List.replicate nc.length [] }
      match dqmIneq d method (hexLabel label) (terms.map fun t => (t.1, t.2.1, t.2.2.num)) lam c lb ub (cross = "1") with
      | .skipped => "skip"
      | .raises => "raise"
      | .err => "err"
      | .ok d' sv => "ok " ++ String.intercalate "," (sv.map showSlackVar) ++ ";" ++ showBqNat d'.bq (d'.ncases.foldl (· + ·) 0)
    | _, _, _, _, _, _ => "bad-op"
  | ["benc", l, ub] =>
    match parseLabel? l, ub.toNat? with
    | some l, some ub =>
      match binaryEncoding l ub with
      | some e => "ok " ++ String.intercalate "," (e.map fun p => s!"{showLabel p.1}={p.2}")
      | none => "err"
    | _, _ => "bad-op"
  | ["slack2", s] =>
    -- round 7: only the log2 coefficient list over the rule extracted from the source (any S, no digit lists)
    match s.toNat? with
    | some S => String.intercalate "," ((Pen.slackLog2Bqm (fun _ => 0) S).map toString) ++ ";" ++
        String.intercalate "," ((Pen.slackLog2Dqm (fun _ => 0) S).map toString)
    | none => "bad-op"
  | ["slack", s] =>
    match s.toNat? with
    | some S =>
      let showL (l : List Nat) := String.intercalate "," (l.map toString)
      s!"{showL (slackLog2 S)};{String.intercalate "|" ((slackLog10 S).map showL)};{Nat.log2 S};{clog10 S}"
    | none => "bad-op"
  | ["cqm", lam, vars, obj, cons] =>
    match (if lam = "-" then some none else (parseRat? lam).map some), parseVars vars, parseQM obj, parseCons cons with
    | some lam, some vars, some obj, some cons =>
      match cqmToBqm { vars := vars, obj := obj, cons := cons } lam with
      | .ok (b, lam) => s!"ok {showRat lam};" ++ showBq b true
      | .error e => "err " ++ errName e
    | _, _, _, _ => "bad-op"
  | ["inv", vars, sample] =>
    match parseVars vars, parseTerms sample with
    | some vars, some sample =>
      let z : Label → Rat := fun l => ((sample.find? (·.1 = l)).map (·.2)).getD 0
      "ok " ++ String.intercalate "," ((invert vars z).map fun p => s!"{showLabel p.1}={showRat p.2}")
    | _, _ => "bad-op"
  | _ => "bad-op"

partial def loop (h : IO.FS.Stream) : IO Unit := do
  let line ← h.getLine
  if line.isEmpty then return ()
  IO.println (answer line)
  loop h

def main : IO Unit := do loop (← IO.getStdin)
