import DimodModel.Cpp
import DimodModel.CppCover
import DimodModel.CheckedCqm
import DimodModel.CyCqmVars
import DimodModel.CqmChangeVartype
import DimodModel.Wire
open Wire

/-! Driver for the index-level C++ model (C20): reads the op lines of `harness/cpp/interp.cc` (numbers as
    `p/q`), keeps one model per slot `b0.. / q0..`, answers the states of the slots named by the op in the
    interpreter's field layout, or `skip` for an op it does not model (the harness then re-loads the slots).
    `load X <bvt|-> n off lin adj vt lb ub`.
    `cx VT LB UB OBJ CONS op args…`: one call on a CQM given by its printed state (VT letters, LB / UB numbers, an expression
    = `vars~lin~adj~off`, CONS = expressions joined by `;`, `-` = empty) through `Cqm.cstep` (`DimodModel/CheckedCqm.lean`);
    answer: the state after in the same text, `UB` when the checked call `Cqm.cstep?` fails, `skip` for an op outside `COp`. -/

namespace CppDriver

abbrev Slots := List (String × CppM)

def get (s : Slots) (k : String) : CppM :=
  match s.find? (·.1 = k) with
  | some p => p.2
  | none => if k.startsWith "b" then CppM.newBqm .binary 0 else CppM.newQm

def put (s : Slots) (k : String) (m : CppM) : Slots := (k, m) :: s.filter (·.1 ≠ k)

def vtChar : QVT → String | .spin => "S" | .binary => "B" | .integer => "I" | .real => "R"

def vt? (s : String) : Option QVT :=
  match s with
  | "SPIN" | "S" => some .spin | "BINARY" | "B" => some .binary
  | "INTEGER" | "I" => some .integer | "REAL" | "R" => some .real | _ => none

def j (l : List String) : String := String.intercalate "," l

def showState (name : String) (m : CppM) : String :=
  let n := m.n
  let rows := m.q.adj.map fun nb => j (nb.map fun p => s!"{p.1}:{showRat p.2}")
  let vts := (List.range n).map fun i => vtChar (m.vtOf i)
  let (lbs, ubs) := match m.bvt with
    | some t => let b := CppM.defaultBounds t; (List.replicate n b.1, List.replicate n b.2)
    | none => (m.q.lb, m.q.ub)
  let degs := (List.range n).map fun i => toString (m.degree i)
  s!"{name} n={n};off={showRat m.q.off};lin={j (m.q.lin.map showRat)};adj={String.intercalate "|" rows};vt={String.join vts};lb={j (lbs.map showRat)};ub={j (ubs.map showRat)};ni={m.numInteractions};deg={j degs};lin?={if m.isLinear then 1 else 0};bvt={match m.bvt with | some t => vtChar t | none => "-"}"

def nats? (s : String) : Option (List Nat) := (csv s).mapM (·.toNat?)
def rats? (s : String) : Option (List Rat) := if s = "" then some [] else (csv s).mapM parseRat?

def parseRows (s : String) : Option (List (List (Nat × Rat))) :=
  if s = "-" then some [] else
  (s.splitOn "|").mapM fun r =>
    if r = "" then some [] else
    (r.splitOn ",").mapM fun e =>
      match e.splitOn ":" with
      | [v, b] => do pure ((← v.toNat?), (← parseRat? b))
      | _ => none

/-- result: new slots and the names whose states are reported; `none` = not modelled -/
def stepCore (s : Slots) (ws : List String) : Option (Slots × List String) :=
  let one (x : String) (m : CppM) : Option (Slots × List String) := some (put s x m, [x])
  match ws with
  | ["load", x, bvt, _n, off, lin, adj, vts, lb, ub] => do
    let lin ← rats? lin
    let adj ← parseRows adj
    let off ← parseRat? off
    let lb ← rats? lb
    let ub ← rats? ub
    let vts ← ((if vts = "-" then [] else vts.toList).map fun c => vt? (String.ofList [c])).mapM id
    let adj := if adj.length < lin.length then adj ++ List.replicate (lin.length - adj.length) [] else adj
    let q : Qm := { CppM.emptyQ with lin := lin, adj := adj, off := off }
    if bvt = "?" then one x { bvt := (get s x).bvt, q := q } else
    match vt? bvt with
    | some t => one x { bvt := some t, q := q }
    | none => one x { bvt := none, q := { q with vt := vts, lb := lb, ub := ub } }
  | ["new", x] => if x.startsWith "b" then one x (CppM.newBqm .binary 0) else if x.startsWith "q" then one x CppM.newQm else none
  | ["new", x, vt] => do one x (CppM.newBqm (← vt? vt) 0)
  | ["new", x, vt, n] => do one x (CppM.newBqm (← vt? vt) (← n.toNat?))
  | ["q", x] => one x (get s x)
  | ["clear", x] => one x (get s x).clear
  | ["copy", x, y] | ["cctor", x, y] => if x = y then one x (get s x) else some (put s x (get s y), [x, y])
  | ["move", x, y] | ["mctor", x, y] =>
    let my := get s y
    let fresh := match my.bvt with | some _ => CppM.newBqm .binary 0 | none => CppM.newQm
    some (put (put s x my) y fresh, [x, y])
  | ["swap", x, y] => some (put (put s x (get s y)) y (get s x), [x, y])
  | "dense" :: x :: vt :: n :: vals => do
    let n ← n.toNat?
    one x ((CppM.newBqm (← vt? vt) n).addDense n (← rats? (String.intercalate "," vals)))
  | "adddense" :: x :: n :: vals => do one x ((get s x).addDense (← n.toNat?) (← rats? (String.intercalate "," vals)))
  | ["coo", x, _len, rows, cols, vals] | ["aqil", x, rows, cols, vals] => do
    one x ((get s x).addCoo (← nats? rows) (← nats? cols) (← rats? vals))
  | ["addvar", x] => one x ((get s x).addVar none)
  | ["addvar", x, vt] => do let t ← vt? vt; let b := CppM.defaultBounds t; one x ((get s x).addVar (some (t, b.1, b.2)))
  | ["addvar", x, vt, lb, ub] => do one x ((get s x).addVar (some ((← vt? vt), (← parseRat? lb), (← parseRat? ub))))
  | ["addvars", x, vt, n] => do
    let t ← vt? vt; let b := CppM.defaultBounds t
    one x ((List.range (← n.toNat?)).foldl (fun acc _ => acc.addVar (some (t, b.1, b.2))) (get s x))
  | ["addvars", x, vt, n, lb, ub] => do
    let t ← vt? vt; let l ← parseRat? lb; let u ← parseRat? ub
    one x ((List.range (← n.toNat?)).foldl (fun acc _ => acc.addVar (some (t, l, u))) (get s x))
  | ["al", x, v, b] => do let v ← v.toNat?; let b ← parseRat? b; one x ((get s x).withLin (Bqm.modifyAt · v (· + b)))
  | ["sl", x, v, b] => do let v ← v.toNat?; let b ← parseRat? b; one x ((get s x).withLin (Bqm.modifyAt · v (fun _ => b)))
  | ["sll", x, v, bs] => do
    let v ← v.toNat?; let bs ← rats? bs
    one x ((List.range bs.length).foldl (fun acc i => acc.withLin (Bqm.modifyAt · (v + i) (fun _ => bs.getD i 0))) (get s x))
  | ["ao", x, b] => do let b ← parseRat? b; one x ((get s x).withOff (· + b))
  | ["so", x, b] => do let b ← parseRat? b; one x ((get s x).withOff (fun _ => b))
  | ["aq", x, u, v, b] | ["aqb", x, u, v, b] => do one x ((get s x).quad (← u.toNat?) (← v.toNat?) (← parseRat? b) false).1
  | ["sq", x, u, v, b] => do one x ((get s x).quad (← u.toNat?) (← v.toNat?) (← parseRat? b) true).1
  | ["ri", x, u, v] => do one x ((get s x).removeInteraction (← u.toNat?) (← v.toNat?)).1
  | ["rif", x, thr] => do one x ((get s x).removeIf (← parseRat? thr))
  | ["rv", x, v] => do one x ((get s x).removeAt (← v.toNat?))
  | ["rvs", x, vs] => do one x ((get s x).removeMany (← nats? vs))
  | ["rs", x, n] => do one x ((get s x).resize (← n.toNat?)).1
  | ["rsv", x, n, vt] => do
    let k ← n.toNat?; let t ← vt? vt; let b := CppM.defaultBounds t
    one x (((get s x).baseResize k).infoResize k t b.1 b.2)
  | ["rsv", x, n, vt, lb, ub] => do
    let k ← n.toNat?
    one x (((get s x).baseResize k).infoResize k (← vt? vt) (← parseRat? lb) (← parseRat? ub))
  | ["sc", x, c] => do one x ((get s x).scale (← parseRat? c))
  | ["fx", x, v, a] => do one x ((get s x).fix (← v.toNat?) (← parseRat? a))
  | ["sv", x, v, m, c] => do one x ((get s x).substituteVariable (← v.toNat?) (← parseRat? m) (← parseRat? c))
  | ["svs", x, m, c] => do one x ((get s x).substituteAll (← parseRat? m) (← parseRat? c))
  | ["cv", x, vt] => do one x ((get s x).changeVartype (← vt? vt) 0).1
  | ["cv", x, vt, v] => do one x ((get s x).changeVartype (← vt? vt) (← v.toNat?)).1
  | ["slb", x, v, b] => do
    let v ← v.toNat?; let b ← parseRat? b; let m := get s x
    one x { m with q := { m.q with lb := Bqm.modifyAt m.q.lb v (fun _ => b) } }
  | ["sup", x, v, b] => do
    let v ← v.toNat?; let b ← parseRat? b; let m := get s x
    one x { m with q := { m.q with ub := Bqm.modifyAt m.q.ub v (fun _ => b) } }
  | ["svt", x, v, vt] => do
    let v ← v.toNat?; let t ← vt? vt; let m := get s x
    one x { m with q := { m.q with vt := Bqm.modifyAt m.q.vt v (fun _ => t) } }
  | ["energy", x, _] => one x (get s x)
  | ["eq", x, y] => if x = y then one x (get s x) else some (s, [x, y])
  | ["qmfrombqm", x, y] | ["qmfrombqmf", x, y] => some (put s x (get s y).qmFromBqm, [x, y])
  | _ => none

/-! ### one call on a CQM state (Expression / Constraint / CQM level) -/

def vt4? (s : String) : Option VT4 :=
  match s with
  | "S" | "SPIN" => some .spin | "B" | "BINARY" => some .binary
  | "I" | "INTEGER" => some .integer | "R" | "REAL" => some .real | _ => none

def vt4Char : VT4 → String | .spin => "S" | .binary => "B" | .integer => "I" | .real => "R"

def parseExprC (s : String) : Option Expr :=
  match s.splitOn "~" with
  | [vs, lin, adj, off] => do
    let vars ← nats? vs
    let lin ← rats? lin
    let adj ← parseRows adj
    let adj := if adj.length < vars.length then adj ++ List.replicate (vars.length - adj.length) [] else adj
    let off ← parseRat? off
    pure { vars := vars, idx := Expr.rebuildIdx vars, qb := { lin := lin, adj := adj, off := off } }
  | _ => none

def showExprC (e : Expr) : String :=
  let rows := e.qb.adj.map fun nb => j (nb.map fun p => s!"{p.1}:{showRat p.2}")
  s!"{j (e.vars.map toString)}~{j (e.qb.lin.map showRat)}~{String.intercalate "|" rows}~{showRat e.qb.off}"

def showCqmC (m : Cqm) : String :=
  s!"{String.join (m.vt.map vt4Char)} {j (m.lb.map showRat)} {j (m.ub.map showRat)} {showExprC m.obj} {String.intercalate ";" (m.cons.map fun k => showExprC k.e)}"

def parseEOp (ws : List String) : Option EOp :=
  match ws with
  | ["al", g, b] => do pure (.addLinear (← g.toNat?) (← parseRat? b))
  | ["sl", g, b] => do pure (.setLinear (← g.toNat?) (← parseRat? b))
  | ["aq", gu, gv, b] => do pure (.addQuadratic (← gu.toNat?) (← gv.toNat?) (← parseRat? b))
  | ["ri", gu, gv] => do pure (.removeInteraction (← gu.toNat?) (← gv.toNat?))
  | ["rv", g] => do pure (.removeVar (← g.toNat?))
  | ["sv", g, m, c] => do pure (.substitute (← g.toNat?) (← parseRat? m) (← parseRat? c))
  | _ => none

def parseCOp (ws : List String) : Option Cqm.COp :=
  match ws with
  | ["kadd"] => some .addConstraint
  | ["krm", c] => do pure (.removeConstraint (← c.toNat?))
  | ["kassign", c, d] => do pure (.assignConstraint (← c.toNat?) (← d.toNat?))
  | ["kswap", c, d] => do pure (.swapConstraints (← c.toNat?) (← d.toNat?))
  | ["crv", v] => do pure (.removeVariable (← v.toNat?))
  | ["cfx", v, a] => do pure (.fixVariable (← v.toNat?) (← parseRat? a))
  | ["csv", v, m, c] => do pure (.substituteVariable (← v.toNat?) (← parseRat? m) (← parseRat? c))
  | ["cslb", v, x] => do pure (.setLowerBound (← v.toNat?) (← parseRat? x))
  | ["csup", v, x] => do pure (.setUpperBound (← v.toNat?) (← parseRat? x))
  | ["csvt", v, t] => do pure (.setVartype (← v.toNat?) (← vt4? t))
  | w :: rest =>
    if w.startsWith "o" then (parseEOp ((w.drop 1).toString :: rest)).map .objOp
    else if w.startsWith "k" then
      match rest with
      | c :: rest' => do pure (.consOp (← c.toNat?) (← parseEOp ((w.drop 1).toString :: rest')))
      | [] => none
    else none
  | [] => none

def cqmLine (ws : List String) : String :=
  match ws with
  | vt :: lb :: ub :: obj :: cons :: op =>
    let m? : Option Cqm := do
      let vts ← (if vt = "-" then [] else vt.toList.map fun c => String.ofList [c]).mapM vt4?
      let lb ← rats? lb
      let ub ← rats? ub
      let obj ← parseExprC obj
      let cons ← (if cons = "-" then [] else cons.splitOn ";").mapM parseExprC
      pure { vt := vts, lb := lb, ub := ub, obj := obj, cons := cons.map fun e => ({ e := e } : Cons) }
    match m?, op with
    | some m, ["ccv", t, v] =>
      -- `change_vartype(t, v)` as coded (`Cqm.changeVartypeC`, checked by `Cqm.changeVartypeC?`)
      match vt4? t, v.toNat? with
      | some t, some v =>
        match m.changeVartypeC? t v with
        | some (_, true) => "THROW"
        | some (_, false) => showCqmC (m.changeVartypeC t v).1
        | none => "UB"
      | _, _ => "skip"
    | _, _ =>
    match m?, parseCOp op with
    | some m, some o =>
      match m.cstep? o with
      | some _ => showCqmC (m.cstep o)
      | none => "UB"
    | _, _ => "skip"
  | _ => "skip"

/-- only `load` and the tokens of `Cpp.driverOps` (the list the coverage theorem `C20.abc_mutators_covered` speaks about)
    are executed; everything else is answered `skip` -/
def step (s : Slots) (ws : List String) : Option (Slots × List String) :=
  match ws with
  | w :: _ => if w = "load" || Cpp.driverOps.contains w then stepCore s ws else none
  | [] => none

/-- `cyav LABELS INFO VT LB UB LBGIVEN UBGIVEN ELEMS`: `cyConstrainedQuadraticModel.add_variables` as coded
    (`CyCqm.Vars.addVariables`); LABELS / ELEMS = labels joined by `,` (`-` = none, an element `!` = an unhashable object),
    INFO = `V~lb~ub` per variable; answer `ok|value|type|runtime LABELS INFO` -/
def cyavLine (ws : List String) : String :=
  let showV (m : CyCqm.Vars) : String :=
    (if m.labels.isEmpty then "-" else String.intercalate "," (m.labels.map showLabel)) ++ " " ++
    (if m.info.isEmpty then "-" else String.intercalate "," (m.info.map fun r => vtChar r.1 ++ "~" ++ showRat r.2.1 ++ "~" ++ showRat r.2.2))
  match ws with
  | [ls, inf, vt, lb, ub, lg, ug, es] =>
    let info? := (csv inf).mapM fun t => match t.splitOn "~" with
      | [v, a, b] => do pure ((← vt? v), (← parseRat? a), (← parseRat? b))
      | _ => none
    let elems? := (csv es).mapM fun t => if t = "!" then some none else (parseLabel? t).map some
    match (csv ls).mapM parseLabel?, info?, vt? vt, parseRat? lb, parseRat? ub, elems? with
    | some labels, some info, some vt, some lb, some ub, some es =>
      let r := ({ labels := labels, info := info } : CyCqm.Vars).addVariables vt lb ub (lg == "1") (ug == "1") es
      (match r.2 with | none => "ok" | some .value => "value" | some .type => "type" | some .runtime => "runtime" | some .index => "index")
        ++ " " ++ showV r.1
    | _, _, _, _, _, _ => "bad-op"
  | _ => "bad-op"

partial def loop (h : IO.FS.Stream) (s : Slots) : IO Unit := do
  let line ← h.getLine
  if line.isEmpty then return ()
  let ws := (line.trimAscii.toString.splitOn " ").filter (· ≠ "")
  if ws.head? = some "cx" then
    IO.println (cqmLine (ws.drop 1))
    loop h s
  else if ws.head? = some "cyav" then
    IO.println (cyavLine (ws.drop 1))
    loop h s
  else
  match step s ws with
  | some (s', names) =>
    IO.println (String.intercalate " ## " (names.map fun k => showState k (get s' k)))
    loop h s'
  | none =>
    IO.println "skip"
    loop h s

end CppDriver

def main : IO Unit := do CppDriver.loop (← IO.getStdin) []
