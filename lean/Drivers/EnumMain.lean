import DimodModel.Enumerate
import DimodModel.EnumPost
import DimodModel.EnumComposite
import DimodModel.Anneal
import DimodModel.Wire
open Wire Enum

/-! Line-protocol driver for the C07 model (`DimodModel/Enumerate.lean`).

    gray <n>                                   → rows `0110|…` (gray-code order)
    mesh <s1,s2,…>                             → rows `a.b.c|…` (`_all_cases_dqm` order)
    cqm <d1,d2,…|-> ; <dom,dom,…|->            → rows (`_all_cases_cqm` order); dom = `a.b.c`
    irange <lb> <ub> / irange0 <lb> <ub>       → `a,b,c` (repaired / truncating `_iterator_by_vartype`)
    fix <skipConst> ; <poly> ; <fixed>         → polynomial, canonical
    pm <keep> <discard> <bqmlabels 0|1> ; respVars ; polyVars ; bqmVars ; reds ; poly ; rows
                                               → labels ; `v.v.v@energy@flag|…`
    plumb <sample|ising|qubo> <sample|ising|qubo> <spin> ; lin ; quad ; off
                                               → `l=v,l=v@energy|…` sorted (exact child)
    pscale <spin> <s> ; ignored ; poly         → same, via polyScaleSample with an exact child
    pfixed <spin> <skipConst> ; poly ; fixed   → same, via polyFixedSample with an exact child
    reindex ; first ; labels ; row             → row re-indexed to `first` (`_as_samples_iterator`)
    pis <spin> <S|B|-> <none|tile|random> <n|-> ; labels ; rows ; fresh ; lin ; quad ; off → `ok rows` / `err` (parse_initial_states)
    trunc <n> <byEnergy> <aggregate> ; rows `v.v@e@occ|…`  → rows (Truncate / PolyTruncate composite)
    struct ; nodes ; edges ; lin ; quad        → 1 | 0 (bqm_structured)
    sa <spin> ; lin ; quad ; off ; spins       → rows with energies (SimulatedAnnealingSampler assembly)
    sarun <spin> <ns> <b0|-> <b1|-> <np> ; lin ; quad ; off ; h ; J ; reads   → `ok rows` / `err value|zerodiv|key` (the whole
                                                 SimulatedAnnealingSampler over explicit draws; reads = `init#sweep0#sweep1…|…`, each `l=v,…`)
    rnd <spin> <num_reads> ; labels ; draws ; lin ; quad ; off → `ok rows` / `err` (RandomSampler over explicit index draws `d.d.d`)
    hising ; h ; J(poly)                       → polynomial, canonical (`BinaryPolynomial.from_hising`)
    expand ; reds+ ; init                      → `l=v,…` sorted (`expand_initial_state`); reds+ = `u&v&p[&aux&cu&cv&cp],…`
    pnorm <spin> <bias_range> <poly_range|-> ; ignored ; poly → `ok rows` / `err` (PolyScaleComposite, scalar=None, exact child;
                                                 a range is `r` or `lo:hi`)
    pfull <spin> <exact|null> <some|none> ; poly ; fixed → rows (PolyFixedVariableComposite.sample_poly, every branch; child =
                                                 ExactPolySolver or a sampler without rows)
    tinit <n> <byEnergy> <aggregate> ; rows    → `err` / `ok rows` (Truncate / PolyTruncate composite incl. `__init__`)
    xsolve <spin> poly ; vars ; poly  /  xsolve <spin> bqm ; vars ; lin ; quad ; off → rows IN ORDER (`vars` = `list(problem.variables)`, the gray-code column order; each row printed by sorted label)
                                                 (ExactPolySolver.sample_poly / ExactSolver.sample as coded: `exactRows`)
    pcomp <spin> <scalar|-> <bias_range> <poly_range|-> ; ignored ; poly → `ok rows` / `err value` / `err zerodiv`
                                                 (PolyScaleComposite.sample_poly total over scalar: `polyScaleCompositeFull`, exact child;
                                                 `err value` = the refusal of scalar 0, `err zerodiv` = a range end 0 with scalar None)
    track <sample|ising|qubo> <spin> ; lin ; quad ; off ; lin ; quad ; off …   → `n#rows#rows…#out` : one TrackingComposite (exact child
                                                 implementing `sample`) called once per (lin, quad, off) triple through that entry point
                                                 (`trackingCall` folded from the empty log): log length, every logged output, `output`
    poly   = `bias@l&l&l|…`   fixed/lin = `l=v,…`   quad = `u&v=b,…`   reds = `u&v&p,…` -/

def sepBy (c : String) (s : String) : List String := if s = "" ∨ s = "-" then [] else s.splitOn c

def showInts (l : List Int) (sep : String) : String := String.intercalate sep (l.map toString)
def showNats (l : List Nat) (sep : String) : String := String.intercalate sep (l.map toString)

def parseLabels (s : String) (c : String) : Option (List Label) := (sepBy c s).mapM parseLabel?

def parsePoly (s : String) : Option Poly :=
  (sepBy "|" s).mapM fun t =>
    match t.splitOn "@" with
    | [b, ls] => do let b ← parseRat? b; let ls ← parseLabels ls "&"; pure (ls, b)
    | _ => none

def parseAssign (s : String) : Option (List (Label × Rat)) :=
  (sepBy "," s).mapM fun kv =>
    match kv.splitOn "=" with
    | [k, v] => do let k ← parseLabel? k; let v ← parseRat? v; pure (k, v)
    | _ => none

def parseQuad (s : String) : Option (List (Label × Label × Rat)) :=
  (sepBy "," s).mapM fun kv =>
    match kv.splitOn "=" with
    | [k, v] =>
      match k.splitOn "&" with
      | [a, b] => do let a ← parseLabel? a; let b ← parseLabel? b; let v ← parseRat? v; pure (a, b, v)
      | _ => none
    | _ => none

def insStr (s : String) : List String → List String
  | [] => [s]
  | h :: t => if s ≤ h then s :: h :: t else h :: insStr s t
def sortStr (l : List String) : List String := l.foldr insStr []

def showTerm (t : List Label × Rat) : String :=
  showRat t.2 ++ "@" ++ String.intercalate "&" (sortStr (t.1.map showLabel))
def showPoly (p : Poly) : String := String.intercalate "|" (sortStr (p.map showTerm))

def showRow (r : Row) : String :=
  String.intercalate "," (sortStr (r.x.map fun (l, v) => showLabel l ++ "=" ++ showRat v)) ++ "@" ++ showRat r.energy
def showRows (rs : List Row) : String := String.intercalate "|" (sortStr (rs.map showRow))

def dedup (l : List Label) : List Label := l.foldl (fun acc x => if acc.contains x then acc else acc ++ [x]) []

def lookupFn (x : List (Label × Rat)) : Label → Rat := fun l => ((x.find? (fun p => p.1 = l)).map (·.2)).getD 0

/-- an exact BQM child: every assignment of the problem's variables with its energy under that problem -/
def exactBqm (m : Bqm) : List Row :=
  let vars := dedup (m.lin.map (·.1) ++ m.quad.flatMap (fun (u, v, _) => [u, v]))
  let vals : List Rat := if m.spin then [-1, 1] else [0, 1]
  (prodLex (vars.map fun _ => vals)).map fun row =>
    let x := vars.zip row
    ⟨x, m.energy (lookupFn x)⟩

def polyVars (p : Poly) : List Label := dedup (p.flatMap (·.1))

def exactPoly (spin : Bool) (p : Poly) : List Row :=
  let vars := polyVars p
  let vals : List Rat := if spin then [-1, 1] else [0, 1]
  if vars.isEmpty then [] else
  (prodLex (vars.map fun _ => vals)).map fun row =>
    let x := vars.zip row
    ⟨x, polyEnergy (lookupFn x) p⟩

def parseImpl : String → Option Impl
  | "sample" => some .sample | "ising" => some .ising | "qubo" => some .qubo | _ => none

def field (parts : List String) (i : Nat) : String := ((parts[i]?).getD "").trimAscii.toString

def answer (line : String) : String :=
  let parts := line.splitOn ";"
  let head := ((field parts 0).splitOn " ").filter (· ≠ "")
  match head with
  | ["gray", n] => match n.toNat? with
    | some n => String.intercalate "|" ((graycode n).map fun r => showNats r "")
    | none => "bad"
  | ["mesh", s] => match (sepBy "," s).mapM (·.toNat?) with
    | some l => String.intercalate "|" ((allCasesDqm l).map fun r => showNats r ".")
    | none => "bad"
  | ["cqm", ds] =>
    match (sepBy "," ds).mapM (·.toNat?), (sepBy "," (field parts 1)).mapM (fun d => (sepBy "." d).mapM (·.toInt?)) with
    | some ds, some doms => String.intercalate "|" ((allCasesCqm ds doms).map fun r => showInts r ".")
    | _, _ => "bad"
  | ["irange", lb, ub] => match parseRat? lb, parseRat? ub with
    | some lb, some ub => showInts (intDomain lb ub) ","
    | _, _ => "bad"
  | ["irange0", lb, ub] => match parseRat? lb, parseRat? ub with
    | some lb, some ub => showInts (intDomainTrunc lb ub) ","
    | _, _ => "bad"
  | ["fix", sk] => match parsePoly (field parts 1), parseAssign (field parts 2) with
    | some p, some fx => showPoly (fixVariables (sk = "1") p fx)
    | _, _ => "bad"
  | ["pm", keep, discard, bl] =>
    match parseLabels (field parts 1) ",", parseLabels (field parts 2) ",", parseLabels (field parts 3) ",",
          (sepBy "," (field parts 4)).mapM (fun t => parseLabels t "&"), parsePoly (field parts 5),
          (sepBy "|" (field parts 6)).mapM (fun r => (sepBy "." r).mapM parseRat?) with
    | some rv, some pv, some bv, some reds, some p, some rows =>
      let reds := reds.filterMap fun t => match t with | [u, v, q] => some (Red.mk u v q) | _ => none
      let (labels, out) := polymorph (if bl = "1" then some bv else none) (keep = "1") (discard = "1") rv pv reds p rows
      String.intercalate "," (labels.map showLabel) ++ ";" ++
        String.intercalate "|" (out.map fun (cols, e, f) =>
          String.intercalate "." (cols.map showRat) ++ "@" ++ showRat e ++ "@" ++ (if f then "1" else "0"))
    | _, _, _, _, _, _ => "bad"
  | ["plumb", entry, impl, spin] =>
    match parseImpl impl, parseAssign (field parts 1), parseQuad (field parts 2), parseRat? (field parts 3) with
    | some impl, some lin, some quad, some off =>
      let child := exactBqm
      match entry with
      | "sample" => showRows (mixinSample impl child ⟨spin = "1", lin, quad, off⟩)
      | "ising" => showRows (mixinIsing impl child lin quad)
      | "qubo" => showRows (mixinQubo impl child lin quad)
      | _ => "bad"
    | _, _, _, _ => "bad"
  | ["pscale", spin, s] =>
    match parseRat? s, (sepBy "|" (field parts 1)).mapM (fun t => parseLabels t "&"), parsePoly (field parts 2) with
    | some s, some ign, some p => showRows (polyScaleSample (exactPoly (spin = "1")) p s ign)
    | _, _, _ => "bad"
  | ["expand"] =>
    -- reds = `u&v&p` or `u&v&p&aux&cu&cv&cp`, joined by `,`
    match (sepBy "," (field parts 1)).mapM (fun t => match t.splitOn "&" with
            | [u, v, q] => do let u ← parseLabel? u; let v ← parseLabel? v; let q ← parseLabel? q; pure (RedX.mk u v q none)
            | [u, v, q, a, cu, cv, cp] => do
                let u ← parseLabel? u; let v ← parseLabel? v; let q ← parseLabel? q; let a ← parseLabel? a
                let cu ← parseRat? cu; let cv ← parseRat? cv; let cp ← parseRat? cp
                pure (RedX.mk u v q (some (a, cu, cv, cp)))
            | _ => none), parseAssign (field parts 2) with
    | some reds, some init =>
      String.intercalate "," (sortStr ((expandInitialState reds init).map fun (l, v) => showLabel l ++ "=" ++ showRat v))
    | _, _ => "bad"
  | ["reindex"] =>
    match parseLabels (field parts 1) ",", parseLabels (field parts 2) ",", (sepBy "." (field parts 3)).mapM parseRat? with
    | some first, some labels, some row => String.intercalate "." ((reindexRow first labels row).map showRat)
    | _, _, _ => "bad"
  | ["pis", spin, ssp, gen, nr] =>
    match parseLabels (field parts 1) ",", (sepBy "|" (field parts 2)).mapM (fun r => (sepBy "." r).mapM parseRat?),
          (sepBy "|" (field parts 3)).mapM (fun r => (sepBy "." r).mapM parseRat?),
          parseAssign (field parts 4), parseQuad (field parts 5), parseRat? (field parts 6) with
    | some labels, some rows, some fresh, some lin, some quad, some off =>
      let g : Generator := if gen = "none" then .none else if gen = "tile" then .tile else .random
      let sp : Option Bool := if ssp = "S" then some true else if ssp = "B" then some false else none
      match parseInitialStates ⟨spin = "1", lin, quad, off⟩ labels rows sp g nr.toNat? fresh with
      | .ok out => "ok " ++ String.intercalate "|" (out.map showRow)
      | .error _ => "err"
    | _, _, _, _, _, _ => "bad"
  | ["trunc", n, be, agg] =>
    match n.toNat?, (sepBy "|" (field parts 1)).mapM (fun r => match r.splitOn "@" with
        | [vs, e, o] => do let vs ← (sepBy "." vs).mapM parseRat?; let e ← parseRat? e; let o ← o.toNat?; pure (ORow.mk vs e o)
        | _ => none) with
    | some n, some rows =>
      let out := truncateComposite n (be = "1") (agg = "1") rows
      if field parts 2 = "energies" then String.intercalate "|" (out.map fun r => showRat r.energy)
      else String.intercalate "|" (out.map fun r =>
        String.intercalate "." (r.vals.map showRat) ++ "@" ++ showRat r.energy ++ "@" ++ toString r.occ)
    | _, _ => "bad"
  | ["struct"] =>
    match parseLabels (field parts 1) ",", (sepBy "," (field parts 2)).mapM (fun t => match t.splitOn "&" with
            | [a, b] => do let a ← parseLabel? a; let b ← parseLabel? b; pure (a, b)
            | _ => none), parseAssign (field parts 3), parseQuad (field parts 4) with
    | some nodes, some edges, some lin, some quad => if structureOK nodes edges ⟨true, lin, quad, 0⟩ then "1" else "0"
    | _, _, _, _ => "bad"
  | ["sa", spin] =>
    match parseAssign (field parts 1), parseQuad (field parts 2), parseRat? (field parts 3),
          (sepBy "|" (field parts 4)).mapM parseAssign with
    | some lin, some quad, some off, some spins => String.intercalate "|" ((saAssemble ⟨spin = "1", lin, quad, off⟩ spins).map showRow)
    | _, _, _, _ => "bad"
  | ["sarun", spin, ns, b0, b1, np] =>
    match parseAssign (field parts 1), parseQuad (field parts 2), parseRat? (field parts 3), parseAssign (field parts 4),
          parseQuad (field parts 5), (sepBy "|" (field parts 6)).mapM (fun rd => (rd.splitOn "#").mapM parseAssign), ns.toInt? with
    | some lin, some quad, some off, some h, some J, some reads, some ns =>
      let br : Option (Rat × Rat) := match parseRat? b0, parseRat? b1 with | some a, some b => some (a, b) | _, _ => none
      let draws : List Draws := reads.map fun rd =>
        { init := fun l => dictGet (rd.headD []) l, acc := fun i l => dictGet ((rd.drop 1).getD i []) l }
      match saSample ⟨spin = "1", lin, quad, off⟩ h J br ns (np = "1") draws with
      | .ok out => "ok " ++ String.intercalate "|" (out.map showRow)
      | .error .value => "err value"
      | .error .zerodiv => "err zerodiv"
      | .error .key => "err key"
    | _, _, _, _, _, _, _ => "bad"
  | ["rnd", spin, nr] =>
    match parseLabels (field parts 1) ",", (sepBy "." (field parts 2)).mapM parseRat?, parseAssign (field parts 3),
          parseQuad (field parts 4), parseRat? (field parts 5), nr.toNat? with
    | some labels, some draws, some lin, some quad, some off, some nr =>
      match randomSample ⟨spin = "1", lin, quad, off⟩ labels nr (fun i => draws.getD i 0) with
      | .ok out => "ok " ++ String.intercalate "|" (out.map showRow)
      | .error _ => "err"
    | _, _, _, _, _, _ => "bad"
  | ["hising"] =>
    match parseAssign (field parts 1), parsePoly (field parts 2) with
    | some h, some J => showPoly (fromHising h J)
    | _, _ => "bad"
  | ["pfixed", spin, sk] =>
    match parsePoly (field parts 1), parseAssign (field parts 2) with
    | some p, some fx => showRows (polyFixedSample (sk = "1") (exactPoly (spin = "1")) p fx)
    | _, _ => "bad"
  | ["pnorm", spin, br, pr] =>
    let parseRange? (t : String) : Option RangeArg :=
      match t.splitOn ":" with
      | [a] => (parseRat? a).map RangeArg.num
      | [a, b] => do let a ← parseRat? a; let b ← parseRat? b; pure (RangeArg.pair a b)
      | _ => none
    match parseRange? br, (sepBy "|" (field parts 1)).mapM (fun t => parseLabels t "&"), parsePoly (field parts 2) with
    | some br, some ign, some p =>
      let pr : Option (Option RangeArg) := if pr = "-" then some none else (parseRange? pr).map some
      match pr with
      | none => "bad"
      | some pr =>
        match polyNormalizeSample (exactPoly (spin = "1")) p br pr ign with
        | some rows => "ok " ++ showRows rows
        | none => "err"
    | _, _, _ => "bad"
  | ["pcomp", spin, sc, br, pr] =>
    let parseRange? (t : String) : Option RangeArg :=
      match t.splitOn ":" with
      | [a] => (parseRat? a).map RangeArg.num
      | [a, b] => do let a ← parseRat? a; let b ← parseRat? b; pure (RangeArg.pair a b)
      | _ => none
    let sc? : Option (Option Rat) := if sc = "-" then some none else (parseRat? sc).map some
    let pr? : Option (Option RangeArg) := if pr = "-" then some none else (parseRange? pr).map some
    match sc?, parseRange? br, pr?, (sepBy "|" (field parts 1)).mapM (fun t => parseLabels t "&"), parsePoly (field parts 2) with
    | some sc, some br, some pr, some ign, some p =>
      match polyScaleCompositeFull (exactPoly (spin = "1")) p sc br pr ign with
      | .ok rows => "ok " ++ showRows rows
      | .error .scalarZero => "err value"
      | .error .rangeZero => "err zerodiv"
    | _, _, _, _, _ => "bad"
  | ["track", entry, spin] =>
    let rec triples (i : Nat) (fuel : Nat) : Option (List TrackedInput) :=
      match fuel with
      | 0 => some []
      | fuel + 1 =>
        if i ≥ parts.length then some []
        else
          match parseAssign (field parts i), parseQuad (field parts (i + 1)), parseRat? (field parts (i + 2)) with
          | some lin, some quad, some off =>
            let inp : TrackedInput := if entry = "sample" then .bqm ⟨spin = "1", lin, quad, off⟩
                                      else if entry = "ising" then .ising lin quad else .qubo lin quad
            (triples (i + 3) fuel).map (inp :: ·)
          | _, _, _ => none
    match triples 1 parts.length with
    | some inputs =>
      let log : TrackLog := inputs.foldl (fun log inp => (trackingCall .sample exactBqm log inp).2) []
      String.intercalate "#" ([toString log.length] ++ log.map (fun e => showRows e.2) ++
        [match trackingOutput log with | some o => showRows o | none => "none"])
    | none => "bad"
  | ["pfull", spin, ch, fx] =>
    match parsePoly (field parts 1), parseAssign (field parts 2) with
    | some p, some fixed =>
      let child : Poly → List Row := if ch = "exact" then exactPoly (spin = "1") else fun _ => []
      showRows (polyFixedFull child p (if fx = "some" then some fixed else none))
    | _, _ => "bad"
  | ["tinit", n, be, agg] =>
    match n.toInt?, (sepBy "|" (field parts 1)).mapM (fun r => match r.splitOn "@" with
        | [vs, e, o] => do let vs ← (sepBy "." vs).mapM parseRat?; let e ← parseRat? e; let o ← o.toNat?; pure (ORow.mk vs e o)
        | _ => none) with
    | some n, some rows =>
      match truncateInit n (be = "1") (agg = "1") rows with
      | .error _ => "err"
      | .ok out => "ok " ++ String.intercalate "|" (out.map fun r =>
          String.intercalate "." (r.vals.map showRat) ++ "@" ++ showRat r.energy ++ "@" ++ toString r.occ)
    | _, _ => "bad"
  | ["xsolve", spin, kind] =>
    let showOrdered (rs : List Row) : String := String.intercalate "|" (rs.map showRow)
    match parseLabels (field parts 1) "," with
    | some vars =>
      if kind = "poly" then
        match parsePoly (field parts 2) with
        | some p => showOrdered (exactPolySolver (spin = "1") vars p)
        | none => "bad"
      else
        match parseAssign (field parts 2), parseQuad (field parts 3), parseRat? (field parts 4) with
        | some lin, some quad, some off => showOrdered (exactBqmSolver vars ⟨spin = "1", lin, quad, off⟩)
        | _, _, _ => "bad"
    | none => "bad"
  | _ => "bad-line"

partial def loop (h : IO.FS.Stream) : IO Unit := do
  let line ← h.getLine
  if line.isEmpty then return ()
  IO.println (answer line.trimAscii.toString)
  loop h

def main : IO Unit := do loop (← IO.getStdin)
