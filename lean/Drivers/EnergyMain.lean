import DimodModel.Fix
import DimodModel.PyHist
import DimodModel.PolyH
import DimodModel.EnergyVars
import DimodModel.AsSamplesForms
import DimodModel.EnergyGen
import DimodModel.PyRelabel
import DimodModel.Wire
open Wire En

/-! Line-protocol driver for the C01/C02/C03 models (`energydriver`).  One request per line, one
    answer per line.  Every request carries the complete model except the `lb` family, which keeps a
    label-keyed dict BQM as state.

    Encodings (single tokens, no spaces):
      rat        p | p/q                       list   a,b,c | -
      adj        ~ (not allocated) | rows joined by ';', a row = v:b,v:b | '.' (empty row)
      samples    rows joined by ';', a row = a,b,c | '.' (row without columns) ; '-' = no rows
      labels     Wire labels joined by ','  | -
      expr       vars|lin|adj|off
      cons       expr#sense#rhs#weight#quadPenalty#discrete   joined by '@' | -
      info       VT~lb~ub joined by ',' | -
      terms      v.v.v=b joined by ';' (constant term: =b) | -                                   -/

def splitTok (s : String) (sep : String) : List String := if s = "-" then [] else s.splitOn sep

def parseRats (s : String) : Option (List Rat) := (splitTok s ",").mapM parseRat?
def parseInts (s : String) : Option (List Int) := (splitTok s ",").mapM (·.toInt?)
def parseNats (s : String) : Option (List Nat) := (splitTok s ",").mapM (·.toNat?)
def parseLabels (s : String) : Option (List Label) := (splitTok s ",").mapM parseLabel?

def parseNbh (s : String) : Option (Nbh Rat) :=
  if s = "." then some [] else
  (s.splitOn ",").mapM fun e =>
    match e.splitOn ":" with
    | [v, b] => do pure ((← v.toNat?), (← parseRat? b))
    | _ => none

def parseAdj (s : String) : Option (Option (List (Nbh Rat))) :=
  if s = "~" then some none
  else if s = "-" then some (some [])
  else ((s.splitOn ";").mapM parseNbh).map some

def parseQMB (l a o : String) : Option (QMB Rat) := do
  pure { lin := (← parseRats l), adj := (← parseAdj a), off := (← parseRat? o) }

def parseRows (s : String) : Option (List (List Rat)) :=
  if s = "-" then some [] else
  (s.splitOn ";").mapM fun r => if r = "." then some [] else (r.splitOn ",").mapM parseRat?

def parseIntRows (s : String) : Option (List (List Int)) :=
  if s = "-" then some [] else
  (s.splitOn ";").mapM fun r => if r = "." then some [] else (r.splitOn ",").mapM (·.toInt?)

def parseNatRows (s : String) : Option (List (List Nat)) :=
  if s = "-" then some [] else
  (s.splitOn ";").mapM fun r => if r = "." then some [] else (r.splitOn ",").mapM (·.toNat?)

def showRats (l : List Rat) : String := if l.isEmpty then "-" else String.intercalate "," (l.map showRat)
def showLabels (l : List Label) : String := if l.isEmpty then "-" else String.intercalate "," (l.map showLabel)
def showRows (rows : List (List Rat)) : String :=
  if rows.isEmpty then "-" else
  String.intercalate ";" (rows.map fun r => if r.isEmpty then "." else String.intercalate "," (r.map showRat))

def showNbh (nb : Nbh Rat) : String :=
  if nb.isEmpty then "." else String.intercalate "," (nb.map fun p => s!"{p.1}:{showRat p.2}")

def showAdj : Option (List (Nbh Rat)) → String
  | none => "~"
  | some [] => "-"
  | some a => String.intercalate ";" (a.map showNbh)

def showQMB (m : QMB Rat) : String := s!"{showRats m.lin}|{showAdj m.adj}|{showRat m.off}"

def showErr : Err → String
  | .value => "value" | .type => "type" | .runtime => "runtime" | .key => "key" | .index => "index"

def showExcept (r : Except Err (List Rat)) : String :=
  match r with
  | .ok l => "ok " ++ showRats l
  | .error e => "err " ++ showErr e

def xOf (l : List Rat) : Nat → Rat := fun i => l.getD i 0

def parseExpr (s : String) : Option (Expr Rat) :=
  match s.splitOn "|" with
  | [v, l, a, o] => do pure { vars := (← parseNats v), qb := (← parseQMB l a o) }
  | _ => none

def showExpr (e : Expr Rat) : String :=
  s!"{if e.vars.isEmpty then "-" else String.intercalate "," (e.vars.map toString)}|{showQMB e.qb}"

def parseSense (s : String) : Sense := if s = "<=" then .le else if s = ">=" then .ge else .eq
def showSense : Sense → String | .le => "<=" | .ge => ">=" | .eq => "=="

def parseCons (s : String) : Option (List (Cons Rat)) :=
  (splitTok s "@").mapM fun c =>
    match c.splitOn "#" with
    | [e, sense, rhs, w, qp, d] => do
      let w ← if w = "inf" then some none else (parseRat? w).map some
      pure { e := (← parseExpr e), sense := parseSense sense, rhs := (← parseRat? rhs), weight := w,
             quadPenalty := qp = "1", discrete := d = "1" }
    | _ => none

def showCons (cs : List (Cons Rat)) : String :=
  if cs.isEmpty then "-" else
  String.intercalate "@" (cs.map fun c =>
    let w := match c.weight with | none => "inf" | some w => showRat w
    s!"{showExpr c.e}#{showSense c.sense}#{showRat c.rhs}#{w}#{if c.quadPenalty then 1 else 0}#{if c.discrete then 1 else 0}")

def vt4? : String → Option VT4
  | "BINARY" => some .binary | "SPIN" => some .spin | "INTEGER" => some .integer | "REAL" => some .real
  | _ => none
def showVT4 : VT4 → String
  | .binary => "BINARY" | .spin => "SPIN" | .integer => "INTEGER" | .real => "REAL"
def vt? : String → Option VT
  | "BINARY" => some .binary | "SPIN" => some .spin | _ => none
def showVT : VT → String | .binary => "BINARY" | .spin => "SPIN"

def parseInfo (s : String) : Option (List (VarInfo Rat)) :=
  (splitTok s ",").mapM fun t =>
    match t.splitOn "~" with
    | [vt, lb, ub] => do pure { vt := (← vt4? vt), lb := (← parseRat? lb), ub := (← parseRat? ub) }
    | _ => none

def showInfo (l : List (VarInfo Rat)) : String :=
  if l.isEmpty then "-" else String.intercalate "," (l.map fun i => s!"{showVT4 i.vt}~{showRat i.lb}~{showRat i.ub}")

def parseCqmC (info obj cons : String) : Option (CqmC Rat) := do
  pure { info := (← parseInfo info), obj := (← parseExpr obj), cons := (← parseCons cons) }

def showCqmC (m : CqmC Rat) : String := s!"{showInfo m.info} {showExpr m.obj} {showCons m.cons}"

def parseTerms (s : String) : Option (List (List Nat × Rat)) :=
  (splitTok s ";").mapM fun t =>
    match t.splitOn "=" with
    | [vs, b] => do
      let vs ← if vs = "" then some [] else (vs.splitOn ".").mapM (·.toNat?)
      pure (vs, (← parseRat? b))
    | _ => none

def showTerms (p : List (List Nat × Rat)) : String :=
  if p.isEmpty then "-" else
  String.intercalate ";" (p.map fun tb => s!"{String.intercalate "." (tb.1.map toString)}={showRat tb.2}")

def parseItems (s : String) : Option (List (Label × Rat)) :=
  if s = "." then some [] else
  (splitTok s ",").mapM fun kv =>
    match kv.splitOn "=" with
    | [k, v] => do pure ((← parseLabel? k), (← parseRat? v))
    | _ => none

def parseNatItems (s : String) : Option (List (Nat × Rat)) :=
  (splitTok s ",").mapM fun kv =>
    match kv.splitOn "=" with
    | [k, v] => do pure ((← k.toNat?), (← parseRat? v))
    | _ => none

def parsePairItems (s : String) : Option (List ((Label × Label) × Rat)) :=
  (splitTok s ",").mapM fun kv =>
    match kv.splitOn "=" with
    | [k, v] => match k.splitOn "~" with
      | [a, b] => do pure (((← parseLabel? a), (← parseLabel? b)), (← parseRat? v))
      | _ => none
    | _ => none

def showItems (l : List (Label × Rat)) : String :=
  if l.isEmpty then "-" else String.intercalate "," (l.map fun p => s!"{showLabel p.1}={showRat p.2}")
def showPairItems (l : List ((Label × Label) × Rat)) : String :=
  if l.isEmpty then "-" else String.intercalate "," (l.map fun p => s!"{showLabel p.1.1}~{showLabel p.1.2}={showRat p.2}")

def parseSL (kind : String) (args : List String) : Option (SL Rat) :=
  match kind, args with
  | "dict", [d] => (parseItems d).map .dict
  | "dicts", [ds] => ((splitTok ds ";").mapM parseItems).map .dicts
  | "arr", [rows] => (parseRows rows).map .arr
  | "arr1", [row] => (parseRats row).map .arr1
  | "lab", [rows, labels] => do pure (.labelled (← parseRows rows) (← parseLabels labels))
  | "lab1", [row, labels] => do pure (.labelled1 (← parseRats row) (← parseLabels labels))
  | "ss", [rows, labels] => do pure (.sampleset (← parseRows rows) (← parseLabels labels))
  | _, _ => none


/-- `kind args / kind args / …` → the elements of an iterator of samples-likes (round 7) -/
def parseSLs (toks : List String) : Option (List (SL Rat)) :=
  let groups := toks.foldr (fun t acc => if t = "/" then [] :: acc else match acc with
    | g :: gs => (t :: g) :: gs
    | [] => [[t]]) [[]]
  (groups.filter (!·.isEmpty)).mapM fun g => match g with
    | kind :: args => parseSL kind args
    | [] => none

def showIntRows (rows : List (List Int)) : String :=
  if rows.isEmpty then "-" else
  String.intercalate ";" (rows.map fun r => if r.isEmpty then "." else String.intercalate "," (r.map toString))

def showSamples (r : Except Err (List (List Rat) × List Label)) : String :=
  match r with
  | .ok (rows, labels) => s!"ok {showRows rows} {showLabels labels}"
  | .error e => "err " ++ showErr e

/-- canonical state of the dict BQM: variables and interactions sorted by their text form -/
def showLBqm (m : LBqm Rat) : String :=
  let lins := (m.adj.map fun p => s!"{showLabel p.1}={showRat ((p.2.get? p.1).getD 0)}").mergeSort (· ≤ ·)
  let quads := (m.iterQuadratic.map fun t =>
    let a := showLabel t.1; let b := showLabel t.2.1
    let (a, b) := if a ≤ b then (a, b) else (b, a)
    s!"{a}~{b}={showRat t.2.2}").mergeSort (· ≤ ·)
  s!"{showVT m.vt} {showRat m.off} {if lins.isEmpty then "-" else String.intercalate "," lins} {if quads.isEmpty then "-" else String.intercalate "," quads}"

/-- raw insertion order of the dict of dicts: `u>v,v,…;u>…` -/
def showOrder (m : LBqm Rat) : String :=
  if m.adj.isEmpty then "-" else
  String.intercalate ";" (m.rawOrder.map fun p => s!"{showLabel p.1}>{String.intercalate "," (p.2.map showLabel)}")

def lbFin (_d : LBqm Rat) (r : LBqm Rat × Option Err) : LBqm Rat × String :=
  match r with
  | (d', none) => (d', "ok " ++ showLBqm d')
  | (d', some e) => (d', s!"err {showErr e} " ++ showLBqm d')

def lbExc (d : LBqm Rat) (r : Except Err (LBqm Rat)) : LBqm Rat × String :=
  match r with
  | .ok d' => (d', "ok " ++ showLBqm d')
  | .error e => (d, s!"err {showErr e} " ++ showLBqm d)

def lbVal (d : LBqm Rat) (r : Except Err Rat) : LBqm Rat × String :=
  match r with
  | .ok x => (d, "ok " ++ showRat x)
  | .error e => (d, "err " ++ showErr e)

open Generated.Vartype in
/-- operations on the dict BQM through an object whose vartype is `view` (the base object when equal) -/
def lbStep (d : LBqm Rat) (view : VT) (old : Bool) (op : List String) : LBqm Rat × String :=
  let T := viewTables
  let bad := (d, "bad-op")
  match op with
  | ["addlin", v, b] => match parseLabel? v, parseRat? b with
    | some v, some b => lbFin d (View.addLinear T view d v b, none) | _, _ => bad
  | ["addquad", u, v, b] => match parseLabel? u, parseLabel? v, parseRat? b with
    | some u, some v, some b => lbExc d (View.addQuadratic T view d u v b) | _, _, _ => bad
  | ["setlin", v, b] => match parseLabel? v, parseRat? b with
    | some v, some b => lbExc d (View.setLinear T view d v b) | _, _ => bad
  | ["setquad", u, v, b] => match parseLabel? u, parseLabel? v, parseRat? b with
    | some u, some v, some b =>
      if view = d.vt then
        -- `pyBQM.set_quadratic` / cyBQM: checked first, then both variables added
        lbExc d (d.setQuadratic u v b)
      else lbFin d (View.setQuadratic T view d u v b)
    | _, _, _ => bad
  | ["addvar", v, b] => match parseLabel? v, parseRat? b with
    | some v, some b => lbFin d (View.addVariable T view d v b, none) | _, _ => bad
  | ["setoff", b] => match parseRat? b with
    | some b => lbExc d (if old then View.setOffsetOld T view d b else View.setOffset T view d b) | none => bad
  | ["rmint", u, v] => match parseLabel? u, parseLabel? v with
    | some u, some v => lbFin d (View.removeInteraction T view d u v) | _, _ => bad
  | ["rmvar", v] => match parseLabel? v with
    | some v => lbFin d (View.removeVariable T view d v) | none => bad
  | ["cv", vt] => match vt? vt with
    | some vt => lbFin d (d.changeVartypeWith pyToBinary pyToSpin vt, none) | none => bad
  | ["fix", v, a] => match parseLabel? v, parseRat? a with
    | some v, some a => if view = d.vt then lbExc d (d.fixVariable v a) else bad | _, _ => bad
  | ["relabel", o, n] => match parseLabel? o, parseLabel? n with
    | some o, some n => if view = d.vt then lbFin d (d.relabelOne o n, none) else bad | _, _ => bad
  -- round 7: `relabel_variables(mapping)` as a whole (the model splits the mapping itself); mapping = old>new,old>new
  | ["relabelmap", mp] =>
      match (splitTok mp ",").mapM (fun kv => match kv.splitOn ">" with
        | [a, b] => do pure ((← parseLabel? a), (← parseLabel? b)) | _ => none) with
      | some mapping => if view = d.vt then lbExc d (d.relabelVariables mapping) else bad
      | none => bad
  | ["order"] => (d, "ok " ++ showOrder d)
  | ["getoff"] => (d, "ok " ++ showRat (View.offset T view d))
  | ["getlin", v] => match parseLabel? v with
    | some v => lbVal d (View.getLinear T view d v) | none => bad
  | ["getquad", u, v] => match parseLabel? u, parseLabel? v with
    | some u, some v => lbVal d (View.getQuadratic T view d u v) | _, _ => bad
  | ["smap", x] => match parseRat? x with
    | some x => (d, "ok " ++ showRat (View.sampleMap T view d x)) | none => bad
  | _ => bad

/-- sparse `Variables` state: `stop|idx=label,…|label=idx,…` -/
def parseVState (s : String) : Option VState :=
  match s.splitOn "|" with
  | [stop, a, b] => do
    let i2l ← (splitTok a ",").mapM fun kv =>
      match kv.splitOn "=" with
      | [k, v] => do pure ((← k.toNat?), (← parseLabel? v))
      | _ => none
    let l2i ← (splitTok b ",").mapM fun kv =>
      match kv.splitOn "=" with
      | [k, v] => do pure ((← parseLabel? k), (← v.toNat?))
      | _ => none
    pure { i2l, l2i, stop := (← stop.toNat?) }
  | _ => none

def dqmOf (cl ca st va off : String) : Option (Dqm Rat) := do
  pure { bqm := { lin := (← parseRats cl), adj := (← parseAdj ca), off := 0 }, starts := (← parseNats st),
         adj := (← parseNatRows va), off := (← parseRat? off) }

def dqmRun (old : Bool) (cl ca st va off ml rows sl : String) : Option String := do
  let q ← dqmOf cl ca st va off
  let rows ← parseIntRows rows
  let ml ← parseLabels ml
  let sl ← parseLabels sl
  if !old then pure (showExcept (q.energies ml rows sl))
  else
    -- pre-D3 behaviour of the inner loop, same outer function
    if sl.length ≠ q.numVariables then pure "err value" else
    match qmToSample ml sl with
    | .error e => pure ("err " ++ showErr e)
    | .ok order =>
      let rows := rows.map fun row => order.map fun j => row.getD j 0
      let r := rows.mapM fun row => q.rowLoopOld row 0 q.adj q.off
      pure (match r with | some es => "ok " ++ showRats es | none => "err value")

def cqmFixRun (kind : String) (info obj cons labels clabels arg : String) : Option String := do
  let m : CqmL Rat := { c := (← parseCqmC info obj cons), labels := (← parseLabels labels), clabels := (← parseLabels clabels) }
  let fixed ← parseItems arg
  let out (r : Option (CqmL Rat)) : String := match r with
    | some m' => s!"ok {showCqmC m'.c} {showLabels m'.labels}"
    | none => "err value"
  if kind = "cqmfixcopy" then pure (out (m.fixVariablesCopy fixed))
  else
    let f (m : CqmL Rat) (p : Label × Rat) : Option (CqmL Rat) :=
      if kind = "cqmfix" then m.fixVariable p.1 p.2 else m.fixVariableOld p.1 p.2
    pure (out (fixed.foldlM f m))

open Generated.Vartype in
def step (d : LBqm Rat) (line : String) : LBqm Rat × String :=
  let bad := (d, "bad-op")
  let pure1 (s : Option String) : LBqm Rat × String := (d, s.getD "bad-op")
  match line.trimAscii.toString.splitOn " " with
  -- ---------------------------------------------------------------- C01
  | ["energy", l, a, o, x] => pure1 do
      let m ← parseQMB l a o; let x ← parseRats x
      pure s!"{showRat (m.energy (xOf x))} {showRat (m.cyEnergy (xOf x))} {showRat (m.reportedEval (xOf x))}"
  | ["iterquad", l, a, o] => pure1 do
      let m ← parseQMB l a o
      pure (if m.iterQuadratic.isEmpty then "-" else
        String.intercalate "," (m.iterQuadratic.map fun t => s!"{t.1}:{t.2.1}:{showRat t.2.2}"))
  | ["cyenergies", l, a, o, ml, rows, sl] => pure1 do
      let m ← parseQMB l a o
      pure (showExcept (cyEnergies m (← parseLabels ml) (← parseRows rows) (← parseLabels sl)))
  | ["cyenergiesv", l, a, o, mv, rows, sv] => pure1 do
      let m ← parseQMB l a o
      pure (showExcept (cyEnergiesV m (← parseVState mv) (← parseRows rows) (← parseVState sv)))
  | ["exprenergies", e, pl, rows, sl] => pure1 do
      pure (showExcept (exprEnergies (← parseExpr e) (← parseLabels pl) (← parseRows rows) (← parseLabels sl)))
  | ["exprenergies_old", e, pl, rows, sl] => pure1 do
      pure (showExcept (exprEnergiesOld (← parseExpr e) (← parseLabels pl) (← parseRows rows) (← parseLabels sl)))
  | ["poly", e, pl, rows, sl] => pure1 do
      pure (showExcept (polyEnergies (← parseTerms e) (← parseLabels pl) (← parseRows rows) (← parseLabels sl)))
  | ["pyenergies", l, a, o, ml, rows, sl] => pure1 do
      let lin ← parseRats l
      let adj ← parseAdj a
      let m : PyBqm Rat := { rows := lin.zip ((adj.getD []) ++ List.replicate lin.length []), off := (← parseRat? o) }
      let x := (← parseRows rows)
      pure (showExcept (m.energies (← parseLabels ml) x (← parseLabels sl)))
  | ["viewenergies", view, dvt, py, l, a, o, ml, rows, sl] => pure1 do
      -- `VartypeView.energies`: map the sample values, then the data's own `energies`
      let view ← vt? view; let dvt ← vt? dvt
      let dummy : LBqm Rat := { vt := dvt, adj := [], off := 0 }
      let rows := (← parseRows rows).map fun r => r.map (View.sampleMap viewTables view dummy)
      let ml ← parseLabels ml; let sl ← parseLabels sl
      if py = "1" then
        let lin ← parseRats l
        let adj ← parseAdj a
        let m : PyBqm Rat := { rows := lin.zip ((adj.getD []) ++ List.replicate lin.length []), off := (← parseRat? o) }
        pure (showExcept (m.energies ml rows sl))
      else
        pure (showExcept (cyEnergies (← parseQMB l a o) ml rows sl))
  | ["dqm", cl, ca, st, va, off, ml, rows, sl] => pure1 (dqmRun false cl ca st va off ml rows sl)
  | ["dqm_old", cl, ca, st, va, off, ml, rows, sl] => pure1 (dqmRun true cl ca st va off ml rows sl)
  | "assamples" :: kind :: args => pure1 do pure (showSamples (asSamples (← parseSL kind args)))
  -- round 7: any iterator of samples-likes (elements separated by `/`), with the number of elements the iterator object has left
  | "assamplesiter" :: toks => pure1 do
      let l ← parseSLs toks
      let r := asSamplesIterState l
      pure s!"{showSamples (asSamplesF (.iterOf l))} left={r.2.length}"
  | ["assamplesml", items, labels] => pure1 do
      pure (showSamples (asSamplesF (.mappingLabels (← parseItems items) (← parseLabels labels))))
  | ["samplearray", rows] => pure1 do
      pure (match sampleArrayInt (← parseIntRows rows) with
        | .ok (w, out) => s!"ok int{w} {showIntRows out}"
        | .error e => "err " ++ showErr e)
  | ["saferelabels", labels, mp] => pure1 do
      let ls ← parseLabels labels
      let mapping ← (splitTok mp ",").mapM (fun kv => match kv.splitOn ">" with
        | [a, b] => do pure ((← parseLabel? a), (← parseLabel? b)) | _ => none)
      pure (match (LBqm.variablesOf ls).safeRelabels mapping with
        | none => "err value"
        | some subs => "ok " ++ String.intercalate "|" (subs.map fun sub =>
            if sub.isEmpty then "." else String.intercalate "," (sub.map fun p => s!"{showLabel p.1}>{showLabel p.2}")))
  | ["energygen", l, a, o, x] => pure1 do
      let m ← parseQMB l a o; let x ← parseRats x
      pure s!"{showRat (m.energyGen (xOf x))} {showRat (m.cyEnergyGen (xOf x))}"
  | "assamples_old" :: kind :: args => pure1 do pure (showSamples (asSamplesOld (← parseSL kind args)))
  | "slvalue" :: r :: v :: kind :: args => pure1 do
      let sl ← parseSL kind args
      pure (match sl.value (← r.toNat?) (← parseLabel? v) with | some x => showRat x | none => "none")
  -- ---------------------------------------------------------------- C02
  | ["subst", l, a, o, v, mult, c] => pure1 do
      let m ← parseQMB l a o
      pure (showQMB (m.substituteVariable (← v.toNat?) (← parseRat? mult) (← parseRat? c)))
  | ["subst_old", l, a, o, v, mult, c] => pure1 do
      let m ← parseQMB l a o
      pure (showQMB (m.substituteVariableOld (← v.toNat?) (← parseRat? mult) (← parseRat? c)))
  | ["substall", l, a, o, mult, c] => pure1 do
      let m ← parseQMB l a o
      pure (showQMB (m.substituteVariables (← parseRat? mult) (← parseRat? c)))
  | ["bqmcv", vt, l, a, o, target] => pure1 do
      let m : Bqm Rat := { vt := (← vt? vt), qb := (← parseQMB l a o) }
      let m' := m.changeVartype (← vt? target)
      pure s!"{showVT m'.vt} {showQMB m'.qb}"
  | ["qmcv", l, a, o, info, target, v] => pure1 do
      let m : Qm Rat := { qb := (← parseQMB l a o), info := (← parseInfo info) }
      pure (match m.changeVartype (← vt4? target) (← v.toNat?) with
        | some m' => s!"ok {showQMB m'.qb} {showInfo m'.info}"
        | none => "err type")
  | ["cqmcv", info, obj, cons, target, v] => pure1 do
      let m ← parseCqmC info obj cons
      pure (match m.changeVartype (← vt4? target) (← v.toNat?) with
        | some m' => "ok " ++ showCqmC m'
        | none => "err type")
  | ["cqms2b", info, obj, cons] => pure1 do
      let m ← parseCqmC info obj cons
      pure ("ok " ++ showCqmC m.spinToBinary)
  | ["pycv", l, a, o, target] => pure1 do
      let lin ← parseRats l
      let adj ← parseAdj a
      let m : PyBqm Rat := { rows := lin.zip ((adj.getD []) ++ List.replicate lin.length []), off := (← parseRat? o) }
      let t := match (← vt? target) with | .binary => pyToBinary | .spin => pyToSpin
      let m' := m.changeVartypeWith t
      pure s!"{showRats (m'.rows.map (·.1))}|{showAdj (some (m'.rows.map (·.2)))}|{showRat m'.off}"
  | ["sscv", vt, rows, en, target, off] => pure1 do
      let s : SSet Rat := { vt := (← vt? vt), rows := (← parseRows rows), energy := (← parseRats en) }
      let r := s.changeVartype (← vt? target) (← parseRat? off)
      pure s!"{showVT r.vt} {showRows r.rows} {showRats r.energy}"
  | ["fromising", h, j, off] => pure1 do
      pure (showLBqm (LBqm.fromIsing (← parseItems h) (← parsePairItems j) (← parseRat? off)))
  | ["fromqubo", q, off] => pure1 do
      pure (showLBqm (LBqm.fromQubo (← parsePairItems q) (← parseRat? off)))
  | ["isingtoqubo", h, j, off] => pure1 do
      let (q, o) := isingToQubo (← parseItems h) (← parsePairItems j) (← parseRat? off)
      pure s!"{showPairItems q} {showRat o}"
  | ["quboToIsing", q, off] => pure1 do
      let (h, j, o) := quboToIsing (1/2 : Rat) (1/4 : Rat) (← parsePairItems q) (← parseRat? off)
      pure s!"{showItems h} {showPairItems j} {showRat o}"
  | ["polytobinary", t] => pure1 do pure (showTerms (polyToBinary (← parseTerms t)))
  | ["polytospin", t] => pure1 do pure (showTerms (polyToSpin (← parseTerms t)))
  | ["polytohubo", vt, t] => pure1 do
      let r := polyToHuboOf (vt == "SPIN") (← parseTerms t)
      pure s!"{showTerms r.1} {showRat r.2}"
  | ["polytohising", vt, t] => pure1 do
      let r := polyToHisingOf (vt == "BINARY") (← parseTerms t)
      pure s!"{showTerms (r.1.map fun e => ([e.1], e.2))} {showTerms r.2.1} {showRat r.2.2}"
  | ["polyfromhubo", t, off] => pure1 do
      let o ← if off = "~" then some none else (parseRat? off).map some
      pure (showTerms (polyFromHubo (← parseTerms t) o))
  | ["polyfromhising", h, j, off] => pure1 do
      let o ← if off = "~" then some none else (parseRat? off).map some
      let hh ← (← parseTerms h).mapM fun tb => match tb.1 with | [v] => some (v, tb.2) | _ => none
      pure (showTerms (polyFromHising hh (← parseTerms j) o))
  | ["polyspec", t, x] => pure1 do pure (showRat (polySpec (xOf (← parseRats x)) (← parseTerms t)))
  | ["lbnew", vt] => match vt? vt with
    | some vt => let d' : LBqm Rat := { vt, adj := [], off := 0 }; (d', "ok " ++ showLBqm d')
    | none => bad
  | "lb" :: view :: rest => match vt? view with
    | some view => lbStep d view false rest | none => bad
  | "lb_old" :: view :: rest => match vt? view with
    | some view => lbStep d view true rest | none => bad
  -- ---------------------------------------------------------------- C03
  | ["qmfixl", l, a, o, info, labels, fixed] => pure1 do
      let m : QmL Rat := { qb := (← parseQMB l a o), info := (← parseInfo info), labels := (← parseLabels labels) }
      let r := m.fixVariables (← parseItems fixed)
      pure s!"{if r.2 then "ok" else "err"} {showQMB r.1.qb} {showInfo r.1.info} {showLabels r.1.labels}"
  | ["fix", l, a, o, v, x] => pure1 do
      let m ← parseQMB l a o
      pure (showQMB (m.fixVariable (← v.toNat?) (← parseRat? x)))
  | ["cqmfix", info, obj, cons, labels, clabels, arg] => pure1 (cqmFixRun "cqmfix" info obj cons labels clabels arg)
  | ["cqmfix_old", info, obj, cons, labels, clabels, arg] => pure1 (cqmFixRun "cqmfix_old" info obj cons labels clabels arg)
  | ["cqmfixcopy", info, obj, cons, labels, clabels, arg] => pure1 (cqmFixRun "cqmfixcopy" info obj cons labels clabels arg)
  | ["polyfix", t, fixed] => pure1 do pure (showTerms (polyFixVariables (← parseTerms t) (← parseNatItems fixed)))
  | ["polyfix_old", t, fixed] => pure1 do pure (showTerms (polyFixVariablesOld (← parseTerms t) (← parseNatItems fixed)))
  | _ => bad

partial def loop (h : IO.FS.Stream) (d : LBqm Rat) : IO Unit := do
  let line ← h.getLine
  if line.isEmpty then return ()
  let (d', out) := step d line
  IO.println out
  loop h d'

def main : IO Unit := do loop (← IO.getStdin) { vt := .spin, adj := [], off := 0 }
