import Drivers.PenShow
import DimodModel.Reduce
import DimodModel.PolyObject
open Wire Pen PenShow Red

/-! Line-protocol driver for the C15 models (`DimodModel/Reduce.lean`).

    reduce <SPIN|BINARY> <terms> <choices>
        terms:   lab&lab&lab=bias;lab=bias;=bias        (raw terms, repeats allowed; `;`-separated)
        choices: u~v>p,u~v>p                             (the pairs the implementation chose, as unpacked, with its product label)
      → ok <bookkeeping: reduced | constraints | idx-empty> # <semantic layer replayed on the same choices: reduced | hi-left>
    mq <SPIN|BINARY> <strength> <terms> <choices>        → ok <bqm> | <auxiliaries>
    mqg <SPIN|BINARY|-> <strength> <terms> <choices> <given: SPIN|BINARY|-> <lin> <quad> <off>
                                                         → ok <vartype> <bqm> | <auxiliaries>   (`make_quadratic(..., vartype, bqm)`)
    hocs <SPIN|BINARY> <terms> <choices> <strength> <keep 0|1> <discard 0|1> <initial_state lab=val,...|-> <response variables> <rows: lab=val,.../lab=val,...|->
                                                         → ok <initial state handed to the child | -> # <cols|energy|sat>/<cols|energy|sat>...   (`sample_poly` with its options; the child returns the given rows)
    mqcqm <SPIN|BINARY> <terms> <choices>                → ok <objective>|<label hex>:<lhs of the == 0 constraint>|...
    norm <SPIN|BINARY> <terms>                           → ok <normalised polynomial>
    hoc <SPIN|BINARY> <terms> <keep 0|1> <response variables> <row lab=val,...> <reduction u~v>p,...>
                                                         → ok <returned columns>|<reported energy>|<penalties satisfied>
    hocr <SPIN|BINARY> <terms> <order lab,...|-> <choices u~v>p,...|-> <strength|-> <keep 0|1> <discard 0|1> <response vartype>
         <response variables lab,...|-> <other field names hex,...|-> <info hexkey=hexvalue&...|-> <records sample:energy:vectors;...|->
        the whole sample set `sample_poly` returns when the child returns the given sample set (`Red.samplePolyRecord`); with
        strength `-` : `polymorph_response(response, poly, bqm)` itself with `penalty_strength=None` (`Red.polymorphRecord`)
      → ok <variables>|<field names hex>|<penalty_satisfaction dtype>|<vartype>|<info hexkey=o.<hex> / r.<reduction> / s.<strength> &...>|<records sample:energy:sat:vectors;...>
      → err ValueError | err KeyError | err ValueError:dup
    hist <SPIN|BINARY> <terms> <ops: op!op!… | ->         the `BinaryPolynomial` object after a history of mutations (`Red.objectAfter`)
         op: set@<term>@<bias> | iadd@<term>@<bias> | del@<term> | popitem | scale@<c>@<ignored term|term… or -> |
             norm@<lo>,<hi>@<lo>,<hi>@<ignored or -> | relabel@old>new,old>new…      (term: lab&lab&…, empty for the constant)
      → ok <terms> | err KeyError | err ZeroDivisionError | err ValueError | conflict-not-modelled
-/

def parseTerm (s : String) : Option (List Label × Rat) :=
  match s.splitOn "=" with
  | [t, b] => do
    let ls ← (if t = "" then some [] else (t.splitOn "&").mapM parseLabel?)
    let b ← parseRat? b
    pure (ls, b)
  | _ => none

def parseRaw (s : String) : Option (List (List Label × Rat)) :=
  if s = "-" then some [] else (s.splitOn ";").mapM parseTerm

def parseChoices (s : String) : Option (List (Label × Label × Label)) :=
  (csv s).mapM fun c =>
    match c.splitOn ">" with
    | [uv, p] =>
      match uv.splitOn "~" with
      | [u, v] => do let u ← parseLabel? u; let v ← parseLabel? v; let p ← parseLabel? p; pure (u, v, p)
      | _ => none
    | _ => none

def showTerm (tb : LTerm × Rat) : String :=
  String.intercalate "&" (sortStrings (tb.1.map showLabel)) ++ "=" ++ showRat tb.2

def showPoly (p : List (LTerm × Rat)) : String := String.intercalate ";" (sortStrings (p.map showTerm))

def showCons (cs : List (Pair × Label)) : String :=
  String.intercalate "," (cs.map fun c => s!"{showLabel c.1.1}~{showLabel c.1.2}>{showLabel c.2}")

def parseRats (s : String) : Option (List Rat) := if s = "" then some [] else (s.splitOn ",").mapM parseRat?

def fromHex? (s : String) : Option String :=
  let rec go : List Char → List UInt8 → Option (List UInt8)
    | [], acc => some acc.reverse
    | [_], _ => none
    | a :: b :: r, acc =>
      let d (c : Char) : Option Nat :=
        if '0' ≤ c ∧ c ≤ '9' then some (c.toNat - '0'.toNat) else if 'a' ≤ c ∧ c ≤ 'f' then some (c.toNat - 'a'.toNat + 10) else none
      match d a, d b with
      | some x, some y => go r (UInt8.ofNat (x * 16 + y) :: acc)
      | _, _ => none
  match go s.toList [] with
  | some bytes => String.fromUTF8? ⟨bytes.toArray⟩
  | none => none

def parseRecord (s : String) : Option RecRow :=
  match s.splitOn ":" with
  | [smp, e, vec] => do
    let smp ← parseRats smp; let e ← parseRat? e; let vec ← parseRats vec
    pure { sample := smp, energy := e, vectors := vec }
  | _ => none

def parseInfo (s : String) : Option (List (String × String)) :=
  if s = "-" then some [] else (s.splitOn "&").mapM fun kv =>
    match kv.splitOn "=" with
    | [k, v] => do let k ← fromHex? k; let v ← fromHex? v; pure (k, v)
    | _ => none

def showRats (l : List Rat) : String := String.intercalate "," (l.map showRat)

def showInfoVal : InfoVal → String
  | .opaque s => "o." ++ toHex s
  | .reduction r => "r." ++ showCons r
  | .strength q => "s." ++ showRat q

def showOutSet (o : OutSet) : String :=
  let dt := match o.satDtype with | .int64 => "int64" | .bool => "bool" | .float64 => "float64"
  let vars := if o.vars.isEmpty then "-" else String.intercalate "," (o.vars.map showLabel)
  s!"ok {vars}|{String.intercalate "," (o.fields.map toHex)}|{dt}|{if o.vt = VT.spin then "SPIN" else "BINARY"}|"
    ++ String.intercalate "&" (o.info.map fun e => toHex e.1 ++ "=" ++ showInfoVal e.2) ++ "|"
    ++ String.intercalate ";" (o.rows.map fun r => s!"{showRats r.sample}:{showRat r.energy}:{r.sat}:{showRats r.vectors}")

def showHocErr : HocErr → String
  | .indexValueError => "err ValueError"
  | .energiesKeyError => "err KeyError"
  | .duplicateField => "err ValueError:dup"

def parseTermOnly (s : String) : Option (List Label) := if s = "" then some [] else (s.splitOn "&").mapM parseLabel?
def parseIgn (s : String) : Option (List (List Label)) := if s = "-" then some [] else (s.splitOn "|").mapM parseTermOnly
def parseRatPair (s : String) : Option (Rat × Rat) :=
  match s.splitOn "," with
  | [a, b] => do let a ← parseRat? a; let b ← parseRat? b; pure (a, b)
  | _ => none
def parsePolyOp (s : String) : Option PolyOp :=
  match s.splitOn "@" with
  | ["set", t, b] => do let t ← parseTermOnly t; let b ← parseRat? b; pure (.setItem t b)
  | ["iadd", t, b] => do let t ← parseTermOnly t; let b ← parseRat? b; pure (.addItem t b)
  | ["del", t] => do let t ← parseTermOnly t; pure (.delItem t)
  | ["popitem"] => some .popItem
  | ["scale", c, ig] => do let c ← parseRat? c; let ig ← parseIgn ig; pure (.scale c ig)
  | ["norm", l, p, ig] => do
    let l ← parseRatPair l; let p ← parseRatPair p; let ig ← parseIgn ig
    pure (.normalize { linLo := l.1, linHi := l.2, polyLo := p.1, polyHi := p.2 } ig)
  | ["relabel", m] => do
    let ps ← (m.splitOn ",").mapM fun e =>
      match e.splitOn ">" with
      | [a, b] => do let a ← parseLabel? a; let b ← parseLabel? b; pure (a, b)
      | _ => none
    pure (.relabel ps)
  | ["relabelvia", m] => do
    let ps ← (m.splitOn ",").mapM fun e =>
      match e.splitOn ">" with
      | [a, b] => do let a ← parseLabel? a; let b ← parseLabel? b; pure (a, b)
      | _ => none
    pure (.relabelVia ps)
  | _ => none
def parsePolyOps (s : String) : Option (List PolyOp) := if s = "-" then some [] else (s.splitOn "!").mapM parsePolyOp

def answer (line : String) : String :=
  match line.trimAscii.toString.splitOn " " with
  | ["hist", vt, terms, ops] =>
    match vtOf? vt, parseRaw terms, parsePolyOps ops with
    | some vt, some raw, some ops =>
      match objectAfter vt raw ops with
      | .ok s => "ok " ++ showPoly s
      | .error .keyError => "err KeyError"
      | .error .zeroDivision => "err ZeroDivisionError"
      | .error .valueError => "err ValueError"
      | .error .conflictNotModelled => "conflict-not-modelled"
    | _, _, _ => "bad-op"
  | ["norm", vt, terms] =>
    match vtOf? vt, parseRaw terms with
    | some vt, some raw => "ok " ++ showPoly (normPoly vt raw)
    | _, _ => "bad-op"
  | ["reduce", vt, terms, choices] =>
    match vtOf? vt, parseRaw terms, parseChoices choices with
    | some vt, some raw, some choices =>
      let poly := normPoly vt raw
      let sem := semReduce choices (HiLo.init poly)
      let semS := s!"{showPoly sem.lo}|{sem.hi.length}"
      match bkReduce poly (polyVars poly) (choices.map fun c => (c.1, c.2.1)) with
      | some s => s!"ok {showPoly s.reduced}|{showCons s.constraints}|{if s.idx.isEmpty then 1 else 0} # {semS}"
      | none => s!"err # {semS}"
    | _, _, _ => "bad-op"
  | ["mq", vt, strength, terms, choices] =>
    match vtOf? vt, parseRat? strength, parseRaw terms, parseChoices choices with
    | some vt, some strength, some raw, some choices =>
      match makeQuadratic [] vt strength raw (choices.map fun c => (c.1, c.2.1)) with
      | some (bag, _, auxs) => "ok " ++ showBq ((Bq.empty vt : Bq Label).apply bag) false ++ "|" ++ String.intercalate "," (auxs.map showLabel)
      | none => "err"
    | _, _, _, _ => "bad-op"
  | ["mqg", vt, strength, terms, choices, gvt, glin, gquad, goff] =>
    match parseRat? strength, parseRaw terms, parseChoices choices, parseTerms glin, parseQuad gquad, parseRat? goff with
    | some strength, some raw, some choices, some glin, some gquad, some goff =>
      let g : Option (Bq Label) := (vtOf? gvt).map fun gv => { vt := gv, lin := glin, quad := gquad, off := goff }
      match makeQuadraticOnto g (vtOf? vt) strength raw (choices.map fun c => (c.1, c.2.1)) with
      | some (res, rvt, _, _, auxs) =>
        s!"ok {if rvt = VT.spin then "SPIN" else "BINARY"} " ++ showBq res false ++ "|" ++ String.intercalate "," (auxs.map showLabel)
      | none => "err"
    | _, _, _, _, _, _ => "bad-op"
  | ["mqcqm", vt, terms, choices] =>
    match vtOf? vt, parseRaw terms, parseChoices choices with
    | some vt, some raw, some choices =>
      match makeQuadraticCqm [] vt raw (choices.map fun c => (c.1, c.2.1)) with
      | some (obj, cons) =>
        "ok " ++ showBq ((Bq.empty vt : Bq Label).apply obj) false ++ "|"
          ++ String.intercalate "|" (cons.map fun c => toHex c.1 ++ ":" ++ showBq ((Bq.empty vt : Bq Label).apply c.2) false)
      | none => "err"
    | _, _, _ => "bad-op"
  | ["hocs", vt, terms, choices, strength, keep, discard, init, respVars, rows] =>
    match vtOf? vt, parseRaw terms, parseChoices choices, parseRat? strength, (csv respVars).mapM parseLabel?,
          (if init = "-" then some none else (parseTerms init).map some),
          (if rows = "-" then some [] else (rows.splitOn "/").mapM parseTerms) with
    | some vt, some raw, some choices, some strength, some rv, some init, some rows =>
      let rowFns : List (Label → Rat) := rows.map fun row => fun l => ((row.find? (·.1 = l)).map (·.2)).getD 0
      -- the child: returns the given rows; the initial state it is handed is echoed through the second component
      let b? := makeQuadratic [] vt strength raw (choices.map fun c => (c.1, c.2.1))
      match b? with
      | none => "err"
      | some (bag, st, auxs) =>
        let b := (Bq.empty vt : Bq Label).apply bag
        let red := (List.range st.constraints.length).map (fun i =>
          ((st.constraints.getD i ((Label.int 0, Label.int 0), Label.int 0)).1,
           (st.constraints.getD i ((Label.int 0, Label.int 0), Label.int 0)).2, auxs[i]?))
        let handed : Option (Option (List (Label × Rat))) :=
          match init with
          | none => some none
          | some s0 => if st.constraints.isEmpty then some (some s0) else (expandInitialState b red s0).map some
        match handed, samplePoly (fun _ _ => { vars := rv, rows := rowFns }) vt raw (choices.map fun c => (c.1, c.2.1)) strength (keep = "1") (discard = "1") init with
        | some h, some out =>
          let hs := match h with
            | none => "-"
            | some l => String.intercalate "," (sortStrings (l.map fun (p : Label × Rat) => s!"{showLabel p.1}={showRat p.2}"))
          let showRow (r : HocRow) := String.intercalate "," (sortStrings (r.cols.map fun (c : Label × Rat) => s!"{showLabel c.1}={showRat c.2}")) ++ s!"|{showRat r.energy}|{if r.sat then 1 else 0}"
          s!"ok {hs} # " ++ String.intercalate "/" (out.map showRow)
        | _, _ => "err"
    | _, _, _, _, _, _, _ => "bad-op"
  | ["hocr", vt, terms, order, choices, strength, keep, discard, respVt, respVars, names, info, rows] =>
    match vtOf? vt, parseRaw terms, (csv order).mapM parseLabel?, parseChoices choices, vtOf? respVt, (csv respVars).mapM parseLabel?,
          (csv names).mapM fromHex?, parseInfo info, (if rows = "-" then some [] else (rows.splitOn ";").mapM parseRecord) with
    | some vt, some raw, some order, some choices, some rvt, some rv, some names, some info, some rows =>
      -- the fields of the child that are carried over (`name not in {'sample', 'energy'}`, regenerated from the source)
      let carried : List Nat := (List.range names.length).filter fun i => !(Generated.HocLayout.notCarried.contains (names.getD i ""))
      let resp : SampleSetM := { vars := rv, names := carried.map (fun i => names.getD i ""),
                                 rows := rows.map (fun r => { r with vectors := carried.map (fun i => r.vectors.getD i 0) }),
                                 info := info, vt := rvt }
      let show' (r : Except HocErr OutSet) := match r with
        | .ok o => showOutSet o
        | .error e => showHocErr e
      if strength = "-" then
        show' (polymorphRecord (normPoly vt raw) order (choices.map fun c => ((c.1, c.2.1), c.2.2)) none (keep = "1") (discard = "1") resp)
      else match parseRat? strength with
        | none => "bad-op"
        | some q =>
          match samplePolyRecord (fun _ _ => resp) vt raw (choices.map fun c => (c.1, c.2.1)) order q (keep = "1") (discard = "1") none with
          | some r => show' r
          | none => "err"
    | _, _, _, _, _, _, _, _, _ => "bad-op"
  | ["hoc", vt, terms, keep, respVars, row, red] =>
    match vtOf? vt, parseRaw terms, (csv respVars).mapM parseLabel?, parseTerms row, parseChoices red with
    | some vt, some raw, some rv, some row, some red =>
      let poly := normPoly vt raw
      let x : Label → Rat := fun l => ((row.find? (·.1 = l)).map (·.2)).getD 0
      let r := polymorphRow poly (keep = "1") rv x
      let cols := sortStrings (r.1.map fun c => s!"{showLabel c.1}={showRat c.2}")
      let sat := penaltySatisfied (red.map fun c => ((c.1, c.2.1), c.2.2)) x
      s!"ok {String.intercalate "," cols}|{showRat r.2}|{if sat then 1 else 0}"
    | _, _, _, _, _ => "bad-op"
  | _ => "bad-op"

partial def loop (h : IO.FS.Stream) : IO Unit := do
  let line ← h.getLine
  if line.isEmpty then return ()
  IO.println (answer line)
  loop h

def main : IO Unit := do loop (← IO.getStdin)
