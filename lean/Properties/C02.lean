import DimodProofs.C02Convert
import DimodProofs.C02Py
import DimodProofs.C02Var
import DimodProofs.C02Poly
import DimodProofs.C02View
import DimodProofs.C02Ising
import DimodProofs.C02SampleSet
import DimodProofs.C02Spin
import DimodProofs.C02Init
import DimodProofs.C02ViewBridge
import DimodProofs.C02PyHist
import DimodProofs.C02PolyH
import DimodProofs.C02FromHising
import DimodProofs.C02SafeRelabels
import Properties.C04
import DimodProofs.C02ViewHeap

/-! # C02 — changing between spin and binary representation never changes any energy

Models: `DimodModel/Convert.lean` (namespace `En`): `substitute_variable(s)` of `abc.h`, `change_vartype` of BQM / QM /
CQM, `pyBQM.change_vartype`, `BinaryPolynomial.to_binary/to_spin`.  The numeric constants are those of
`Generated/Vartype.lean`, re-extracted from the source on every run; the theorems below that mention
`Generated.Vartype.*` stop compiling when a constant changes. Energies are `QMB.energy` (proved equal to the
polynomial of the reported coefficients in C01) and `polySpec`. -/

namespace C02

open En Generated.Vartype

/-! ## whole-model substitution (`BinaryQuadraticModel::change_vartype`) -/

/-- `substVars_eval`: on a well-formed model without squared terms, `substitute_variables(mult, c)` is the substitution
    `x = mult·y + c` of every variable (over any field where `2 ≠ 0`: the code halves `c²` because it meets every
    interaction twice) -/
theorem substVars_eval {R : Type} [Field R] (m : QMB R) (hm : m.WF) (hns : ∀ u, m.Q u u = 0) (h2 : (two : R) ≠ 0)
    (mult c : R) (y : Nat → R) :
    (m.substituteVariables mult c).energy y = m.energy (fun u => mult * y u + c) :=
  QMB.substituteVariables_energy m hm hns h2 mult c y

/-- `changeVartype_energy`, SPIN → BINARY with the generated pair `bqmToBinary`: energy at `x` = original energy at `s = 2x − 1`
    (equivalently: the original at `s` = the converted at `x = (s+1)/2`) -/
theorem changeVartype_energy_toBinary (m : Bqm Rat) (hm : m.WF) (hvt : m.vt = .spin) (x : Nat → Rat) :
    (m.changeVartype .binary).vt = .binary ∧
    (m.changeVartype .binary).qb.energy x = m.qb.energy (fun u => 2 * x u - 1) :=
  Bqm.changeVartype_toBinary_energy m hm hvt x

/-- `changeVartype_energy`, BINARY → SPIN with the generated pair `bqmToSpin` -/
theorem changeVartype_energy_toSpin (m : Bqm Rat) (hm : m.WF) (hvt : m.vt = .binary) (s : Nat → Rat) :
    (m.changeVartype .spin).vt = .spin ∧
    (m.changeVartype .spin).qb.energy s = m.qb.energy (fun u => (s u + 1) / 2) :=
  Bqm.changeVartype_toSpin_energy m hm hvt s

/-- the form of the property statement: for every spin sample `s`, the converted model at `x = (s+1)/2` has the energy of the original at `s` -/
theorem changeVartype_energy_at_converted_sample (m : Bqm Rat) (hm : m.WF) (hvt : m.vt = .spin) (s : Nat → Rat) :
    (m.changeVartype .binary).qb.energy (fun u => (s u + 1) / 2) = m.qb.energy s := by
  rw [(Bqm.changeVartype_toBinary_energy m hm hvt _).2]
  congr 1; funext u; ring

/-- `changeVartype_roundtrip`: there and back restores offset, every linear and every quadratic coefficient (exactly, over ℚ) -/
theorem changeVartype_roundtrip (m : Bqm Rat) (hm : m.WF) (other : En.VT) (hne : other ≠ m.vt) :
    let m'' := (m.changeVartype other).changeVartype m.vt
    m''.vt = m.vt ∧ m''.qb.n = m.qb.n ∧ m''.qb.off = m.qb.off ∧
      (∀ u, u < m.qb.n → m''.qb.L u = m.qb.L u) ∧ (∀ u w, m''.qb.Q u w = m.qb.Q u w) :=
  Bqm.changeVartype_roundtrip m hm other hne

/-- `pybqm_changeVartype_eq_cpp`: `pyBQM.change_vartype` with its generated ten multipliers yields exactly the model
    the C++ `substitute_variables` yields with the generated pairs — the three back-ends convert identically -/
theorem pybqm_changeVartype_eq_cpp (m : PyBqm Rat) :
    (m.changeVartypeWith pyToBinary).toQMB = m.toQMB.substituteVariables bqmToBinary.1 bqmToBinary.2 ∧
    (m.changeVartypeWith pyToSpin).toQMB = m.toQMB.substituteVariables bqmToSpin.1 bqmToSpin.2 :=
  En.pybqm_changeVartype_eq_cpp m

/-! ## one variable at a time (`QuadraticModel`, `ConstrainedQuadraticModel`) -/

/-- `substVar_eval`: `substitute_variable(v, mult, c)` (repaired: with the squared-term branch) is the substitution
    `x_v = mult·y_v + c`, all other variables unchanged — self-loops included -/
theorem substVar_eval {R : Type} [CommRing R] (m : QMB R) (hm : m.WF) (v : Nat) (hv : v < m.n) (mult c : R) (y : Nat → R) :
    (m.substituteVariable v mult c).energy y = m.energy (fun u => if u = v then mult * y v + c else y u) :=
  QMB.substituteVariable_energy m hm v hv mult c y

/-- `QuadraticModel.change_vartype(vartype, v)` with the generated pairs -/
theorem qm_changeVartype_energy (m : Qm Rat) (hm : m.qb.WF) (v : Nat) (hv : v < m.qb.n) (vt : VT4) (m' : Qm Rat)
    (h : m.changeVartype vt v = some m') (y : Nat → Rat) :
    let src := (m.info[v]?.map (·.vt)).getD .binary
    (src = .spin → vt = .binary ∨ vt = .integer →
        m'.qb.energy y = m.qb.energy (fun u => if u = v then 2 * y v - 1 else y u)) ∧
    (src = .binary → vt = .spin →
        m'.qb.energy y = m.qb.energy (fun u => if u = v then (y v + 1) / 2 else y u)) ∧
    ((src = vt ∨ (src = .binary ∧ vt = .integer)) → m'.qb = m.qb) :=
  Qm.changeVartype_energy m hm v hv vt m' h y

/-- `cqm_changeVartype_activity`: substituting for variable `v` in a CQM changes the objective and *every* constraint
    left-hand side as the substitution does (so each activity `lhs − rhs` is preserved at the converted sample);
    an expression that does not mention `v` is untouched; sense, rhs, weight, penalty, number and order of constraints stay -/
theorem cqm_changeVartype_activity {R : Type} [CommRing R] (m : CqmC R) (hm : m.WF) (v : Nat) (mult c : R) (y : Nat → R) :
    let m' := m.substituteVariable v mult c
    m'.obj.energyCpp y = m.obj.energyCpp (fun u => if u = v then mult * y v + c else y u) ∧
    m'.cons.length = m.cons.length ∧
    ∀ i (hi : i < m.cons.length) (hi' : i < m'.cons.length),
      m'.cons[i].e.energyCpp y = m.cons[i].e.energyCpp (fun u => if u = v then mult * y v + c else y u) ∧
      m'.cons[i].sense = m.cons[i].sense ∧ m'.cons[i].rhs = m.cons[i].rhs ∧
      m'.cons[i].weight = m.cons[i].weight ∧ m'.cons[i].quadPenalty = m.cons[i].quadPenalty :=
  CqmC.substituteVariable_spec m hm v mult c y

/-- `spin_to_binary` / several per-variable changes in a row: substituting for each variable of a duplicate-free list in
    turn replaces exactly those variables (`substitute_variable` preserves the invariant, so the steps compose) -/
theorem substVar_many {R : Type} [CommRing R] (e : Expr R) (he : e.WF) (vs : List Nat) (hnd : vs.Nodup) (mult c : R) (y : Nat → R) :
    (vs.foldl (fun e v => e.substituteVariable v mult c) e).energyCpp y
      = e.energyCpp (fun u => if u ∈ vs then mult * y u + c else y u) :=
  Expr.substituteMany_energy e he vs hnd mult c y

/-- the CQM stays well-formed under `substitute_variable` -/
theorem cqm_substitute_preserves_invariant {R : Type} [CommRing R] (m : CqmC R) (hm : m.WF) (v : Nat) (mult c : R) :
    (m.substituteVariable v mult c).WF :=
  CqmC.WF_substituteVariable m hm v mult c

/-- **`spin_to_binary` of a whole CQM** (the loop `for v in variables: if vartype(v) is SPIN: change_vartype(BINARY, v)` with the
    generated pair): objective and every constraint left-hand side of the result take at `y` the value of the original at the
    assignment that replaces every SPIN variable `u` by `2·y u − 1` and keeps the others — so every activity is preserved at the
    converted sample `x = (s+1)/2`; sense, rhs, weight, penalty and the constraints' order are unchanged; every SPIN row of
    the variable table becomes BINARY, all other rows keep their type -/
theorem cqm_spin_to_binary (m : CqmC Rat) (hm : m.WF) (y : Nat → Rat) :
    let r := m.spinToBinary
    let isSpin := fun u => u ∈ m.spinsOf (List.range m.info.length)
    let x := fun u => if isSpin u then 2 * y u - 1 else y u
    r.obj.energyCpp y = m.obj.energyCpp x ∧ r.cons.length = m.cons.length ∧
    (∀ i (hi : i < m.cons.length) (hi' : i < r.cons.length),
      r.cons[i].e.energyCpp y = m.cons[i].e.energyCpp x ∧
      r.cons[i].sense = m.cons[i].sense ∧ r.cons[i].rhs = m.cons[i].rhs ∧
      r.cons[i].weight = m.cons[i].weight ∧ r.cons[i].quadPenalty = m.cons[i].quadPenalty) ∧
    ∀ i, r.info[i]?.map (·.vt) = if isSpin i then some VT4.binary else m.info[i]?.map (·.vt) := by
  have h := CqmC.spinToBinary_spec cqmTable m hm y
  have hx : (fun u => if u ∈ m.spinsOf (List.range m.info.length) then cqmTable.toBinary.1 * y u + cqmTable.toBinary.2 else y u)
      = (fun u => if u ∈ m.spinsOf (List.range m.info.length) then 2 * y u - 1 else y u) := by
    funext u
    split
    · simp only [cqmTable, cqmToBinary]; ring
    · rfl
  simp only [hx] at h
  exact h

/-- the CQM's generated pairs are the same two affine maps -/
theorem cqm_constants : cqmToBinary = (2, -1) ∧ cqmToSpin = (1/2, 1/2) ∧ qmToBinary = (2, -1) ∧ qmToSpin = (1/2, 1/2) := by
  simp only [cqmToBinary, cqmToSpin, qmToBinary, qmToSpin]; norm_num

/-! ## higher-order polynomials -/

/-- `poly_toBinary_energy` (powerset expansion, any degree) -/
theorem poly_toBinary_energy {R : Type} [CommRing R] (p : Poly R) (x : Nat → R) :
    polySpec x (polyToBinary p) = polySpec (fun v => two * x v - 1) p :=
  polyToBinary_energy p x

/-- `poly_toSpin_energy` -/
theorem poly_toSpin_energy {R : Type} [Field R] (p : Poly R) (h2 : (two : R) ≠ 0) (s : Nat → R) :
    polySpec s (polyToSpin p) = polySpec (fun v => (s v + 1) / two) p :=
  polyToSpin_energy p h2 s

/-! ## dict utilities -/

/-- `ising_qubo_energy`: `ising_to_qubo(h, J, offset)` — for every binary `x`, QUBO energy + new offset = Ising energy at `s = 2x − 1`
    (`J` over pairs of distinct variables, as `BQM.from_ising` requires) -/
theorem ising_qubo_energy {R : Type} [CommRing R] [DecidableEq R] (h : ODict Label R) (J : PairMap R) (offset : R)
    (x : Label → R) (hx : ∀ v, x v * x v = x v) (hJ : (J.map (·.1)).Nodup) (hJd : ∀ e ∈ J, e.1.1 ≠ e.1.2) :
    pairSum x (isingToQubo h J offset).1 + (isingToQubo h J offset).2
      = labelSum (fun v => two * x v - 1) h + pairSum (fun v => two * x v - 1) J + offset :=
  isingToQubo_energy h J offset x hx hJ hJd

/-- `qubo_ising_energy`: `qubo_to_ising(Q, offset)` — for every spin assignment `s` (`s_v² = 1`), `h·s + Σ J s s + new offset` =
    QUBO energy at `x = (s + 1)/2`; diagonal entries of `Q` are the linear terms (`half`, `quarter` = the literals `.5`, `.25`) -/
theorem qubo_ising_energy {R : Type} [CommRing R] [DecidableEq R] (half quarter : R) (hh : two * half = 1)
    (hq : two * two * quarter = 1) (Q : PairMap R) (offset : R) (s : Label → R) (hs : ∀ v, s v * s v = 1)
    (hQ : (Q.map (·.1)).Nodup) :
    labelSum s (quboToIsing half quarter Q offset).1 + pairSum s (quboToIsing half quarter Q offset).2.1
        + (quboToIsing half quarter Q offset).2.2
      = pairSum (fun v => half * (s v + 1)) Q + offset :=
  quboToIsing_energy half quarter hh hq Q offset s hs hQ

/-! ## `to_ising` / `to_qubo` (read through the views) and sample sets -/

/-- `to_ising_energy`: `h, J, offset = bqm.to_ising()` of a BINARY model (the `.spin` view's `linear`, `quadratic`, `offset`, with
    the regenerated view factors) evaluates at every `s` to the model's energy at `x = (s + 1)/2` — offset included -/
theorem to_ising_energy (m : QMB Rat) (hm : m.WF) (hns : ∀ u, m.Q u u = 0) (s : Nat → Rat) :
    evalR m.n (QMB.viewOff viewSpinOverBinary m) (QMB.viewL viewSpinOverBinary m)
        (fun u w => if w ≤ u then QMB.viewQ viewSpinOverBinary m u w else 0) s
      = m.energy (fun u => (s u + 1) / 2) :=
  QMB.to_ising_energy m hm hns s

/-- `to_qubo_energy`: `Q, offset = bqm.to_qubo()` of a SPIN model (interactions, and linear biases on the diagonal, through the
    `.binary` view) evaluates at every binary `x` to the model's energy at `s = 2x − 1` — offset included -/
theorem to_qubo_energy (m : QMB Rat) (hm : m.WF) (hns : ∀ u, m.Q u u = 0) (x : Nat → Rat) (hx : ∀ u, x u * x u = x u) :
    QMB.viewOff viewBinaryOverSpin m + ∑ u ∈ Finset.range m.n, QMB.viewL viewBinaryOverSpin m u * x u * x u
        + ∑ u ∈ Finset.range m.n, ∑ w ∈ Finset.range m.n,
            (if w ≤ u then QMB.viewQ viewBinaryOverSpin m u w else 0) * x u * x w
      = m.energy (fun u => 2 * x u - 1) :=
  QMB.to_qubo_energy m hm hns x hx

/-- `from_ising_energy`: `BQM.from_ising(h, J, offset)` — `_init_components` as coded: the offset, then one pass over `J`
    (`(u, u)` entries go to the offset for SPIN; `(u, v)` and `(v, u)` both present accumulate on one interaction through
    `add_quadratic`), then `add_linear` per entry of `h` — has the Ising energy at every spin assignment.  `evalL` reads
    the stored adjacency (each interaction is stored in both rows; `half` is `1/2`). -/
theorem from_ising_energy {R : Type} [CommRing R] (half : R) (hh : two * half = 1) (h : ODict Label R) (J : PairMap R)
    (offset : R) (s : Label → R) (hs : ∀ v, s v * s v = 1) :
    LBqm.evalL half (LBqm.fromIsing h J offset) s = offset + pairSum s J + labelSum s h :=
  fromIsing_energy half hh h J offset s hs

/-- `from_qubo_energy`: `BQM.from_qubo(Q, offset)` — diagonal entries `Q[(u, u)]` become linear biases (BINARY), the
    others interactions (both orders accumulate) — has the QUBO energy `offset + Σ Q[(u,v)]·x_u·x_v` at every binary
    assignment -/
theorem from_qubo_energy {R : Type} [CommRing R] (half : R) (hh : two * half = 1) (Q : PairMap R) (offset : R)
    (x : Label → R) (hx : ∀ v, x v * x v = x v) :
    LBqm.evalL half (LBqm.fromQubo Q offset) x = offset + pairSum x Q :=
  fromQubo_energy half hh Q offset x hx

/-- the shared constructor body for any vartype (used by `BQM(linear, quadratic, offset, vartype)` with mappings) -/
theorem init_components_energy {R : Type} [CommRing R] (half : R) (hh : two * half = 1) (vt : En.VT) (linear : ODict Label R)
    (quadratic : PairMap R) (offset : R) (x : Label → R) (hx : LBqm.InDomain vt x) :
    LBqm.evalL half (LBqm.initComponents vt linear quadratic offset) x = offset + pairSum x quadratic + labelSum x linear :=
  LBqm.initComponents_energy half hh vt linear quadratic offset x hx

/-- `sampleset_changeVartype_rows`: `SampleSet.change_vartype(vartype, energy_offset)`: requested vartype, every value converted
    (`2x − 1` / `(s + 1)/2`, identity for an equal vartype), every energy raised by exactly `energy_offset` -/
theorem sampleset_changeVartype_rows {R : Type} [Field R] [DecidableEq R] (s : SSet R) (target : En.VT) (off : R) :
    (s.changeVartype target off).vt = target ∧
    (s.changeVartype target off).energy = s.energy.map (· + off) ∧
    (s.changeVartype target off).rows
      = if target = s.vt then s.rows
        else match target with
          | .spin => s.rows.map (·.map fun x => two * x - 1)
          | .binary => s.rows.map (·.map fun x => (x + 1) / two) :=
  SSet.changeVartype_spec s target off

/-- a sample set that is still pending when `change_vartype` is called: the deferred result is the direct call on the resolved
    set with the *same* arguments (vartype and energy offset). (Definitional on the model; the run compares the real
    future-backed path with it.) -/
theorem sampleset_changeVartype_deferred {R : Type} [Field R] [DecidableEq R] (pending : Unit → SSet R) (target : En.VT) (off : R) :
    SSet.changeVartypeDeferred pending target off () = (pending ()).changeVartype target off :=
  SSet.changeVartypeDeferred_spec pending target off

/-- there and back with opposite offsets restores samples and energies -/
theorem sampleset_changeVartype_roundtrip {R : Type} [Field R] [DecidableEq R] (s : SSet R) (h2 : (two : R) ≠ 0)
    (other : En.VT) (hne : other ≠ s.vt) (off : R) :
    ((s.changeVartype other off).changeVartype s.vt (-off)).rows = s.rows ∧
    ((s.changeVartype other off).changeVartype s.vt (-off)).energy = s.energy :=
  SSet.changeVartype_roundtrip s h2 other hne off

/-- converted samples are consistent with the converted model: energies computed by the converted BQM on the converted rows are
    the original energies -/
theorem sampleset_bqm_consistent (m : Bqm Rat) (hm : m.WF) :
    (m.vt = .spin → ∀ s : Nat → Rat, (m.changeVartype .binary).qb.energy (fun u => (s u + 1) / two) = m.qb.energy s) ∧
    (m.vt = .binary → ∀ x : Nat → Rat, (m.changeVartype .spin).qb.energy (fun u => two * x u - 1) = m.qb.energy x) :=
  ⟨fun h s => sampleset_bqm_consistent_toBinary m hm h s, fun h x => sampleset_bqm_consistent_toSpin m hm h x⟩

/-! ## views: reads and writes through `.spin` / `.binary` = convert, edit, convert back

The factors are `Generated.Vartype.viewBinaryOverSpin` / `viewSpinOverBinary` (extracted from `vartypeview.py`).
Reads are compared with the coefficients of the converted model (`substitute_variables`, shown above to be the
substitution).  Writes: the increments a view write applies to the data are the edit monomial rewritten in the
data's variables (`view_write_add_linear`, `view_write_add_quadratic`: the arithmetic of the generated factors).  The
statement about the *stored model* — the data after a write through a view is: convert, edit, convert back — is
`view_write_eq_convert_edit_back` at the end of this file, a corollary of builder-bqm's `C04.view_sees_edit` and of
`C02Bridge.viewP_eq_changeVartype` / `changeVartype_roundtrip` (no assumption about the data back-end is left).
These hold for any data state, in particular when the base model changed its vartype after the view object was
created. -/

/-- `view_reads_eq_converted`, `get_linear` -/
theorem view_reads_eq_converted_linear (m : QMB Rat) (hm : m.WF) (u : Nat) (hu : u < m.n) :
    viewBinaryOverSpin.getLinLin * m.L u + viewBinaryOverSpin.getLinNb * m.rowSum u
      = (m.substituteVariables bqmToBinary.1 bqmToBinary.2).L u ∧
    viewSpinOverBinary.getLinLin * m.L u + viewSpinOverBinary.getLinNb * m.rowSum u
      = (m.substituteVariables bqmToSpin.1 bqmToSpin.2).L u :=
  ⟨view_getLinear_binaryOverSpin m hm u hu, view_getLinear_spinOverBinary m hm u hu⟩

/-- `view_reads_eq_converted`, `get_quadratic` / `iter_neighborhood` / `iter_quadratic` -/
theorem view_reads_eq_converted_quadratic (m : QMB Rat) (u w : Nat) :
    viewBinaryOverSpin.getQuad * m.Q u w = (m.substituteVariables bqmToBinary.1 bqmToBinary.2).Q u w ∧
    viewSpinOverBinary.getQuad * m.Q u w = (m.substituteVariables bqmToSpin.1 bqmToSpin.2).Q u w :=
  view_getQuadratic m u w

/-- `view_reads_eq_converted`, `offset` (`reduce_quadratic` meets every interaction once = half the sum of the row sums) -/
theorem view_reads_eq_converted_offset (m : QMB Rat) (hm : m.WF) :
    m.off + viewBinaryOverSpin.offLin * (∑ u ∈ Finset.range m.n, m.L u) + viewBinaryOverSpin.offQuad * ((∑ u ∈ Finset.range m.n, m.rowSum u) / 2)
      = (m.substituteVariables bqmToBinary.1 bqmToBinary.2).off ∧
    m.off + viewSpinOverBinary.offLin * (∑ u ∈ Finset.range m.n, m.L u) + viewSpinOverBinary.offQuad * ((∑ u ∈ Finset.range m.n, m.rowSum u) / 2)
      = (m.substituteVariables bqmToSpin.1 bqmToSpin.2).off :=
  view_offset m hm

/-- `view.energies` hands the converted sample values to the data -/
theorem view_energies_sample_map (x s : Rat) :
    viewBinaryOverSpin.sampleMul * x + viewBinaryOverSpin.sampleAdd = 2 * x - 1 ∧
    viewSpinOverBinary.sampleMul * s + viewSpinOverBinary.sampleAdd = (s + 1) / 2 :=
  view_sampleMap x s

/-- a view object whose vartype coincides with the data's (a `.spin`/`.binary` view kept while the base model changed vartype in
    place, or re-typed in place itself) passes samples through unchanged — `energies` is then the data's own `energies`;
    otherwise the generated affine map is applied. Decided per call from the data's *current* vartype. -/
theorem view_energies_passthrough (T : ViewTables Rat) (view : En.VT) (d : LBqm Rat) (x : Rat) :
    (view = d.vt → View.sampleMap T view d x = x) ∧
    (view ≠ d.vt → View.sampleMap T view d x = (View.tbl T view).sampleMul * x + (View.tbl T view).sampleAdd) := by
  constructor <;> intro h <;> simp [View.sampleMap, h]

/-- `view_write_eq_convert_edit_back`, `add_linear` (hence `set_linear`, `add_variable`, which are built from it) -/
theorem view_write_add_linear (b s x : Rat) :
    (viewBinaryOverSpin.addLinLin * b) * s + viewBinaryOverSpin.addLinOff * b = b * ((s + 1) / 2) ∧
    (viewSpinOverBinary.addLinLin * b) * x + viewSpinOverBinary.addLinOff * b = b * (2 * x - 1) :=
  ⟨view_addLinear_binaryOverSpin b s, view_addLinear_spinOverBinary b x⟩

/-- `view_write_eq_convert_edit_back`, `add_quadratic` (hence `set_quadratic`, `remove_interaction`, `remove_variable`) -/
theorem view_write_add_quadratic (b su sv xu xv : Rat) :
    ((viewBinaryOverSpin.addQuadQuad * b) * su * sv + (viewBinaryOverSpin.addQuadLinU * b) * su
      + (viewBinaryOverSpin.addQuadLinW * b) * sv + viewBinaryOverSpin.addQuadOff * b
      = b * ((su + 1) / 2) * ((sv + 1) / 2)) ∧
    ((viewSpinOverBinary.addQuadQuad * b) * xu * xv + (viewSpinOverBinary.addQuadLinU * b) * xu
      + (viewSpinOverBinary.addQuadLinW * b) * xv + viewSpinOverBinary.addQuadOff * b
      = b * (2 * xu - 1) * (2 * xv - 1)) :=
  ⟨view_addQuadratic_binaryOverSpin b su sv, view_addQuadratic_spinOverBinary b xu xv⟩

/-- the view's `add_linear` *is* the data's `add_linear` with the table's factor plus the offset increment; with equal
    vartypes (a view object kept across an in-place `change_vartype`) it is the data's own method -/
theorem view_add_linear_unfolds (T : ViewTables Rat) (view : En.VT) (d : LBqm Rat) (v : Label) (b : Rat) :
    (view ≠ d.vt → View.addLinear T view d v b
      = { d.addLinear v ((View.tbl T view).addLinLin * b) with
          off := (d.addLinear v ((View.tbl T view).addLinLin * b)).off + (View.tbl T view).addLinOff * b }) ∧
    (view = d.vt → View.addLinear T view d v b = d.addLinear v b) :=
  ⟨View.addLinear_through T view d v b, fun h => by rw [h]; exact View.addLinear_same T d v b⟩

/-- the offset setter (repaired, D7): whatever the vartype combination, reading the offset back through the same
    view returns the value that was set -/
theorem view_offset_set_get (T : ViewTables Rat) (view : En.VT) (d d' : LBqm Rat) (b : Rat)
    (h : View.setOffset T view d b = .ok d') : View.offset T view d' = b :=
  View.setOffset_readback T view d d' b h

/-- D7 witness: before the repair a view whose vartype equals the data's raised `RuntimeError` on `offset = …` -/
theorem d7_witness : (View.setOffsetOld viewTables .binary C03Witness.d 3).toOption = none :=
  C03Witness.d7_old_raises

/-! ## non-vacuity -/

/-- a SPIN model `s0·s1 + s0 + 1/2` converted to BINARY, evaluated at x = (1, 0), equals the original at s = (1, −1) -/
example :
    (({ vt := .spin, qb := { lin := [1, 0], adj := some [[(1, 1)], [(0, 1)]], off := 1/2 } } : Bqm Rat).changeVartype .binary).qb.energy
        (fun u => if u = 0 then 1 else 0) = 1/2 := by decide +kernel

example : polySpec (fun _ => (1 : Rat)) (polyToBinary [([0, 1, 2], (1 : Rat))]) = 1 := by decide +kernel

/-- `from_ising` with `(a,b)`, `(b,a)` and a diagonal entry: `J = {(a,b): 2, (b,a): 3, (a,a): 5}`, `h = {a: 1}`, offset `1/2` -/
example :
    (let m := LBqm.fromIsing [(Label.str "a", (1 : Rat))]
      [((Label.str "a", Label.str "b"), 2), ((Label.str "b", Label.str "a"), 3), ((Label.str "a", Label.str "a"), 5)] (1/2)
     (m.off, LBqm.evalL (1/2) m (fun _ => (1 : Rat)))) = (11/2, 23/2) := by decide +kernel

end C02

/-! ## writes through a view on the stored model (builder-bqm's `Bqm` of `DimodModel/Bqm.lean`; `En` is *not* open here) -/

namespace C02

open Bqm

/-- **what a `VartypeView` of vartype `tv` shows (`viewLin`, `viewFactor`, `viewOff`: the reader code of `vartypeview.py`)
    is the model converted by the C++ `change_vartype(tv)`** — fresh or stale view, either vartype.  The only non-trivial
    point: the view's offset sums each interaction once (lower triangle), `substitute_variables` every directed entry with
    `c²/2` (`C02Bridge.sum_sumNb`). -/
theorem view_shows_converted (m : Bqm) (i : m.Inv) (tv : VT) :
    (absL m).viewP tv = absL (m.step .direct (.changeVartype tv)).1 :=
  C02Bridge.view_shows_converted i tv

/-- `change_vartype` there and back is the identity on the stored polynomial (labels, order, every bias, offset) -/
theorem stored_changeVartype_roundtrip (m : Bqm) (i : m.Inv) (tv : VT) :
    ((absL m).changeVartype tv).changeVartype m.vt = absL m :=
  C02Bridge.changeVartype_roundtrip (LWF.absL i) tv

/-- **`view_write_eq_convert_edit_back`** — the stored model after the offset setter, `add_linear`, `set_linear`,
    `add_quadratic`, `set_quadratic` issued through a view of vartype `tv` is: the model converted to `tv` by
    `change_vartype`, edited by the plain single-term edit, converted back to the data's vartype.  Corollary of
    `C04.view_sees_edit` (the view sees the edit), `view_shows_converted` and the round trip; the data keeps its own
    vartype (`C02Bridge.v*_vt`).
    Not restated here: `update`, `flip_variable`, the bulk adders and the composites through a view — C04 has `view_sees_*`
    for each, and `C02Bridge.write_is_convert_edit_back` (generic in the edit) turns any of them into this form once the
    vartype of the data afterwards is shown unchanged.  The equality of the generated factor tables (`Generated.Vartype`)
    with the literals of `DimodModel/Bqm.lean`'s view code is checked differentially (both drivers against the build), not
    stated in Lean. -/
theorem view_write_eq_convert_edit_back (m : Bqm) (i : m.Inv) (tv : VT) :
    (∀ b, absL (m.step (.view tv) (.setOffset b)).1
        = ({ absL (m.step .direct (.changeVartype tv)).1 with off := b } : LPoly).changeVartype m.vt) ∧
    (∀ v b, absL (m.step (.view tv) (.addLinear (some v) b)).1
        = ((absL (m.step .direct (.changeVartype tv)).1).addLinear v b).changeVartype m.vt) ∧
    (∀ v b, absL (m.step (.view tv) (.setLinear (some v) b)).1
        = ((absL (m.step .direct (.changeVartype tv)).1).setLinear v b).changeVartype m.vt) ∧
    (∀ u v b, u ≠ v → absL (m.step (.view tv) (.addQuadratic (some u) (some v) b)).1
        = ((absL (m.step .direct (.changeVartype tv)).1).quadOp u v b false).changeVartype m.vt) ∧
    (∀ u v b, u ≠ v → absL (m.step (.view tv) (.setQuadratic (some u) (some v) b)).1
        = ((absL (m.step .direct (.changeVartype tv)).1).quadOp u v b true).changeVartype m.vt) := by
  refine ⟨fun b => ?_, fun v b => ?_, fun v b => ?_, fun u v b hne => ?_, fun u v b hne => ?_⟩
  · exact C02Bridge.write_is_convert_edit_back i (Bqm.view_setOffset i tv b).2 (C02Bridge.vSetOffset_vt m tv b) tv
      (fun q => { q with off := b }) (Bqm.view_setOffset i tv b).1
  · exact C02Bridge.write_is_convert_edit_back i (Bqm.view_addLinear i tv v b).2 (C02Bridge.vAddLinear_vt m tv v b) tv
      (fun q => q.addLinear v b) (Bqm.view_addLinear i tv v b).1
  · exact C02Bridge.write_is_convert_edit_back i (Bqm.view_setLinear i tv v b).2 (C02Bridge.vSetLinear_vt m tv v b) tv
      (fun q => q.setLinear v b) (Bqm.view_setLinear i tv v b).1
  · have r := Bqm.view_addQuadratic i tv u v b hne
    have := C02Bridge.write_is_convert_edit_back i r.2 (C02Bridge.vAddQuadratic_vt m tv u v b) tv
      (fun q => q.quadOp u v b false) r.1
    simp only [Bqm.step, Via.tv, hne, if_false, Bqm.lift]
    exact this
  · have r := Bqm.view_setQuadratic i tv u v b hne
    exact C02Bridge.write_is_convert_edit_back i r.2.2 (C02Bridge.vSetQuadratic_vt m tv u v b) tv
      (fun q => q.quadOp u v b true) r.1

end C02

/-! ## the dict back-end (`pybqm.py`) on every state an edit history can leave behind

`LBqm` (`DimodModel/Convert.lean`, `DimodModel/PyHist.lean`): `_adj` as an insertion-ordered dict of insertion-ordered
dicts, every data-level method as coded — including `relabel_variables` (one `(old, new)` step: the linear entry first,
the interactions re-inserted one by one, `del adj[old]`) and the one-pass loop of `change_vartype`, which reads the
variable's own entry *wherever it sits* in its neighbourhood dict.  `evalL ½` is the polynomial of the dict of dicts
(diagonal entries linear, both stored copies of an interaction with weight ½).  The insertion order of the model is
compared with `_adj` of the real object after every generated history (`lb … order`). -/

namespace C02

open En Generated.Vartype En.LBqm

/-- **`pyBQM.change_vartype` on any well-formed state**, SPIN → BINARY: whatever the order of the keys in `_adj` and in
    each neighbourhood (`LInv`: keys duplicate-free, each neighbourhood holds its own variable's entry somewhere,
    neighbours are variables, both copies of an interaction carry the same bias), the converted model at `x` has the
    value of the original at `s = 2x − 1`.  The multipliers are the generated ones. -/
theorem pybqm_changeVartype_toBinary_any_state (m : LBqm Rat) (i : LInv m) (hvt : m.vt = .spin) (x : Label → Rat) :
    evalL (1/2) (m.changeVartypeWith pyToBinary pyToSpin .binary) x = evalL (1/2) m (fun v => 2 * x v + -1) :=
  changeVartypeWith_evalL pyToBinary pyToSpin m i .binary (by rw [hvt]; decide) 2 (-1)
    (fun _ => pyToBinary_affine) (fun h => by cases h) x

/-- BINARY → SPIN: the converted model at `s` has the value of the original at `x = (s + 1)/2` -/
theorem pybqm_changeVartype_toSpin_any_state (m : LBqm Rat) (i : LInv m) (hvt : m.vt = .binary) (s : Label → Rat) :
    evalL (1/2) (m.changeVartypeWith pyToBinary pyToSpin .spin) s = evalL (1/2) m (fun v => 1/2 * s v + 1/2) :=
  changeVartypeWith_evalL pyToBinary pyToSpin m i .spin (by rw [hvt]; decide) (1/2) (1/2)
    (fun h => by cases h) (fun _ => pyToSpin_affine) s

/-- **the representation invariant holds after every history** of data-level calls (`add_linear`, `set_linear`,
    `add_quadratic`, `remove_interaction`, `remove_variable`, `relabel_variables` one safe step at a time, the offset
    setter, `change_vartype`; a raising call leaves the model unchanged) from the empty model -/
theorem pybqm_history_invariant (vt : En.VT) (ops : List (HOp Rat)) : LInv (LBqm.hrun vt ops) :=
  (GInv.hrun vt ops).toLInv

/-- … and by each further call from any state that satisfies it (so also from a model built by `from_ising` …) -/
theorem pybqm_step_invariant (m : LBqm Rat) (g : GInv m) (op : HOp Rat) : GInv (m.hstep op) := g.hstep op

/-- **conversion after any history** (the form of the property): for every history and every spin sample `s`, the
    model converted to BINARY has at `x = (s + 1)/2` the energy the model reached by the history has at `s`; and for a
    BINARY model the other way round -/
theorem pybqm_changeVartype_after_history (vt : En.VT) (ops : List (HOp Rat)) :
    ((LBqm.hrun vt ops).vt = .spin → ∀ s : Label → Rat,
      evalL (1/2) ((LBqm.hrun vt ops).changeVartypeWith pyToBinary pyToSpin .binary) (fun v => (s v + 1) / 2)
        = evalL (1/2) (LBqm.hrun vt ops) s) ∧
    ((LBqm.hrun vt ops).vt = .binary → ∀ x : Label → Rat,
      evalL (1/2) ((LBqm.hrun vt ops).changeVartypeWith pyToBinary pyToSpin .spin) (fun v => 2 * x v - 1)
        = evalL (1/2) (LBqm.hrun vt ops) x) := by
  have i := pybqm_history_invariant vt ops
  constructor
  · intro hvt s
    rw [pybqm_changeVartype_toBinary_any_state _ i hvt]
    congr 1; funext v; ring
  · intro hvt x
    rw [pybqm_changeVartype_toSpin_any_state _ i hvt]
    congr 1; funext v; ring

/-- **`evalL` is the polynomial of what the dict back-end reports** — offset, `linear[v] = _adj[v][v]`, and every interaction
    once as `iter_quadratic()` yields it (first endpoint in insertion order) — on every state satisfying the invariant -/
theorem pybqm_evalL_is_reported (m : LBqm Rat) (i : LInv m) (x : Label → Rat) : evalL (1/2) m x = repEval m x :=
  evalL_eq_repEval m i x

/-- **conversion after any history, in terms of the reported coefficients**: the energy computed from `offset`, `linear`,
    `iter_quadratic` of the converted model at the converted sample equals the one computed from those of the model the
    history reached, at the sample -/
theorem pybqm_changeVartype_after_history_reported (vt : En.VT) (ops : List (HOp Rat)) :
    ((LBqm.hrun vt ops).vt = .spin → ∀ s : Label → Rat,
      repEval ((LBqm.hrun vt ops).changeVartypeWith pyToBinary pyToSpin .binary) (fun v => (s v + 1) / 2)
        = repEval (LBqm.hrun vt ops) s) ∧
    ((LBqm.hrun vt ops).vt = .binary → ∀ x : Label → Rat,
      repEval ((LBqm.hrun vt ops).changeVartypeWith pyToBinary pyToSpin .spin) (fun v => 2 * x v - 1)
        = repEval (LBqm.hrun vt ops) x) := by
  have g := GInv.hrun vt ops
  have h := pybqm_changeVartype_after_history vt ops
  constructor
  · intro hvt s
    rw [← evalL_eq_repEval _ (g.changeVartype pyToBinary pyToSpin .binary).toLInv, ← evalL_eq_repEval _ g.toLInv]
    exact h.1 hvt s
  · intro hvt x
    rw [← evalL_eq_repEval _ (g.changeVartype pyToBinary pyToSpin .spin).toLInv, ← evalL_eq_repEval _ g.toLInv]
    exact h.2 hvt x

/-- **all interleavings of edits through a model and its views (dict back-end)**: after any history of calls issued through
    the model or through a `.spin` / `.binary` view object — fresh or held across vartype changes — (`add_linear`, `set_linear`,
    `add_variable`, `add_quadratic`, `set_quadratic`, `remove_interaction`, `remove_variable`, the offset setter: each the
    composition of data-level calls `vartypeview.py` makes), `relabel_variables` steps and in-place `change_vartype`, the
    representation invariant holds, and a conversion preserves the energy computed from the reported coefficients at the
    converted sample, both directions -/
theorem pybqm_changeVartype_after_view_history (vt : En.VT) (calls : List (En.VT × VOp Rat)) :
    LInv (LBqm.vrun vt calls) ∧
    ((LBqm.vrun vt calls).vt = .spin → ∀ s : Label → Rat,
      repEval ((LBqm.vrun vt calls).changeVartypeWith pyToBinary pyToSpin .binary) (fun v => (s v + 1) / 2)
        = repEval (LBqm.vrun vt calls) s) ∧
    ((LBqm.vrun vt calls).vt = .binary → ∀ x : Label → Rat,
      repEval ((LBqm.vrun vt calls).changeVartypeWith pyToBinary pyToSpin .spin) (fun v => 2 * x v - 1)
        = repEval (LBqm.vrun vt calls) x) := by
  have g := GInv.vrun vt calls
  refine ⟨g.toLInv, ?_, ?_⟩
  · intro hvt s
    rw [← evalL_eq_repEval _ (g.changeVartype pyToBinary pyToSpin .binary).toLInv, ← evalL_eq_repEval _ g.toLInv,
      pybqm_changeVartype_toBinary_any_state _ g.toLInv hvt]
    congr 1; funext v; ring
  · intro hvt x
    rw [← evalL_eq_repEval _ (g.changeVartype pyToBinary pyToSpin .spin).toLInv, ← evalL_eq_repEval _ g.toLInv,
      pybqm_changeVartype_toSpin_any_state _ g.toLInv hvt]
    congr 1; funext v; ring

/-- **there and back on the dict back-end**: on every state satisfying the invariant — in particular after any history of calls
    through the model and its views — `change_vartype(other)` followed by `change_vartype(original)` gives back the very same
    model: vartype, offset and every entry of `_adj` in the same insertion order (exact over ℚ; the generated multiplier tables
    are inverse to each other, `pyTables_inverse`) -/
theorem pybqm_changeVartype_roundtrip (m : LBqm Rat) (i : LInv m) (other : En.VT) :
    (m.changeVartypeWith pyToBinary pyToSpin other).changeVartypeWith pyToBinary pyToSpin m.vt = m :=
  changeVartype_roundtrip_dict m i other

theorem pybqm_changeVartype_roundtrip_after_history (vt : En.VT) (calls : List (En.VT × VOp Rat)) (other : En.VT) :
    ((LBqm.vrun vt calls).changeVartypeWith pyToBinary pyToSpin other).changeVartypeWith pyToBinary pyToSpin (LBqm.vrun vt calls).vt
      = LBqm.vrun vt calls :=
  changeVartype_roundtrip_dict _ (GInv.vrun vt calls).toLInv other

/-- non-vacuity, the state seeded change C02-5 needs: `a` with an interaction is relabelled to `c`; the linear entry of `c`
    is first in its neighbourhood as coded (the theorem above does not depend on that) -/
example : (LBqm.hrun .spin [.addLinear (.int 0) 1, .addQuadratic (.int 0) (.int 1) 2, .relabel (.int 0) (.int 2)]).rawOrder
    = [(.int 1, [.int 1, .int 2]), (.int 2, [.int 2, .int 1])] := by decide +kernel

end C02

/-! ## `BinaryPolynomial.to_hubo / to_hising / from_hubo` (`DimodModel/PolyH.lean`) -/

namespace C02

open En

/-- **`to_hubo()`**, BINARY polynomial: `Σ H[t]·Πx + offset` is the polynomial at `x`; SPIN polynomial (converted by
    `to_binary()` first): it is the polynomial at `s = 2x − 1` -/
theorem poly_to_hubo_energy {R : Type} [CommRing R] (p : Poly R) (x : Nat → R) :
    polySpec x (polyToHuboOf false p).1 + (polyToHuboOf false p).2 = polySpec x p ∧
    polySpec x (polyToHuboOf true p).1 + (polyToHuboOf true p).2 = polySpec (fun v => two * x v - 1) p := by
  unfold polyToHuboOf
  refine ⟨polyToHubo_energy x p, ?_⟩
  simp only [if_true]
  rw [polyToHubo_energy, polyToBinary_energy]

/-- **`to_hising()`**, SPIN polynomial: `Σ h·s + Σ J[t]·Πs + offset` is the polynomial at `s`; BINARY polynomial (converted by
    `to_spin()` first): it is the polynomial at `x = (s + 1)/2` -/
theorem poly_to_hising_energy {R : Type} [Field R] (p : Poly R) (h2 : (two : R) ≠ 0) (s : Nat → R) :
    hSum s (polyToHisingOf false p).1 + polySpec s (polyToHisingOf false p).2.1 + (polyToHisingOf false p).2.2 = polySpec s p ∧
    hSum s (polyToHisingOf true p).1 + polySpec s (polyToHisingOf true p).2.1 + (polyToHisingOf true p).2.2
      = polySpec (fun v => (s v + 1) / two) p := by
  unfold polyToHisingOf
  refine ⟨polyToHising_energy s p, ?_⟩
  simp only [if_true]
  rw [polyToHising_energy, polyToSpin_energy p h2]

/-- **`from_hubo(H, offset)`** adds the offset to the constant term: the polynomial is `Σ H + offset` -/
theorem poly_from_hubo_energy {R : Type} [CommRing R] (H : Poly R) (o : R) (x : Nat → R) :
    polySpec x (polyFromHubo H (some o)) = polySpec x H + o ∧ polyFromHubo H none = H := by
  refine ⟨?_, rfl⟩
  unfold polyFromHubo
  simp only []
  rw [polySpec_set]
  simp [termProd]

/-- `from_hising(h, J, offset)` as coded *assigns* the offset to the constant term: a `()` entry of `J` is overwritten, not
    added to (unlike `from_hubo`).  For `J` without a `()` entry and terms distinct from the `(v,)` of `h` the polynomial is
    `Σ h + Σ J + offset` — only the offset step is stated here, hence `_partial`. -/
theorem poly_from_hising_offset_partial {R : Type} [CommRing R] (h : ODict Nat R) (J : Poly R) (o : R) (x : Nat → R) :
    polySpec x (polyFromHising h J (some o))
      = polySpec x (polyFromHising h J none) + (o - (ODict.get? (polyFromHising h J none) []).getD 0) := by
  unfold polyFromHising
  simp only []
  rw [polySpec_set]
  simp [termProd]

example : polyToHuboOf true [([0, 1], (1 : Rat))] = ([([1], -2), ([0], -2), ([0, 1], 4)], 1) := by decide +kernel


/-! ## round 7: `from_hising` in full, the split of a relabelling into safe sub-mappings -/

/-- **`from_hising(h, J, offset)`** (lifts `poly_from_hising_offset_partial`): for every dict `J` (distinct keys) none of whose keys is a
    `(k,)` of `h` and — when an offset is given — none of whose keys is the empty term, the polynomial built is
    `Σ h·s + Σ J·Πs + offset` at every `s`.  This is exactly the set of `J` the code handles: `poly.update(J)` and
    `poly[frozenset([])] = offset` overwrite equal keys (witnesses below). -/
theorem poly_from_hising_energy {R : Type} [CommRing R] (h : ODict Nat R) (J : Poly R) (o : Option R) (s : Nat → R)
    (hJ : (J.map (·.1)).Nodup) (hlin : ∀ tb ∈ J, ∀ e ∈ h, tb.1 ≠ [e.1]) (hconst : o.isSome → ∀ tb ∈ J, tb.1 ≠ []) :
    polySpec s (polyFromHising h J o) = hSum s h + polySpec s J + o.getD 0 :=
  polyFromHising_energy h J o s hJ hlin hconst

/-- the hypotheses are met by a non-trivial input: `h = {0: 1, 1: -2}`, `J = {(0,1): 3, (0,1,2): 1/2}`, offset `5` -/
example : polySpec (fun v => if v = 1 then (-1 : Rat) else 1) (polyFromHising [(0, 1), (1, -2)] [([0, 1], 3), ([0, 1, 2], 1/2)] (some 5))
    = 1 + 2 + (-3) + (-1/2) + 5 := by decide +kernel

/-- without the guard on the empty term the statement fails: `J = {frozenset(): 1}` with offset `2` yields the constant `2`, not
    `1 + 2` (replayed on the real code by the harness: site `BinaryPolynomial.from_hising`, class `frozenset() key in J`) -/
example : polySpec (fun _ => (1 : Rat)) (polyFromHising [] [([], 1)] (some 2)) = 2 := by decide +kernel

/-- without the guard on `(k,)` it fails as well: `h = {0: 1}`, `J = {(0,): 5}` yields `5·s₀`, not `6·s₀` -/
example : polySpec (fun _ => (1 : Rat)) (polyFromHising [(0, 1)] [([0], 5)] none) = 5 := by decide +kernel


/-- **`iter_safe_relabels(mapping, variables)` splits safely** (model as coded: C13's `VState.safeRelabels` — `new_labels` dict, the two
    `ValueError` checks, `resolve_label_conflict` with its counter): for a mapping with distinct old labels that `relabelOk` accepts
    (distinct new labels, a new label that exists is itself relabelled) it yields at most two sub-mappings, **each without key/value
    overlap** (new labels distinct, no new label of a real pair is an old label of the same sub-mapping — so the pairs can be applied
    one by one in place), **whose composition is the mapping** on every pair that renames; any other mapping is a `ValueError`. -/
theorem iter_safe_relabels_split_is_safe (s : VState) (hI : s.Inv) (m : VState.Dict) (hk : (VState.keys m).Nodup) :
    (LSpec.relabelOk m s.abs = true →
      ∃ subs, s.safeRelabels m = some subs ∧ subs.length ≤ 2 ∧ (∀ sub ∈ subs, VState.SafeSub sub) ∧
        (∀ x v, (x, v) ∈ m → x ≠ v → subs.foldl (fun y sub => VState.applySub sub y) x = v)) ∧
    (LSpec.relabelOk m s.abs = false → s.safeRelabels m = none) :=
  VState.safeRelabels_safe s hI m hk

/-- **`pyBQM.relabel_variables(mapping)` as a whole** runs exactly those safe pairs: on a model with distinct variables the
    `Variables` object handed to `iter_safe_relabels` satisfies its invariant and lists the model's labels, an accepted mapping is
    executed as the fold of `relabelOne` (the step of the history theorems) over the safe sub-mappings, a rejected one raises before
    anything is touched -/
theorem pybqm_relabel_variables_runs_safe_split {R : Type} (d : LBqm R) (hnd : (d.adj.map (·.1)).Nodup)
    (m : VState.Dict) (hk : (VState.keys m).Nodup) :
    (LSpec.relabelOk m (d.adj.map (·.1)) = true →
      ∃ subs : List VState.Dict, d.relabelVariables m = .ok (subs.foldl (fun d sub => sub.foldl (fun d p => d.relabelOne p.1 p.2) d) d) ∧
        (∀ sub ∈ subs, VState.SafeSub sub) ∧
        (∀ x v, (x, v) ∈ m → x ≠ v → subs.foldl (fun y sub => VState.applySub sub y) x = v)) ∧
    (LSpec.relabelOk m (d.adj.map (·.1)) = false → d.relabelVariables m = .error .value) := by
  obtain ⟨hI, habs⟩ := VState.variablesOf_spec (d.adj.map (·.1)) hnd
  obtain ⟨h1, h2⟩ := VState.safeRelabels_safe (LBqm.variablesOf (d.adj.map (·.1))) hI m hk
  rw [habs] at h1 h2
  refine ⟨fun hok => ?_, fun hbad => ?_⟩
  · obtain ⟨subs, hs, _, hsafe, hcomp⟩ := h1 hok
    exact ⟨subs, by simp only [LBqm.relabelVariables, hs], hsafe, hcomp⟩
  · simp only [LBqm.relabelVariables, h2 hbad]

/-- a swap on `{0, 1, a}` is split into two phases through the fresh labels `4, 5` (the counter starts at `2·len(mapping)`) -/
example : (LBqm.variablesOf [.int 0, .int 1, .str "a"]).safeRelabels [(.int 0, .int 1), (.int 1, .int 0)]
    = some [[(.int 0, .int 4), (.int 1, .int 5)], [(.int 4, .int 1), (.int 5, .int 0)]] := by decide +kernel


/-! ## round 8 — the object graph of `.spin` / `.binary`: a held view always shows the current model in its vartype

`DimodModel/ViewHeap.lean` models what the two properties and `change_vartype(inplace=True)` do to the graph of model objects:
the cached `_spin` / `_binary` attributes, the test `bqm.vartype is …` on the cached object, `VartypeView(self.data, vt)` stacked
on the caller's `data` OBJECT (base data or another, shared, `VartypeView`), `VartypeView.change_vartype` re-assigning `_vartype`
only.  `F` is the energy function of the base data on spin samples — the quantity the conversion theorems above show invariant
under the base's in-place `change_vartype`. -/

section ViewGraph
open ViewHeap ViewHeap.Heap

/-- the sample maps of `VartypeView.energies` compose: mapping a sample from vartype `a` to `b` and reading it as a spin sample
    is reading the original as a spin sample -/
theorem view_sample_map_composes (a b : ViewHeap.VT) (x : Nat → Rat) : toSpin b (conv a b x) = toSpin a x :=
  toSpin_conv a b x

/-- every history of `.spin`, `.binary`, `change_vartype(inplace=True)` calls on any objects keeps the graph well-founded -/
theorem view_graph_history_wf (vt0 : ViewHeap.VT) (ops : List Op) : ((init vt0).run ops).WF :=
  wf_run (wf_init vt0) ops

/-- **A held view always shows the current model in its vartype.**  After any history of `.spin` / `.binary` (of the model, of
    views, of views of views), in-place `change_vartype` of the model, of a held view or of a view in between, EVERY object
    ever handed out evaluates a sample `x` of the vartype it reports to the base model's energy at the spin sample `x` stands
    for — through however many `VartypeView` layers, pass-through or converting. -/
theorem held_view_shows_current_model (vt0 : ViewHeap.VT) (ops : List Op) (F : (Nat → Rat) → Rat) (o : Nat)
    (ho : o < ((init vt0).run ops).objs.length) (x : Nat → Rat) :
    objVal F ((init vt0).run ops) o x = F (toSpin (((init vt0).run ops).objVt o) x) :=
  objVal_eq F _ (view_graph_history_wf vt0 ops) o ho x

/-- `.binary` / `.spin` of any object in any state return an object of the requested vartype (itself, the cached one if it
    still has that vartype, or a new view) -/
theorem view_property_returns_requested_vartype (h : Heap) (o : Nat) (vt : ViewHeap.VT) :
    (h.getView o vt).1.objVt (h.getView o vt).2 = vt :=
  getView_vt h o vt

/-- two objects of one graph that report the same vartype evaluate every sample alike (whatever their nesting) -/
theorem views_of_equal_vartype_agree (vt0 : ViewHeap.VT) (ops : List Op) (F : (Nat → Rat) → Rat) (o o' : Nat)
    (ho : o < ((init vt0).run ops).objs.length) (ho' : o' < ((init vt0).run ops).objs.length)
    (hvt : ((init vt0).run ops).objVt o = ((init vt0).run ops).objVt o') (x : Nat → Rat) :
    objVal F ((init vt0).run ops) o x = objVal F ((init vt0).run ops) o' x := by
  rw [held_view_shows_current_model vt0 ops F o ho, held_view_shows_current_model vt0 ops F o' ho', hvt]

/-- a history that stacks a view on a view: `v = m.spin` on a BINARY model, `m` changed to SPIN in place, `w = v.binary` is a NEW
    object over `v`'s data (depth 2), then `v` re-typed to BINARY in place: `w` (BINARY over BINARY over SPIN) still reports BINARY,
    `m.binary` and `w.spin` would each create a new object (id 3), `m.spin` and `w.binary` return the objects themselves — all as the code does
    (the harness compares exactly these identities, vartypes and depths with the real objects) -/
example :
    let h := (init .binary).run [.spin 0, .changeVartype 0 .spin, .binary 1, .changeVartype 1 .binary]
    h.objs.length = 3 ∧ (List.range 3).map h.objVt = [.spin, .binary, .binary] ∧ (List.range 3).map h.objDepth = [0, 1, 2]
    ∧ (h.step (.binary 0)).2 = 3 ∧ (h.step (.spin 2)).2 = 3 ∧ (h.step (.spin 0)).2 = 0 ∧ (h.step (.binary 2)).2 = 2 := by
  decide +kernel

/-- and the evaluation through the two layers at a concrete sample: `F` = the first spin value; the BINARY sample `x₀ = 1` read
    through object 2 is the spin value `+1` -/
example :
    let h := (init .binary).run [.spin 0, .changeVartype 0 .spin, .binary 1, .changeVartype 1 .binary]
    objVal (fun s => s 0) h 2 (fun _ => 1) = 1 ∧ objVal (fun s => s 0) h 2 (fun _ => 0) = -1 := by
  decide +kernel

end ViewGraph

end C02
