import DimodProofs.EqualityViews

/-! # C18 — model equality is total, symmetric and sensitive to every coefficient

Model: `DimodModel/Equality.lean` (namespace `Eqm`): `is_equal` / `is_almost_equal` / `==` / `!=` of
`BinaryQuadraticModel`, `QuadraticModel`, the CQM expression views and `ConstrainedQuadraticModel`, with
their `try … except` fall-backs and the dict equality of the `linear` / `adj` views, as the code is after
the repairs of D15, D26, D38, D39 (the `…With` variants take the flags of the unrepaired code).
A `QModel` is what those methods can observe of a model; `Eqm.WF` states what is true of every real
object (distinct labels, one linear bias per label, one entry per unordered pair, interactions between
own variables, a type for every own variable); `Eqm.CanonEq` is the order- and dtype-free comparison
of canonical forms. -/

namespace C18
open Eqm

/-- `is_equal` returns a boolean for every receiver that is a BQM / QM / expression view and *any* other
    object (model of any class, CQM, number, arbitrary object): no exception. -/
theorem isEqual_total_model (a : QModel) (b : Obj) (hb : ∀ o, b = .model o → TypesOK o) :
    ∃ r : Bool, isEqual (.model a) b = .ok r :=
  modelIsEqual_total a b hb

/-- the same with a CQM as receiver -/
theorem isEqual_total_cqm (a : CqmVal) (b : Obj) (hb : ∀ o, b = .cqm o → CqmTypesOK o) :
    ∃ r : Bool, isEqual (.cqm a) b = .ok r :=
  cqmIsEqual_total a b hb

/-- `True` exactly when both have the same variable labels, variable types, offset, linear and
    quadratic biases — whatever the classes (BQM / QM / view), variable orders and term orders. -/
theorem isEqual_iff_canon (a b : QModel) (ha : WF a) (hb : WF b) :
    isEqual (.model a) (.model b) = .ok true ↔ CanonEq a b :=
  modelIsEqual_iff_canon a b ha hb

/-- for two CQMs: also the same constraint labels, senses and right-hand sides (and the same variables with
    the same types, D39) — whatever the variable and constraint orders -/
theorem isEqual_iff_canon_cqm (a b : CqmVal) (ha : CqmWFv a) (hb : CqmWFv b) :
    isEqual (.cqm a) (.cqm b) = .ok true ↔ CqmCanonEq a b :=
  cqmIsEqual_iff_canon a b ha hb

/-- a CQM never equals a BQM / QM / view / number / other object, in either argument order -/
theorem isEqual_cqm_vs_other (c : CqmVal) (m : QModel) (x : Rat) :
    isEqual (.cqm c) (.model m) = .ok false ∧ isEqual (.cqm c) (.num x) = .ok false ∧ isEqual (.cqm c) .foreign = .ok false
    ∧ isEqual (.model m) (.cqm c) = .ok false := by
  refine ⟨rfl, rfl, rfl, ?_⟩
  show modelIsEqualWith true m (.cqm c) = .ok false
  unfold modelIsEqualWith
  cases m.kind with
  | bqm vt =>
    simp only [bqmEqBody]
    split <;> rfl
  | qm =>
    simp only []
    unfold catching qmEqBody
    simp only []
    cases allM m.vars _ with
    | error e => cases e <;> rfl
    | ok b => cases b <;> rfl
  | view =>
    simp only []
    unfold catching qmEqBody
    simp only []
    cases allM m.vars _ with
    | error e => cases e <;> rfl
    | ok b => cases b <;> rfl

/-- `!=` is the negation of `==` wherever it is defined as model equality -/
theorem ne_is_not_eq (same : Bool) (a b : Obj) : opNe same a b = (opEq same a b).map (!·) := by
  unfold opNe opEq
  split_ifs <;> rfl

theorem isEqual_refl (a : QModel) (ha : WF a) : isEqual (.model a) (.model a) = .ok true :=
  (isEqual_iff_canon a a ha ha).mpr ⟨fun _ _ => rfl, rfl, fun _ => rfl, fun _ _ => rfl⟩

/-- symmetric across classes -/
theorem isEqual_symm (a b : QModel) (ha : WF a) (hb : WF b) :
    isEqual (.model a) (.model b) = isEqual (.model b) (.model a) := by
  have symm : ∀ {x y : QModel}, WF x → WF y → CanonEq x y → CanonEq y x := by
    intro x y hx hy h
    refine ⟨?_, h.off.symm, fun v => (h.lin v).symm, fun u v => (h.quad u v).symm⟩
    intro v hv
    exact (h.types v ((labels_of_lin hx hy h.lin v).mpr hv)).symm
  obtain ⟨r1, h1⟩ := isEqual_total_model a (.model b) (by intro o h; cases h; exact hb.types)
  obtain ⟨r2, h2⟩ := isEqual_total_model b (.model a) (by intro o h; cases h; exact ha.types)
  rw [h1, h2]
  congr 1
  cases r1 <;> cases r2 <;> try rfl
  · have := (isEqual_iff_canon a b ha hb).mpr (symm hb ha ((isEqual_iff_canon b a hb ha).mp h2))
    rw [h1] at this; cases this
  · have := (isEqual_iff_canon b a hb ha).mpr (symm ha hb ((isEqual_iff_canon a b ha hb).mp h1))
    rw [h2] at this; cases this

/-- any single difference — an offset, one linear bias, one quadratic bias (or the presence of an
    interaction), one label, one variable type — makes it `False` -/
theorem isEqual_sensitive (a b : QModel) (ha : WF a) (hb : WF b)
    (hdiff : a.off ≠ b.off ∨ (∃ v, QModel.lookup a.linAssoc v ≠ QModel.lookup b.linAssoc v)
      ∨ (∃ u v, QModel.quadLookup a.quad u v ≠ QModel.quadLookup b.quad u v)
      ∨ (∃ v ∈ a.vars, a.vartypeOf v ≠ b.vartypeOf v)) :
    isEqual (.model a) (.model b) = .ok false := by
  obtain ⟨r, hr⟩ := isEqual_total_model a (.model b) (by intro o h; cases h; exact hb.types)
  cases r with
  | false => exact hr
  | true =>
    exfalso
    have h := (isEqual_iff_canon a b ha hb).mp hr
    rcases hdiff with h1 | ⟨v, h2⟩ | ⟨u, v, h3⟩ | ⟨v, hv, h4⟩
    · exact h1 h.off
    · exact h2 (h.lin v)
    · exact h3 (h.quad u v)
    · exact h4 (h.types v hv)

/-- `is_almost_equal(places)` behaves the same with biases compared after rounding: `True` exactly when labels,
    types and interactions coincide and every pair of corresponding biases (offset, linear, quadratic) has a
    difference that Python's `round(·, places)` sends to 0 (`roundsToZero`: |d|·10^places ≤ 1/2, the tie going
    to the even neighbour 0). -/
theorem almostEqual_iff (p : Int) (a b : QModel) (ha : WF a) (hb : WF b) :
    isAlmostEqual p (.model a) (.model b) = .ok true ↔ AlmostCanon p a b :=
  modelAlmost_iff_canon p a b ha hb

/-- …and it returns a boolean for every argument whatsoever. -/
theorem almostEqual_total (p : Int) (a : QModel) (b : Obj) : ∃ r : Bool, isAlmostEqual p (.model a) b = .ok r :=
  modelAlmost_total p a b

/-- exact equality implies almost-equality at every number of places ≥ 0 -/
theorem isEqual_imp_almostEqual (p : Nat) (a b : QModel) (ha : WF a) (hb : WF b)
    (h : isEqual (.model a) (.model b) = .ok true) : isAlmostEqual (p : Int) (.model a) (.model b) = .ok true := by
  have hc := (isEqual_iff_canon a b ha hb).mp h
  apply (almostEqual_iff p a b ha hb).mpr
  have zero : roundsToZero (p : Int) 0 = true := by
    rw [roundsToZero_nonneg]; unfold absR; simp
  have hlab := labels_of_lin ha hb hc.lin
  refine ⟨hlab, hc.types, by rw [hc.off]; simpa using zero, ?_, ?_, ?_⟩
  · intro v hv
    obtain ⟨x, hx⟩ := (mem_vars_iff ha v).mp hv
    exact ⟨x, x, hx, by rw [← hc.lin v]; exact hx, by simpa using zero⟩
  · intro u v; rw [hc.quad u v]
  · intro u v x y hx hy
    rw [hc.quad u v, hy] at hx
    cases hx; simpa using zero

/-! ## the mapping views `m.linear`, `m.adj`, `m.adj[v]`, `m.quadratic`

`Eqm.viewEq k a b` is `a.<k> == b.<k>` as `dimod/views/quadratic.py` computes it (`Mapping.__eq__` = equality of
`dict(items())` for `Linear`, `Adjacency`, `Neighborhood`; `Quadratic.__eq__` = same size and every item of the other found
here, in either orientation, with an equal bias); `viewNe` is the inherited `!=`.  A plain dict with the same items on either
side goes through the same method.  `ViewCanon k a b` is what that equality means on canonical forms. -/

/-- **Mapping equality is equality of the canonical content**: `linear` — the same variables with the same linear biases;
    `adj` — the same variables and the same interactions with the same biases; `adj[v]` — the same neighbours of `v` with the
    same biases; `quadratic` — the same interactions with the same biases (an interaction stored with bias 0 is an
    interaction) — whatever the classes, variable orders, term orders and orientations. -/
theorem viewEq_iff_canon (k : VKind) (a b : QModel) (ha : WF a) (hb : WF b) : viewEq k a b = true ↔ ViewCanon k a b :=
  viewEq_iff k ha hb

/-- spelled out for `quadratic`, whose `__eq__` is hand-written and asymmetric in form (it walks the *other* mapping and
    looks every key up in `self`): a lookup that defaulted to 0 for a missing key, or that compared sizes only, would not
    satisfy this -/
theorem quadratic_eq_iff (a b : QModel) (ha : WF a) (hb : WF b) :
    viewEq .quadratic a b = true ↔ ∀ u v, QModel.quadLookup a.quad u v = QModel.quadLookup b.quad u v :=
  quadraticEq_iff ha hb

/-- symmetric, and `!=` is its negation -/
theorem viewEq_symmetric (k : VKind) (a b : QModel) (ha : WF a) (hb : WF b) :
    viewEq k a b = viewEq k b a ∧ viewNe k a b = !(viewEq k a b) :=
  ⟨viewEq_symm k ha hb, rfl⟩

/-- `is_equal` between two models is exactly: types agree, offsets agree, `a.linear == b.linear` and `a.adj == b.adj` —
    the mapping equalities the code uses; and equal `adj` implies equal `quadratic` and equal neighbourhoods -/
theorem isEqual_is_view_equality (a b : QModel) (ha : WF a) (hb : WF b) :
    (isEqual (.model a) (.model b) = .ok true
      ↔ (∀ v ∈ a.vars, a.vartypeOf v = b.vartypeOf v) ∧ a.off = b.off ∧ viewEq .linear a b = true ∧ viewEq .adj a b = true)
    ∧ (viewEq .adj a b = true → viewEq .quadratic a b = true ∧ ∀ v, viewEq (.nbh v) a b = true) := by
  refine ⟨isEqual_iff_views a b ha hb, ?_⟩
  intro h
  have hc := (viewEq_iff .adj ha hb).mp h
  exact ⟨(viewEq_iff .quadratic ha hb).mpr hc.2, fun v => (viewEq_iff (.nbh v) ha hb).mpr (fun w => hc.2 v w)⟩

/-! ## numbers as operands of `==` / `!=`

`bqm == 3` / `qm == 3` build the comparison `Eq(model, 3)`, and so does `3 == model` (the number answers `NotImplemented`,
Python calls the model's reflected `__eq__`); its truth value is `model.is_equal(3)`.  `!=` is `not is_equal` for a BQM and
Python's default inversion for a QM.  Views and CQMs define neither operator. -/

/-- a BQM or QM against a number, **on either side**: true exactly when the model has no variables and its offset is that
    number; `!=` is the negation -/
theorem number_operand (same : Bool) (a : QModel) (x : Rat) (hk : a.kind ≠ .view) :
    opEq same (.model a) (.num x) = .ok (a.vars.isEmpty && decide (a.off = x))
    ∧ opEq same (.num x) (.model a) = .ok (a.vars.isEmpty && decide (a.off = x))
    ∧ opNe same (.model a) (.num x) = .ok (!(a.vars.isEmpty && decide (a.off = x)))
    ∧ opNe same (.num x) (.model a) = .ok (!(a.vars.isEmpty && decide (a.off = x))) :=
  opEq_num same a x hk

/-- an expression view or a CQM against a number: identity (`False` for `==`, `True` for `!=`), on either side -/
theorem number_operand_identity (same : Bool) (a : QModel) (c : CqmVal) (x : Rat) (hk : a.kind = .view) :
    opEq same (.model a) (.num x) = .ok same ∧ opEq same (.num x) (.model a) = .ok same
    ∧ opEq same (.cqm c) (.num x) = .ok same ∧ opEq same (.num x) (.cqm c) = .ok same
    ∧ opNe same (.model a) (.num x) = .ok (!same) ∧ opNe same (.num x) (.cqm c) = .ok (!same) :=
  opEq_num_identity same a c x hk

/-- a `Quadratic` view does not equal one with the same number of interactions on other pairs, nor one that lacks a
    zero-bias interaction the other has -/
example : viewEq .quadratic
    { kind := .qm, vars := [.str "a", .str "b", .str "c"], lin := [0, 0, 0], quad := [(.str "a", .str "b", 1)], off := 0, types := [] }
    { kind := .qm, vars := [.str "a", .str "b", .str "c"], lin := [0, 0, 0], quad := [(.str "c", .str "b", 1)], off := 0, types := [] } = false
  ∧ viewEq .quadratic
    { kind := .qm, vars := [.str "a", .str "b"], lin := [0, 0], quad := [(.str "a", .str "b", 0)], off := 0, types := [] }
    { kind := .qm, vars := [.str "a", .str "b"], lin := [0, 0], quad := [], off := 0, types := [] } = false
  ∧ viewEq .quadratic
    { kind := .qm, vars := [.str "a", .str "b"], lin := [0, 0], quad := [(.str "a", .str "b", 2)], off := 0, types := [] }
    { kind := .bqm .spin, vars := [.str "b", .str "a"], lin := [5, 5], quad := [(.str "b", .str "a", 2)], off := 1, types := [] } = true := by
  decide +kernel

/-! ## the defects the model was built against (non-vacuity of the flags) -/

def qa : QModel := { kind := .qm, vars := [.str "i"], lin := [1], quad := [], off := 0, types := [(.str "i", .integer)] }
def qb : QModel := { kind := .qm, vars := [.str "a"], lin := [1], quad := [], off := 0, types := [(.str "a", .integer)] }
/-- D15: same shape, disjoint labels — the unrepaired `QuadraticModel.is_equal` raised `ValueError` -/
example : isEqualWith false false false (.model qa) (.model qb) = .error .value := by decide +kernel
example : isEqual (.model qa) (.model qb) = .ok false := by decide +kernel
def va : QModel := { kind := .qm, vars := [.str "a"], lin := [0], quad := [], off := 0, types := [(.str "a", .binary)] }
def vb : QModel := { kind := .view, vars := [.str "b"], lin := [5], quad := [], off := 0,
                     types := [(.str "a", .binary), (.str "b", .binary)] }
/-- D38: `{a: 0}.is_almost_equal(view of {b: 5})` was `True` (a view answers 0 for a parent variable it lacks) -/
example : isAlmostEqualWith true false true true 7 (.model va) (.model vb) = .ok true := by decide +kernel
example : isAlmostEqual 7 (.model va) (.model vb) = .ok false := by decide +kernel
/-- D26: a BQM was never almost-equal to a view -/
example : isAlmostEqualWith false true true true 7
    (.model { kind := .bqm .binary, vars := [.str "b"], lin := [5], quad := [], off := 0, types := [] }) (.model vb) = .ok false
  ∧ isAlmostEqual 7
    (.model { kind := .bqm .binary, vars := [.str "b"], lin := [5], quad := [], off := 0, types := [] }) (.model vb) = .ok true := by
  decide +kernel
/-- the open question of the design: two variable-free models of different vartype are *equal* -/
example : isEqual (.model { kind := .bqm .spin, vars := [], lin := [], quad := [], off := 1, types := [] })
    (.model { kind := .bqm .binary, vars := [], lin := [], quad := [], off := 1, types := [] }) = .ok true := by
  decide +kernel

end C18
