import DimodProofs.EqualityViews
import DimodProofs.EqualityCqm
import DimodProofs.EqualityCqmFields

/-! # C18 — model equality is total, symmetric and sensitive to every coefficient

Model: `DimodModel/Equality.lean` (namespace `Eqm`): `is_equal` / `is_almost_equal` / `==` / `!=` of
`BinaryQuadraticModel`, `QuadraticModel`, the CQM expression views and `ConstrainedQuadraticModel`, with
their `try … except` fall-backs and the dict equality of the `linear` / `adj` views, as the code is after
the repairs of D15, D26, D38, D39 (the `…With` variants take the flags of the unrepaired code).
A `QModel` is what those methods can observe of a model; `Eqm.WF` states what is true of every real
object (distinct labels, one linear bias per label, one entry per unordered pair, interactions between
own variables, a type for every own variable); `Eqm.CanonEq` is the order- and dtype-free comparison
of canonical forms. -/

namespace C18
open Eqm

/-- `is_equal` returns a boolean for every receiver that is a BQM / QM / expression view and *any* other
    object (model of any class, CQM, number, arbitrary object): no exception. -/
theorem isEqual_total_model (a : QModel) (b : Obj) (hb : ∀ o, b = .model o → TypesOK o) :
    ∃ r : Bool, isEqual (.model a) b = .ok r :=
  modelIsEqual_total a b hb

/-- the same with a CQM as receiver -/
theorem isEqual_total_cqm (a : CqmVal) (b : Obj) (hb : ∀ o, b = .cqm o → CqmTypesOK o) :
    ∃ r : Bool, isEqual (.cqm a) b = .ok r :=
  cqmIsEqual_total a b hb

/-- `True` exactly when both have the same variable labels, variable types, offset, linear and
    quadratic biases — whatever the classes (BQM / QM / view), variable orders and term orders. -/
theorem isEqual_iff_canon (a b : QModel) (ha : WF a) (hb : WF b) :
    isEqual (.model a) (.model b) = .ok true ↔ CanonEq a b :=
  modelIsEqual_iff_canon a b ha hb

/-- for two CQMs: also the same constraint labels, senses and right-hand sides (and the same variables with
    the same types, D39) — whatever the variable and constraint orders -/
theorem isEqual_iff_canon_cqm (a b : CqmVal) (ha : CqmWFv a) (hb : CqmWFv b) :
    isEqual (.cqm a) (.cqm b) = .ok true ↔ CqmCanonEq a b :=
  cqmIsEqual_iff_canon a b ha hb

/-- a CQM never equals a BQM / QM / view / number / other object, in either argument order -/
theorem isEqual_cqm_vs_other (c : CqmVal) (m : QModel) (x : Rat) :
    isEqual (.cqm c) (.model m) = .ok false ∧ isEqual (.cqm c) (.num x) = .ok false ∧ isEqual (.cqm c) .foreign = .ok false
    ∧ isEqual (.model m) (.cqm c) = .ok false := by
  refine ⟨rfl, rfl, rfl, ?_⟩
  show modelIsEqualWith true m (.cqm c) = .ok false
  unfold modelIsEqualWith
  cases m.kind with
  | bqm vt =>
    simp only [bqmEqBody]
    split <;> rfl
  | qm =>
    simp only []
    unfold catching qmEqBody
    simp only []
    cases allM m.vars _ with
    | error e => cases e <;> rfl
    | ok b => cases b <;> rfl
  | view =>
    simp only []
    unfold catching qmEqBody
    simp only []
    cases allM m.vars _ with
    | error e => cases e <;> rfl
    | ok b => cases b <;> rfl

/-- `!=` is the negation of `==` wherever it is defined as model equality -/
theorem ne_is_not_eq (same : Bool) (a b : Obj) : opNe same a b = (opEq same a b).map (!·) := by
  unfold opNe opEq
  split_ifs <;> rfl

theorem isEqual_refl (a : QModel) (ha : WF a) : isEqual (.model a) (.model a) = .ok true :=
  (isEqual_iff_canon a a ha ha).mpr ⟨fun _ _ => rfl, rfl, fun _ => rfl, fun _ _ => rfl⟩

/-- symmetric across classes -/
theorem isEqual_symm (a b : QModel) (ha : WF a) (hb : WF b) :
    isEqual (.model a) (.model b) = isEqual (.model b) (.model a) := by
  have symm : ∀ {x y : QModel}, WF x → WF y → CanonEq x y → CanonEq y x := by
    intro x y hx hy h
    refine ⟨?_, h.off.symm, fun v => (h.lin v).symm, fun u v => (h.quad u v).symm⟩
    intro v hv
    exact (h.types v ((labels_of_lin hx hy h.lin v).mpr hv)).symm
  obtain ⟨r1, h1⟩ := isEqual_total_model a (.model b) (by intro o h; cases h; exact hb.types)
  obtain ⟨r2, h2⟩ := isEqual_total_model b (.model a) (by intro o h; cases h; exact ha.types)
  rw [h1, h2]
  congr 1
  cases r1 <;> cases r2 <;> try rfl
  · have := (isEqual_iff_canon a b ha hb).mpr (symm hb ha ((isEqual_iff_canon b a hb ha).mp h2))
    rw [h1] at this; cases this
  · have := (isEqual_iff_canon b a hb ha).mpr (symm ha hb ((isEqual_iff_canon a b ha hb).mp h1))
    rw [h2] at this; cases this

/-- any single difference — an offset, one linear bias, one quadratic bias (or the presence of an
    interaction), one label, one variable type — makes it `False` -/
theorem isEqual_sensitive (a b : QModel) (ha : WF a) (hb : WF b)
    (hdiff : a.off ≠ b.off ∨ (∃ v, QModel.lookup a.linAssoc v ≠ QModel.lookup b.linAssoc v)
      ∨ (∃ u v, QModel.quadLookup a.quad u v ≠ QModel.quadLookup b.quad u v)
      ∨ (∃ v ∈ a.vars, a.vartypeOf v ≠ b.vartypeOf v)) :
    isEqual (.model a) (.model b) = .ok false := by
  obtain ⟨r, hr⟩ := isEqual_total_model a (.model b) (by intro o h; cases h; exact hb.types)
  cases r with
  | false => exact hr
  | true =>
    exfalso
    have h := (isEqual_iff_canon a b ha hb).mp hr
    rcases hdiff with h1 | ⟨v, h2⟩ | ⟨u, v, h3⟩ | ⟨v, hv, h4⟩
    · exact h1 h.off
    · exact h2 (h.lin v)
    · exact h3 (h.quad u v)
    · exact h4 (h.types v hv)

/-- `is_almost_equal(places)` behaves the same with biases compared after rounding: `True` exactly when labels,
    types and interactions coincide and every pair of corresponding biases (offset, linear, quadratic) has a
    difference that Python's `round(·, places)` sends to 0 (`roundsToZero`: |d|·10^places ≤ 1/2, the tie going
    to the even neighbour 0). -/
theorem almostEqual_iff (p : Int) (a b : QModel) (ha : WF a) (hb : WF b) :
    isAlmostEqual p (.model a) (.model b) = .ok true ↔ AlmostCanon p a b :=
  modelAlmost_iff_canon p a b ha hb

/-- …and it returns a boolean for every argument whatsoever. -/
theorem almostEqual_total (p : Int) (a : QModel) (b : Obj) : ∃ r : Bool, isAlmostEqual p (.model a) b = .ok r :=
  modelAlmost_total p a b

/-- exact equality implies almost-equality at every number of places ≥ 0 -/
theorem isEqual_imp_almostEqual (p : Nat) (a b : QModel) (ha : WF a) (hb : WF b)
    (h : isEqual (.model a) (.model b) = .ok true) : isAlmostEqual (p : Int) (.model a) (.model b) = .ok true := by
  have hc := (isEqual_iff_canon a b ha hb).mp h
  apply (almostEqual_iff p a b ha hb).mpr
  have zero : roundsToZero (p : Int) 0 = true := by
    rw [roundsToZero_nonneg]; unfold absR; simp
  have hlab := labels_of_lin ha hb hc.lin
  refine ⟨hlab, hc.types, by rw [hc.off]; simpa using zero, ?_, ?_, ?_⟩
  · intro v hv
    obtain ⟨x, hx⟩ := (mem_vars_iff ha v).mp hv
    exact ⟨x, x, hx, by rw [← hc.lin v]; exact hx, by simpa using zero⟩
  · intro u v; rw [hc.quad u v]
  · intro u v x y hx hy
    rw [hc.quad u v, hy] at hx
    cases hx; simpa using zero

/-! ## the mapping views `m.linear`, `m.adj`, `m.adj[v]`, `m.quadratic`

`Eqm.viewEq k a b` is `a.<k> == b.<k>` as `dimod/views/quadratic.py` computes it (`Mapping.__eq__` = equality of
`dict(items())` for `Linear`, `Adjacency`, `Neighborhood`; `Quadratic.__eq__` = same size and every item of the other found
here, in either orientation, with an equal bias); `viewNe` is the inherited `!=`.  A plain dict with the same items on either
side goes through the same method.  `ViewCanon k a b` is what that equality means on canonical forms. -/

/-- **Mapping equality is equality of the canonical content**: `linear` — the same variables with the same linear biases;
    `adj` — the same variables and the same interactions with the same biases; `adj[v]` — the same neighbours of `v` with the
    same biases; `quadratic` — the same interactions with the same biases (an interaction stored with bias 0 is an
    interaction) — whatever the classes, variable orders, term orders and orientations. -/
theorem viewEq_iff_canon (k : VKind) (a b : QModel) (ha : WF a) (hb : WF b) : viewEq k a b = true ↔ ViewCanon k a b :=
  viewEq_iff k ha hb

/-- spelled out for `quadratic`, whose `__eq__` is hand-written and asymmetric in form (it walks the *other* mapping and
    looks every key up in `self`): a lookup that defaulted to 0 for a missing key, or that compared sizes only, would not
    satisfy this -/
theorem quadratic_eq_iff (a b : QModel) (ha : WF a) (hb : WF b) :
    viewEq .quadratic a b = true ↔ ∀ u v, QModel.quadLookup a.quad u v = QModel.quadLookup b.quad u v :=
  quadraticEq_iff ha hb

/-- symmetric, and `!=` is its negation -/
theorem viewEq_symmetric (k : VKind) (a b : QModel) (ha : WF a) (hb : WF b) :
    viewEq k a b = viewEq k b a ∧ viewNe k a b = !(viewEq k a b) :=
  ⟨viewEq_symm k ha hb, rfl⟩

/-- `is_equal` between two models is exactly: types agree, offsets agree, `a.linear == b.linear` and `a.adj == b.adj` —
    the mapping equalities the code uses; and equal `adj` implies equal `quadratic` and equal neighbourhoods -/
theorem isEqual_is_view_equality (a b : QModel) (ha : WF a) (hb : WF b) :
    (isEqual (.model a) (.model b) = .ok true
      ↔ (∀ v ∈ a.vars, a.vartypeOf v = b.vartypeOf v) ∧ a.off = b.off ∧ viewEq .linear a b = true ∧ viewEq .adj a b = true)
    ∧ (viewEq .adj a b = true → viewEq .quadratic a b = true ∧ ∀ v, viewEq (.nbh v) a b = true) := by
  refine ⟨isEqual_iff_views a b ha hb, ?_⟩
  intro h
  have hc := (viewEq_iff .adj ha hb).mp h
  exact ⟨(viewEq_iff .quadratic ha hb).mpr hc.2, fun v => (viewEq_iff (.nbh v) ha hb).mpr (fun w => hc.2 v w)⟩

/-! ## numbers as operands of `==` / `!=`

`bqm == 3` / `qm == 3` build the comparison `Eq(model, 3)`, and so does `3 == model` (the number answers `NotImplemented`,
Python calls the model's reflected `__eq__`); its truth value is `model.is_equal(3)`.  `!=` is `not is_equal` for a BQM and
Python's default inversion for a QM.  Views and CQMs define neither operator. -/

/-- a BQM or QM against a number, **on either side**: true exactly when the model has no variables and its offset is that
    number; `!=` is the negation -/
theorem number_operand (same : Bool) (a : QModel) (x : Rat) (hk : a.kind ≠ .view) :
    opEq same (.model a) (.num x) = .ok (a.vars.isEmpty && decide (a.off = x))
    ∧ opEq same (.num x) (.model a) = .ok (a.vars.isEmpty && decide (a.off = x))
    ∧ opNe same (.model a) (.num x) = .ok (!(a.vars.isEmpty && decide (a.off = x)))
    ∧ opNe same (.num x) (.model a) = .ok (!(a.vars.isEmpty && decide (a.off = x))) :=
  opEq_num same a x hk

/-- an expression view or a CQM against a number: identity (`False` for `==`, `True` for `!=`), on either side -/
theorem number_operand_identity (same : Bool) (a : QModel) (c : CqmVal) (x : Rat) (hk : a.kind = .view) :
    opEq same (.model a) (.num x) = .ok same ∧ opEq same (.num x) (.model a) = .ok same
    ∧ opEq same (.cqm c) (.num x) = .ok same ∧ opEq same (.num x) (.cqm c) = .ok same
    ∧ opNe same (.model a) (.num x) = .ok (!same) ∧ opNe same (.num x) (.cqm c) = .ok (!same) :=
  opEq_num_identity same a c x hk

/-- a `Quadratic` view does not equal one with the same number of interactions on other pairs, nor one that lacks a
    zero-bias interaction the other has -/
example : viewEq .quadratic
    { kind := .qm, vars := [.str "a", .str "b", .str "c"], lin := [0, 0, 0], quad := [(.str "a", .str "b", 1)], off := 0, types := [] }
    { kind := .qm, vars := [.str "a", .str "b", .str "c"], lin := [0, 0, 0], quad := [(.str "c", .str "b", 1)], off := 0, types := [] } = false
  ∧ viewEq .quadratic
    { kind := .qm, vars := [.str "a", .str "b"], lin := [0, 0], quad := [(.str "a", .str "b", 0)], off := 0, types := [] }
    { kind := .qm, vars := [.str "a", .str "b"], lin := [0, 0], quad := [], off := 0, types := [] } = false
  ∧ viewEq .quadratic
    { kind := .qm, vars := [.str "a", .str "b"], lin := [0, 0], quad := [(.str "a", .str "b", 2)], off := 0, types := [] }
    { kind := .bqm .spin, vars := [.str "b", .str "a"], lin := [5, 5], quad := [(.str "b", .str "a", 2)], off := 1, types := [] } = true := by
  decide +kernel

/-! ## CQMs: every variable counts (used by an expression or not), `is_almost_equal`, and symmetry for every class pair -/

/-- **The per-variable types of ALL variables of a CQM are compared** — also of a variable that occurs in no expression
    (declared with `add_variable` only, or left behind by `remove_constraint`): equal CQMs have the same `vartype` table
    (`lookup a.vars v = lookup b.vars v` for every label `v`: same presence, same type), and one label on which the tables
    differ — a type only, or a presence only — makes `is_equal` and `is_almost_equal` `False`. -/
theorem isEqual_cqm_all_variables (p : Int) (a b : CqmVal) (ha : CqmWFv a) (hb : CqmWFv b) :
    (isEqual (.cqm a) (.cqm b) = .ok true → ∀ v, QModel.lookup a.vars v = QModel.lookup b.vars v)
    ∧ (isAlmostEqual p (.cqm a) (.cqm b) = .ok true → ∀ v, QModel.lookup a.vars v = QModel.lookup b.vars v)
    ∧ ((∃ v, QModel.lookup a.vars v ≠ QModel.lookup b.vars v) →
        isEqual (.cqm a) (.cqm b) = .ok false ∧ isAlmostEqual p (.cqm a) (.cqm b) = .ok false) := by
  have h1 : isEqual (.cqm a) (.cqm b) = .ok true → ∀ v, QModel.lookup a.vars v = QModel.lookup b.vars v :=
    fun h => ((isEqual_iff_canon_cqm a b ha hb).mp h).vars
  have h2 : isAlmostEqual p (.cqm a) (.cqm b) = .ok true → ∀ v, QModel.lookup a.vars v = QModel.lookup b.vars v :=
    fun h => ((cqmAlmost_iff_canon p a b ha hb).mp h).vars
  refine ⟨h1, h2, ?_⟩
  rintro ⟨v, hv⟩
  obtain ⟨r1, hr1⟩ := isEqual_total_cqm a (.cqm b) (by intro o h; cases h; exact cqmTypesOK_of_wf hb)
  obtain ⟨r2, hr2⟩ : ∃ r, isAlmostEqual p (.cqm a) (.cqm b) = .ok r := cqmAlmost_total p a (.cqm b)
  constructor
  · cases r1 with
    | false => exact hr1
    | true => exact absurd (h1 hr1 v) hv
  · cases r2 with
    | false => exact hr2
    | true => exact absurd (h2 hr2 v) hv

/-- any single difference between two CQMs — one variable's label or type (whether used or not), anything in the
    objective, a constraint present on one side only, or under one label the sense, the right-hand side or anything in the
    left-hand side — makes `is_equal` `False` -/
theorem isEqual_sensitive_cqm (a b : CqmVal) (ha : CqmWFv a) (hb : CqmWFv b)
    (hdiff : (∃ v, QModel.lookup a.vars v ≠ QModel.lookup b.vars v) ∨ ¬ CanonEq a.obj b.obj
      ∨ (∃ l, (findCons a.cons l).isSome ≠ (findCons b.cons l).isSome)
      ∨ (∃ l c d, findCons a.cons l = some c ∧ findCons b.cons l = some d
          ∧ (c.sense ≠ d.sense ∨ c.rhs ≠ d.rhs ∨ ¬ CanonEq c.lhs d.lhs))) :
    isEqual (.cqm a) (.cqm b) = .ok false := by
  obtain ⟨r, hr⟩ := isEqual_total_cqm a (.cqm b) (by intro o h; cases h; exact cqmTypesOK_of_wf hb)
  cases r with
  | false => exact hr
  | true =>
    exfalso
    have h := (isEqual_iff_canon_cqm a b ha hb).mp hr
    rcases hdiff with ⟨v, hv⟩ | hobj | ⟨l, hl⟩ | ⟨l, c, d, hc, hd, hne⟩
    · exact hv (h.vars v)
    · exact hobj h.obj
    · have := h.cons l
      cases hfa : findCons a.cons l <;> cases hfb : findCons b.cons l <;> rw [hfa, hfb] at this hl
      · exact hl rfl
      · exact this
      · exact this
      · exact hl rfl
    · have := h.cons l
      rw [hc, hd] at this
      simp only [] at this
      rcases hne with h1 | h1 | h1
      · exact h1 this.1
      · exact h1 this.2.1
      · exact h1 this.2.2

/-- `is_almost_equal` between two CQMs: `True` exactly when the objectives are almost equal, every variable of either model
    is a variable of the other with the same type, the constraint labels coincide and under each label the senses are equal,
    the right-hand sides differ by something `round(·, places)` sends to 0 and the left-hand sides are almost equal. -/
theorem almostEqual_iff_cqm (p : Int) (a b : CqmVal) (ha : CqmWFv a) (hb : CqmWFv b) :
    isAlmostEqual p (.cqm a) (.cqm b) = .ok true ↔ CqmAlmostCanon p a b :=
  cqmAlmost_iff_canon p a b ha hb

/-- …and it returns a boolean for every argument; against anything that is not a CQM it is `False`, in either order -/
theorem almostEqual_total_cqm (p : Int) (a : CqmVal) (b : Obj) (m : QModel) (x : Rat) :
    (∃ r : Bool, isAlmostEqual p (.cqm a) b = .ok r)
    ∧ isAlmostEqual p (.cqm a) (.model m) = .ok false ∧ isAlmostEqual p (.cqm a) (.num x) = .ok false
    ∧ isAlmostEqual p (.cqm a) .foreign = .ok false ∧ isAlmostEqual p (.model m) (.cqm a) = .ok false :=
  ⟨cqmAlmost_total p a b, rfl, rfl, rfl, modelAlmost_vs_cqm p m a⟩

/-- **Symmetry for every pair of classes and both methods**: BQM / QM / view against BQM / QM / view, CQM against CQM, and
    CQM against model (both `False`), for `is_equal` and for `is_almost_equal` at any number of places (negative included). -/
theorem symmetric_all_pairs (p : Int) (a b : QModel) (c d : CqmVal) (ha : WF a) (hb : WF b) (hc : CqmWFv c) (hd : CqmWFv d) :
    isEqual (.model a) (.model b) = isEqual (.model b) (.model a)
    ∧ isAlmostEqual p (.model a) (.model b) = isAlmostEqual p (.model b) (.model a)
    ∧ isEqual (.cqm c) (.cqm d) = isEqual (.cqm d) (.cqm c)
    ∧ isAlmostEqual p (.cqm c) (.cqm d) = isAlmostEqual p (.cqm d) (.cqm c)
    ∧ isEqual (.cqm c) (.model a) = isEqual (.model a) (.cqm c)
    ∧ isAlmostEqual p (.cqm c) (.model a) = isAlmostEqual p (.model a) (.cqm c) :=
  ⟨modelIsEqual_symm a b ha hb, modelAlmost_symm p a b ha hb, cqmIsEqual_symm c d hc hd, cqmAlmost_symm p c d hc hd,
   by rw [(isEqual_cqm_vs_other c a 0).1, (isEqual_cqm_vs_other c a 0).2.2.2],
   by rw [(almostEqual_total_cqm p c .foreign a 0).2.1, (almostEqual_total_cqm p c .foreign a 0).2.2.2.2]⟩

/-- **`==` / `!=` are total and symmetric for every pair of operands** — BQM, QM, expression view, CQM, number, any other
    object, a number **on the left** included (`3 == bqm` is `bqm == 3`; `view == 3`, `cqm == 3`, `qm == qm'` and `3 == 3`-like
    pairs that no model class handles fall back to identity on both sides).  `DiscreteQuadraticModel` defines neither `==`
    nor `is_equal` (Python identity; outside the property's "where defined"). -/
theorem operators_total_symmetric (same : Bool) (a b : Obj)
    (h : ∀ x y, a = .model x → b = .model y → WF x ∧ WF y)
    (ha : ∀ o, a = .model o → TypesOK o) (hb : ∀ o, b = .model o → TypesOK o) :
    (∃ r, opEq same a b = .ok r) ∧ (∃ r, opNe same a b = .ok r)
    ∧ opEq same a b = opEq same b a ∧ opNe same a b = opNe same b a :=
  ⟨(opEq_total same a b ha hb).1, (opEq_total same a b ha hb).2, (opEq_symm same a b h).1, (opEq_symm same a b h).2⟩

/-- two CQMs that differ ONLY in the type of a variable no expression uses are different; with equal tables they are equal -/
example :
    let e : QModel := { kind := .view, vars := [.str "x"], lin := [1], quad := [], off := 0, types := [(.str "x", .binary), (.str "u", .binary)] }
    let e' : QModel := { e with types := [(.str "x", .binary), (.str "u", .spin)] }
    let a : CqmVal := { vars := [(.str "x", .binary), (.str "u", .binary)], obj := e, cons := [] }
    let b : CqmVal := { vars := [(.str "u", .spin), (.str "x", .binary)], obj := e', cons := [] }
    let a' : CqmVal := { vars := [(.str "u", .binary), (.str "x", .binary)], obj := e, cons := [] }
    isEqual (.cqm a) (.cqm b) = .ok false ∧ isAlmostEqual 7 (.cqm a) (.cqm b) = .ok false
    ∧ isEqualWith true true false (.cqm a) (.cqm b) = .ok true        -- without the variable test (D39 unrepaired) they were equal
    ∧ isEqual (.cqm a) (.cqm a') = .ok true ∧ isAlmostEqual 7 (.cqm a') (.cqm a) = .ok true := by
  decide +kernel

/-! ## the defects the model was built against (non-vacuity of the flags) -/

def qa : QModel := { kind := .qm, vars := [.str "i"], lin := [1], quad := [], off := 0, types := [(.str "i", .integer)] }
def qb : QModel := { kind := .qm, vars := [.str "a"], lin := [1], quad := [], off := 0, types := [(.str "a", .integer)] }
/-- D15: same shape, disjoint labels — the unrepaired `QuadraticModel.is_equal` raised `ValueError` -/
example : isEqualWith false false false (.model qa) (.model qb) = .error .value := by decide +kernel
example : isEqual (.model qa) (.model qb) = .ok false := by decide +kernel
def va : QModel := { kind := .qm, vars := [.str "a"], lin := [0], quad := [], off := 0, types := [(.str "a", .binary)] }
def vb : QModel := { kind := .view, vars := [.str "b"], lin := [5], quad := [], off := 0,
                     types := [(.str "a", .binary), (.str "b", .binary)] }
/-- D38: `{a: 0}.is_almost_equal(view of {b: 5})` was `True` (a view answers 0 for a parent variable it lacks) -/
example : isAlmostEqualWith true false true true 7 (.model va) (.model vb) = .ok true := by decide +kernel
example : isAlmostEqual 7 (.model va) (.model vb) = .ok false := by decide +kernel
/-- D26: a BQM was never almost-equal to a view -/
example : isAlmostEqualWith false true true true 7
    (.model { kind := .bqm .binary, vars := [.str "b"], lin := [5], quad := [], off := 0, types := [] }) (.model vb) = .ok false
  ∧ isAlmostEqual 7
    (.model { kind := .bqm .binary, vars := [.str "b"], lin := [5], quad := [], off := 0, types := [] }) (.model vb) = .ok true := by
  decide +kernel
/-- the open question of the design: two variable-free models of different vartype are *equal* -/
example : isEqual (.model { kind := .bqm .spin, vars := [], lin := [], quad := [], off := 1, types := [] })
    (.model { kind := .bqm .binary, vars := [], lin := [], quad := [], off := 1, types := [] }) = .ok true := by
  decide +kernel

/-! ## round 7: order independence and exact per-field sensitivity of the CQM comparison -/

/-- **Constraint order and variable order do not matter**: a CQM equals (and almost-equals, at every number of places) the
    same CQM with its constraints listed in any other order and its variable table in any other order. -/
theorem isEqual_cqm_order_independent (p : Nat) (a : CqmVal) (ha : CqmWFv a) (cons' : List CCons) (vars' : List (Label × VT4))
    (hc : a.cons.Perm cons') (hv : a.vars.Perm vars') :
    isEqual (.cqm a) (.cqm { a with cons := cons', vars := vars' }) = .ok true
    ∧ isEqual (.cqm { a with cons := cons', vars := vars' }) (.cqm a) = .ok true
    ∧ isAlmostEqual (p : Int) (.cqm a) (.cqm { a with cons := cons', vars := vars' }) = .ok true := by
  have hb : CqmWFv { a with cons := cons', vars := vars' } :=
    ⟨ha.obj, fun d hd => ha.cons d (hc.mem_iff.mpr hd), ((hc.map (·.label)).nodup_iff).mp ha.labels,
     ((hv.map Prod.fst).nodup_iff).mp ha.vars⟩
  have hcan : CqmCanonEq a { a with cons := cons', vars := vars' } := by
    refine ⟨CanonEq.rfl' _, fun v => lookup_perm hv ha.vars v, fun l => ?_⟩
    show match findCons a.cons l, findCons cons' l with
      | some c, some d => c.sense = d.sense ∧ c.rhs = d.rhs ∧ CanonEq c.lhs d.lhs
      | none, none => True
      | _, _ => False
    rw [← findCons_perm hc ha.labels l]
    exact (cqmCanonEq_refl a).cons l
  have h1 := (isEqual_iff_canon_cqm a _ ha hb).mpr hcan
  refine ⟨h1, ?_, ?_⟩
  · have := (symmetric_all_pairs 0 a.obj a.obj a _ ha.obj ha.obj ha hb).2.2.1
    rw [← this]; exact h1
  · apply (almostEqual_iff_cqm p a _ ha hb).mpr
    refine ⟨almostCanon_refl p _ ha.obj, fun v => lookup_perm hv ha.vars v, fun l => ?_⟩
    show match findCons a.cons l, findCons cons' l with
      | some c, some d => c.sense = d.sense ∧ roundsToZero (p : Int) (c.rhs - d.rhs) = true ∧ AlmostCanon p c.lhs d.lhs
      | none, none => True
      | _, _ => False
    rw [← findCons_perm hc ha.labels l]
    exact (cqmAlmostCanon_refl p a ha).cons l

/-- **Every field of every constraint, exactly.**  Replace the constraint stored under label `l` by `c'` (same label): the
    models are equal iff sense, right-hand side and left-hand side (canonically: labels, types, offset, every linear and every
    quadratic bias) are all unchanged — so a change of exactly one of them, in any constraint, wherever it stands in the order,
    gives `False`, in both argument orders. -/
theorem isEqual_cqm_constraint_field (a : CqmVal) (ha : CqmWFv a) (l : Label) (c c' : CCons) (hf : findCons a.cons l = some c)
    (hl : c'.label = l) (hw : WF c'.lhs) :
    (isEqual (.cqm a) (.cqm { a with cons := replaceCons a.cons l c' }) = .ok true
        ↔ c.sense = c'.sense ∧ c.rhs = c'.rhs ∧ CanonEq c.lhs c'.lhs)
    ∧ ((c.sense ≠ c'.sense ∨ c.rhs ≠ c'.rhs ∨ ¬ CanonEq c.lhs c'.lhs) →
        isEqual (.cqm a) (.cqm { a with cons := replaceCons a.cons l c' }) = .ok false
        ∧ isEqual (.cqm { a with cons := replaceCons a.cons l c' }) (.cqm a) = .ok false) := by
  have hb : CqmWFv { a with cons := replaceCons a.cons l c' } := by
    refine ⟨ha.obj, fun d hd => ?_, by show ((replaceCons a.cons l c').map (·.label)).Nodup; rw [replaceCons_labels _ _ _ hl]; exact ha.labels, ha.vars⟩
    obtain ⟨d0, hd0, rfl⟩ := List.mem_map.mp hd
    split
    · exact hw
    · exact ha.cons d0 hd0
  have hfb : findCons (replaceCons a.cons l c') l = some c' := findCons_replace_same a.cons l c c' hl hf
  have hiff : isEqual (.cqm a) (.cqm { a with cons := replaceCons a.cons l c' }) = .ok true
      ↔ c.sense = c'.sense ∧ c.rhs = c'.rhs ∧ CanonEq c.lhs c'.lhs := by
    rw [isEqual_iff_canon_cqm a _ ha hb]
    constructor
    · intro h
      have := h.cons l
      simp only [] at this
      rw [hf, hfb] at this
      exact this
    · intro h
      refine ⟨CanonEq.rfl' _, fun _ => rfl, fun k => ?_⟩
      show match findCons a.cons k, findCons (replaceCons a.cons l c') k with
        | some c, some d => c.sense = d.sense ∧ c.rhs = d.rhs ∧ CanonEq c.lhs d.lhs
        | none, none => True
        | _, _ => False
      by_cases hk : k = l
      · subst hk; rw [hf, hfb]; exact h
      · rw [findCons_replace_other a.cons l k c' hl hk]
        exact (cqmCanonEq_refl a).cons k
  refine ⟨hiff, fun hne => ?_⟩
  have hfalse : isEqual (.cqm a) (.cqm { a with cons := replaceCons a.cons l c' }) = .ok false :=
    isEqual_sensitive_cqm a _ ha hb (Or.inr (Or.inr (Or.inr ⟨l, c, c', hf, hfb, hne⟩)))
  refine ⟨hfalse, ?_⟩
  have := (symmetric_all_pairs 0 a.obj a.obj a _ ha.obj ha.obj ha hb).2.2.1
  rw [← this]; exact hfalse

/-- the same for the objective, the variable table and the set of constraints: a CQM with another objective is equal iff the
    objectives are canonically equal; dropping a constraint, adding one under a new label, adding a variable (used or not) or
    giving one variable another type always gives `False`. -/
theorem isEqual_cqm_other_fields (a : CqmVal) (ha : CqmWFv a) :
    (∀ o', WF o' → (isEqual (.cqm a) (.cqm { a with obj := o' }) = .ok true ↔ CanonEq a.obj o'))
    ∧ (∀ l c, findCons a.cons l = some c →
        isEqual (.cqm a) (.cqm { a with cons := a.cons.filter (fun d => !decide (d.label = l)) }) = .ok false)
    ∧ (∀ c', findCons a.cons c'.label = none → WF c'.lhs →
        isEqual (.cqm a) (.cqm { a with cons := a.cons ++ [c'] }) = .ok false)
    ∧ (∀ v t, QModel.lookup a.vars v = none → isEqual (.cqm a) (.cqm { a with vars := a.vars ++ [(v, t)] }) = .ok false)
    ∧ (∀ v t t', QModel.lookup a.vars v = some t → t' ≠ t →
        isEqual (.cqm a) (.cqm { a with vars := a.vars.map (fun p => if p.1 = v then (v, t') else p) }) = .ok false) := by
  refine ⟨fun o' ho' => ?_, fun l c hf => ?_, fun c' hf hw => ?_, fun v t hv => ?_, fun v t t' hv hne => ?_⟩
  · have hb : CqmWFv { a with obj := o' } := ⟨ho', ha.cons, ha.labels, ha.vars⟩
    rw [isEqual_iff_canon_cqm a _ ha hb]
    constructor
    · intro h; exact h.obj
    · intro h
      exact ⟨h, fun _ => rfl, (cqmCanonEq_refl a).cons⟩
  · have hb : CqmWFv { a with cons := a.cons.filter (fun d => !decide (d.label = l)) } :=
      ⟨ha.obj, fun d hd => ha.cons d (List.mem_filter.mp hd).1,
       (ha.labels.sublist ((List.filter_sublist).map _)), ha.vars⟩
    apply isEqual_sensitive_cqm a _ ha hb
    refine Or.inr (Or.inr (Or.inl ⟨l, ?_⟩))
    rw [hf]
    have : findCons (a.cons.filter (fun d => !decide (d.label = l))) l = none := by
      unfold findCons
      rw [List.find?_eq_none]
      intro d hd
      have := (List.mem_filter.mp hd).2
      simpa using this
    show (some c).isSome ≠ (findCons (a.cons.filter (fun d => !decide (d.label = l))) l).isSome
    rw [this]; simp
  · have hnot : c'.label ∉ a.cons.map (·.label) := by
      intro hm
      obtain ⟨d, hd, hdl⟩ := List.mem_map.mp hm
      unfold findCons at hf
      rw [List.find?_eq_none] at hf
      exact absurd (by simpa using hdl) (hf d hd)
    have hb : CqmWFv { a with cons := a.cons ++ [c'] } := by
      refine ⟨ha.obj, fun d hd => ?_, ?_, ha.vars⟩
      · rcases List.mem_append.mp hd with h | h
        · exact ha.cons d h
        · rw [List.mem_singleton.mp h]; exact hw
      · show ((a.cons ++ [c']).map (·.label)).Nodup
        rw [List.map_append, List.nodup_append]
        refine ⟨ha.labels, by simp, ?_⟩
        intro x hx y hy
        simp only [List.map_cons, List.map_nil, List.mem_singleton] at hy
        rw [hy]; exact fun e => hnot (e ▸ hx)
    apply isEqual_sensitive_cqm a _ ha hb
    refine Or.inr (Or.inr (Or.inl ⟨c'.label, ?_⟩))
    have : findCons (a.cons ++ [c']) c'.label = some c' := by
      unfold findCons at hf ⊢
      rw [List.find?_append, hf]
      simp
    show (findCons a.cons c'.label).isSome ≠ (findCons (a.cons ++ [c']) c'.label).isSome
    rw [hf, this]; simp
  · have hnot : v ∉ a.vars.map Prod.fst := by
      intro hm
      rw [Eqm.lookup_eq_find?] at hv
      obtain ⟨p, hp, hpv⟩ := List.mem_map.mp hm
      have : a.vars.find? (fun p => decide (p.1 = v)) = none := by
        cases hfd : a.vars.find? (fun p => decide (p.1 = v)) with
        | none => rfl
        | some q => rw [hfd] at hv; simp at hv
      rw [List.find?_eq_none] at this
      exact absurd (by simpa using hpv) (this p hp)
    have hb : CqmWFv { a with vars := a.vars ++ [(v, t)] } := by
      refine ⟨ha.obj, ha.cons, ha.labels, ?_⟩
      show ((a.vars ++ [(v, t)]).map Prod.fst).Nodup
      rw [List.map_append, List.nodup_append]
      refine ⟨ha.vars, by simp, ?_⟩
      intro x hx y hy
      simp only [List.map_cons, List.map_nil, List.mem_singleton] at hy
      rw [hy]; exact fun e => hnot (e ▸ hx)
    apply isEqual_sensitive_cqm a _ ha hb
    refine Or.inl ⟨v, ?_⟩
    show QModel.lookup a.vars v ≠ QModel.lookup (a.vars ++ [(v, t)]) v
    rw [hv, lookup_eq_find?, List.find?_append]
    have : a.vars.find? (fun p => decide (p.1 = v)) = none := by
      rw [Eqm.lookup_eq_find?] at hv
      cases hfd : a.vars.find? (fun p => decide (p.1 = v)) with
      | none => rfl
      | some q => rw [hfd] at hv; simp at hv
    rw [this]; simp
  · have hkeys : (a.vars.map (fun p => if p.1 = v then (v, t') else p)).map Prod.fst = a.vars.map Prod.fst := by
      rw [List.map_map]
      apply List.map_congr_left
      intro p _
      by_cases h : p.1 = v <;> simp [Function.comp, h]
    have hb : CqmWFv { a with vars := a.vars.map (fun p => if p.1 = v then (v, t') else p) } :=
      ⟨ha.obj, ha.cons, ha.labels, by show ((a.vars.map _).map Prod.fst).Nodup; rw [hkeys]; exact ha.vars⟩
    apply isEqual_sensitive_cqm a _ ha hb
    refine Or.inl ⟨v, ?_⟩
    show QModel.lookup a.vars v ≠ QModel.lookup (a.vars.map (fun p => if p.1 = v then (v, t') else p)) v
    rw [hv]
    have : QModel.lookup (a.vars.map (fun p => if p.1 = v then (v, t') else p)) v = some t' := lookup_retype t' v a.vars t hv
    rw [this]
    exact fun e => hne (Option.some.inj e).symm

/-- **The comparison IS what the source's conjunct list says** (tie to the code: `Generated/EqFields.lean` is rewritten on every
    run by `harness/translators/c18_cqm_fields.py` from the `return (… and …)` chains of `ConstrainedQuadraticModel.is_equal` /
    `is_almost_equal` and of their nested `constraint_eq`).  Interpreting those lists conjunct by conjunct, left to right with
    short-circuit `and` (`Eqm.cqmCmpBy`: objective, variable set, per-variable types, constraint labels, then per constraint
    sense, lhs, rhs), gives exactly the modelled comparison `cqmCmp` — hence `is_equal` and `is_almost_equal` of the model, to
    which every theorem of this file applies; both methods start with the `isinstance` guard.  Dropping, adding or reordering a
    conjunct in the source changes the generated lists and breaks this theorem. -/
theorem generated_comparison_is_the_model (p : Int) (a b : CqmVal) :
    Generated.EqFields.isEqualGuard = true ∧ Generated.EqFields.almostGuard = true
    ∧ isEqual (.cqm a) (.cqm b)
        = cqmCmpBy Generated.EqFields.isEqualTop Generated.EqFields.isEqualCons
            (fun x y => modelIsEqualWith true x (.model y)) (fun x y => decide (x = y)) a b
    ∧ isAlmostEqual p (.cqm a) (.cqm b)
        = cqmCmpBy Generated.EqFields.almostTop Generated.EqFields.almostCons
            (fun x y => modelAlmostWith true true p x (.model y)) (fun x y => roundsToZero p (x - y)) a b := by
  refine ⟨rfl, rfl, ?_, ?_⟩
  · show cqmIsEqualWith true true true a (.cqm b) = _
    rw [cqmIsEqual_eq_cmp]
    exact (cqmCmpBy_eq "rhs exact" (Or.inl rfl) _ _ a b).symm
  · show cqmAlmostWith true true true true p a (.cqm b) = _
    rw [cqmAlmost_eq_cmp]
    exact (cqmCmpBy_eq "rhs rounded" (Or.inr rfl) _ _ a b).symm

/-- **Scope of the comparison (recorded, not part of the property's list).**  `is_equal` / `is_almost_equal` read of a CQM only
    `CqmFull.observed`: two CQMs that differ ONLY in a soft weight, a penalty type, a discrete mark or a variable bound have the
    same observed value, so every comparison involving one gives the answer it gives for the other. -/
theorem isEqual_scope_recorded (p : Int) (a b : CqmFull) (x : Obj) (h : a.observed = b.observed) :
    isEqual (.cqm a.observed) x = isEqual (.cqm b.observed) x
    ∧ isEqual x (.cqm a.observed) = isEqual x (.cqm b.observed)
    ∧ isAlmostEqual p (.cqm a.observed) x = isAlmostEqual p (.cqm b.observed) x := by
  rw [h]; exact ⟨rfl, rfl, rfl⟩

/-- two CQMs differing only in a weight and a bound are observed alike -/
example : (⟨[(.str "i", .integer, 0, 5)], qa, [⟨⟨.str "c", .le, 1, qa⟩, some 2, false, false⟩]⟩ : CqmFull).observed
    = (⟨[(.str "i", .integer, 0, 9)], qa, [⟨⟨.str "c", .le, 1, qa⟩, none, false, false⟩]⟩ : CqmFull).observed := rfl

end C18
