import DimodProofs.Penalty
import DimodProofs.Slack
import DimodProofs.Ineq
import DimodProofs.Encoding
import DimodProofs.CqmToBqm
import DimodProofs.CqmIneq
import DimodProofs.CqmFold
import DimodProofs.CqmFeasible
import DimodProofs.DqmAdj
import DimodProofs.DqmEnergy
import DimodProofs.IneqCoded
import DimodProofs.DqmIneq
import DimodProofs.CqmSlackFresh
import DimodProofs.InverterOnto
import DimodProofs.InverterOnto2
import DimodProofs.PenaltyOpts
import DimodProofs.PenaltyLog10
import DimodProofs.PenaltyMultipliers

/-! # C16 — constraint-to-penalty conversions penalise exactly the violating assignments

Models: `DimodModel/Penalty.lean` (namespace `Pen`).  A piece of dimod code is modelled by the *bag* of
mutator calls it makes (`PTerm`), `Bq.apply` is what those calls do to a `BinaryQuadraticModel`
(C++ `add_quadratic` folding self-loops by vartype), `Bq.energy` the energy of the resulting state,
`lsum x terms = Σ aᵢ·x(vᵢ)` over *positions* (repeated labels allowed).  -/

namespace C16
open Pen

/-! ## `add_linear_equality_constraint` adds exactly `λ(Σ aᵢxᵢ + C)²` — three implementations + views + DQM -/

/-- Cython (`cybqm_template.pyx.pxi`), BINARY or SPIN model, any initial state, any term list -/
theorem eq_constraint_adds_square_cy (b : Bq Label) (x : Label → Rat) (hx : Dom b.vt x)
    (terms : List (Label × Rat)) (lam C : Rat) :
    (b.apply (eqTermsCy b.vt terms lam C)).energy x
      = b.energy x + lam * ((lsum x terms + C) * (lsum x terms + C)) := by
  rw [apply_energy b x hx, eqTermsCy_eval b.vt x hx]

/-- Python fallback (object dtype), as repaired for D22: labels are merged first -/
theorem eq_constraint_adds_square_py (b : Bq Label) (x : Label → Rat) (hx : Dom b.vt x)
    (terms : List (Label × Rat)) (lam C : Rat) :
    (b.apply (eqTermsPy b.vt terms lam C)).energy x
      = b.energy x + lam * ((lsum x terms + C) * (lsum x terms + C)) := by
  rw [apply_energy b x hx, eqTermsPy_eval b.vt x hx]

/-- fallback through a `.spin` / `.binary` view: `b` is the underlying data (of the *other* vartype),
    `x` a sample of the data, `viewSample view x` the same sample as the view shows it -/
theorem eq_constraint_adds_square_view (view : VT) (b : Bq Label) (hb : b.vt = otherVT view) (x : Label → Rat) (hx : Dom b.vt x)
    (terms : List (Label × Rat)) (lam C : Rat) :
    (b.apply (eqTermsView view terms lam C)).energy x
      = b.energy x + lam * ((lsum (viewSample view x) terms + C) * (lsum (viewSample view x) terms + C)) := by
  rw [apply_energy b x hx, eqTermsView_eval view x (hb ▸ hx)]

/-- DQM (`cydiscrete_quadratic_model.pyx`): `b` is the case-level BINARY model, `x` a one-hot sample
    over global case indices, `r` the resolved `(global case, bias)` list (repeats allowed) -/
theorem eq_constraint_adds_square_dqm (nc : List Nat) (b : Bq Nat) (hb : b.vt = .binary) (x : Nat → Rat) (hx : OneHot nc x)
    (r : List (Nat × Rat)) (lam C : Rat) :
    (b.apply (dqmEqTermsOf nc lam C (mergeAdj (sortByCase r)))).energy x
      = b.energy x + lam * ((lsum x r + C) * (lsum x r + C)) := by
  rw [apply_energy b x (by rw [hb]; exact hx.1), dqmEqTerms_eval nc x hx]

/-- D22 (before the repair): the raw fallback loop treats two *positions* with the same label as the
    diagonal — concrete witness `[(0,-1),(0,-1),(2,-3)]`, `λ = 2`, `C = 1`, sample `x ≡ 1` -/
theorem py_fallback_unmerged_wrong :
    evalBag (fun _ => (1 : Rat)) (eqTermsPyUnmerged .binary [(.int 0, -1), (.int 0, -1), (.int 2, -3)] 2 1)
      ≠ 2 * ((lsum (fun _ => (1 : Rat)) [(Label.int 0, (-1 : Rat)), (.int 0, -1), (.int 2, -3)] + 1)
              * (lsum (fun _ => (1 : Rat)) [(Label.int 0, (-1 : Rat)), (.int 0, -1), (.int 2, -3)] + 1)) := by
  decide +kernel

/-- … and it is right whenever no label repeats -/
theorem py_fallback_unmerged_ok_when_distinct (vt : VT) (x : Label → Rat) (hx : Dom vt x) (terms : List (Label × Rat)) (lam C : Rat)
    (hnd : (terms.map (·.1)).Nodup) :
    evalBag x (eqTermsPyUnmerged vt terms lam C) = lam * ((lsum x terms + C) * (lsum x terms + C)) :=
  eqTermsPyUnmerged_eval vt x hx terms lam C hnd

/-! ## DQM: the variable-level adjacency `adj_` that `energies()` iterates over -/

/-- the coded sorted merge ("finally fix the adjacency"): after `add_linear_equality_constraint`, for every
    variable `i`, `adj_[i]` holds its old neighbours plus — when `i` is a constraint variable — every other
    constraint variable, nothing else, and stays strictly increasing (the energy loop stops at the first
    neighbour above `u`).  `vars = sortedVars ncases merged_terms` is strictly increasing by
    `dqm_constraint_variables_sorted`. -/
theorem dqm_adjacency_merge_spec (adj : List (List Nat)) (vars : List Nat) (hv : StrictSorted vars) (i : Nat) (hi : i < adj.length) :
    (∀ w, w ∈ (adjUpdate adj vars).getD i [] ↔ (w ∈ adj.getD i [] ∨ (i ∈ vars ∧ w ∈ vars ∧ w ≠ i)))
    ∧ (StrictSorted (adj.getD i []) → StrictSorted ((adjUpdate adj vars).getD i [])) :=
  adjUpdate_spec adj vars hv i hi

theorem dqm_constraint_variables_sorted (nc : List Nat) (m : List (Nat × Rat)) :
    StrictSorted (sortedVars nc m) ∧ ∀ w, w ∈ sortedVars nc m ↔ ∃ t ∈ m, varOfCase nc t.1 = w :=
  sortedVars_spec nc m

/-- `energies()` as coded — it walks the variable-level adjacency `adj_`, adding the case-pair bias of every
    *adjacent* variable pair — equals the case-level energy at the sample's one-hot indicator on every
    well-formed DQM (`Dqm.WF`: unique keys, strictly sorted adjacency lists, every stored interaction joins
    cases of two mutually adjacent variables) -/
theorem dqm_energies_as_coded (d : Dqm) (hwf : d.WF) (s : List Nat) (hv : ValidSample d.ncases s) :
    d.energyCoded s = d.bq.energy (indic d.ncases s) := energyCoded_eq d hwf s hv

/-- the constraint keeps a DQM well formed: in particular the merge into `adj_` makes every pair of
    constraint variables adjacent, so that no new interaction is invisible to `energies()` -/
theorem dqm_wellformed_preserved (d : Dqm) (hwf : d.WF) (hlen : d.adj.length = d.ncases.length)
    (terms : List (Nat × Nat × Rat)) (lam C : Rat) (d' : Dqm) (h : dqmAddEq d terms lam C = some d') :
    d'.WF ∧ d'.adj.length = d'.ncases.length ∧ d'.ncases = d.ncases := dqmAddEq_wf d hwf hlen terms lam C d' h

/-- **DQM, through `energies()`**: on any well-formed DQM (pre-existing biases and adjacency on any superset
    of variables), `add_linear_equality_constraint` makes the energy that `energies()` reports grow by exactly
    `λ(Σ aₖ·[case k chosen] + C)²` at every sample (repeated `(variable, case)` entries included) -/
theorem eq_constraint_adds_square_dqm_energies (d : Dqm) (hwf : d.WF) (hlen : d.adj.length = d.ncases.length) (hvt : d.bq.vt = .binary)
    (terms : List (Nat × Nat × Rat)) (lam C : Rat) (d' : Dqm) (h : dqmAddEq d terms lam C = some d')
    (s : List Nat) (hv : ValidSample d.ncases s) :
    ∃ r, dqmResolve d.ncases terms = some r
      ∧ d'.energyCoded s = d.energyCoded s
          + lam * ((lsum (indic d.ncases s) r + C) * (lsum (indic d.ncases s) r + C)) :=
  dqm_energies_add_square d hwf hlen hvt terms lam C d' h s hv

/-! ## slack encodings -/

/-- log2 method (BQM and DQM) and `binary_encoding`: subset sums of the emitted coefficients are exactly `0..S` -/
theorem slack_log2_covers (S : Nat) (hS : 1 ≤ S) (t : Nat) : Reps (slackLog2 S) t ↔ t ≤ S := slack_covers S hS t

/-- linear method: the slack variable's value (`0` or one of the listed case values) is exactly `0..S` -/
theorem slack_linear_covers (S t : Nat) : (t = 0 ∨ t ∈ slackLinear S) ↔ t ≤ S := _root_.slack_linear_covers S t

/-- log10 method: every value `0..S` is reachable.  PARTIAL: "only values `0..S`" is false (D17, next theorem),
    so the log10 variant can give penalty 0 to sums below `lb`. -/
theorem slack_log10_covers_partial (S t : Nat) (h : t ≤ S) : RepsOH (slackLog10 S) t := slack_log10_covers S t h

/-- D17 witness: `S = 15` reaches 19 -/
theorem slack_log10_overshoots_witness : RepsOH (slackLog10 15) 19 ∧ ¬ (19 ≤ 15) := slack_log10_overshoots

/-! ## `add_linear_inequality_constraint` -/

/-- BQM slack method on a BINARY model, integer data, `λ ≥ 0`: penalty ≥ 0 everywhere; ≥ λ at every
    sample (any slack bits) violating `lb ≤ Σ aᵢzᵢ + c ≤ ub`; and 0 for a suitable choice of the slack
    bits at every sample satisfying it.  Hypotheses on labels: the slack labels are pairwise distinct
    and none of them occurs in `terms` (the code does not check this). -/
theorem ineq_penalty_zero_iff (terms : List (Label × Int)) (c lb ub : Int) (lam : Rat) (hlam : 0 ≤ lam)
    (ubc lbc : Int) (S : Nat) (hplan : ineqPlan (terms.map (·.2)) c lb ub = .slack ubc lbc S)
    (sl : List Label) (hlen : sl.length = (slackLog2 S).length) (hnd : sl.Nodup) (hfresh : ∀ t ∈ terms, t.1 ∉ sl)
    (z : Label → Int) (hz : Bin01 z) :
    0 ≤ slackPenalty terms sl S ubc lam z
    ∧ (¬ Feasible z terms c lb ub → lam ≤ slackPenalty terms sl S ubc lam z)
    ∧ (Feasible z terms c lb ub →
        ∃ z', Bin01 z' ∧ (∀ v, v ∉ sl → z' v = z v) ∧ slackPenalty terms sl S ubc lam z' = 0) :=
  ineq_bqm_slack terms c lb ub lam hlam ubc lbc S hplan sl hlen hnd hfresh z hz

/-- the `slack_upper_bound == 0` branch: plain equality constraint, 0 exactly on feasible samples, ≥ λ elsewhere -/
theorem ineq_penalty_zero_iff_equality (terms : List (Label × Int)) (c lb ub : Int) (lam : Rat) (hlam : 0 ≤ lam)
    (ubc : Int) (hplan : ineqPlan (terms.map (·.2)) c lb ub = .equality ubc) (z : Label → Int) (hz : Bin01 z) :
    let pen := evalBag (toRat z) (eqTermsCy .binary (castTerms terms) lam (((-ubc : Int)) : Rat))
    (Feasible z terms c lb ub → pen = 0) ∧ (¬ Feasible z terms c lb ub → lam ≤ pen) :=
  ineq_bqm_equality terms c lb ub lam hlam ubc hplan z hz

/-- value-level form used for the DQM variants (log2: `Vals = Reps (slackLog2 S)`; linear:
    `Vals t = (t = 0 ∨ t ∈ slackLinear S)`): `T` is the value of the linear form at a one-hot sample,
    which lies within the term bounds because every case indicator is 0/1 -/
theorem ineq_penalty_zero_iff_dqm_log2 (coeffs : List Int) (c lb ub T : Int) (hlo : sumNeg coeffs ≤ T) (hhi : T ≤ sumPos coeffs)
    (ubc lbc : Int) (S : Nat) (hplan : ineqPlan coeffs c lb ub = .slack ubc lbc S) :
    ((lb ≤ T + c ∧ T + c ≤ ub) ↔ ∃ t, Reps (slackLog2 S) t ∧ (T + t - ubc) * (T + t - ubc) = 0)
    ∧ (¬ (lb ≤ T + c ∧ T + c ≤ ub) → ∀ t, Reps (slackLog2 S) t → 1 ≤ (T + t - ubc) * (T + t - ubc)) := by
  have hS : 1 ≤ S := by
    have := ineqPlan_sound coeffs c lb ub T hlo hhi
    rw [hplan] at this; exact this.1
  exact slack_value_iff coeffs c lb ub T hlo hhi ubc lbc S hplan _ (fun t => slack_covers S hS t)

theorem ineq_penalty_zero_iff_dqm_linear (coeffs : List Int) (c lb ub T : Int) (hlo : sumNeg coeffs ≤ T) (hhi : T ≤ sumPos coeffs)
    (ubc lbc : Int) (S : Nat) (hplan : ineqPlan coeffs c lb ub = .slack ubc lbc S) :
    ((lb ≤ T + c ∧ T + c ≤ ub) ↔ ∃ t, (t = 0 ∨ t ∈ slackLinear S) ∧ (T + t - ubc) * (T + t - ubc) = 0)
    ∧ (¬ (lb ≤ T + c ∧ T + c ≤ ub) → ∀ t, (t = 0 ∨ t ∈ slackLinear S) → 1 ≤ (T + t - ubc) * (T + t - ubc)) :=
  slack_value_iff coeffs c lb ub T hlo hhi ubc lbc S hplan _ (fun t => _root_.slack_linear_covers S t)

/-- log10 variant, PARTIAL (D17): a satisfied constraint can be given penalty 0; nothing holds for violated ones -/
theorem ineq_penalty_zero_dqm_log10_partial (coeffs : List Int) (c lb ub T : Int) (hlo : sumNeg coeffs ≤ T) (hhi : T ≤ sumPos coeffs)
    (ubc lbc : Int) (S : Nat) (hplan : ineqPlan coeffs c lb ub = .slack ubc lbc S) :
    (lb ≤ T + c ∧ T + c ≤ ub) → ∃ t, RepsOH (slackLog10 S) t ∧ (T + t - ubc) * (T + t - ubc) = 0 :=
  slack_value_partial coeffs c lb ub T hlo hhi ubc lbc S hplan _ (fun t ht => slack_log10_covers S t ht)

/-- the methods refuse (`ValueError`) only constraints no 0/1 sample satisfies, and skip (add nothing)
    only constraints every 0/1 sample satisfies -/
theorem ineq_refuses_only_infeasible (terms : List (Label × Int)) (c lb ub : Int) (z : Label → Int) (hz : Bin01 z) :
    (ineqPlan (terms.map (·.2)) c lb ub = .infeasible → ¬ Feasible z terms c lb ub)
    ∧ (ineqPlan (terms.map (·.2)) c lb ub = .skip → Feasible z terms c lb ub) :=
  ineq_plan_refusal terms c lb ub z hz

/-! ## the two `add_linear_inequality_constraint`s end to end, as coded -/

/-- **which branch is taken** — the conditions of the code, on the bias list of *all* terms (for the DQM:
    of all `(variable, case, bias)` triples, repeated pairs included): `tu / tl` = sum of the positive /
    negative biases, `ub_c = min(tu, ub − c)`, `lb_c = max(tl, lb − c)`.  Skip iff `tu ≤ ub_c ∧ tl ≥ lb_c`;
    else `ValueError` iff `ub_c < lb_c`; else the equality short-cut iff the *tightened* range is empty
    (`ub_c = lb_c`, not `lb = ub`); else slack for `0 … ub_c − lb_c`. -/
theorem ineq_plan_as_coded (coeffs : List Int) (c lb ub : Int) (tu tl ubc lbc : Int)
    (htu : tu = sumPos coeffs) (htl : tl = sumNeg coeffs) (hubc : ubc = min tu (ub - c)) (hlbc : lbc = max tl (lb - c)) :
    (ineqPlan coeffs c lb ub = .skip ↔ (tu ≤ ubc ∧ tl ≥ lbc))
    ∧ (ineqPlan coeffs c lb ub = .infeasible ↔ (¬ (tu ≤ ubc ∧ tl ≥ lbc) ∧ ubc < lbc))
    ∧ (∀ u, ineqPlan coeffs c lb ub = .equality u ↔ (¬ (tu ≤ ubc ∧ tl ≥ lbc) ∧ ubc = lbc ∧ u = ubc))
    ∧ (∀ u l S, ineqPlan coeffs c lb ub = .slack u l S ↔
        (¬ (tu ≤ ubc ∧ tl ≥ lbc) ∧ lbc < ubc ∧ u = ubc ∧ l = lbc ∧ (S : Int) = ubc - lbc)) :=
  Pen.ineq_plan_as_coded coeffs c lb ub tu tl ubc lbc htu htl hubc hlbc

/-- the slack labels `slack_<label>_<j>` of the BQM method are pairwise different -/
theorem slack_labels_distinct (label : String) (S : Nat) : (slackLabels label S).Nodup := slackLabels_nodup label S

/-- **`BQM.add_linear_inequality_constraint` end to end** (`Pen.bqmIneq`: planning, slack labels and
    coefficients, the equality constraint on `terms + slack_terms` with constant `−ub_c`), BINARY model,
    `cross_zero=False`, integer data, `λ ≥ 0` — every outcome:
    skip ⇒ every 0/1 sample feasible; `ValueError` ⇒ none feasible; otherwise the added energy is ≥ 0, is ≥ λ
    at infeasible samples for all slack bits, and can be made 0 by the returned slack bits alone at
    feasible samples (equality short-cut: no slack, 0 exactly on the feasible samples).  The returned slack
    labels are pairwise distinct; hypothesis: they are not variables of `terms`. -/
theorem bqm_inequality_as_coded (label : String) (terms : List (Label × Int)) (lam : Rat) (hlam : 0 ≤ lam) (c lb ub : Int)
    (hfresh : ∀ S, ∀ t ∈ terms, t.1 ∉ slackLabels label S) :
    match bqmIneq label terms lam c lb ub false with
    | .skipped => ∀ z, Bin01 z → Feasible z terms c lb ub
    | .raises => ∀ z, Bin01 z → ¬ Feasible z terms c lb ub
    | .err => False
    | .ok bag sl =>
      (sl.map (·.1)).Nodup ∧ (∀ t ∈ terms, t.1 ∉ sl.map (·.1))
      ∧ ∀ z, Bin01 z →
        0 ≤ evalBag (toRat z) bag
        ∧ (¬ Feasible z terms c lb ub → lam ≤ evalBag (toRat z) bag)
        ∧ (Feasible z terms c lb ub →
            ∃ z', Bin01 z' ∧ (∀ v, v ∉ sl.map (·.1) → z' v = z v) ∧ evalBag (toRat z') bag = 0) :=
  bqmIneq_spec label terms lam hlam c lb ub hfresh

/-- the cases of the slack variables the DQM method creates (log2: one two-case variable per coefficient;
    linear: one variable with the cases `0 … S`) contribute exactly the totals `0 … S` -/
theorem dqm_slack_cases_cover (label method : String) (hm : method = "log2" ∨ method = "linear") (ubc lbc : Int) (S : Nat) (hS : 1 ≤ S) :
    let sv := dqmSlack label method ubc lbc S false
    (∀ sc, ValidSample (sv.map (·.ncases)) sc → ∃ t : Nat, t ≤ S ∧ slackValI sv sc = (t : Int))
    ∧ (∀ t : Nat, t ≤ S → ∃ sc, ValidSample (sv.map (·.ncases)) sc ∧ slackValI sv sc = (t : Int)) :=
  dqmSlack_covers label method hm ubc lbc S hS

/-- **`DQM.add_linear_inequality_constraint` on DQM samples** (`Pen.dqmIneq`: planning on the bias list of all
    triples — repeated `(variable, case)` pairs included —, the slack variables with their cases, the
    equality constraint on `terms + slack_terms`), log2 / linear, `cross_zero=False`, integer data, `λ ≥ 0`.
    `DFeas s` = `lb ≤ Σ bias·[s(v) = case] + c ≤ ub` at the sample `s` of the existing variables; `dqmPen` =
    energy added at the one-hot indicator of the extended sample `s ++ sc` (`sc` = cases of the slack
    variables).  Skip ⇒ every sample feasible; `ValueError` ⇒ none; otherwise `dqmPen ≥ 0` for every `sc`,
    `≥ λ` for every `sc` at infeasible `s`, `= 0` for some `sc` at feasible `s`.
    (`dqm_energies_as_coded` / `dqm_wellformed_preserved` carry this to what `energies()` reports.) -/
theorem ineq_penalty_zero_iff_dqm_samples (d : Dqm) (hvt : d.bq.vt = .binary) (method : String) (hm : method = "log2" ∨ method = "linear")
    (label : String) (terms : List (Nat × Nat × Int)) (hterms : ∀ t ∈ terms, t.1 < d.ncases.length)
    (lam : Rat) (hlam : 0 ≤ lam) (c lb ub : Int) :
    match dqmIneq d method label terms lam c lb ub false with
    | .skipped => ∀ s, ValidSample d.ncases s → DFeas terms c lb ub s
    | .raises => ∀ s, ValidSample d.ncases s → ¬ DFeas terms c lb ub s
    | .err => True
    | .ok d' sv =>
      d'.ncases = d.ncases ++ sv.map (·.ncases)
      ∧ ∀ s, ValidSample d.ncases s →
        (∀ sc, ValidSample (sv.map (·.ncases)) sc →
            0 ≤ dqmPen d d' (s ++ sc) ∧ (¬ DFeas terms c lb ub s → lam ≤ dqmPen d d' (s ++ sc)))
        ∧ (DFeas terms c lb ub s → ∃ sc, ValidSample (sv.map (·.ncases)) sc ∧ dqmPen d d' (s ++ sc) = 0) :=
  dqmIneq_spec d hvt method hm label terms hterms lam hlam c lb ub

/-! ## `binary_encoding` -/

/-- for every `ub ≥ 2` the bits of `binary_encoding(v, ub)` represent exactly the integers `0..ub`
    (with `Nat.log2`; the code's `math.floor(math.log2(ub))` is compared with it by the harness) -/
theorem binary_encoding_exact (v : Label) (ub : Nat) (l : List (Label × Nat)) (h : binaryEncoding v ub = some l) (t : Nat) :
    Reps (l.map (·.2)) t ↔ t ≤ ub := binaryEncoding_exact v ub l h t

theorem binary_encoding_refuses_iff (v : Label) (ub : Nat) : binaryEncoding v ub = none ↔ ub < 2 := binaryEncoding_refuses v ub

/-! ## `cqm_to_bqm`, `CQMToBQMInverter` -/

/-- `_qm_to_bqm` is substitution: the BINARY model of a quadratic model has, at every BQM sample, the energy
    of the quadratic model at the decoded sample (`x ↦ x`, `s ↦ 2x − 1`, `i ↦ Σ cⱼ·bitⱼ`) -/
theorem qm_to_bqm_substitutes (vars : List (Label × VKind)) (z : Label → Rat) (qm : QM) :
    evalBag z (qmToBag vars qm) = qmEnergy (decode vars z) qm := qmToBag_eval vars z qm

/-- `cqm_to_bqm_sound`, decomposition: whenever the conversion succeeds, at every 0/1 sample `z` of the BQM
    `E_bqm(z) = objective(decode z) + Σ (bags of the constraints)(z)`.  The constraint bags are
    `consBag`: an equality constraint contributes `λ(lhs(decode z) − rhs)²` (next theorem); a `≤`/`≥`
    constraint is, by definition of the model, `add_linear_inequality_constraint` on the merged
    per-bit linear terms with `constant = offset`, `lb`/`ub = rhs` — whose penalty is characterised by
    `ineq_penalty_zero_iff` / `ineq_penalty_zero_iff_equality` / `ineq_refuses_only_infeasible`.
    and composed for the CQM in `cqm_inequality_constraint_shape` / `cqm_inequality_constraint_penalty`.
    The statements over the whole constraint list are `cqm_to_bqm_sound_lower` (no label hypothesis),
    `cqm_to_bqm_sound_feasible` (under the distinct-labels hypothesis `Sep`) and the full `cqm_to_bqm_sound`
    (`Sep` proved from the label generation). -/
theorem cqm_to_bqm_energy_decomposition (q : CQM) (lam? : Option Rat) (b : Bq Label) (lam : Rat) (h : cqmToBqm q lam? = .ok (b, lam))
    (z : Label → Rat) (hz : Dom .binary z) :
    ∃ bags, consBags q.vars lam 0 q.cons = .ok bags
      ∧ b.energy z = qmEnergy (decode q.vars z) q.obj + evalBag z bags := cqmToBqm_energy q lam? b lam h z hz

/-- an equality constraint of the CQM contributes exactly `λ(lhs(decoded sample) − rhs)²`: 0 iff it holds -/
theorem cqm_equality_constraint_penalty (vars : List (Label × VKind)) (lam : Rat) (i : Nat) (c : Cons) (hs : c.sense = .eq)
    (bag : List (PTerm Label)) (h : consBag vars lam i c = .ok bag) (z : Label → Rat) (hz : Dom .binary z) :
    evalBag z bag = lam * ((qmEnergy (decode vars z) c.lhs - c.rhs) * (qmEnergy (decode vars z) c.lhs - c.rhs)) :=
  consBag_eq_eval vars lam i c hs bag h z hz

/-- the terms handed to the inequality method carry the constraint's left-hand side at the decoded sample -/
theorem cqm_constraint_terms (vars : List (Label × VKind)) (lhs : QM) (hq : lhs.quad = []) (z : Label → Rat) (hz : Dom .binary z) :
    lsum z (consLinear vars lhs).1 + (consLinear vars lhs).2 = qmEnergy (decode vars z) lhs := consLinear_eval vars lhs hq z hz

/-- the bag of a `≤` / `≥` constraint with integer data is, case by case on the planning step, nothing
    (every decoded sample satisfies it), a refusal, the equality penalty, or the slack penalty of
    `add_linear_inequality_constraint` on the per-bit terms with the slack labels `slack_c<i>_<j>` -/
theorem cqm_inequality_constraint_shape (vars : List (Label × VKind)) (lam : Rat) (i : Nat) (c : Cons) (hs : c.sense ≠ .eq) (hq : c.lhs.quad = [])
    (T : List (Label × Int)) (k r : Int)
    (hT : (consLinear vars c.lhs).1 = castTerms T) (hk : (consLinear vars c.lhs).2 = ((k : Int) : Rat)) (hr : c.rhs = ((r : Int) : Rat)) :
    match ineqPlan (T.map (·.2)) k (if c.sense = Sense.ge then r else INT64_MIN) (if c.sense = Sense.ge then INT64_MAX else r) with
    | .skip => consBag vars lam i c = .ok []
    | .infeasible => consBag vars lam i c = .error .infeasible
    | .equality ubc => consBag vars lam i c = .ok (eqTermsCy .binary (castTerms T) lam (((-ubc : Int)) : Rat))
    | .slack ubc _ S =>
      ∃ touch, consBag vars lam i c = .ok (touch ++ eqTermsCy .binary (castTerms (T ++ slackTerms (slackLabels s!"c{i}" S) S)) lam (((-ubc : Int)) : Rat))
        ∧ (∀ z, evalBag z touch = 0)
        ∧ (∀ t ∈ touch, ∃ l ∈ slackLabels s!"c{i}" S, t = PTerm.lin l 0) :=
  consBag_ineq vars lam i c hs hq T k r hT hk hr

/-- `cqm_to_bqm_sound`, the `≤` / `≥` constraints (slack case): ≥ 0 everywhere, ≥ λ wherever the decoded CQM
    sample violates the constraint (any slack bits), 0 for suitable slack bits wherever it holds.
    `isum z T + k` is the constraint's left-hand side at the decoded sample (`cqm_constraint_value_is_lhs`). -/
theorem cqm_inequality_constraint_penalty (vars : List (Label × VKind)) (lam : Rat) (hlam : 0 ≤ lam) (i : Nat) (c : Cons)
    (hs : c.sense ≠ .eq) (hq : c.lhs.quad = []) (T : List (Label × Int)) (k r : Int)
    (hT : (consLinear vars c.lhs).1 = castTerms T) (hk : (consLinear vars c.lhs).2 = ((k : Int) : Rat)) (hr : c.rhs = ((r : Int) : Rat))
    (hbound : INT64_MIN ≤ sumNeg (T.map (·.2)) + k ∧ sumPos (T.map (·.2)) + k ≤ INT64_MAX)
    (ubc lbc : Int) (S : Nat)
    (hplan : ineqPlan (T.map (·.2)) k (if c.sense = Sense.ge then r else INT64_MIN) (if c.sense = Sense.ge then INT64_MAX else r) = .slack ubc lbc S)
    (hnd : (slackLabels s!"c{i}" S).Nodup) (hfresh : ∀ t ∈ T, t.1 ∉ slackLabels s!"c{i}" S)
    (z : Label → Int) (hz : Bin01 z) :
    let sat : Prop := if c.sense = Sense.ge then r ≤ isum z T + k else isum z T + k ≤ r
    ∃ bag, consBag vars lam i c = .ok bag
      ∧ 0 ≤ evalBag (toRat z) bag
      ∧ (¬ sat → lam ≤ evalBag (toRat z) bag)
      ∧ (sat → ∃ z', Bin01 z' ∧ (∀ v, v ∉ slackLabels s!"c{i}" S → z' v = z v) ∧ evalBag (toRat z') bag = 0) :=
  cqm_ineq_slack vars lam hlam i c hs hq T k r hT hk hr hbound ubc lbc S hplan hnd hfresh z hz

theorem cqm_constraint_value_is_lhs (vars : List (Label × VKind)) (c : Cons) (hq : c.lhs.quad = [])
    (T : List (Label × Int)) (k : Int)
    (hT : (consLinear vars c.lhs).1 = castTerms T) (hk : (consLinear vars c.lhs).2 = ((k : Int) : Rat))
    (z : Label → Int) (hz : Bin01 z) :
    (((isum z T + k : Int)) : Rat) = qmEnergy (decode vars (toRat z)) c.lhs :=
  cqm_constraint_value vars c hq T k hT hk z hz

/-- **`cqm_to_bqm_sound`, lower bounds over the whole constraint list** (integer-coefficient linear constraints,
    `λ ≥ 0`): at every 0/1 sample of the BQM, for every value of the slack bits, the energy is at least the
    objective at the decoded (inverted) CQM sample, and at least `λ` more wherever that sample violates a constraint -/
theorem cqm_to_bqm_sound_lower (q : CQM) (lam : Rat) (hlam : 0 ≤ lam) (b : Bq Label) (h : cqmToBqm q (some lam) = .ok (b, lam))
    (hint : ∀ c ∈ q.cons, IntCons q.vars c) (z : Label → Int) (hz : Bin01 z) :
    qmEnergy (decode q.vars (toRat z)) q.obj ≤ b.energy (toRat z)
    ∧ ((∃ c ∈ q.cons, ¬ c.holdsAt (decode q.vars (toRat z))) → qmEnergy (decode q.vars (toRat z)) q.obj + lam ≤ b.energy (toRat z)) :=
  cqmToBqm_lower q lam hlam b h hint z hz

/-- **`cqm_to_bqm_sound`, feasible samples**: under the distinct-labels hypothesis `Sep` (every constraint's slack
    labels are pairwise distinct, differ from the protected labels `P` ⊇ bits of the objective and of all
    constraints, and from the slack labels of the other constraints — the real labels carry a fresh uuid per
    constraint): wherever the decoded CQM sample satisfies all constraints, the slack bits — and only they — can be
    set so that the BQM's energy equals the objective.  Together with the previous theorem: the energy minimised
    over the slack bits equals the objective at every feasible CQM assignment and exceeds it by ≥ λ at every
    infeasible one. -/
theorem cqm_to_bqm_sound_feasible (q : CQM) (lam : Rat) (hlam : 0 ≤ lam) (b : Bq Label) (h : cqmToBqm q (some lam) = .ok (b, lam))
    (hint : ∀ c ∈ q.cons, IntCons' q.vars c) (P : List Label)
    (hP : ∀ c ∈ q.cons, ∀ t ∈ intTerms q.vars c, t.1 ∈ P) (hPobj : ∀ l ∈ bagLabels (qmToBag q.vars q.obj), l ∈ P)
    (hsep : Sep q.vars P 0 q.cons)
    (z : Label → Int) (hz : Bin01 z) (hsat : ∀ c ∈ q.cons, c.holdsAt (decode q.vars (toRat z))) :
    ∃ z', Bin01 z' ∧ (∀ v, v ∉ slackAll q.vars 0 q.cons → z' v = z v)
      ∧ b.energy (toRat z') = qmEnergy (decode q.vars (toRat z)) q.obj :=
  cqmToBqm_feasible q lam hlam b h hint P hP hPobj hsep z hz hsat

/-! ### the slack labels as generated are separated: `cqm_to_bqm_sound` without a label hypothesis

The code draws the label of every `≤` / `≥` constraint from `new_variable_label()` (a uuid); the model draws the label
of the constraint at position `i` from the injective oracle `i ↦ "c<i>"` (the harness renames the uuids in order of
appearance).  All the proofs use of a uuid is: different constraints get different labels (proved for the oracle:
`slack_c<i>_<a> = slack_c<i'>_<b>` forces `i = i'`, `a = b`), and the name is not already a label of the caller's
CQM — the only hypothesis left (`hfresh`; the code does not check it either). -/

/-- the names `slack_c<i>_<j>` determine `i` and `j` -/
theorem cqm_slack_names_injective (i i' a b : Nat) (h : (s!"slack_{s!"c{i}"}_{a}" : String) = s!"slack_{s!"c{i'}"}_{b}") : i = i' ∧ a = b :=
  slack_name_inj i i' a b h

/-- **the separation hypothesis `Sep` holds for the labels as generated**: the slack labels of one constraint are
    pairwise different, different from those of every other constraint, and — given that no protected label has the
    shape of a generated slack name — not protected -/
theorem cqm_slack_labels_separated (vars : List (Label × VKind)) (P : List Label) (hP : ∀ l ∈ P, ¬ IsSlackName l) (i : Nat) (cons : List Cons) :
    Sep vars P i cons := sep_of_generated vars P hP i cons

/-- **`cqm_to_bqm_sound`** (integer-coefficient linear constraints, `λ ≥ 0`; binary, spin and zero-lower-bound integer
    variables).  Only hypothesis on labels: none of the CQM's own bit labels has the shape `slack_c<i>_<j>`.
    At every 0/1 sample `z` of the BQM, with `y = decode z` the inverted CQM sample:
    * `E_bqm(z) ≥ objective(y)` — for every value of the slack bits;
    * `E_bqm(z) ≥ objective(y) + λ` whenever `y` violates a constraint — for every value of the slack bits;
    * when `y` satisfies every constraint, the slack bits — and only they — can be set so that `E_bqm = objective(y)`.
    Hence the energy minimised over the slack bits equals the objective at every feasible CQM assignment and exceeds it
    by at least the multiplier at every infeasible one. -/
theorem cqm_to_bqm_sound (q : CQM) (lam : Rat) (hlam : 0 ≤ lam) (b : Bq Label) (h : cqmToBqm q (some lam) = .ok (b, lam))
    (hint : ∀ c ∈ q.cons, IntCons' q.vars c) (hfresh : ∀ l ∈ ownLabels q, ¬ IsSlackName l)
    (z : Label → Int) (hz : Bin01 z) :
    qmEnergy (decode q.vars (toRat z)) q.obj ≤ b.energy (toRat z)
    ∧ ((∃ c ∈ q.cons, ¬ c.holdsAt (decode q.vars (toRat z))) → qmEnergy (decode q.vars (toRat z)) q.obj + lam ≤ b.energy (toRat z))
    ∧ ((∀ c ∈ q.cons, c.holdsAt (decode q.vars (toRat z))) →
        ∃ z', Bin01 z' ∧ (∀ v, v ∉ slackAll q.vars 0 q.cons → z' v = z v)
          ∧ b.energy (toRat z') = qmEnergy (decode q.vars (toRat z)) q.obj) := by
  obtain ⟨h1, h2⟩ := cqmToBqm_lower q lam hlam b h (fun c hc => (hint c hc).toIntCons) z hz
  exact ⟨h1, h2, fun hsat => cqmToBqm_feasible_generated q lam hlam b h hint hfresh z hz hsat⟩

/-- the generated slack names never collide with integer, tuple or non-`slack_…` string labels — e.g. the bits
    `(v, c)` / `(v, c, "msb")` of `binary_encoding` and plain variable names are fresh in the sense of `hfresh` -/
theorem cqm_slack_name_shape (l : Label) (h : IsSlackName l) : ∃ s : String, l = .str s ∧ ∃ i a : Nat, s = s!"slack_{s!"c{i}"}_{a}" := by
  obtain ⟨i, S, hm⟩ := h
  unfold slackLabels at hm
  simp only [List.mem_map, List.mem_range] at hm
  obtain ⟨a, _, rfl⟩ := hm
  exact ⟨_, rfl, i, a, rfl⟩

theorem cqm_refuses_quadratic_constraint (vars : List (Label × VKind)) (lam : Rat) (i : Nat) (c : Cons) (h : c.lhs.quad ≠ []) :
    consBag vars lam i c = .error .quadraticConstraint := consBag_refuses_quadratic vars lam i c h

/-- `inverter_inverts`: the inverter returns the decoded sample — binary variables read their bit, spin
    variables `2·bit − 1 ∈ {−1, 1}`, integer variables the subset sum of the `binary_encoding` coefficients
    (which ranges over exactly `0..ub` by `binary_encoding_exact`) -/
theorem inverter_inverts (vars : List (Label × VKind)) (z : Label → Rat) :
    invert vars z = vars.map (fun p => (p.1, decode vars z p.1))
    ∧ (∀ v, kindOf vars v = some .binary → decode vars z v = z v)
    ∧ (∀ v, kindOf vars v = some .spin → (z v = 0 ∨ z v = 1) → (decode vars z v = -1 ∨ decode vars z v = 1))
    ∧ (∀ v lb ub bits, kindOf vars v = some (.integer lb ub) → binaryEncoding v ub.toNat = some bits →
          decode vars z v = lsum z (bits.map (fun b => (b.1, natRat b.2)))) :=
  ⟨invert_spec vars z, fun v h => decode_binary vars z v h, fun v h hz => decode_spin_dom vars z v h hz,
   fun v lb ub bits h hb => decode_integer vars z v lb ub h bits hb⟩

/-- **`cqm_to_bqm` refuses label conflicts** (as repaired, D64): whenever the conversion succeeds, no `binary_encoding` bit
    of any integer variable is itself a variable label of the CQM — so a BQM variable is either a CQM binary/spin
    variable or a bit of exactly one integer, never both -/
theorem cqm_to_bqm_bits_not_variables (q : CQM) (lam? : Option Rat) (b : Bq Label) (lam : Rat) (h : cqmToBqm q lam? = .ok (b, lam)) :
    ∀ v lb ub e, (v, VKind.integer lb ub) ∈ q.vars → binaryEncoding v ub.toNat = some e → ∀ bit ∈ e, bit.1 ∉ q.vars.map (·.1) := by
  unfold cqmToBqm at h
  split at h
  · simp at h
  · rename_i init hinit
    unfold cqmInitVars at hinit
    split at hinit
    · simp at hinit
    · rename_i bits hbits
      exact cqmInitBits_fresh _ q.vars bits hbits

/-- … and a CQM whose first integer has a bit labelled like one of the CQM's variables is refused with the
    "conflicting variables" error — e.g. integer `i` (upper bound 3) next to a binary variable `('i', 1)` -/
theorem cqm_to_bqm_conflict_witness :
    let q : CQM := { vars := [(.str "i", .integer 0 3), (.tup [.str "i", .int 1], .binary)],
                     obj := { lin := [(.str "i", 1), (.tup [.str "i", .int 1], 10)], quad := [], off := 0 }, cons := [] }
    (match cqmToBqm q (some 1) with
     | .error .conflict => true
     | _ => false) = true := by decide +kernel

/-- **inverter round trip, variable by variable**: every value of a CQM variable's domain is the inverter's image of
    some setting of *that variable's own* BQM bits, all other bits unchanged — binary: `0/1`; spin: `±1`; integer
    `0..ub` (through `binary_encoding`, whose bit labels are pairwise different).  With `inverter_inverts` (the inverter
    is `decode`, and lands in the domain): BQM samples map back to CQM samples, onto. -/
theorem inverter_round_trip (vars : List (Label × VKind)) (v : Label) (z : Label → Int) (hz : Bin01 z) :
    (kindOf vars v = some .binary → ∀ b : Bool,
        ∃ z', Bin01 z' ∧ (∀ l, l ≠ v → z' l = z l) ∧ decode vars (toRat z') v = (if b then 1 else 0))
    ∧ (kindOf vars v = some .spin → ∀ b : Bool,
        ∃ z', Bin01 z' ∧ (∀ l, l ≠ v → z' l = z l) ∧ decode vars (toRat z') v = (if b then 1 else -1))
    ∧ (∀ lb ub bits, kindOf vars v = some (.integer lb ub) → binaryEncoding v ub.toNat = some bits → ∀ t : Nat, t ≤ ub.toNat →
        ∃ z', Bin01 z' ∧ (∀ l, l ∉ bits.map (·.1) → z' l = z l) ∧ decode vars (toRat z') v = (((t : Nat) : Int) : Rat)) :=
  ⟨fun h b => inverter_reaches_binary vars v h z hz b, fun h b => inverter_reaches_spin vars v h z hz b,
   fun lb ub bits h hb t ht => inverter_reaches_integer vars v lb ub h bits hb z hz t ht⟩

/-- **the inverter is onto, all variables at once**: whenever `cqm_to_bqm` succeeds (variable labels pairwise
    different, as in every CQM), every assignment of the CQM variables within their domains (binary `0/1`, spin `±1`,
    integer `0..ub`) is the inverter's image of some 0/1 sample of the BQM.  Uses the conflict refusal (D64): the bits of
    different variables are pairwise disjoint, so each variable can be set without disturbing the others. -/
theorem inverter_onto (q : CQM) (lam? : Option Rat) (b : Bq Label) (lam : Rat) (h : cqmToBqm q lam? = .ok (b, lam))
    (hnd : (q.vars.map (·.1)).Nodup) (target : Label → Rat) (hdom : ∀ p ∈ q.vars, InDom p.2 (target p.1)) :
    ∃ z, Bin01 z ∧ ∀ p ∈ q.vars, decode q.vars (toRat z) p.1 = target p.1 := by
  unfold cqmToBqm at h
  split at h
  · simp at h
  · rename_i init hinit
    unfold cqmInitVars at hinit
    split at hinit
    · simp at hinit
    · rename_i bits hbits
      have hfresh := cqmInitBits_fresh _ q.vars bits hbits
      have henc := cqmInitBits_encodes _ q.vars bits hbits
      apply onto_aux q.vars target q.vars ?_ (pairwise_bits_disjoint q.vars hnd hfresh q.vars (fun p hp => hp) hnd) (fun _ => 0) (fun _ => Or.inl rfl)
      intro p hp
      refine ⟨kindOf_of_mem_nodup q.vars hnd p hp, hdom p hp, ?_⟩
      intro lb ub hk
      have : (p.1, VKind.integer lb ub) ∈ q.vars := by rw [← hk]; exact hp
      exact henc p.1 lb ub this

/-- the bit labels of `binary_encoding(v, ub)` are pairwise different -/
theorem binary_encoding_labels_distinct (v : Label) (ub : Nat) (l : List (Label × Nat)) (h : binaryEncoding v ub = some l) :
    (l.map (·.1)).Nodup := binaryEncoding_labels_nodup v ub l h

/-! ## non-vacuity -/

example : ineqPlan [2, -6, 2] 1 (-1) 9223372036854775807 = .slack 4 (-2) 6 := by decide
example : Reps (slackLog2 6) 5 := (slack_covers 6 (by decide) 5).2 (by decide)
example : binaryEncoding (.str "i") 6 = some [(.tup [.str "i", .int 1], 1), (.tup [.str "i", .int 2], 2), (.tup [.str "i", .int 3, .str "msb"], 3)] := by
  decide +kernel

end C16

/-! ## Round 7: the slack count as the source computes it, `cross_zero`, `penalization_method`

`harness/translators/slack_rule.py` extracts from the three sources how `floor(log2 S)` is computed (`num_slack` of both
`add_linear_inequality_constraint`s, `max_pow` of `binary_encoding`), the remainder rule, the coefficient and guards of the
extra `cross_zero` variable, the method dispatch and the parameter defaults into `Generated.SlackRule`; the theorems below are
stated over these constants.  With the float pipeline (`int(np.floor(np.log2(S)))`, `math.floor(math.log2(ub))`) the count is
one too large for `S` just below `2^k`, `k ≥ 50` (genuine defect D65g, repaired: `S.bit_length() - 1`). -/

namespace C16
open Pen Generated.SlackRule

/-- **the slack / bit count of the source is the exact one**, and over it the three coefficient lists are the modelled
    ones — whatever the (unmodelled) float `log2` `fl` would have returned -/
theorem slack_count_rule_from_source :
    bqmNumSlack = .bitLength ∧ dqmNumSlack = .bitLength ∧ encMaxPow = .bitLength ∧
    (∀ (fl : Nat → Nat) (S : Nat), 1 ≤ S → slackLog2Bqm fl S = slackLog2 S ∧ slackLog2Dqm fl S = slackLog2 S) ∧
    (∀ (fl : Nat → Nat) (v : Label) (ub : Nat) (l : List (Label × Nat)), 2 ≤ ub → binaryEncoding v ub = some l →
      encCoeffs fl ub = l.map (fun p => ((p.2 : Nat) : Int))) :=
  ⟨by decide, by decide, by decide, fun fl S hS => ⟨slackLog2Bqm_eq fl S hS, slackLog2Dqm_eq fl S hS⟩,
    fun fl v ub l h2 hl => encCoeffs_eq fl v ub h2 l hl⟩

/-- **which counts `n` are right** for `slack_coefficients = [2**j for j in range(n)] (+ [S − 2**n + 1] if S ≥ 2**n)`:
    `n = floor(log2 S)` gives exactly `0..S`; `n = floor(log2 S) + 1` still gives exactly `0..S` when `S = 2^n − 1`
    (no remainder, the powers alone); for every other overshoot (`S + 1 < 2^n`) the total `S + 1` is reachable, i.e. a
    violation by one is absorbed by the slack -/
theorem slack_count_characterised (n S : Nat) :
    (2^n ≤ S → S < 2^(n+1) → ∀ t, Reps (slackCoeffsBy n S) t ↔ t ≤ S) ∧
    (S + 1 = 2^n → ∀ t, Reps (slackCoeffsBy n S) t ↔ t ≤ S) ∧
    (S + 1 < 2^n → Reps (slackCoeffsBy n S) (S + 1)) :=
  ⟨fun h1 h2 t => coeffs_cover_exact n S h1 h2 t, fun h t => coeffs_cover_pow_pred n S h t, coeffs_overshoot n S⟩

/-- D65g, the concrete instance: `S = 2^50 − 2`, for which the float pipeline returns 50 (`Nat.log2 S = 49`): the slack
    reaches `S + 1`, and `binary_encoding(v, 2^50 − 2)` gets a most significant coefficient `≤ 0` (it is `−1`) -/
theorem float_log2_overshoot_witness :
    Nat.log2 (2^50 - 2) = 49 ∧ Reps (slackCoeffsBy 50 (2^50 - 2)) (2^50 - 2 + 1) ∧
    (∃ c ∈ encCoeffsBy 50 (2^50 - 2), c ≤ 0) ∧ ¬ (2^50 - 2 + 1 ≤ 2^50 - 2) :=
  ⟨by decide +kernel, coeffs_overshoot 50 (2^50 - 2) (by decide +kernel), enc_overshoot_nonpos 50 (2^50 - 2) (by decide +kernel),
    by decide +kernel⟩

/-- **`cross_zero=True` as coded (BQM)**: the returned slack terms are the plain ones plus — exactly when `lb_c > 0` —
    one variable `slack_<label>_<num_slack+1>` with coefficient `ub_c − S = lb_c`; the totals the slack terms can then take
    are `0..S` and `a..S+a` (`a` the extra coefficient), so the penalty vanishes for `Σ aᵢxᵢ ∈ [lb_c, ub_c] ∪ [0, S]` -/
theorem cross_zero_bqm_as_coded (label : String) (ubc lbc : Int) (S : Nat) :
    bqmSlack label ubc lbc S true =
      bqmSlack label ubc lbc S false ++
        (if zeroConstraintBy bqmZeroNeedsPositive true ubc lbc S then
          [(Label.str s!"slack_{label}_{Nat.log2 S + 1}", zeroCoefBy bqmZeroCoef ubc S)] else []) ∧
    (∀ a t, 1 ≤ S → (Reps (slackLog2 S ++ [a]) t ↔ t ≤ S ∨ (a ≤ t ∧ t ≤ S + a))) :=
  ⟨bqmSlack_cross label ubc lbc S, fun a t hS => cross_zero_values S hS a t⟩

/-- the documented meaning of `cross_zero` ("adds zero to the domain of constraint") is NOT what the BQM method does
    (open finding D66g): `5 ≤ a + 2b + 3c + 4d ≤ 8` with `cross_zero=True` returns the slack coefficients `[1, 2, 5]`
    and the sum `2` (neither `0` nor in `5..8`) is absorbed by the slack total `6 = 1 + 5` -/
theorem cross_zero_accepts_between_witness :
    ineqPlan [1, 2, 3, 4] 0 5 8 = .slack 8 5 3 ∧ (bqmSlack "c" 8 5 3 true).map (·.2) = [1, 2, 5] ∧
    Reps [1, 2, 5] (8 - 2) ∧ ¬ (5 ≤ 2) ∧ 2 ≠ 0 :=
  ⟨by decide, by decide +kernel, ⟨[true, false, true], rfl, rfl⟩, by decide, by decide⟩

/-- **`penalization_method='unbalanced'` as coded** (the always-satisfied / infeasible exits come first; nothing is
    returned; energy added `λ₀·Σaᵢzᵢ − ub_c + λ₁·(Σaᵢzᵢ − ub_c)²`, `ub_c = min(Σ⁺, ub − c)`) -/
theorem unbalanced_as_coded (label : String) (terms : List (Label × Int)) (l0 l1 : Rat) (c lb ub : Int) (cross : Bool) :
    match bqmIneqFull label terms (.pair l0 l1) c lb ub cross .unbalanced with
    | .skipped => ∀ z, Bin01 z → Feasible z terms c lb ub
    | .infeasible => ∀ z, Bin01 z → ¬ Feasible z terms c lb ub
    | .typeError => False
    | .badMethod => False
    | .ok bag sl => sl = [] ∧ ∀ z, Bin01 z →
        evalBag (toRat z) bag =
          l0 * ((isum z terms : Int) : Rat) - ((min (sumPos (terms.map (·.2))) (ub - c) : Int) : Rat)
            + l1 * (((isum z terms - min (sumPos (terms.map (·.2))) (ub - c)) * (isum z terms - min (sumPos (terms.map (·.2))) (ub - c)) : Int) : Rat) :=
  Pen.unbalanced_as_coded label terms l0 l1 c lb ub cross

/-- the method dispatch as coded: skip / infeasible whatever the method; unknown method and wrong multiplier shape are
    refused only after them; `'slack'` with a number is `bqmIneq` (to which `bqm_inequality_as_coded` applies) -/
theorem penalization_method_dispatch (label : String) (terms : List (Label × Int)) (lam : Lagrange) (c lb ub : Int) (cross : Bool) (m : PMethod) :
    (ineqPlan (terms.map (·.2)) c lb ub = .skip → bqmIneqFull label terms lam c lb ub cross m = .skipped) ∧
    (ineqPlan (terms.map (·.2)) c lb ub = .infeasible → bqmIneqFull label terms lam c lb ub cross m = .infeasible) ∧
    (ineqPlan (terms.map (·.2)) c lb ub ≠ .skip → ineqPlan (terms.map (·.2)) c lb ub ≠ .infeasible →
      (∀ name, m = .other name → bqmIneqFull label terms lam c lb ub cross m = .badMethod) ∧
      (∀ l, lam = .scalar l → m = .unbalanced → bqmIneqFull label terms lam c lb ub cross m = .typeError) ∧
      (∀ l bag sl, lam = .scalar l → m = .slack → bqmIneq label terms l c lb ub cross = .ok bag sl →
        bqmIneqFull label terms lam c lb ub cross m = .ok bag sl)) :=
  Pen.method_dispatch label terms lam c lb ub cross m

/-- **the energy the BQM method adds, as coded, for either value of `cross_zero`**: `λ·(Σaᵢzᵢ + Σbⱼsⱼ − ub_c)²` over the
    returned slack terms `(sⱼ, bⱼ)` at every 0/1 sample — with `cross_zero_bqm_as_coded` this says exactly which sums get
    penalty 0 when `cross_zero=True`: `[lb_c, ub_c]` and (if the extra variable was created) `[0, S]` -/
theorem inequality_energy_as_coded_any_cross (label : String) (terms : List (Label × Int)) (lam : Rat) (c lb ub : Int) (cross : Bool) :
    match bqmIneq label terms lam c lb ub cross with
    | .ok bag sl => ∀ z, Bin01 z →
        evalBag (toRat z) bag = lam * (((isum z terms + isum z sl - min (sumPos (terms.map (·.2))) (ub - c))
          * (isum z terms + isum z sl - min (sumPos (terms.map (·.2))) (ub - c)) : Int) : Rat)
    | _ => True :=
  Pen.bqmIneq_energy label terms lam c lb ub cross

/-- `cross_zero=True` as coded for the DQM log2 method: one more two-case variable whose case 1 carries `ub_c` (not
    `ub_c − S`), created whenever `lb_c > 0 or ub_c < 0` (no inner guard) — over the extracted constants -/
theorem cross_zero_dqm_as_coded (label : String) (ubc lbc : Int) (S : Nat) :
    (dqmSlack label "log2" ubc lbc S true).map (fun v => (v.label, v.ncases, v.cases)) =
      (dqmSlack label "log2" ubc lbc S false).map (fun v => (v.label, v.ncases, v.cases)) ++
        (if zeroConstraintBy dqmZeroNeedsPositive true ubc lbc S then
          [(s!"slack_{label}_{Nat.log2 S + 1}", 2, [(1, zeroCoefBy dqmZeroCoef ubc S)])] else []) :=
  Pen.dqmSlack_cross_labels label ubc lbc S

/-- **which sums `cross_zero=True` lets through, as coded** (BQM method, `λ > 0`): with the slack coefficients
    `slackLog2 S ++ [a]` on pairwise distinct fresh labels (what `cross_zero_bqm_as_coded` says is returned, `a = ub_c − S = lb_c`),
    the slack bits — and only they — can be set so that the added energy is 0 iff `Σaᵢzᵢ ∈ [ub_c − S, ub_c]` or
    `Σaᵢzᵢ ∈ [ub_c − S − a, ub_c − a]`; for `a = lb_c` the second interval is `[0, S]` (the documented meaning would be `{0}`) -/
theorem cross_zero_penalty_zero_iff (terms : List (Label × Int)) (lam : Rat) (hlam : 0 < lam) (ubc : Int) (S a : Nat) (hS : 1 ≤ S)
    (ls : List Label) (hlen : ls.length = (slackLog2 S ++ [a]).length) (hnd : ls.Nodup) (hfresh : ∀ t ∈ terms, t.1 ∉ ls)
    (z : Label → Int) (hz : Bin01 z) :
    (∃ z', Bin01 z' ∧ (∀ v, v ∉ ls → z' v = z v) ∧
      evalBag (toRat z') (eqTermsCy .binary (castTerms (terms ++ ls.zip ((slackLog2 S ++ [a]).map Int.ofNat))) lam (((-ubc : Int)) : Rat)) = 0)
    ↔ (ubc - S ≤ isum z terms ∧ isum z terms ≤ ubc) ∨ (ubc - S - a ≤ isum z terms ∧ isum z terms ≤ ubc - a) :=
  Pen.cross_zero_penalty_zero_iff terms lam hlam ubc S a hS ls hlen hnd hfresh z hz

/-- the hypotheses are met by the witness constraint `5 ≤ a + 2b + 3c + 4d ≤ 8`, `cross_zero=True`: labels as returned -/
example : ([Label.str "slack_c_0", .str "slack_c_1", .str "slack_c_2"].length = (slackLog2 3 ++ [5]).length) ∧
    [Label.str "slack_c_0", .str "slack_c_1", .str "slack_c_2"].Nodup ∧
    (∀ t ∈ [(Label.str "a", (1 : Int)), (.str "b", 2), (.str "c", 3), (.str "d", 4)],
      t.1 ∉ [Label.str "slack_c_0", .str "slack_c_1", .str "slack_c_2"]) ∧
    (bqmSlack "c" 8 5 3 true).map (·.1) = [Label.str "slack_c_0", .str "slack_c_1", .str "slack_c_2"] := by
  decide +kernel

/-- the extracted option surface: methods, defaults (`lb = int64 min` stands for −∞), coefficient / guard of `cross_zero` in
    the two implementations (they DIFFER: BQM `ub_c − S` guarded by `> 0`, DQM `ub_c` unguarded) -/
theorem inequality_options_from_source :
    penalizationMethods = ["slack", "unbalanced"] ∧ defaultLb = -9223372036854775808 ∧ defaultUb = 0 ∧
    defaultConstant = 0 ∧ defaultCrossZero = false ∧
    bqmZeroCoef = .ubcMinusS ∧ bqmZeroNeedsPositive = true ∧ dqmZeroCoef = .ubc ∧ dqmZeroNeedsPositive = false := by
  decide

/-- a constraint that is neither always satisfied nor infeasible (the `.ok` branch of the two theorems above) -/
example : ineqPlan [1, 2, 3] 0 2 4 = .slack 4 2 2 ∧ ineqPlan [1, 2, 3] 0 2 4 ≠ .skip ∧ ineqPlan [1, 2, 3] 0 2 4 ≠ .infeasible := by
  decide

/-! ## round 8: the number of `log10` slack variables (D75g)

`num_dqm_vars` was `int(np.ceil(np.log10(S + 1)))`: one short at `S = 10^15` and for `S = 10^k + d`, `k ≥ 16` (measured by the
harness every run); the source now computes `len(str(S))`, extracted by `harness/translators/slack_rule.py`. -/

/-- **the digit count of the source is the exact one** (`len(str(S))`, which IS the model's `clog10`), and over it the digit
    lists are the modelled ones — whatever the (unmodelled) float pipeline `fl` would have returned -/
theorem log10_count_rule_from_source :
    dqmNumDigits = .decimalDigits ∧
    (∀ (fl : Nat → Nat) (S : Nat), 1 ≤ S → slackLog10Dqm fl S = slackLog10 S) ∧
    (∀ S : Nat, 1 ≤ S → clog10 S = decDigits S ∧ 10 ^ (decDigits S - 1) ≤ S ∧ S < 10 ^ decDigits S) :=
  ⟨by decide, fun fl S h => slackLog10Dqm_eq fl S h (by decide),
    fun S h => ⟨clog10_eq_decDigits S h, (decDigits_spec S h).1, (decDigits_spec S h).2⟩⟩

/-- **which counts `n` are right** for the loop `for j in range(n)`: with the exact count every value `0..S` is reachable
    (that more is reachable is D17); with ANY count that is too small (`10^n ≤ S`) every reachable value is `< 10^n ≤ S`, so
    the slack `S` that the feasible assignment with `Σ aᵢxᵢ = lb_c` needs does not exist: a satisfying assignment is penalised -/
theorem log10_count_characterised (n S : Nat) :
    (n = clog10 S → ∀ t, t ≤ S → RepsOH (slackLog10By n S) t) ∧
    (10 ^ n ≤ S → ∀ t, RepsOH (slackLog10By n S) t → t < S) := by
  refine ⟨fun hn t ht => ?_, fun h t ht => ?_⟩
  · have := slack_log10_covers S t ht
    rw [hn]; simpa [slackLog10, slackLog10By] using this
  · have := slackLog10By_lt n S t ht; omega

/-- D75g, the concrete instance: `S = 10^15` has 16 digits; the float pipeline returned 15 (`log10(10^15 + 1)` rounds to
    `15.0`), and 15 digit variables reach at most `10^15 − 1` -/
theorem float_log10_undershoot_witness :
    decDigits (10 ^ 15) = 16 ∧ (∀ t, RepsOH (slackLog10By 15 (10 ^ 15)) t → t < 10 ^ 15) ∧
    (∀ t, t ≤ 10 ^ 15 → RepsOH (slackLog10By 16 (10 ^ 15)) t) := by
  have hd : decDigits (10 ^ 15) = 16 :=
    decDigits_unique (10 ^ 15) _ 16 (decDigits_spec (10 ^ 15) (by decide)) ⟨by decide, by decide⟩ (decDigits_pos _) (by decide)
  refine ⟨hd, fun t ht => (log10_count_characterised 15 (10 ^ 15)).2 (by decide) t ht, fun t ht => ?_⟩
  exact (log10_count_characterised 16 (10 ^ 15)).1 (by rw [clog10_eq_decDigits _ (by decide), hd]) t ht

/-! ## round 8: `unbalanced` with a multiplier list of any length (D76g) -/

/-- **a refused `unbalanced` call changes nothing**: the source reads both multipliers before the first change
    (`unbalancedChecksFirst`, extracted from the source), and over that rule a list of fewer than two multipliers ends in
    the always-satisfied / infeasible exit or in an `IndexError` with NOTHING added; with two or more multipliers the list
    form is the `.pair` form `unbalanced_as_coded` speaks about -/
theorem unbalanced_short_list_atomic :
    unbalancedChecksFirst = true ∧
    (∀ (label : String) (terms : List (Label × Int)) (lams : List Rat) (c lb ub : Int) (cross : Bool), lams.length < 2 →
      bqmUnbalancedL unbalancedChecksFirst label terms lams c lb ub cross = .skipped ∨
      bqmUnbalancedL unbalancedChecksFirst label terms lams c lb ub cross = .infeasible ∨
      bqmUnbalancedL unbalancedChecksFirst label terms lams c lb ub cross = .indexError []) ∧
    (∀ (label : String) (terms : List (Label × Int)) (l0 l1 : Rat) (rest : List Rat) (c lb ub : Int) (cross : Bool) bag sl,
      bqmIneqFull label terms (.pair l0 l1) c lb ub cross .unbalanced = .ok bag sl →
      bqmUnbalancedL unbalancedChecksFirst label terms (l0 :: l1 :: rest) c lb ub cross = .ok bag) :=
  ⟨by decide, fun label terms lams c lb ub cross h => unbalancedL_short_atomic label terms lams c lb ub cross h,
    fun label terms l0 l1 rest c lb ub cross bag sl h => unbalancedL_pair _ label terms l0 l1 rest c lb ub cross bag sl h⟩

/-- D76g, the concrete instance: WITHOUT the check a one-element list leaves the linear biases `3·4`, `3·2` and the offset `−3` in
    the model (the constraint `1 ≤ 4x + 2y ≤ 3` is neither always satisfied nor infeasible) -/
theorem unbalanced_half_applied_witness :
    ineqPlan [4, 2] 0 1 3 = .slack 3 1 2 ∧
    bqmUnbalancedL false "c" [(.str "x", 4), (.str "y", 2)] [3] 0 1 3 false ≠ .indexError [] := by
  refine ⟨by decide, ?_⟩
  simp [bqmUnbalancedL, show ineqPlan [4, 2] 0 1 3 = .slack 3 1 2 by decide]

end C16

section AxiomsR8
#print axioms C16.log10_count_rule_from_source
#print axioms C16.log10_count_characterised
#print axioms C16.float_log10_undershoot_witness
#print axioms C16.unbalanced_short_list_atomic
#print axioms C16.unbalanced_half_applied_witness
end AxiomsR8
