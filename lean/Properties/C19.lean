import DimodProofs.Store
import DimodProofs.Heap
import DimodProofs.HeapCache
import DimodProofs.CqmObs
import Generated.CqmFixCopy

/-! # C19 — copies and non-mutating variants are independent of the original

Model: `DimodModel/Store.lean` (`Store`): arrays are windows `(base, offset, stride, len)` into buffers;
basic slicing shares the buffer, integer-array / boolean indexing and `.copy()` allocate; `Variables` and
the `info` containers are object identities.  Each copy-producing `SampleSet` function is written with the
indexing form its source uses (`Op.run`).  The functional models of C04/C05/C14 give the *value* of a copy;
this file is about *aliasing*. -/

namespace C19
open Store SSM

/-- frame: a write through one array leaves every read through an array on another buffer unchanged -/
theorem frame_disjoint_bases (st : St) (a b : Arr) (i j : Nat) (v : Rat) (h : a.base ≠ b.base) :
    read (write st a i v) b j = read st b j :=
  read_write_other_base st a b i j v h

/-- … and within one buffer only the written cell changes -/
theorem frame_other_cell (st : St) (a b : Arr) (i j : Nat) (v : Rat) (h : a.addr i ≠ b.addr j) :
    read (write st a i v) b j = read st b j :=
  read_write_other_addr st a b i j v h

theorem write_is_seen (st : St) (a : Arr) (i : Nat) (v : Rat) : read (write st a i v) a i = v :=
  read_write_same st a i v

/-- every copy-producing function of `sampleset.py` (repaired code) returns an object whose record lives in
    a buffer of its own, with its own `Variables` and its own `info` dict; unless the function is one of
    the documented *shallow* copies, every container nested in `info` is new as well -/
theorem constructors_fresh (st : St) (o : Obj) (hs : Scoped st o) (op : Op) (hr : op.isRepaired = true)
    (st' : St) (r : Obj) (h : op.run st o = some (st', r)) :
    r.record.base ≠ o.record.base ∧ r.variables ≠ o.variables ∧ r.infoTop ≠ o.infoTop ∧
    (op.shallowInfo = false → ∀ n ∈ r.infoNested, n ∉ o.infoNested) := by
  obtain ⟨vals, mode, he, hm, _, _⟩ := run_shape st o op hr st' r h
  have := fresh_of_alloc st o hs vals mode
  have hr' : r = (construct (alloc st vals).1 o (alloc st vals).2 mode).2 := by rw [← he]
  rw [hr']
  exact ⟨this.1, this.2.1, this.2.2.1, fun hsh => this.2.2.2 (hm hsh)⟩

/-- hence no later write through either record is visible through the other -/
theorem copies_independent (st : St) (o : Obj) (hs : Scoped st o) (op : Op) (hr : op.isRepaired = true)
    (st' : St) (r : Obj) (h : op.run st o = some (st', r)) (i j : Nat) (v : Rat) :
    read (write st' r.record i v) o.record j = read st' o.record j ∧
    read (write st' o.record i v) r.record j = read st' r.record j := by
  have hf := (constructors_fresh st o hs op hr st' r h).1
  exact ⟨read_write_other_base st' _ _ i j v hf, read_write_other_base st' _ _ i j v (Ne.symm hf)⟩

/-- the call itself leaves the receiver's record bit-for-bit unchanged, and the result holds exactly the
    rows the function is specified to select -/
theorem copy_eq_expected (st : St) (o : Obj) (hs : Scoped st o) (op : Op) (hr : op.isRepaired = true)
    (st' : St) (r : Obj) (h : op.run st o = some (st', r)) :
    readAll st' o.record = readAll st o.record ∧ readAll st' r.record = op.expected st o := by
  obtain ⟨vals, mode, he, _, hsl, hex⟩ := run_shape st o op hr st' r h
  have hst : st' = (construct (alloc st vals).1 o (alloc st vals).2 mode).1 := by rw [← he]
  have hr' : r = (construct (alloc st vals).1 o (alloc st vals).2 mode).2 := by rw [← he]
  have hrec : r.record = (alloc st vals).2 := by rw [hr']; exact (construct_fresh _ o _ mode (fun _ _ => by
    have := hs.2.2.2 _ ‹_›; show _ < st.next + 1; omega) (by show _ < st.next + 1; have := hs.2.1; omega)
    (by show _ < st.next + 1; have := hs.2.2.1; omega)).1
  have hmem : st'.mem = (alloc st vals).1.mem := by rw [hst]; exact construct_mem _ _ _ _
  have hread : ∀ b : Arr, readAll st' b = readAll (alloc st vals).1 b := by
    intro b
    simp only [readAll]
    apply List.map_congr_left
    intro j _
    show st'.mem _ _ = (alloc st vals).1.mem _ _
    rw [hmem]
  refine ⟨by rw [hread, readAll_alloc_old st vals o.record hs.1], ?_⟩
  rw [hread, hrec, readAll_alloc_new]
  by_cases hsn : ∃ f sl, op = .sliceNone f sl
  · obtain ⟨f, sl, rfl⟩ := hsn
    simp only [Op.isRepaired] at hr
    subst hr
    obtain ⟨v, hv, rfl⟩ := hsl sl rfl
    simp only [Op.expected]
    exact readAll_basicSlice st o.record v sl hv
  · exact hex (fun f sl e => hsn ⟨f, sl, e⟩)

/-- functions that build one sample set from **several** (`concatenate`, with vartype coercion through
    `change_vartype(inplace=False)` and column re-ordering through `record.copy()` as coded): every buffer that
    existed before the call — all inputs, not only the first — reads the same afterwards, and the result's
    record is a new buffer -/
theorem all_inputs_unchanged (st : St) (first : Arr) (others : List (Arr × (Rat → Rat) × Bool × Bool)) :
    (∀ b : Arr, b.base < st.next → readAll (concatInputs st first others).1 b = readAll st b) ∧
    st.next ≤ (concatInputs st first others).2.base :=
  concatInputs_spec st first others

/-! ## model objects: (native handle, Variables object, views) -/

/-- every copy-producing call of the property's list on a BQM / QM / CQM — `copy()`, `copy.deepcopy`, pickling,
    construction from a model, `from_bqm` / `from_quadratic_model`, every `inplace=False` method (as coded: copy, then the
    in-place method on the copy) incl. `spin_to_binary` with and without SPIN variables, arithmetic operators incl.
    `0 + m`, `-m`, `+m` — returns an object whose native handle and `Variables` object are new cells holding the
    transformed content, and leaves every existing cell (the receiver's in particular) unchanged -/
theorem model_calls_fresh (st : MSt) (o : Mdl) (hs : MScoped st o) (f : List Rat → List Rat) (g : List Nat → List Nat)
    (c : MCall) (hc : c ≠ .view) :
    let r := c.run st o f g
    r.2.handle ≠ o.handle ∧ r.2.variables ≠ o.variables ∧ r.2.handle ≠ o.variables ∧ r.2.variables ≠ o.handle ∧
    st.next ≤ r.2.handle ∧ st.next ≤ r.2.variables ∧
    r.1.native o.handle = st.native o.handle ∧ r.1.vars o.variables = st.vars o.variables ∧
    r.1.native r.2.handle = f (st.native o.handle) ∧ r.1.vars r.2.variables = g (st.vars o.variables) := by
  intro r
  have hrun : r = freshFrom st o f g := by cases c <;> first | rfl | exact absurd rfl hc
  obtain ⟨⟨_, hn, hv⟩, h1, h2, h3, h4⟩ := freshFrom_spec st o f g
  rw [hrun, h1, h2] at *
  have := hs.1; have := hs.2
  refine ⟨by omega, by omega, by omega, by omega, Nat.le_refl _, by omega, hn _ hs.1, hv _ hs.2, ?_, ?_⟩
  · simpa [h1] using h3
  · simpa [h2] using h4

/-- hence no later in-place edit of either object (coefficients through the handle, labels through the `Variables`
    object) is visible through the other -/
theorem model_copies_independent (st : MSt) (o : Mdl) (hs : MScoped st o) (f : List Rat → List Rat) (g : List Nat → List Nat)
    (c : MCall) (hc : c ≠ .view) (coeffs : List Rat) (labels : List Nat) :
    let r := c.run st o f g
    (setNative r.1 r.2.handle coeffs).native o.handle = r.1.native o.handle ∧
    (setNative r.1 o.handle coeffs).native r.2.handle = r.1.native r.2.handle ∧
    (setVars r.1 r.2.variables labels).vars o.variables = r.1.vars o.variables ∧
    (setVars r.1 o.variables labels).vars r.2.variables = r.1.vars r.2.variables := by
  intro r
  obtain ⟨h1, h2, _, _, _⟩ := model_calls_fresh st o hs f g c hc
  exact ⟨read_setNative_other _ _ _ _ (Ne.symm h1), read_setNative_other _ _ _ _ h1,
    read_setVars_other _ _ _ _ (Ne.symm h2), read_setVars_other _ _ _ _ h2⟩

/-- documented aliases (`.spin` / `.binary`, CQM expression views) are built around the parent's own handle and
    `Variables`: every edit through one is read through the other -/
theorem views_track (st : MSt) (o : Mdl) (f : List Rat → List Rat) (g : List Nat → List Nat) (coeffs : List Rat) :
    (MCall.view.run st o f g).2 = o ∧ (MCall.view.run st o f g).1 = st ∧
    (setNative st (MCall.view.run st o f g).2.handle coeffs).native o.handle = coeffs :=
  ⟨rfl, rfl, read_setNative_same st o.handle coeffs⟩

/-- adding a model to a CQM: with `copy=True` the constraint holds the model's data in a new cell and every existing
    cell — the source model — is unchanged; with `copy=False` the data are moved and the source is left empty -/
theorem add_to_cqm (st : MSt) (src : Mdl) (copy : Bool) (hs : MScoped st src) :
    (addConstraint st src copy).2 = st.next ∧
    (addConstraint st src copy).1.native (addConstraint st src copy).2 = st.native src.handle ∧
    (copy = true → ∀ k, k < st.next → (addConstraint st src copy).1.native k = st.native k) ∧
    (copy = false → (addConstraint st src copy).1.native src.handle = []) :=
  addConstraintFromModel_spec st src copy hs

/-- `add_discrete_from_comparison(comp, label, copy, check_overlaps)` hands `copy` on as `copy` and `check_overlaps` as
    `check_overlaps`: a requested copy leaves the comparison's left-hand side untouched whatever `check_overlaps` is -/
theorem add_discrete_plumbing (st : MSt) (lhs : Mdl) (copy checkOverlaps : Bool) (hs : MScoped st lhs) :
    addDiscreteFromComparison st lhs copy checkOverlaps = addConstraintFromModel st lhs copy ∧
    (copy = true → (addDiscreteFromComparison st lhs copy checkOverlaps).1.native lhs.handle = st.native lhs.handle) :=
  ⟨rfl, fun h => (addConstraintFromModel_spec st lhs copy hs).2.2.1 h _ hs.1⟩

/-! ## the code before the repairs: witnesses -/

def st0 : St := { mem := fun _ k => (k : Rat), next := 5 }
def o0 : Obj := { record := ⟨0, 0, 1, 4⟩, variables := 1, infoTop := 2, infoNested := [3, 4] }

/-- D16: `slice(sorted_by=None)` returns a window on the receiver's buffer -/
theorem d16_witness : ((Op.sliceNone false ⟨none, some 2, none⟩).run st0 o0).map (fun p => sharesMemory p.2.record o0.record) = some true := by
  decide +kernel

/-- D29: `concatenate([ss])` returns the receiver's record -/
theorem d29_witness : ((Op.concatOne false).run st0 o0).map (fun p => decide (p.2.record = o0.record)) = some true := by
  decide +kernel

/-- D28: `filter` passes `info` on: nested containers are shared -/
theorem d28_witness : ((Op.filter false [true, false, true, true]).run st0 o0).map (fun p => p.2.infoNested) = some [3, 4] := by
  decide +kernel

/-- D27: `+bqm` is the receiver itself -/
theorem d27_witness : (MOp.pos false).run 2 ⟨0, 1⟩ = (2, ⟨0, 1⟩) := rfl

/-- model-producing calls (repaired): everything is new, except for the documented views -/
theorem model_constructors_fresh (op : MOp) (next : Nat) (o : MObj) (ho : o.data < next ∧ o.variables < next)
    (h : op ≠ .view) (hp : op ≠ .pos false) :
    (op.run next o).2.data ≠ o.data ∧ (op.run next o).2.variables ≠ o.variables := by
  cases op <;> simp [MOp.run] at * <;> first | omega | (rename_i f; cases f <;> simp_all <;> omega)

/-! ## non-vacuity -/

example : ((Op.sliceNone true ⟨none, some 2, none⟩).run st0 o0).map (fun p => sharesMemory p.2.record o0.record) = some false := by
  decide +kernel

example : ((Op.sliceSorted [3, 1]).run st0 o0).map (fun p => readAll p.1 p.2.record) = some [3, 1] := by decide +kernel

end C19

/-! ## BQM / QM / CQM as records of references into a heap (`DimodModel/Heap.lean`)

A cy object owns a C++ model cell and refers to a `Variables` cell; a Python model refers to a cy object; a cy CQM refers to a C++ CQM
cell (objective cell + vector of constraint cells) and two `Variables` cells.  Every call below is the sequence of allocations and
writes of its source (`Call.run`, `cyAddConstraintFromModel`, `setObjective`, …). -/

namespace C19
open MHeap

/-- **every copy-producing call of a BQM / QM** (`copy`, `deepcopy`, construction from a model, `from_bqm`, pickling, every
    `inplace=False` method, model ∘ number, `m + other`, `m - other`, `m * other`, promotion of two BQMs of different vartype to a QM),
    as coded: no cell that existed before the call is written; the result is a cy object whose three cells (itself, its C++ model, its
    `Variables`) were all allocated by the call; it holds the specified result; receiver and second operand read as before -/
theorem heap_calls_fresh (h : Heap) (d o : Nat) (hd : Born 0 h d) (ho : Born 0 h o) (c : Call) (hc : c.producesCopy = true) :
    Same h.next h (c.run h d o).1 ∧ Born h.next (c.run h d o).1 (c.run h d o).2 ∧
    obs (c.run h d o).1 (c.run h d o).2 = c.expected h d o ∧
    obs (c.run h d o).1 d = obs h d ∧ obs (c.run h d o).1 o = obs h o := by
  have hp := call_spec hd ho c hc
  exact ⟨hp.2.1, hp.2.2.1, hp.2.2.2, (hp.old hd).2.1, (hp.old ho).2.1⟩

/-- **whole histories**: after such a call, let ANY interleaving of in-place edits (`es`; `false` = on the receiver, `true` = on the
    result) run.  The receiver then reads what its own edits make of its contents before the call, the result what its own edits
    make of the call's specified result: no later in-place edit of either object is ever visible through the other. -/
theorem heap_copies_independent (h : Heap) (d o : Nat) (hd : Born 0 h d) (ho : Born 0 h o) (c : Call) (hc : c.producesCopy = true)
    (es : List (Bool × Edit)) :
    obs (runEdits (c.run h d o).1 d (c.run h d o).2 es) d = applyEdits (obs h d) ((es.filter (fun p => !p.1)).map (·.2)) ∧
    obs (runEdits (c.run h d o).1 d (c.run h d o).2 es) (c.run h d o).2 =
      applyEdits (c.expected h d o) ((es.filter (fun p => p.1)).map (·.2)) := by
  have hp := call_spec hd ho c hc
  have hi := history_independent (sep_of_produces hp hd) es
  rw [hi.1, hi.2, (hp.old hd).2.1, hp.2.2.2]
  exact ⟨rfl, rfl⟩

/-- … the same with the second operand of a binary operator in the receiver's place -/
theorem heap_operand_independent (h : Heap) (d o : Nat) (hd : Born 0 h d) (ho : Born 0 h o) (c : Call) (hc : c.producesCopy = true)
    (es : List (Bool × Edit)) :
    obs (runEdits (c.run h d o).1 o (c.run h d o).2 es) o = applyEdits (obs h o) ((es.filter (fun p => !p.1)).map (·.2)) ∧
    obs (runEdits (c.run h d o).1 o (c.run h d o).2 es) (c.run h d o).2 =
      applyEdits (c.expected h d o) ((es.filter (fun p => p.1)).map (·.2)) := by
  have hp := call_spec hd ho c hc
  have hi := history_independent (sep_of_produces hp ho) es
  rw [hi.1, hi.2, (hp.old ho).2.1, hp.2.2.2]
  exact ⟨rfl, rfl⟩

/-- the documented alias: `.spin` / `.binary` is a Python object around the receiver's OWN cy object — nothing is allocated; what is
    read through the view after any history of edits of the parent is the conversion of what the parent reads, and a write through
    the view is read back through it (and, converted, through the parent) -/
theorem heap_views_track (h : Heap) (d o : Nat) (hd : Born 0 h d) (tr inv : List Rat → List Rat) (hinv : ∀ x, tr (inv x) = x)
    (es : List Edit) (c : List Rat) :
    Call.view.run h d o = (h, d) ∧
    viewRead (es.foldl (fun acc e => e.run acc d) h) d tr =
      (tr (obs (es.foldl (fun acc e => e.run acc d) h) d).1, (obs (es.foldl (fun acc e => e.run acc d) h) d).2) ∧
    (viewRead (viewWrite h d inv c) d tr).1 = c ∧ (obs (viewWrite h d inv c) d).1 = inv c := by
  obtain ⟨_, _, m3, _⟩ := mutate_spec hd (fun _ => inv c) id
  refine ⟨rfl, rfl, ?_, ?_⟩
  · show tr (obs (mutate h d (fun _ => inv c) id) d).1 = c
    rw [m3]; exact hinv c
  · show (obs (mutate h d (fun _ => inv c) id) d).1 = inv c
    rw [m3]

/-- `m += other` is the documented in-place form: it writes the receiver's own cells (and is therefore not in the list above) -/
theorem heap_iadd_in_place (h : Heap) (d o : Nat) (m : Merge) : ((Call.iadd m).run h d o).2 = d := rfl

/-- **adding a model to a CQM** (`cyCQM.add_constraint_from_model` as coded).  The constraint is a NEW cell holding the re-indexed
    contents of the model and is appended to the CQM's constraint vector; the existing cells written are the CQM's `Variables`, its
    constraint vector and its constraint labels — and, only with `copy=False`, the two cells of the source model, which is left empty
    (the documented move).  With `copy=True` the source model reads exactly as before. -/
theorem heap_add_to_cqm (h : Heap) (d m q v l o : Nat) (cs : List Nat) (hm : Born 0 h m) (hd : CShape h d q v l o cs)
    (hdis : ∀ x ∈ [m, cppOf h m, varsOf h m], x ≠ d ∧ x ≠ q ∧ x ≠ v ∧ x ≠ l) (copy : Bool)
    (remap : List Rat → List Rat) (m' : Merge) (lab : List Nat → List Nat) :
    (cyAddConstraintFromModel h d m copy remap m' lab).2 = h.next ∧
    coeffsAt (cyAddConstraintFromModel h d m copy remap m' lab).1 h.next = remap (obs h m).1 ∧
    constraintsOf (cyAddConstraintFromModel h d m copy remap m' lab).1 (cppOf (cyAddConstraintFromModel h d m copy remap m' lab).1 d) = cs ++ [h.next] ∧
    obs (cyAddConstraintFromModel h d m copy remap m' lab).1 m = (if copy then obs h m else ([], [])) ∧
    (∀ a, a < h.next → a ≠ v → a ≠ q → a ≠ l → (copy = false → a ≠ cppOf h m ∧ a ≠ varsOf h m) →
      (cyAddConstraintFromModel h d m copy remap m' lab).1.cell a = h.cell a) :=
  cyAdd_spec hm hd hdis copy remap m' lab

/-- … and afterwards ANY history of in-place edits of the source model leaves every other cell of the heap alone: the new constraint, the
    CQM's objective, its other constraints, its `Variables` and labels all read the same -/
theorem heap_source_edits_invisible (h : Heap) (m : Nat) (hm : Born 0 h m) (es : List Edit) (a : Nat)
    (h1 : a ≠ cppOf h m) (h2 : a ≠ varsOf h m) : (es.foldl (fun acc e => e.run acc m) h).cell a = h.cell a :=
  edits_write_own_cells hm es a h1 h2

/-- … and, the other way round, ANY history of in-place edits of a CQM (objective, constraints, variables, labels, adding and removing
    constraints) leaves a model none of whose cells belongs to the CQM — the source of a `copy=True` constraint, of `set_objective` —
    reading exactly the same -/
theorem heap_cqm_edits_invisible_in_model (h : Heap) (d m : Nat) (hg : CGood h d) (hm : Born 0 h m)
    (hdis : m ∉ cfp h d ∧ cppOf h m ∉ cfp h d ∧ varsOf h m ∉ cfp h d) (es : List CEdit) :
    obs (es.foldl (fun acc e => e.run acc d) h) m = obs h m :=
  (cqm_edits_leave_model hg hm hdis es).1

/-- the option plumbing, as coded: `add_constraint` / `add_constraint_from_comparison` hand `copy` on by keyword;
    `add_discrete_from_comparison(comp, label, copy, check_overlaps)` hands `copy` on as `copy` and `check_overlaps` as
    `check_overlaps`, and `check_overlaps` never reaches the Cython call: what happens to the caller's model depends on `copy` alone
    (seeded change C19-6 swaps the two) -/
theorem heap_add_discrete_plumbing (h : Heap) (d lhs : Nat) (copy co co' : Bool) (remap mark : List Rat → List Rat) (m' : Merge) (lab : List Nat → List Nat) :
    addConstraint h d lhs copy remap m' lab = cyAddConstraintFromModel h d lhs copy remap m' lab ∧
    addDiscreteFromComparison h d lhs copy co remap mark m' lab = addDiscreteFromModel h d lhs copy co' remap mark m' lab ∧
    (addDiscreteFromModel h d lhs copy co remap mark m' lab).2 = (cyAddConstraintFromModel h d lhs copy remap m' lab).2 ∧
    (addDiscreteFromModel h d lhs copy co remap mark m' lab).1 =
      store (cyAddConstraintFromModel h d lhs copy remap m' lab).1 (cyAddConstraintFromModel h d lhs copy remap m' lab).2
        (.coeffs (mark (coeffsAt (cyAddConstraintFromModel h d lhs copy remap m' lab).1 (cyAddConstraintFromModel h d lhs copy remap m' lab).2))) :=
  ⟨rfl, rfl, rfl, rfl⟩

/-- `add_discrete_from_iterable` builds its own BQM and moves it (`copy=False`): the moved object is one the call allocated -/
theorem heap_add_discrete_iterable_moves_own (h : Heap) (d : Nat) (co : Bool) (fill : Post) (remap mark : List Rat → List Rat) (m' : Merge) (lab : List Nat → List Nat) :
    (addDiscreteFromIterable h d co fill remap mark m' lab).2 =
      (cyAddConstraintFromModel (mutate (cyNew h).1 (cyNew h).2 fill.f fill.g) d (cyNew h).2 false remap m' lab).2 ∧
    Born h.next (mutate (cyNew h).1 (cyNew h).2 fill.f fill.g) (cyNew h).2 :=
  ⟨rfl, (produces_then_mutate (produces_new h) fill.f fill.g).2.2.1⟩

/-- **`set_objective(model)`** as coded: the model's contents are copied INTO the CQM's own objective cell (whose address does not
    change: `cqm.objective` views stay valid); the only other cell written is the CQM's `Variables`; the source model reads as before
    and shares no cell with the CQM -/
theorem heap_set_objective (h : Heap) (d m q v l o : Nat) (cs : List Nat) (hm : Born 0 h m) (hd : CShape h d q v l o cs)
    (hdis : ∀ x ∈ [m, cppOf h m, varsOf h m], x ≠ d ∧ x ≠ q ∧ x ≠ v ∧ x ≠ l ∧ x ≠ o) (ho : o ≠ d ∧ o ≠ q ∧ o ≠ v)
    (remap : List Rat → List Rat) (m' : Merge) :
    objectiveOf (setObjective h d m false remap m') (cppOf (setObjective h d m false remap m') d) = o ∧
    coeffsAt (setObjective h d m false remap m') o = remap (obs h m).1 ∧
    obs (setObjective h d m false remap m') m = obs h m ∧
    (∀ a, a ≠ o → a ≠ v → (setObjective h d m false remap m').cell a = h.cell a) :=
  setObjective_spec hm hd hdis ho remap m'

/-- … also for an object-dtype BQM: `BinaryQuadraticModel(objective, dtype=self.dtype)` makes a temporary out of new cells, which is what is
    copied into the objective cell; the caller's model is never written -/
theorem heap_set_objective_object_dtype (h : Heap) (d m q v l o : Nat) (cs : List Nat) (hm : Born 0 h m) (hd : CShape h d q v l o cs)
    (ho : o < h.next ∧ o ≠ d ∧ o ≠ q ∧ o ≠ v) (hdis : ∀ x ∈ [m, cppOf h m, varsOf h m], x ≠ o ∧ x ≠ v)
    (remap : List Rat → List Rat) (m' : Merge) :
    coeffsAt (setObjective h d m true remap m') o = remap (m'.u [] (obs h m).1) ∧
    obs (setObjective h d m true remap m') m = obs h m ∧
    (∀ a, a < h.next → a ≠ o → a ≠ v → (setObjective h d m true remap m').cell a = h.cell a) :=
  setObjective_object_spec hm hd ho hdis remap m'

/-- **`add_constraint(model, copy=True)` end to end** on any well-formed CQM and any model sharing no cell with it: the CQM stays well-formed
    and separate from the model; afterwards ANY history of in-place edits of the source model leaves the CQM (objective, every constraint
    incl. the new one, variables, labels) reading the same, and ANY history of in-place edits of the CQM leaves the source model reading
    what it read before the call -/
theorem heap_add_copy_then_histories (h : Heap) (d m : Nat) (hg : CGood h d) (hm : Born 0 h m)
    (hdis : m ∉ cfp h d ∧ cppOf h m ∉ cfp h d ∧ varsOf h m ∉ cfp h d)
    (remap : List Rat → List Rat) (m' : Merge) (lab : List Nat → List Nat) (es : List Edit) (ces : List CEdit) :
    CGood (cyAddConstraintFromModel h d m true remap m' lab).1 d ∧
    cobs (es.foldl (fun acc e => e.run acc m) (cyAddConstraintFromModel h d m true remap m' lab).1) d =
      cobs (cyAddConstraintFromModel h d m true remap m' lab).1 d ∧
    obs (ces.foldl (fun acc e => e.run acc d) (cyAddConstraintFromModel h d m true remap m' lab).1) m = obs h m :=
  ⟨(cyAdd_copy_separate hg hm hdis remap m' lab).1, cyAdd_copy_then_histories hg hm hdis remap m' lab es ces⟩

/-- **`set_objective(model)` end to end** on any well-formed CQM and any (array-backed) model sharing no cell with it (`MSep`): the call
    is two in-place edits of the CQM (variables added, objective cell overwritten with the model's contents); the model reads as before, the
    pair stays separate; afterwards ANY history of in-place edits of the model leaves the CQM reading the same and ANY history of in-place
    edits of the CQM leaves the model reading the same -/
theorem heap_set_objective_then_histories (h : Heap) (d m : Nat) (s : MSep h d m) (remap : List Rat → List Rat) (m' : Merge)
    (es : List Edit) (ces : List CEdit) :
    MSep (setObjective h d m false remap m') d m ∧ obs (setObjective h d m false remap m') m = obs h m ∧
    cobs (es.foldl (fun acc e => e.run acc m) (setObjective h d m false remap m')) d = cobs (setObjective h d m false remap m') d ∧
    obs (ces.foldl (fun acc e => e.run acc d) (setObjective h d m false remap m')) m = obs h m :=
  setObjective_then_histories s remap m' es ces

/-- **`add_discrete(model | comparison, copy=True, check_overlaps=…)` end to end**: whatever `check_overlaps` is, the caller's model reads as
    before the call (this is what seeded change C19-6 breaks), the pair stays separate, and any later history of in-place edits on either side
    is invisible on the other -/
theorem heap_add_discrete_then_histories (h : Heap) (d m : Nat) (s : MSep h d m) (co : Bool) (remap mark : List Rat → List Rat) (m' : Merge)
    (lab : List Nat → List Nat) (es : List Edit) (ces : List CEdit) :
    MSep (addDiscreteFromComparison h d m true co remap mark m' lab).1 d m ∧
    obs (addDiscreteFromComparison h d m true co remap mark m' lab).1 m = obs h m ∧
    cobs (es.foldl (fun acc e => e.run acc m) (addDiscreteFromComparison h d m true co remap mark m' lab).1) d =
      cobs (addDiscreteFromComparison h d m true co remap mark m' lab).1 d ∧
    obs (ces.foldl (fun acc e => e.run acc d) (addDiscreteFromComparison h d m true co remap mark m' lab).1) m = obs h m :=
  addDiscrete_then_histories s co remap mark m' lab es ces

/-- expression views hold no contents of their own: `cqm.objective` evaluates `&parent.cppcqm.objective` at every access, a
    `ConstraintView` dereferences its weak pointer — which is valid exactly while the constraint is in the parent's vector — so
    whatever the parent's cells hold after any edit is what the view reads, and a write through the view is a write of the parent's cell -/
theorem heap_expression_views_track (h : Heap) (parent ptr : Nat) (c : List Rat) :
    objectiveViewRead h parent = (cobs h parent).1 ∧
    (ptr ∈ constraintsOf h (cppOf h parent) → constraintViewRead h parent ptr = some (coeffsAt h ptr)) ∧
    (ptr ∉ constraintsOf h (cppOf h parent) → constraintViewRead h parent ptr = none) ∧
    coeffsAt (constraintViewWrite h ptr c) ptr = c ∧
    coeffsAt (objectiveViewWrite h parent c) (objectiveOf h (cppOf h parent)) = c := by
  refine ⟨rfl, fun hh => by simp [constraintViewRead, hh], fun hh => by simp [constraintViewRead, hh], ?_, ?_⟩
  · simp [constraintViewWrite, coeffsAt, store_cell]
  · simp [objectiveViewWrite, coeffsAt, store_cell]

/-- **CQM copies** — `copy.deepcopy(cqm)` (`cyCQM.__deepcopy__` as coded: new object, `new.cppcqm = self.cppcqm` through the C++ copy
    constructor which `make_shared`s every constraint, both `Variables` deep-copied) and `fix_variables(…, inplace=False)`
    (`make_cqm(self.cppcqm.fix_variables(…))`, then relabelling of the new object): no existing cell is written; EVERY cell of the result —
    cy object, C++ CQM, objective, each constraint, `variables`, `constraint_labels` — was allocated by the call; the result holds the
    (transformed) objective, constraints in order, variables and labels; the receiver reads as before -/
theorem heap_cqm_copies_fresh (h : Heap) (d q v l o : Nat) (cs : List Nat) (hd : CWf h d q v l o cs) (c : CCall)
    (hc : ∀ es, c ≠ .inplaceFalse es) :
    Same h.next h (c.run h d).1 ∧ (∀ a ∈ cfp (c.run h d).1 (c.run h d).2, h.next ≤ a) ∧ cobs (c.run h d).1 d = cobs h d ∧
    cobs (c.run h d).1 (c.run h d).2 = (match c with
      | .deepcopy => cobs h d
      | .fixVariablesCopy ko kc gv => (ko (cobs h d).1, (cobs h d).2.1.map kc, gv (cobs h d).2.2.1, (cobs h d).2.2.2)
      | .inplaceFalse _ => cobs h d) := by
  have eobs : cobs h d = (coeffsAt h o, cs.map (coeffsAt h), labelsAt h v, labelsAt h l) := by
    obtain ⟨d1, d2, _⟩ := hd
    simp [cobs, cppOf, varsOf, clabelsOf, objectiveOf, constraintsOf, d1, d2]
  cases c with
  | deepcopy =>
    obtain ⟨s1, s2, s3, s4⟩ := cqmRebuild_spec hd id id id id
    refine ⟨s1, s2, s4, ?_⟩
    show cobs (cqmRebuild h d id id id id).1 (cqmRebuild h d id id id id).2 = cobs h d
    rw [s3, eobs]; rfl
  | fixVariablesCopy ko kc gv =>
    obtain ⟨s1, s2, s3, s4⟩ := cqmRebuild_spec hd ko kc gv id
    refine ⟨s1, s2, s4, ?_⟩
    show cobs (cqmRebuild h d ko kc gv id).1 (cqmRebuild h d ko kc gv id).2 = _
    rw [s3, eobs]; simp [List.map_map, Function.comp_def]
  | inplaceFalse es => exact absurd rfl (hc es)

/-- hence a later write to ANY cell of the copy — objective, a constraint, a `Variables` — cannot be a write to a cell of the receiver
    (all of which are below `h.next`), and vice versa: the two objects have no cell in common -/
theorem heap_cqm_copies_disjoint (h : Heap) (d q v l o : Nat) (cs : List Nat) (hd : CWf h d q v l o cs) (c : CCall)
    (hc : ∀ es, c ≠ .inplaceFalse es) (a : Nat) (ha : a ∈ cfp (c.run h d).1 (c.run h d).2) :
    a ∉ cfp (c.run h d).1 d := by
  obtain ⟨s1, s2, _, _⟩ := heap_cqm_copies_fresh h d q v l o cs hd c hc
  have hge := s2 a ha
  obtain ⟨d1, d2, d3, d4, d5, d6, d7, d8⟩ := hd
  have c0 : (c.run h d).1.cell d = h.cell d := s1 d d3
  have cq : (c.run h d).1.cell q = h.cell q := s1 q d4
  intro hmem
  simp only [cfp, cppOf, varsOf, clabelsOf, objectiveOf, constraintsOf, c0, cq, d1, d2, List.mem_cons] at hmem
  rcases hmem with rfl | rfl | rfl | rfl | rfl | hmem
  · omega
  · omega
  · omega
  · omega
  · omega
  · have := d8 a hmem; omega

/-- **frame of one in-place edit of a CQM** (through `cqm.objective`, a constraint view, `add_variable` / `relabel_variables`,
    `relabel_constraints`, `add_constraint_from_iterable`, `remove_constraint`): it writes only cells of the CQM's own footprint or cells
    it allocates itself; the footprint grows by allocated cells only; the object stays well-formed -/
theorem heap_cqm_edit_frame (h : Heap) (d : Nat) (hg : CGood h d) (e : CEdit) :
    h.next ≤ (e.run h d).next ∧ CGood (e.run h d) d ∧
    (∀ a, a < h.next → a ∉ cfp h d → (e.run h d).cell a = h.cell a) ∧
    (∀ a ∈ cfp (e.run h d) d, a ∈ cfp h d ∨ a = h.next) :=
  cedit_step hg e

/-- **every copy-producing call of a CQM** — `copy.deepcopy`, `fix_variables(inplace=False)`, and `relabel_variables` /
    `spin_to_binary` with `inplace=False` (as coded: `copy.deepcopy(self)`, then the in-place method — any list of edits — on the copy):
    receiver and result are well-formed objects with NO cell in common, and the receiver reads as before the call -/
theorem heap_cqm_calls_separate (h : Heap) (d : Nat) (hg : CGood h d) (c : CCall) :
    CSep (c.run h d).1 d (c.run h d).2 ∧ cobs (c.run h d).1 d = cobs h d := by
  obtain ⟨q, v, l, o, cs, hw, nd⟩ := hg
  have rb : ∀ ko kc gv gl, CSep (cqmRebuild h d ko kc gv gl).1 d (cqmRebuild h d ko kc gv gl).2 ∧
      cobs (cqmRebuild h d ko kc gv gl).1 d = cobs h d := fun ko kc gv gl =>
    ⟨csep_of_rebuild ⟨q, v, l, o, cs, hw, nd⟩ ko kc gv gl, (cqmRebuild_spec hw ko kc gv gl).2.2.2⟩
  cases c with
  | deepcopy => exact rb id id id id
  | fixVariablesCopy ko kc gv => exact rb ko kc gv id
  | inplaceFalse es =>
    obtain ⟨s, o1⟩ := rb id id id id
    obtain ⟨s', o2⟩ := csep_one_sided s.symm es
    exact ⟨s'.symm, o2.trans o1⟩

/-- **whole histories of two separate CQMs** (a copy and its receiver in particular): along ANY interleaving of in-place edits the two
    objects never come to share a cell, and any run of edits of one leaves the other reading exactly the same — no later in-place edit of
    either is ever visible through the other -/
theorem heap_cqm_histories_independent (h : Heap) (a b : Nat) (s : CSep h a b) (es : List (Bool × CEdit)) (one : List CEdit) :
    CSep (runCEdits h a b es) a b ∧
    cobs (one.foldl (fun acc e => e.run acc a) h) b = cobs h b ∧
    cobs (one.foldl (fun acc e => e.run acc b) h) a = cobs h a :=
  ⟨csep_history s es, (csep_one_sided s one).2, (csep_one_sided s.symm one).2⟩

/-! ### non-vacuity: a concrete heap with a BQM at cells 0–2 and a second one at 3–5 -/

def h0 : Heap := { cell := fun a => match a with
    | 0 => .coeffs [1, 2] | 1 => .labels [7, 8] | 2 => .cy 0 1
    | 3 => .coeffs [5] | 4 => .labels [7] | 5 => .cy 3 4 | _ => .free, next := 6 }

example : Born 0 h0 2 := ⟨0, 1, rfl, by decide, by decide, by decide, by decide, by decide, by decide, by decide, by decide, by decide⟩
example : (Call.copy.run h0 2 5).2 = 8 := rfl
example : obs (Call.copy.run h0 2 5).1 8 = ([1, 2], [7, 8]) := by decide +kernel
example : obs ((Call.addModel ⟨fun a b => a ++ b, fun a b => a ++ b⟩).run h0 2 5).1 8 = ([1, 2, 5], [7, 8, 7]) := by decide +kernel
example : obs (runEdits (Call.copy.run h0 2 5).1 2 8 [(false, .coeffs (fun _ => [9])), (true, .labels (fun _ => []))]) 2 = ([9], [7, 8]) := by
  decide +kernel
example : obs (runEdits (Call.copy.run h0 2 5).1 2 8 [(false, .coeffs (fun _ => [9])), (true, .labels (fun _ => []))]) 8 = ([1, 2], []) := by
  decide +kernel

/-- a CQM: objective 3, C++ CQM 4 with one constraint (cell 8), constraint labels 5, variables 6, cy CQM 7 -/
def hq0cell : Nat → Cell
  | 3 => .coeffs [4] | 4 => .cqm 3 [8] | 5 => .labels [100] | 6 => .labels [7] | 7 => .cycqm 4 6 5 | 8 => .coeffs [6] | _ => .free
def hq0 : Heap := { cell := hq0cell, next := 9 }

example : CGood hq0 7 :=
  ⟨4, 6, 5, 3, [8], ⟨rfl, rfl, by decide, by decide, by decide, by decide, by decide, by decide⟩, by decide⟩
example : (cqmDeepcopy hq0 7).2 = 13 := rfl
example : cobs (cqmDeepcopy hq0 7).1 13 = ([4], [[6]], [7], [100]) := by decide +kernel
example : cobs ((CEdit.constraint 0 (fun _ => [9])).run (cqmDeepcopy hq0 7).1 13) 7 = ([4], [[6]], [7], [100]) := by decide +kernel
example : cobs ((CEdit.constraint 0 (fun _ => [9])).run (cqmDeepcopy hq0 7).1 13) 13 = ([4], [[9]], [7], [100]) := by decide +kernel

/-- the CQM of `hq0` next to a BQM at cells 0–2 -/
def hq1cell : Nat → Cell
  | 0 => .coeffs [1, 2] | 1 => .labels [7, 8] | 2 => .cy 0 1 | a => hq0cell a
def hq1 : Heap := { cell := hq1cell, next := 9 }

example : MSep hq1 7 2 :=
  ⟨⟨4, 6, 5, 3, [8], ⟨rfl, rfl, by decide, by decide, by decide, by decide, by decide, by decide⟩, by decide⟩,
   ⟨0, 1, rfl, by decide, by decide, by decide, by decide, by decide, by decide, by decide, by decide, by decide⟩,
   by decide, by decide, by decide⟩
example : obs (addDiscreteFromComparison hq1 7 2 true false id id ⟨fun a b => a ++ b, fun a b => a ++ b⟩ id).1 2 = ([1, 2], [7, 8]) := by
  decide +kernel
example : obs (addDiscreteFromComparison hq1 7 2 false true id id ⟨fun a b => a ++ b, fun a b => a ++ b⟩ id).1 2 = ([], []) := by
  decide +kernel

end C19

/-! ## round 7: the Python-level object with its `__dict__` caches (`DimodModel/HeapCache.lean`) -/

namespace C19
open MHeap

/-- **every route ends at the object's own cy object**: an ordinary method, a `@forwarding_method` (bound method stored in
    `__dict__` on first use), the `.spin` / `.binary` object (cached in `_spin` / `_binary` or made now) and ITS forwarding methods
    all write the cy object of the receiver; the look-ups change no cell, keep the invariant and re-bind no `.data` -/
theorem heap_py_routes_reach_own_object (p : PyHeap) (hp : CacheInv p) (x : Nat) (ox : PyObj) (hx : p.obj x = some ox) (r : Route) :
    (resolve p x r).2 = ox.data ∧ (resolve p x r).1.h = p.h ∧ CacheInv (resolve p x r).1 ∧
    ∀ i o, p.obj i = some o → ∃ o', (resolve p x r).1.obj i = some o' ∧ o'.data = o.data := by
  obtain ⟨he, ht⟩ := resolve_spec hp hx r
  exact ⟨ht, he.1, he.2.1, he.2.2⟩

/-- **the copy starts with an empty `__dict__`**: whatever the receiver has cached (a view in `_binary`, stored bound methods),
    `__copy__` / `__deepcopy__` give an object holding `data` only, around the cy object made by the cy-level copy; the receiver's
    own `__dict__` is untouched -/
theorem heap_py_copy_fresh_dict (p : PyHeap) (hp : CacheInv p) (x : Nat) (ox : PyObj) (hx : p.obj x = some ox) (tr : List Rat → List Rat)
    (deep : Bool) :
    CacheInv (pyCopy p x tr deep).1 ∧ (pyCopy p x tr deep).1.obj x = some ox ∧
    (pyCopy p x tr deep).1.obj (pyCopy p x tr deep).2 =
      some ⟨((pyCopyCall ox.isView tr deep).run p.h ox.data 0).2, deep && ox.isView, none, []⟩ ∧
    (pyCopy p x tr deep).1.h = ((pyCopyCall ox.isView tr deep).run p.h ox.data 0).1 := by
  obtain ⟨h1, h2, _, h4, h5⟩ := pyCopy_spec hp hx tr deep
  exact ⟨h1, h2, h5, h4⟩

/-- **independence including the caches, whole histories**: copy a model (or a vartype view: then the copy is the detached
    converted model) whose caches are in ANY state; then let ANY interleaving of in-place edits run on the original and on the
    copy, each edit through ANY route (direct, forwarded, through the cached or newly made `.spin` / `.binary` object, through
    that object's forwarded methods).  The original reads what its own edits make of what it read before the copy, the copy
    what its own edits make of the copied contents. -/
theorem heap_py_copy_independent_with_caches (p : PyHeap) (hp : CacheInv p) (x : Nat) (ox : PyObj) (hx : p.obj x = some ox)
    (hd : Born 0 p.h ox.data) (tr : List Rat → List Rat) (deep : Bool) (es : List (Bool × Route × Edit)) :
    obs (pyRunEdits (pyCopy p x tr deep).1 x (pyCopy p x tr deep).2 es).h ox.data =
      applyEdits (obs p.h ox.data) (((es.map fun t => (t.1, t.2.2)).filter (fun q => !q.1)).map (·.2)) ∧
    obs (pyRunEdits (pyCopy p x tr deep).1 x (pyCopy p x tr deep).2 es).h ((pyCopyCall ox.isView tr deep).run p.h ox.data 0).2 =
      applyEdits ((pyCopyCall ox.isView tr deep).expected p.h ox.data ox.data)
        (((es.map fun t => (t.1, t.2.2)).filter (fun q => q.1)).map (·.2)) := by
  obtain ⟨h1, h2, _, h4, h5⟩ := pyCopy_spec hp hx tr deep
  rw [pyRunEdits_h h1 h2 h5 es, h4]
  simp only [pyCopyCall_operand ox.isView tr deep p.h ox.data 0 ox.data]
  exact heap_copies_independent p.h ox.data ox.data hd hd _ (pyCopyCall_produces _ _ _) _

/-- **`set_objective(object-dtype model)` end to end** (before: single-step statement only): on any well-formed CQM and any model sharing
    no cell with it, the temporary `BinaryQuadraticModel(objective, dtype=self.dtype)` is made of new cells and is what is copied into the
    CQM's own objective cell; the caller's model reads as before and stays separate, ANY later history of in-place edits of the caller's
    model leaves the CQM reading the same and ANY history of in-place edits of the CQM leaves the caller's model reading the same -/
theorem heap_set_objective_object_then_histories (h : Heap) (d m : Nat) (s : MSep h d m) (remap : List Rat → List Rat) (m' : Merge)
    (es : List Edit) (ces : List CEdit) :
    MSep (setObjective h d m true remap m') d m ∧ obs (setObjective h d m true remap m') m = obs h m ∧
    cobs (es.foldl (fun acc e => e.run acc m) (setObjective h d m true remap m')) d = cobs (setObjective h d m true remap m') d ∧
    obs (ces.foldl (fun acc e => e.run acc d) (setObjective h d m true remap m')) m = obs h m :=
  setObjective_object_then_histories s remap m' es ces

/-! ### non-vacuity, and what sharing the `__dict__` would do -/

/-- Python object 0 = the BQM at cells 0–2 of `h0` -/
def p0 : PyHeap := { h := h0, obj := fun i => if i = 0 then some ⟨2, false, none, []⟩ else none, nextId := 1 }

example : CacheInv p0 := by
  refine ⟨fun i hi => by simp only [p0] at hi ⊢; rw [if_neg (by omega)], ?_⟩
  intro i o hio
  simp only [p0] at hio
  split at hio
  · cases hio
    refine ⟨?_, ?_⟩
    · intro nt h; cases h
    · intro v hv; cases hv
  · cases hio

/-- `.binary` was read (object 1 cached in `_binary`) and `add_linear` called once (bound method stored) before the copy:
    the copy (object 2, cy object 8) has neither -/
example : ((pyCopy (pyEdit (pyOther p0 0).1 0 (.fwd "add_linear") (.coeffs id)) 0 id false).1.obj 2).map (fun o => (o.data, o.other, o.fwd))
    = some (8, none, []) := by decide +kernel
/-- … an edit of the copy through ITS `.binary` writes the copy's cy object: the original still reads `[1, 2]` -/
example : obs (pyEdit (pyCopy (pyOther p0 0).1 0 id true).1 2 .otherDirect (.coeffs fun _ => [9])).h 2 = ([1, 2], [7, 8]) := by decide +kernel
example : obs (pyEdit (pyCopy (pyOther p0 0).1 0 id true).1 2 .otherDirect (.coeffs fun _ => [9])).h 8 = ([9], [7, 8]) := by decide +kernel
/-- … whereas a copy that took over the `__dict__` would write the ORIGINAL through the shared cached view -/
example : obs (pyEdit (copySharingDict (pyOther p0 0).1 0).1 2 .otherDirect (.coeffs fun _ => [9])).h 2 = ([9], [7, 8]) := by decide +kernel
example : obs (pyEdit (copySharingDict (pyOther p0 0).1 0).1 2 .otherDirect (.coeffs fun _ => [9])).h 8 = ([1, 2], [7, 8]) := by decide +kernel
/-- … and likewise through a stored bound method -/
example : obs (pyEdit (copySharingDict (pyEdit p0 0 (.fwd "scale") (.coeffs id)) 0).1 1 (.fwd "scale") (.coeffs fun _ => [9])).h 2 = ([9], [7, 8]) := by
  decide +kernel

/-! ## r8f — the receiver of `fix_variables(…, inplace=False)`: what the source does with `self`

`heap_cqm_copies_fresh` / `heap_cqm_calls_separate` model the non-mutating branch as `cqmRebuild` (allocate, write nothing that exists).
That is justified by the branch making exactly two calls through `self` — `self.variables.index(v)` (a read) and the `const` C++
`self.cppcqm.fix_variables(…)` — and no store; the lists are regenerated from `cyconstrained.pyx` / the header on every run
(`harness/translators/cqm_fix_copy.py`), so a bookkeeping call on the receiver added to that branch (e.g. clearing the discrete markers
as `fix_variable` does) breaks this file, and the harness then looks for the failing input (every observable of the receiver — `discrete`,
`lhs.is_discrete()`, weights, penalties, bounds, vartypes, label orders, counts — before and after the call). -/
section fix_copy_source
example : Generated.CqmFixCopy.callsOnSelf = ["variables.index", "cppcqm.fix_variables"] := by decide +kernel
example : Generated.CqmFixCopy.storesOnSelf = [] ∧ Generated.CqmFixCopy.cppFixVariablesIsConst = true := by decide +kernel
end fix_copy_source

/-! ## r8f — CQM histories at OBSERVATION level (`DimodProofs/CqmObs.lean`)

`heap_cqm_histories_independent` states the edit-history property as an invariant (separation preserved, one-sided histories invisible).
Here the same at the level of what is READ: every in-place edit acts on the observation `cobs` (objective, constraints in order —
coefficients incl. markers / weights —, variables, constraint labels) as the function `CEdit.onObs`, whole edit histories fold over
observations, and copy-producing calls made on the receiver anywhere in its life drop out of what it reads. -/
section observation_level

/-- one in-place edit (through `cqm.objective`, a constraint view incl. `mark_discrete` / `set_weight`, `add_variable` / relabels / bounds,
    `relabel_constraints`, `add_constraint_from_iterable`, `remove_constraint`) of a well-formed CQM: what it reads afterwards is `onObs`
    of what it read before — nothing else of the heap matters -/
theorem heap_cqm_edit_observation (h : Heap) (d : Nat) (hg : CGood h d) (e : CEdit) :
    cobs (e.run h d) d = e.onObs (cobs h d) :=
  cedit_obs hg e

/-- whole edit histories fold over the observation -/
theorem heap_cqm_edit_history_observation (h : Heap) (d : Nat) (hg : CGood h d) (es : List CEdit) :
    CGood (es.foldl (fun acc e => e.run acc d) h) d ∧
    cobs (es.foldl (fun acc e => e.run acc d) h) d = es.foldl (fun ob e => e.onObs ob) (cobs h d) :=
  cedits_obs hg es

/-- **non-mutating calls are invisible along the whole life of the receiver**: interleave ANY copy-producing calls (`copy.deepcopy`,
    `fix_variables(inplace=False)`, `relabel_variables` / `spin_to_binary` with `inplace=False` and any edits of the copy) with ANY
    in-place edits of the receiver — at the end the receiver reads exactly what its own edits make of its first observation, as if
    the calls had never been made -/
theorem heap_cqm_calls_invisible_along_history (h : Heap) (d : Nat) (hg : CGood h d) (steps : List CStep) :
    CGood (runCSteps h d steps) d ∧
    cobs (runCSteps h d steps) d = (editsOf steps).foldl (fun ob e => e.onObs ob) (cobs h d) ∧
    cobs (runCSteps h d steps) d = cobs ((editsOf steps).foldl (fun acc e => e.run acc d) h) d := by
  have hcall : ∀ (h : Heap) (d : Nat) (c : CCall), CGood h d → CGood (c.run h d).1 d ∧ cobs (c.run h d).1 d = cobs h d :=
    fun h d c hg => ⟨(heap_cqm_calls_separate h d hg c).1.1, (heap_cqm_calls_separate h d hg c).2⟩
  obtain ⟨g, o⟩ := csteps_obs hcall hg steps
  exact ⟨g, o, o.trans (cedits_obs hg (editsOf steps)).2.symm⟩

/-- the hypotheses are met by the concrete CQM `hq0` (cy object at cell 7, see above): mark the constraint, fix-copy, add a constraint,
    deep-copy, drop the first constraint — the receiver reads what its three edits alone give -/
example : cobs (runCSteps hq0 7 [.edit (.constraint 0 (fun c => c ++ [1])), .call (.fixVariablesCopy id id id), .edit (.addConstraint [2] (· ++ [101])),
      .call .deepcopy, .edit (.removeConstraint 0)]) 7 = ([4], [[2]], [7], [100, 101]) := by decide +kernel
example : (editsOf [.edit (.constraint 0 (fun c => c ++ [1])), .call (.fixVariablesCopy id id id), .edit (.addConstraint [2] (· ++ [101])),
      .call .deepcopy, .edit (.removeConstraint 0)]).foldl (fun ob e => e.onObs ob) (cobs hq0 7) = ([4], [[2]], [7], [100, 101]) := by decide +kernel
end observation_level

end C19
