import DimodProofs.Store

/-! # C19 — copies and non-mutating variants are independent of the original

Model: `DimodModel/Store.lean` (`Store`): arrays are windows `(base, offset, stride, len)` into buffers;
basic slicing shares the buffer, integer-array / boolean indexing and `.copy()` allocate; `Variables` and
the `info` containers are object identities.  Each copy-producing `SampleSet` function is written with the
indexing form its source uses (`Op.run`).  The functional models of C04/C05/C14 give the *value* of a copy;
this file is about *aliasing*. -/

namespace C19
open Store SSM

/-- frame: a write through one array leaves every read through an array on another buffer unchanged -/
theorem frame_disjoint_bases (st : St) (a b : Arr) (i j : Nat) (v : Rat) (h : a.base ≠ b.base) :
    read (write st a i v) b j = read st b j :=
  read_write_other_base st a b i j v h

/-- … and within one buffer only the written cell changes -/
theorem frame_other_cell (st : St) (a b : Arr) (i j : Nat) (v : Rat) (h : a.addr i ≠ b.addr j) :
    read (write st a i v) b j = read st b j :=
  read_write_other_addr st a b i j v h

theorem write_is_seen (st : St) (a : Arr) (i : Nat) (v : Rat) : read (write st a i v) a i = v :=
  read_write_same st a i v

/-- every copy-producing function of `sampleset.py` (repaired code) returns an object whose record lives in
    a buffer of its own, with its own `Variables` and its own `info` dict; unless the function is one of
    the documented *shallow* copies, every container nested in `info` is new as well -/
theorem constructors_fresh (st : St) (o : Obj) (hs : Scoped st o) (op : Op) (hr : op.isRepaired = true)
    (st' : St) (r : Obj) (h : op.run st o = some (st', r)) :
    r.record.base ≠ o.record.base ∧ r.variables ≠ o.variables ∧ r.infoTop ≠ o.infoTop ∧
    (op.shallowInfo = false → ∀ n ∈ r.infoNested, n ∉ o.infoNested) := by
  obtain ⟨vals, mode, he, hm, _, _⟩ := run_shape st o op hr st' r h
  have := fresh_of_alloc st o hs vals mode
  have hr' : r = (construct (alloc st vals).1 o (alloc st vals).2 mode).2 := by rw [← he]
  rw [hr']
  exact ⟨this.1, this.2.1, this.2.2.1, fun hsh => this.2.2.2 (hm hsh)⟩

/-- hence no later write through either record is visible through the other -/
theorem copies_independent (st : St) (o : Obj) (hs : Scoped st o) (op : Op) (hr : op.isRepaired = true)
    (st' : St) (r : Obj) (h : op.run st o = some (st', r)) (i j : Nat) (v : Rat) :
    read (write st' r.record i v) o.record j = read st' o.record j ∧
    read (write st' o.record i v) r.record j = read st' r.record j := by
  have hf := (constructors_fresh st o hs op hr st' r h).1
  exact ⟨read_write_other_base st' _ _ i j v hf, read_write_other_base st' _ _ i j v (Ne.symm hf)⟩

/-- the call itself leaves the receiver's record bit-for-bit unchanged, and the result holds exactly the
    rows the function is specified to select -/
theorem copy_eq_expected (st : St) (o : Obj) (hs : Scoped st o) (op : Op) (hr : op.isRepaired = true)
    (st' : St) (r : Obj) (h : op.run st o = some (st', r)) :
    readAll st' o.record = readAll st o.record ∧ readAll st' r.record = op.expected st o := by
  obtain ⟨vals, mode, he, _, hsl, hex⟩ := run_shape st o op hr st' r h
  have hst : st' = (construct (alloc st vals).1 o (alloc st vals).2 mode).1 := by rw [← he]
  have hr' : r = (construct (alloc st vals).1 o (alloc st vals).2 mode).2 := by rw [← he]
  have hrec : r.record = (alloc st vals).2 := by rw [hr']; exact (construct_fresh _ o _ mode (fun _ _ => by
    have := hs.2.2.2 _ ‹_›; show _ < st.next + 1; omega) (by show _ < st.next + 1; have := hs.2.1; omega)
    (by show _ < st.next + 1; have := hs.2.2.1; omega)).1
  have hmem : st'.mem = (alloc st vals).1.mem := by rw [hst]; exact construct_mem _ _ _ _
  have hread : ∀ b : Arr, readAll st' b = readAll (alloc st vals).1 b := by
    intro b
    simp only [readAll]
    apply List.map_congr_left
    intro j _
    show st'.mem _ _ = (alloc st vals).1.mem _ _
    rw [hmem]
  refine ⟨by rw [hread, readAll_alloc_old st vals o.record hs.1], ?_⟩
  rw [hread, hrec, readAll_alloc_new]
  by_cases hsn : ∃ f sl, op = .sliceNone f sl
  · obtain ⟨f, sl, rfl⟩ := hsn
    simp only [Op.isRepaired] at hr
    subst hr
    obtain ⟨v, hv, rfl⟩ := hsl sl rfl
    simp only [Op.expected]
    exact readAll_basicSlice st o.record v sl hv
  · exact hex (fun f sl e => hsn ⟨f, sl, e⟩)

/-- functions that build one sample set from **several** (`concatenate`, with vartype coercion through
    `change_vartype(inplace=False)` and column re-ordering through `record.copy()` as coded): every buffer that
    existed before the call — all inputs, not only the first — reads the same afterwards, and the result's
    record is a new buffer -/
theorem all_inputs_unchanged (st : St) (first : Arr) (others : List (Arr × (Rat → Rat) × Bool × Bool)) :
    (∀ b : Arr, b.base < st.next → readAll (concatInputs st first others).1 b = readAll st b) ∧
    st.next ≤ (concatInputs st first others).2.base :=
  concatInputs_spec st first others

/-! ## model objects: (native handle, Variables object, views) -/

/-- every copy-producing call of the property's list on a BQM / QM / CQM — `copy()`, `copy.deepcopy`, pickling,
    construction from a model, `from_bqm` / `from_quadratic_model`, every `inplace=False` method (as coded: copy, then the
    in-place method on the copy) incl. `spin_to_binary` with and without SPIN variables, arithmetic operators incl.
    `0 + m`, `-m`, `+m` — returns an object whose native handle and `Variables` object are new cells holding the
    transformed content, and leaves every existing cell (the receiver's in particular) unchanged -/
theorem model_calls_fresh (st : MSt) (o : Mdl) (hs : MScoped st o) (f : List Rat → List Rat) (g : List Nat → List Nat)
    (c : MCall) (hc : c ≠ .view) :
    let r := c.run st o f g
    r.2.handle ≠ o.handle ∧ r.2.variables ≠ o.variables ∧ r.2.handle ≠ o.variables ∧ r.2.variables ≠ o.handle ∧
    st.next ≤ r.2.handle ∧ st.next ≤ r.2.variables ∧
    r.1.native o.handle = st.native o.handle ∧ r.1.vars o.variables = st.vars o.variables ∧
    r.1.native r.2.handle = f (st.native o.handle) ∧ r.1.vars r.2.variables = g (st.vars o.variables) := by
  intro r
  have hrun : r = freshFrom st o f g := by cases c <;> first | rfl | exact absurd rfl hc
  obtain ⟨⟨_, hn, hv⟩, h1, h2, h3, h4⟩ := freshFrom_spec st o f g
  rw [hrun, h1, h2] at *
  have := hs.1; have := hs.2
  refine ⟨by omega, by omega, by omega, by omega, Nat.le_refl _, by omega, hn _ hs.1, hv _ hs.2, ?_, ?_⟩
  · simpa [h1] using h3
  · simpa [h2] using h4

/-- hence no later in-place edit of either object (coefficients through the handle, labels through the `Variables`
    object) is visible through the other -/
theorem model_copies_independent (st : MSt) (o : Mdl) (hs : MScoped st o) (f : List Rat → List Rat) (g : List Nat → List Nat)
    (c : MCall) (hc : c ≠ .view) (coeffs : List Rat) (labels : List Nat) :
    let r := c.run st o f g
    (setNative r.1 r.2.handle coeffs).native o.handle = r.1.native o.handle ∧
    (setNative r.1 o.handle coeffs).native r.2.handle = r.1.native r.2.handle ∧
    (setVars r.1 r.2.variables labels).vars o.variables = r.1.vars o.variables ∧
    (setVars r.1 o.variables labels).vars r.2.variables = r.1.vars r.2.variables := by
  intro r
  obtain ⟨h1, h2, _, _, _⟩ := model_calls_fresh st o hs f g c hc
  exact ⟨read_setNative_other _ _ _ _ (Ne.symm h1), read_setNative_other _ _ _ _ h1,
    read_setVars_other _ _ _ _ (Ne.symm h2), read_setVars_other _ _ _ _ h2⟩

/-- documented aliases (`.spin` / `.binary`, CQM expression views) are built around the parent's own handle and
    `Variables`: every edit through one is read through the other -/
theorem views_track (st : MSt) (o : Mdl) (f : List Rat → List Rat) (g : List Nat → List Nat) (coeffs : List Rat) :
    (MCall.view.run st o f g).2 = o ∧ (MCall.view.run st o f g).1 = st ∧
    (setNative st (MCall.view.run st o f g).2.handle coeffs).native o.handle = coeffs :=
  ⟨rfl, rfl, read_setNative_same st o.handle coeffs⟩

/-- adding a model to a CQM: with `copy=True` the constraint holds the model's data in a new cell and every existing
    cell — the source model — is unchanged; with `copy=False` the data are moved and the source is left empty -/
theorem add_to_cqm (st : MSt) (src : Mdl) (copy : Bool) (hs : MScoped st src) :
    (addConstraint st src copy).2 = st.next ∧
    (addConstraint st src copy).1.native (addConstraint st src copy).2 = st.native src.handle ∧
    (copy = true → ∀ k, k < st.next → (addConstraint st src copy).1.native k = st.native k) ∧
    (copy = false → (addConstraint st src copy).1.native src.handle = []) :=
  addConstraintFromModel_spec st src copy hs

/-- `add_discrete_from_comparison(comp, label, copy, check_overlaps)` hands `copy` on as `copy` and `check_overlaps` as
    `check_overlaps`: a requested copy leaves the comparison's left-hand side untouched whatever `check_overlaps` is -/
theorem add_discrete_plumbing (st : MSt) (lhs : Mdl) (copy checkOverlaps : Bool) (hs : MScoped st lhs) :
    addDiscreteFromComparison st lhs copy checkOverlaps = addConstraintFromModel st lhs copy ∧
    (copy = true → (addDiscreteFromComparison st lhs copy checkOverlaps).1.native lhs.handle = st.native lhs.handle) :=
  ⟨rfl, fun h => (addConstraintFromModel_spec st lhs copy hs).2.2.1 h _ hs.1⟩

/-! ## the code before the repairs: witnesses -/

def st0 : St := { mem := fun _ k => (k : Rat), next := 5 }
def o0 : Obj := { record := ⟨0, 0, 1, 4⟩, variables := 1, infoTop := 2, infoNested := [3, 4] }

/-- D16: `slice(sorted_by=None)` returns a window on the receiver's buffer -/
theorem d16_witness : ((Op.sliceNone false ⟨none, some 2, none⟩).run st0 o0).map (fun p => sharesMemory p.2.record o0.record) = some true := by
  decide +kernel

/-- D29: `concatenate([ss])` returns the receiver's record -/
theorem d29_witness : ((Op.concatOne false).run st0 o0).map (fun p => decide (p.2.record = o0.record)) = some true := by
  decide +kernel

/-- D28: `filter` passes `info` on: nested containers are shared -/
theorem d28_witness : ((Op.filter false [true, false, true, true]).run st0 o0).map (fun p => p.2.infoNested) = some [3, 4] := by
  decide +kernel

/-- D27: `+bqm` is the receiver itself -/
theorem d27_witness : (MOp.pos false).run 2 ⟨0, 1⟩ = (2, ⟨0, 1⟩) := rfl

/-- model-producing calls (repaired): everything is new, except for the documented views -/
theorem model_constructors_fresh (op : MOp) (next : Nat) (o : MObj) (ho : o.data < next ∧ o.variables < next)
    (h : op ≠ .view) (hp : op ≠ .pos false) :
    (op.run next o).2.data ≠ o.data ∧ (op.run next o).2.variables ≠ o.variables := by
  cases op <;> simp [MOp.run] at * <;> first | omega | (rename_i f; cases f <;> simp_all <;> omega)

/-! ## non-vacuity -/

example : ((Op.sliceNone true ⟨none, some 2, none⟩).run st0 o0).map (fun p => sharesMemory p.2.record o0.record) = some false := by
  decide +kernel

example : ((Op.sliceSorted [3, 1]).run st0 o0).map (fun p => readAll p.1 p.2.record) = some [3, 1] := by decide +kernel

end C19
