import DimodProofs.ReduceBK
import DimodProofs.SpinAux
import DimodProofs.BKInv
import DimodProofs.BKLabels
import DimodProofs.BKQue
import DimodProofs.ReduceGiven
import DimodProofs.HocOptions
import DimodProofs.HocRecord
import DimodProofs.PolyObject
import DimodProofs.PolyRelabel
import Generated.PolyState

/-! # C15 — higher-order reduction is exact on consistent assignments; the penalty is never negative

Models: `DimodModel/Reduce.lean` (namespace `Red`): layer (i) the semantic reduction `Red.step` /
`Red.semReduce` for an arbitrary sequence of chosen pairs, layer (ii) the bookkeeping of
`reduce_binary_polynomial` as coded (`Red.bkStep`, `Red.bkReduce`), `make_quadratic` (`Red.makeQuadratic`)
with the generated AND / `_spin_product` tables (`Generated/Gates.lean`). -/

namespace C15
open Pen Red GateTable Generated.Gates

/-! ## layer (i): every sequence of choices -/

/-- every reduced term has degree ≤ 2 (for any choice sequence; `hi` holds what is still of higher degree) -/
theorem reduce_degree_le_two {V : Type} [DecidableEq V] (poly : List (Term V × Rat)) (choices : List (V × V × V)) :
    ∀ tb ∈ (semReduce choices (HiLo.init poly)).lo, tb.1.length ≤ 2 :=
  semReduce_lo_deg choices _ (init_lo_deg poly)

/-- a run in which every chosen pair occurs in some term of degree > 2 (as `max(que)` guarantees) makes at
    most `Σ degrees` iterations: the loop `while idx:` terminates, and it stops only with nothing of degree > 2 left -/
theorem reduce_terminates {V : Type} [DecidableEq V] (poly : List (Term V × Rat)) (hnd : ∀ tb ∈ poly, tb.1.Nodup)
    (choices : List (V × V × V)) (hv : Valid choices (HiLo.init poly)) (hp : Progress choices (HiLo.init poly)) :
    choices.length + (semReduce choices (HiLo.init poly)).measure ≤ (HiLo.init poly).measure :=
  semReduce_terminates choices _ (fun tb h => hnd tb (List.mem_filter.1 h).1) hv hp

/-- **exact on consistent assignments**: for every sequence of choices `(u, v, p)` (`u ≠ v`, `p` not in
    the terms still to be reduced) and every assignment with `x p = x u · x v` for each introduced `p`,
    the reduced polynomial (terms of degree ≤ 2 plus whatever is still of higher degree) has the energy
    of the original polynomial -/
theorem reduce_energy_consistent {V : Type} [DecidableEq V] (poly : List (Term V × Rat)) (hnd : ∀ tb ∈ poly, tb.1.Nodup)
    (choices : List (V × V × V)) (hv : Valid choices (HiLo.init poly)) (x : V → Rat) (hc : Consistent x choices) :
    (semReduce choices (HiLo.init poly)).energy x = polyEnergy x poly := by
  rw [semReduce_energy x choices _ (fun tb h => hnd tb (List.mem_filter.1 h).1) hv hc, init_energy]

/-- in particular, when the run ends with nothing of degree > 2, the degree-≤-2 terms alone carry the energy -/
theorem reduce_energy_consistent_done {V : Type} [DecidableEq V] (poly : List (Term V × Rat)) (hnd : ∀ tb ∈ poly, tb.1.Nodup)
    (choices : List (V × V × V)) (hv : Valid choices (HiLo.init poly)) (x : V → Rat) (hc : Consistent x choices)
    (hdone : (semReduce choices (HiLo.init poly)).hi = []) :
    polyEnergy x (semReduce choices (HiLo.init poly)).lo = polyEnergy x poly := by
  have := reduce_energy_consistent poly hnd choices hv x hc
  unfold HiLo.energy at this
  rw [hdone] at this
  simp only [polyEnergy] at this
  grind

/-! ## layer (ii): the coded bookkeeping -/

/-- the product (resp. auxiliary) variable `_new_product` (`_new_aux`) creates is not in `variables` -/
theorem new_product_fresh (vars : List Label) (u v : Label) : newProduct vars u v ∉ vars := newProduct_fresh vars u v
theorem new_aux_fresh (vars : List Label) (u v : Label) : newAux vars u v ∉ vars := newAux_fresh vars u v

/-- one iteration of `while idx:` as coded: with `terms = idx[pair]`, `reduced_terms` grows by the rewritten
    terms of degree ≤ 2, `constraints` by `(pair, product)`, `variables` by the product -/
theorem bookkeeping_step_spec (s : BK) (choice : Pair) (s' : BK) (h : bkStep s choice = some s') :
    ∃ terms, idxGet s.idx choice = some terms
      ∧ s'.reduced = s.reduced ++ (terms.map (fun tb => (substTerm choice.1 choice.2 (newProduct s.vars choice.1 choice.2) tb.1, tb.2))).filter
                                    (fun tb => decide (tb.1.length ≤ 2))
      ∧ s'.constraints = s.constraints ++ [(choice, newProduct s.vars choice.1 choice.2)]
      ∧ s'.vars = s.vars ++ [newProduct s.vars choice.1 choice.2] := bkStep_spec s choice s' h

/-- one coded iteration is the semantic step on the reduced terms, provided `idx[pair]` lists (up to order)
    the current terms of degree > 2 containing the pair (that it does is `bookkeeping_refines_semantic`) -/
theorem bookkeeping_step_refines (s : BK) (choice : Pair) (s' : BK) (h : bkStep s choice = some s') (hl : HiLo Label)
    (hsim : s.reduced.Perm hl.lo)
    (hidx : ∀ terms, idxGet s.idx choice = some terms → terms.Perm (hl.hi.filter (fun tb => hasPair choice.1 choice.2 tb.1))) :
    s'.reduced.Perm (step choice.1 choice.2 (newProduct s.vars choice.1 choice.2) hl).lo :=
  bkStep_refines_step s choice s' h hl hsim hidx

/-- the index invariant is kept by one iteration of `while idx:` (`_decrement_count`, `_remove_old`, the
    `idx[...][...] = bias` updates as coded): with `cur` the current terms of degree > 2,
    `idx[{a, b}]` lists exactly the terms of `cur` containing `a` and `b`, before and after -/
theorem bookkeeping_index_invariant (s : BK) (choice : Pair) (s' : BK) (h : bkStep s choice = some s') (hne : choice.1 ≠ choice.2)
    (cur : List (LTerm × Rat)) (hwf : IdxWF s.idx) (hinv : IdxInv s.idx cur (fun _ => false)) (hcur : TermsOK cur)
    (hlab : LabelsIn cur s.vars) :
    IdxWF s'.idx
    ∧ IdxInv s'.idx (hiAfter choice.1 choice.2 (newProduct s.vars choice.1 choice.2) cur) (fun _ => false)
    ∧ TermsOK (hiAfter choice.1 choice.2 (newProduct s.vars choice.1 choice.2) cur)
    ∧ LabelsIn (hiAfter choice.1 choice.2 (newProduct s.vars choice.1 choice.2) cur) s'.vars :=
  let r := bkStep_inv s choice s' h hne cur hwf hinv hcur hlab
  ⟨r.1, r.2.1, r.2.2.1, r.2.2.2.1⟩

/-- **`bookkeeping_refines_semantic`**: whenever the coded loop completes on an oracle (the pairs
    `max(que)`/`set.pop()` delivered, each with two different members), for a polynomial with
    duplicate-free, pairwise different terms over known variables:
    its `constraints` are a legal sequence of semantic choices `(u, v, p)` (`p` fresh), its `reduced_terms`
    are — up to order — the degree-≤-2 terms of the semantic reduction on that sequence, and its index
    lists exactly the terms the semantic reduction still has to reduce.
    (That the loop never hits a missing key for any pop sequence the code can produce is
    `reduce_loop_never_raises` below.) -/
theorem bookkeeping_refines_semantic (poly : List (LTerm × Rat)) (vars : List Label) (choices : List Pair) (s : BK)
    (hok : TermsOK poly) (hvars : ∀ tb ∈ poly, ∀ w ∈ tb.1, w ∈ vars) (hch : ∀ c ∈ choices, c.1 ≠ c.2)
    (h : bkReduce poly vars choices = some s) :
    ∃ named : List (Label × Label × Label),
      named.map (fun c => (c.1, c.2.1)) = choices
      ∧ s.constraints = named.map (fun c => ((c.1, c.2.1), c.2.2))
      ∧ Valid named (HiLo.init poly)
      ∧ s.reduced.Perm (semReduce named (HiLo.init poly)).lo
      ∧ IdxInv s.idx (semReduce named (HiLo.init poly)).hi (fun _ => false) := by
  obtain ⟨named, h1, h2, h3, h4⟩ := bkFold_refines choices (BK.init poly vars) (HiLo.init poly) (runInv_init poly vars hok hvars) hch s h
  exact ⟨named, h1, by simpa [BK.init] using h2, h3, h4.red, h4.inv⟩

/-- hence the coded reduction is **exact on consistent assignments**: when the loop ends (`idx` empty), the
    returned `reduced_terms` have the polynomial's energy at every assignment in which each product
    variable of `constraints` equals its product -/
theorem bookkeeping_energy_consistent (poly : List (LTerm × Rat)) (vars : List Label) (choices : List Pair) (s : BK)
    (hok : TermsOK poly) (hvars : ∀ tb ∈ poly, ∀ w ∈ tb.1, w ∈ vars) (hch : ∀ c ∈ choices, c.1 ≠ c.2)
    (h : bkReduce poly vars choices = some s) (hdone : s.idx = [])
    (x : Label → Rat) (hc : ∀ c ∈ s.constraints, x c.2 = x c.1.1 * x c.1.2) :
    polyEnergy x s.reduced = polyEnergy x poly ∧ ∀ tb ∈ s.reduced, tb.1.length ≤ 2 := by
  obtain ⟨named, h1, h2, h3, h4⟩ := bkFold_refines choices (BK.init poly vars) (HiLo.init poly) (runInv_init poly vars hok hvars) hch s h
  have hcons : s.constraints = named.map (fun c => ((c.1, c.2.1), c.2.2)) := by simpa [BK.init] using h2
  have hcx : Consistent x named := by
    intro c hcm
    have := hc ((c.1, c.2.1), c.2.2) (by rw [hcons]; exact List.mem_map.2 ⟨c, hcm, rfl⟩)
    simpa using this
  have he := reduce_energy_consistent poly hok.1 named h3 x hcx
  have hhi : (semReduce named (HiLo.init poly)).hi = [] :=
    hi_nil_of_idx_nil s.idx _ hdone h4.inv h4.ok (allHigh_semReduce named _ (allHigh_init poly))
  unfold HiLo.energy at he
  rw [hhi] at he
  simp only [polyEnergy] at he
  refine ⟨?_, ?_⟩
  · rw [polyEnergy_perm x _ _ h4.red]; grind
  · intro tb htb
    exact reduce_degree_le_two poly named tb (h4.red.mem_iff.1 htb)

/-! ## the count queue `que`: the coded loop never raises and terminates -/

/-- **`que` mirrors `idx`, and the loop never raises.**  Start `reduce_binary_polynomial` on a polynomial
    with duplicate-free, pairwise different terms, and let `choices` be *any* sequence of pops the code
    can make (`Red.OracleOK`: each pair is a member of `que[max(que)]` of the state it is popped from —
    `set.pop()` is arbitrary).  Then none of the accesses `idx[pair]`, `que[count].remove(pair)`,
    `del idx_pair[term]`, `idx.pop(pair)`, `max(que)` fails (`bkReduce` is `some`), and in the state reached
    * `pair ∈ que[n]` exactly when `n = len(idx[pair]) > 0` (the counters are exact),
    * every popped pair had two different members,
    * the number of iterations is at most the total degree of the higher-order terms,
    * if `idx` is not empty there is again a pair to pop (`que` is not empty and `que[max(que)]` neither),
    * all `reduced_terms` have degree ≤ 2. -/
theorem reduce_loop_never_raises (poly : List (LTerm × Rat)) (vars : List Label) (choices : List Pair)
    (hok : TermsOK poly) (hvars : ∀ tb ∈ poly, ∀ w ∈ tb.1, w ∈ vars)
    (ho : OracleOK (BK.init poly vars) choices) :
    ∃ s, bkReduce poly vars choices = some s
      ∧ (∀ n p, inQue s.que n p ↔ (0 < n ∧ (absIdx s.idx p).length = n))
      ∧ (∀ c ∈ choices, c.1 ≠ c.2)
      ∧ choices.length ≤ (HiLo.init poly).measure
      ∧ (s.idx ≠ [] → ∃ c, inQue s.que (maxKey s.que) c)
      ∧ (∀ tb ∈ s.reduced, tb.1.length ≤ 2) := by
  obtain ⟨s, hl', h, hr, hm, hch⟩ := bkRun_no_raise choices (BK.init poly vars) (HiLo.init poly) (runQ_init poly vars hok hvars) ho
  refine ⟨s, h, ?_, hch, by omega, fun hidx => exists_choice s hl' hr hidx, ?_⟩
  · intro n p
    rw [hr.que.char n p]
    constructor
    · rintro ⟨_, h2⟩; exact h2
    · intro h2; exact ⟨not_inNew_nil p, h2⟩
  · intro tb htb
    exact hr.lo tb (hr.run.red.mem_iff.1 htb)

/-- **the coded loop terminates with `idx` empty**: some run of the code (and by
    `reduce_loop_never_raises` every run continues until then) reaches `while idx:` with `idx` empty -/
theorem reduce_loop_terminates (poly : List (LTerm × Rat)) (vars : List Label)
    (hok : TermsOK poly) (hvars : ∀ tb ∈ poly, ∀ w ∈ tb.1, w ∈ vars) :
    ∃ choices s, OracleOK (BK.init poly vars) choices ∧ bkReduce poly vars choices = some s ∧ s.idx = [] :=
  bkRun_total _ (BK.init poly vars) (HiLo.init poly) (runQ_init poly vars hok hvars) (Nat.le_refl _)

/-- hence **`make_quadratic` and `make_quadratic_cqm` never raise**: for every input polynomial, on every
    complete run of the loop (any pops the code can make, until `idx` is empty), both return a model -/
theorem make_quadratic_never_raises (reserved : List Label) (vt : VT) (strength : Rat) (raw : List (List Label × Rat)) (choices : List Pair)
    (ho : OracleOK (BK.init (normPoly vt raw) (polyVars (normPoly vt raw) ++ reserved)) choices)
    (hdone : ∀ s, bkReduce (normPoly vt raw) (polyVars (normPoly vt raw) ++ reserved) choices = some s → s.idx = []) :
    (∃ r, makeQuadratic reserved vt strength raw choices = some r) ∧ (∃ r, makeQuadraticCqm reserved vt raw choices = some r) := by
  obtain ⟨s, hs, _, _, _, _, hdeg⟩ := reduce_loop_never_raises (normPoly vt raw) (polyVars (normPoly vt raw) ++ reserved) choices
    (normPoly_ok vt raw) (fun tb htb w hw => List.mem_append_left _ (polyVars_mem _ tb htb w hw)) ho
  have hidx := hdone s hs
  obtain ⟨obj, hobj⟩ := (objectiveBag_some_iff s.reduced).2 hdeg
  constructor
  · unfold makeQuadratic
    simp only [hs, hidx, hobj, List.isEmpty_nil, Bool.not_true, Bool.false_eq_true, if_false]
    exact ⟨_, rfl⟩
  · unfold makeQuadraticCqm
    simp only [hs, hidx, hobj, List.isEmpty_nil, Bool.not_true, Bool.false_eq_true, if_false]
    exact ⟨_, rfl⟩

/-- and such a complete run exists for every input -/
theorem make_quadratic_total (reserved : List Label) (vt : VT) (strength : Rat) (raw : List (List Label × Rat)) :
    ∃ choices, OracleOK (BK.init (normPoly vt raw) (polyVars (normPoly vt raw) ++ reserved)) choices
      ∧ (∃ r, makeQuadratic reserved vt strength raw choices = some r) ∧ (∃ r, makeQuadraticCqm reserved vt raw choices = some r) := by
  obtain ⟨choices, s, ho, hs, hidx⟩ := reduce_loop_terminates (normPoly vt raw) (polyVars (normPoly vt raw) ++ reserved)
    (normPoly_ok vt raw) (fun tb htb w hw => List.mem_append_left _ (polyVars_mem _ tb htb w hw))
  refine ⟨choices, ho, make_quadratic_never_raises reserved vt strength raw choices ho ?_⟩
  intro s' hs'
  rw [hs] at hs'; cases hs'; exact hidx

/-! ## product penalties: generated tables (finite truth tables) -/

/-- AND gate (BINARY reduction): penalty ≥ 0, `= 0 ⇔ p = u∧v`, else ≥ 1 -/
theorem and_gate_table : GateSpec andBinary [0, 1] 3 0 (fun v => v.getD 2 0 == v.getD 0 0 * v.getD 1 0) := by decide +kernel

/-- `_spin_product` (SPIN reduction): minimised over the auxiliary the penalty is `0 ⇔ p = u·v`, else ≥ 1; never negative -/
theorem spin_product_table : GateSpec spinProduct [-1, 1] 3 1 (fun v => v.getD 2 0 == v.getD 0 0 * v.getD 1 0) := by decide +kernel

/-! ## `make_quadratic` -/

/-- **assembly, BINARY**: whenever `make_quadratic` succeeds, the BQM's energy is the reduced polynomial's
    energy plus `strength ×` the sum of the AND penalties of the product constraints -/
theorem make_quadratic_energy (reserved : List Label) (strength : Rat) (raw : List (List Label × Rat)) (choices : List Pair)
    (bag : List (PTerm Label)) (st : BK) (auxs : List Label)
    (h : makeQuadratic reserved .binary strength raw choices = some (bag, st, auxs)) (x : Label → Rat) :
    evalBag x bag = polyEnergy x st.reduced + strength * penSumB x st.constraints := by
  unfold makeQuadratic at h
  split at h
  · simp at h
  · rename_i s hs
    split at h
    · simp at h
    · split at h
      · simp at h
      · rename_i obj hobj
        simp only [Option.some.injEq, Prod.mk.injEq] at h
        obtain ⟨hb, hst, _⟩ := h
        subst hb; subst hst
        rw [evalBag_append, penaltyBags_binary_eval, objectiveBag_eval x _ _ hobj]
        grind

/-- **assembly, SPIN**: the same with the `_spin_product` penalties and the auxiliaries the code created -/
theorem make_quadratic_energy_spin (reserved : List Label) (strength : Rat) (raw : List (List Label × Rat)) (choices : List Pair)
    (bag : List (PTerm Label)) (st : BK) (auxs : List Label)
    (h : makeQuadratic reserved .spin strength raw choices = some (bag, st, auxs)) (x : Label → Rat) :
    evalBag x bag = polyEnergy x st.reduced + strength * penSumS x st.constraints auxs ∧ auxs.length = st.constraints.length := by
  unfold makeQuadratic at h
  split at h
  · simp at h
  · rename_i s hs
    split at h
    · simp at h
    · split at h
      · simp at h
      · rename_i obj hobj
        simp only [Option.some.injEq, Prod.mk.injEq] at h
        obtain ⟨hb, hst, ha⟩ := h
        subst hb; subst hst; subst ha
        refine ⟨?_, penaltyBags_aux_length _ _ _⟩
        rw [evalBag_append, penaltyBags_spin_eval, objectiveBag_eval x _ _ hobj]
        grind

/-- each AND penalty at a 0/1 sample: never negative, `0` exactly when `p = u·v`, at least 1 otherwise -/
theorem and_penalty_spec (x : Label → Rat) (c : Pair × Label) (hx : ∀ l, x l ∈ [(0 : Rat), 1]) :
    0 ≤ andPen x c ∧ (andPen x c = 0 ↔ x c.2 = x c.1.1 * x c.1.2) ∧ (andPen x c ≠ 0 → 1 ≤ andPen x c) := by
  have hmem : [x c.1.1, x c.1.2, x c.2] ∈ assignments [(0 : Rat), 1] 3 :=
    mem_assignments [0, 1] [x c.1.1, x c.1.2, x c.2] (by
      intro a ha; simp only [List.mem_cons, List.mem_nil_iff, or_false] at ha
      rcases ha with rfl | rfl | rfl <;> exact hx _)
  obtain ⟨h0, h1, h2⟩ := and_gate_table _ hmem
  have hnil : ∀ a ∈ assignments [(0 : Rat), 1] 0, a = [] := by intro a ha; simpa [assignments] using ha
  have e0 : andPen x c = andBinary.energy (ofList ([x c.1.1, x c.1.2, x c.2] ++ [])) := by simp [andPen]
  refine ⟨by rw [e0]; exact h0 [] (by simp [assignments]), ?_, ?_⟩
  · constructor
    · intro hz
      cases hr : ((fun v : List Rat => v.getD 2 0 == v.getD 0 0 * v.getD 1 0) [x c.1.1, x c.1.2, x c.2]) with
      | true => simpa using hr
      | false =>
        have := h2 hr [] (by simp [assignments])
        rw [← e0, hz] at this
        exact absurd this (by decide)
    · intro heq
      have hr : ((fun v : List Rat => v.getD 2 0 == v.getD 0 0 * v.getD 1 0) [x c.1.1, x c.1.2, x c.2]) = true := by simpa using heq
      obtain ⟨a, ha, hz⟩ := h1 hr
      rw [hnil a ha] at hz
      rw [e0]; exact hz
  · intro hne
    cases hr : ((fun v : List Rat => v.getD 2 0 == v.getD 0 0 * v.getD 1 0) [x c.1.1, x c.1.2, x c.2]) with
    | false => rw [e0]; exact h2 hr [] (by simp [assignments])
    | true =>
      exfalso; apply hne
      obtain ⟨a, ha, hz⟩ := h1 hr
      rw [hnil a ha] at hz
      rw [e0]; exact hz

/-- hence the **penalty is never negative** and vanishes on consistent assignments (BINARY, `strength ≥ 0`):
    the BQM never lies below the reduced polynomial, and equals it where every `p = u·v` -/
theorem make_quadratic_penalty_nonneg (x : Label → Rat) (hx : ∀ l, x l ∈ [(0 : Rat), 1]) (cs : List (Pair × Label)) :
    0 ≤ penSumB x cs ∧ ((∀ c ∈ cs, x c.2 = x c.1.1 * x c.1.2) → penSumB x cs = 0)
    ∧ ((∃ c ∈ cs, x c.2 ≠ x c.1.1 * x c.1.2) → 1 ≤ penSumB x cs) := by
  induction cs with
  | nil => simp [penSumB]
  | cons c r ih =>
    have hc := and_penalty_spec x c hx
    simp only [penSumB, List.mem_cons, forall_eq_or_imp, exists_eq_or_imp]
    refine ⟨by have := ih.1; have := hc.1; grind, ?_, ?_⟩
    · rintro ⟨h1, h2⟩
      rw [hc.2.1.2 h1, ih.2.1 h2]; grind
    · rintro (h | h)
      · have : andPen x c ≠ 0 := fun hz => h (hc.2.1.1 hz)
        have := hc.2.2 this; have := ih.1; grind
      · have := ih.2.2 h; have := hc.1; grind

/-- **`make_quadratic` is exact on consistent assignments (BINARY)**: whenever it succeeds, at every 0/1
    assignment in which each product variable equals its product the BQM has the polynomial's energy
    (`normPoly` = `BinaryPolynomial.__init__`); at every other 0/1 assignment it lies at least `strength`
    above the reduced polynomial -/
theorem make_quadratic_exact (reserved : List Label) (strength : Rat) (raw : List (List Label × Rat)) (choices : List Pair)
    (bag : List (PTerm Label)) (st : BK) (auxs : List Label)
    (h : makeQuadratic reserved .binary strength raw choices = some (bag, st, auxs)) (hch : ∀ c ∈ choices, c.1 ≠ c.2)
    (x : Label → Rat) (hx : ∀ l, x l ∈ [(0 : Rat), 1]) (hc : ∀ c ∈ st.constraints, x c.2 = x c.1.1 * x c.1.2) :
    evalBag x bag = polyEnergy x (normPoly .binary raw) := by
  have he := make_quadratic_energy reserved strength raw choices bag st auxs h x
  unfold makeQuadratic at h
  split at h
  · simp at h
  · rename_i s hs
    split at h
    · simp at h
    · rename_i hidx
      split at h
      · simp at h
      · simp only [Option.some.injEq, Prod.mk.injEq] at h
        obtain ⟨_, hst, _⟩ := h
        subst hst
        have hdone : s.idx = [] := by
          cases hi : s.idx with
          | nil => rfl
          | cons a r => rw [hi] at hidx; simp at hidx
        have := bookkeeping_energy_consistent (normPoly .binary raw) (polyVars (normPoly .binary raw) ++ reserved) choices s
          (normPoly_ok .binary raw) (fun tb htb w hw => List.mem_append_left _ (polyVars_mem _ tb htb w hw)) hch hs hdone x hc
        rw [he, this.1, (make_quadratic_penalty_nonneg x hx s.constraints).2.1 hc]
        grind

/-- SPIN: the `_spin_product` penalties are never negative and sum to ≥ 1 when some product variable is
    inconsistent — for every value of the auxiliaries (±1 samples) -/
theorem make_quadratic_penalty_nonneg_spin (x : Label → Rat) (hx : Spin01 x) (cs : List (Pair × Label)) (auxs : List Label)
    (hl : auxs.length = cs.length) :
    0 ≤ penSumS x cs auxs ∧ ((∃ c ∈ cs, x c.2 ≠ x c.1.1 * x c.1.2) → 1 ≤ penSumS x cs auxs) := penSumS_bounds x hx cs auxs hl

/-- SPIN, **minimised over the spin auxiliaries**: on a consistent assignment the auxiliaries that
    `make_quadratic` created (pairwise distinct and fresh, next theorem) can be set so that all penalties
    vanish, leaving every other variable as it is — so the minimum of the BQM over the auxiliaries is the
    reduced polynomial's energy -/
theorem make_quadratic_spin_min_over_aux (cs : List (Pair × Label)) (auxs : List Label) (hl : auxs.length = cs.length)
    (hnd : auxs.Nodup) (hfresh : ∀ c ∈ cs, c.1.1 ∉ auxs ∧ c.1.2 ∉ auxs ∧ c.2 ∉ auxs)
    (x : Label → Rat) (hx : Spin01 x) (hc : ∀ c ∈ cs, x c.2 = x c.1.1 * x c.1.2) :
    ∃ x', Spin01 x' ∧ (∀ l, l ∉ auxs → x' l = x l) ∧ penSumS x' cs auxs = 0 :=
  penSumS_zero_of_consistent cs auxs hl hnd hfresh x hx hc

/-- the auxiliaries created by `make_quadratic` are pairwise distinct and none of them is in `variables`
    (the polynomial's variables and, after the D37 repair, the product variables) -/
theorem make_quadratic_aux_fresh (s : Rat) (vars : List Label) (cs : List (Pair × Label)) :
    (penaltyBags .spin s vars cs).2.Nodup ∧ ∀ a ∈ (penaltyBags .spin s vars cs).2, a ∉ vars := penaltyBags_aux_fresh s vars cs

/-- **`make_quadratic` is exact on consistent assignments, SPIN, minimised over the spin auxiliaries**:
    whenever it succeeds, for every ±1 assignment in which each product variable equals its product there is
    an assignment differing only on the auxiliaries the code created at which the BQM has exactly the
    polynomial's energy (and by `make_quadratic_energy_spin` + `make_quadratic_penalty_nonneg_spin` no
    assignment of the auxiliaries gives less than the reduced polynomial) -/
theorem make_quadratic_exact_spin (reserved : List Label) (strength : Rat) (raw : List (List Label × Rat)) (choices : List Pair)
    (bag : List (PTerm Label)) (st : BK) (auxs : List Label)
    (h : makeQuadratic reserved .spin strength raw choices = some (bag, st, auxs)) (hch : ∀ c ∈ choices, c.1 ≠ c.2)
    (x : Label → Rat) (hx : Spin01 x) (hc : ∀ c ∈ st.constraints, x c.2 = x c.1.1 * x c.1.2) :
    ∃ x', Spin01 x' ∧ (∀ l, l ∉ auxs → x' l = x l) ∧ evalBag x' bag = polyEnergy x (normPoly .spin raw)
      ∧ (∀ a ∈ auxs, a ∉ reserved) :=
  makeQuadratic_spin_exact reserved strength raw choices bag st auxs h hch x hx hc

/-! ## `make_quadratic(poly, strength, vartype, bqm=…)` / `make_quadratic_cqm(…, cqm=…)` onto a given model -/

/-- **the introduced names are fresh, also with respect to the given model**: the product variables are
    pairwise distinct and none of them is a variable of the polynomial or one of the `reserved` labels (the
    variables of the model the calls are added to); for SPIN the auxiliaries are pairwise distinct and differ
    from all of these and from the product variables -/
theorem make_quadratic_names_fresh (reserved : List Label) (vt : VT) (strength : Rat) (raw : List (List Label × Rat))
    (choices : List Pair) (bag : List (PTerm Label)) (st : BK) (auxs : List Label)
    (h : makeQuadratic reserved vt strength raw choices = some (bag, st, auxs)) :
    (st.constraints.map (·.2)).Nodup
    ∧ (∀ c ∈ st.constraints, c.2 ∉ polyVars (normPoly vt raw) ++ reserved)
    ∧ auxs.Nodup
    ∧ (∀ a ∈ auxs, a ∉ polyVars (normPoly vt raw) ++ reserved ++ st.constraints.map (·.2)) := by
  unfold makeQuadratic at h
  split at h
  · simp at h
  · rename_i s hs
    split at h
    · simp at h
    · split at h
      · simp at h
      · simp only [Option.some.injEq, Prod.mk.injEq] at h
        obtain ⟨_, hst, ha⟩ := h
        subst hst
        have hp := bkReduce_products_fresh _ _ _ s hs
        refine ⟨hp.1, hp.2, ?_, ?_⟩
        · rw [← ha]
          cases vt with
          | spin => exact (penaltyBags_aux_fresh strength _ s.constraints).1
          | binary =>
            have : ∀ (vars : List Label) (cs : List (Pair × Label)), (penaltyBags .binary strength vars cs).2 = [] := by
              intro vars cs
              induction cs generalizing vars with
              | nil => rfl
              | cons c r ih => simp only [penaltyBags]; exact ih vars
            rw [this]; exact List.nodup_nil
        · rw [← ha]
          cases vt with
          | spin => exact (penaltyBags_aux_fresh strength _ s.constraints).2
          | binary =>
            have : ∀ (vars : List Label) (cs : List (Pair × Label)), (penaltyBags .binary strength vars cs).2 = [] := by
              intro vars cs
              induction cs generalizing vars with
              | nil => rfl
              | cons c r ih => simp only [penaltyBags]; exact ih vars
            rw [this]; intro a ha'; simp at ha'

/-- the same for `make_quadratic_cqm(…, cqm=given)` -/
theorem make_quadratic_cqm_names_fresh (reserved : List Label) (vt : VT) (raw : List (List Label × Rat)) (choices : List Pair)
    (s : BK) (h : bkReduce (normPoly vt raw) (polyVars (normPoly vt raw) ++ reserved) choices = some s) :
    (s.constraints.map (·.2)).Nodup ∧ ∀ c ∈ s.constraints, c.2 ∉ polyVars (normPoly vt raw) ++ reserved :=
  bkReduce_products_fresh _ _ _ s h

/-- `change_vartype` (closed form) keeps the energy function: the rebuilt model at a sample of the new
    vartype = the given model at the corresponding sample of its own vartype -/
theorem change_vartype_energy (b : Bq Label) (vt : VT) (x : Label → Rat) (hx : Dom vt x) :
    (changeVartype b vt).vt = vt
    ∧ (changeVartype b vt).energy x = (if b.vt = vt then b.energy x else b.energy (convSample vt x)) :=
  ⟨changeVartype_vt b vt, changeVartype_energy b vt x hx⟩

/-- **`make_quadratic` onto a given model** (`_init_quadratic_model`): the result has the requested vartype
    (the given model's when `vartype` is omitted; `ValueError` = `none` when neither is given), and at every
    sample of that vartype its energy is the given model's energy — converted, when the vartypes differ —
    plus the value of the penalty and objective calls of `make_quadratic` -/
theorem make_quadratic_onto_given_model (g : Option (Bq Label)) (vtArg : Option VT) (strength : Rat) (raw : List (List Label × Rat))
    (choices : List Pair) (res : Bq Label) (vt : VT) (bag : List (PTerm Label)) (st : BK) (auxs : List Label)
    (h : makeQuadraticOnto g vtArg strength raw choices = some (res, vt, bag, st, auxs)) :
    res.vt = vt ∧ (∀ v, vtArg = some v → vt = v) ∧ (vtArg = none → ∃ g', g = some g' ∧ g'.vt = vt)
    ∧ (∃ b, initQuadraticModel g vtArg = some (b, vt) ∧ makeQuadratic (b.lin.map (·.1)) vt strength raw choices = some (bag, st, auxs))
    ∧ ∀ x, Dom vt x → res.energy x = givenEnergy g vt x + evalBag x bag :=
  makeQuadraticOnto_spec g vtArg strength raw choices res vt bag st auxs h

/-- hence, **BINARY result**: at every 0/1 assignment in which each product variable equals its product,
    the result has the polynomial's energy plus the (converted) given model's energy -/
theorem make_quadratic_onto_given_exact (g : Option (Bq Label)) (vtArg : Option VT) (strength : Rat) (raw : List (List Label × Rat))
    (choices : List Pair) (res : Bq Label) (bag : List (PTerm Label)) (st : BK) (auxs : List Label)
    (h : makeQuadraticOnto g vtArg strength raw choices = some (res, .binary, bag, st, auxs)) (hch : ∀ c ∈ choices, c.1 ≠ c.2)
    (x : Label → Rat) (hx : ∀ l, x l ∈ [(0 : Rat), 1]) (hc : ∀ c ∈ st.constraints, x c.2 = x c.1.1 * x c.1.2) :
    res.vt = .binary ∧ res.energy x = givenEnergy g .binary x + polyEnergy x (normPoly .binary raw) := by
  obtain ⟨h1, _, _, ⟨b, _, hmq⟩, h5⟩ := makeQuadraticOnto_spec g vtArg strength raw choices res .binary bag st auxs h
  refine ⟨h1, ?_⟩
  have hdom : Dom .binary x := by
    intro v
    have := hx v
    simp only [List.mem_cons, List.not_mem_nil, or_false] at this
    rcases this with h0 | h0 <;> rw [h0] <;> grind
  rw [h5 x hdom, make_quadratic_exact _ strength raw choices bag st auxs hmq hch x hx hc]

/-- **SPIN result**: for every ±1 assignment in which each product variable equals its product there is an
    assignment differing only on the auxiliaries `make_quadratic` created — which are not variables of the
    model the calls were added to — at which the result has the polynomial's energy plus the (converted)
    given model's energy -/
theorem make_quadratic_onto_given_exact_spin (g : Option (Bq Label)) (vtArg : Option VT) (strength : Rat) (raw : List (List Label × Rat))
    (choices : List Pair) (res : Bq Label) (bag : List (PTerm Label)) (st : BK) (auxs : List Label)
    (h : makeQuadraticOnto g vtArg strength raw choices = some (res, .spin, bag, st, auxs)) (hch : ∀ c ∈ choices, c.1 ≠ c.2)
    (x : Label → Rat) (hx : Spin01 x) (hc : ∀ c ∈ st.constraints, x c.2 = x c.1.1 * x c.1.2) :
    res.vt = .spin ∧ ∃ b, initQuadraticModel g vtArg = some (b, .spin) ∧ ∃ x', Spin01 x' ∧ (∀ l, l ∉ auxs → x' l = x l)
      ∧ (∀ a ∈ auxs, a ∉ b.lin.map (·.1))
      ∧ res.energy x' = givenEnergy g .spin x' + polyEnergy x (normPoly .spin raw) := by
  obtain ⟨h1, _, _, ⟨b, hb, hmq⟩, h5⟩ := makeQuadraticOnto_spec g vtArg strength raw choices res .spin bag st auxs h
  refine ⟨h1, b, hb, ?_⟩
  obtain ⟨x', hx', hoff, he, hres⟩ := make_quadratic_exact_spin _ strength raw choices bag st auxs hmq hch x hx hc
  refine ⟨x', hx', hoff, hres, ?_⟩
  have hdom : Dom .spin x' := by
    intro v
    have := hx' v
    simp only [List.mem_cons, List.not_mem_nil, or_false] at this
    rcases this with h0 | h0 <;> rw [h0] <;> grind
  rw [h5 x' hdom, he]

/-! ## `make_quadratic_cqm` -/

/-- the product constraint `var(u)*var(v) - var(p) == 0` evaluates to `x u · x v − x p` -/
theorem make_quadratic_cqm_constraint (c : Pair × Label) (x : Label → Rat) :
    evalBag x (prodConstraint c).2 = x c.1.1 * x c.1.2 - x c.2 := by
  simp only [prodConstraint, evalBag, PTerm.eval]; grind

/-- **`make_quadratic_cqm`**: whenever it succeeds, at every assignment satisfying all its product constraints
    (`== 0`) the objective has the polynomial's energy, and the objective has degree ≤ 2 by construction -/
theorem make_quadratic_cqm_exact (reserved : List Label) (vt : VT) (raw : List (List Label × Rat)) (choices : List Pair)
    (obj : List (PTerm Label)) (cons : List (String × List (PTerm Label)))
    (h : makeQuadraticCqm reserved vt raw choices = some (obj, cons)) (hch : ∀ c ∈ choices, c.1 ≠ c.2)
    (x : Label → Rat) (hfeas : ∀ c ∈ cons, evalBag x c.2 = 0) :
    evalBag x obj = polyEnergy x (normPoly vt raw) := by
  unfold makeQuadraticCqm at h
  split at h
  · simp at h
  · rename_i s hs
    split at h
    · simp at h
    · rename_i hidx
      split at h
      · simp at h
      · rename_i o hobj
        simp only [Option.some.injEq, Prod.mk.injEq] at h
        obtain ⟨ho, hcons⟩ := h
        subst ho
        have hdone : s.idx = [] := by
          cases hi : s.idx with
          | nil => rfl
          | cons a r => rw [hi] at hidx; simp at hidx
        have hc : ∀ c ∈ s.constraints, x c.2 = x c.1.1 * x c.1.2 := by
          intro c hc
          have := hfeas (prodConstraint c) (by rw [← hcons]; exact List.mem_map.2 ⟨c, hc, rfl⟩)
          rw [make_quadratic_cqm_constraint] at this
          grind
        have := bookkeeping_energy_consistent (normPoly vt raw) (polyVars (normPoly vt raw) ++ reserved) choices s
          (normPoly_ok vt raw) (fun tb htb w hw => List.mem_append_left _ (polyVars_mem _ tb htb w hw)) hch hs hdone x hc
        rw [objectiveBag_eval x _ _ hobj, this.1]

/-! ## `HigherOrderComposite` -/

/-- `hoc_reports_poly_energy`: the energy reported for a returned row is the polynomial's energy *of that
    row*: any sample agreeing with the returned columns has that polynomial energy (the columns contain
    the polynomial's variables: always when `keep_penalty_variables=False`; when `True`, provided the child
    sampler's variables include them) -/
theorem hoc_reports_poly_energy (poly : List (LTerm × Rat)) (keep : Bool) (respVars : List Label) (row : Label → Rat)
    (hsub : keep = true → ∀ v ∈ polyVars poly, v ∈ respVars)
    (y : Label → Rat) (hy : ∀ c ∈ (polymorphRow poly keep respVars row).1, y c.1 = c.2) :
    (polymorphRow poly keep respVars row).2 = polyEnergy y poly := by
  unfold polymorphRow at hy ⊢
  simp only at hy ⊢
  apply polyEnergy_congr
  intro v hv
  have hmem : v ∈ (if keep then respVars else polyVars poly) := by
    cases keep with
    | true => exact hsub rfl v hv
    | false => exact hv
  exact (hy (v, row v) (List.mem_map.2 ⟨v, hmem, rfl⟩)).symm

/-! ## `HigherOrderComposite.sample_poly` over its option grid, for any child sampler -/

/-- `penalty_satisfaction` of a row is true iff **all** product constraints of the reduction hold in it -/
theorem penalty_satisfaction_all_products (reduction : List (Pair × Label)) (x : Label → Rat) :
    penaltySatisfied reduction x = true ↔ ∀ c ∈ reduction, x c.1.1 * x c.1.2 = x c.2 := penaltySatisfied_iff reduction x

/-- **`sample_poly(poly, penalty_strength, keep_penalty_variables, discard_unsatisfied, initial_state=…)` for
    every option and every child sampler** (`Red.samplePoly`; the child is a parameter: any function from the
    quadratic model and the expanded initial state to a response).  Whenever it returns:
    * every returned row comes from a row `x` of the child's response; with `discard_unsatisfied` that row
      satisfies ALL product constraints; its columns are the child's variables (`keep_penalty_variables`) or
      the polynomial's, with the values of `x`; its energy is the polynomial's energy of `x`; its
      `penalty_satisfaction` is true iff `discard_unsatisfied` or all product constraints hold in `x`;
    * a row of the child is returned iff `discard_unsatisfied` is off or ALL its product constraints hold
      (the numbers of rows agree);
    With `hoc_reports_poly_energy` the reported energy is the polynomial's energy of every sample agreeing
    with the returned columns. -/
theorem sample_poly_option_grid (child : Bq Label → Option (List (Label × Rat)) → Response)
    (vt : VT) (raw : List (List Label × Rat)) (choices : List Pair)
    (strength : Rat) (keep discard : Bool) (init : Option (List (Label × Rat))) (out : List HocRow)
    (h : samplePoly child vt raw choices strength keep discard init = some out) :
    ∃ (st : BK) (resp : Response),
      (∀ r ∈ out, ∃ x ∈ resp.rows,
          (discard = true → ∀ c ∈ st.constraints, x c.1.1 * x c.1.2 = x c.2)
          ∧ r.cols = (if keep then resp.vars else polyVars (normPoly vt raw)).map (fun v => (v, x v))
          ∧ r.energy = polyEnergy x (normPoly vt raw)
          ∧ (r.sat = true ↔ (discard = true ∨ ∀ c ∈ st.constraints, x c.1.1 * x c.1.2 = x c.2)))
      ∧ (∀ x ∈ resp.rows, (discard = false ∨ ∀ c ∈ st.constraints, x c.1.1 * x c.1.2 = x c.2) →
          ∃ r ∈ out, r.cols = (if keep then resp.vars else polyVars (normPoly vt raw)).map (fun v => (v, x v))
            ∧ r.energy = polyEnergy x (normPoly vt raw))
      ∧ out.length = (resp.rows.filter (fun x => !discard || penaltySatisfied st.constraints x)).length :=
  samplePoly_rows child vt raw choices strength keep discard init out h

/-- what the child is called with: `make_quadratic(poly, penalty_strength, poly.vartype)` on a fresh model, and no
    initial state when none was given -/
theorem sample_poly_child_call (child : Bq Label → Option (List (Label × Rat)) → Response)
    (vt : VT) (raw : List (List Label × Rat)) (choices : List Pair)
    (strength : Rat) (keep discard : Bool) (init : Option (List (Label × Rat))) (out : List HocRow)
    (h : samplePoly child vt raw choices strength keep discard init = some out) :
    ∃ bag st auxs init', makeQuadratic [] vt strength raw choices = some (bag, st, auxs)
      ∧ (init = none → init' = none)
      ∧ out = polymorphResponse (normPoly vt raw) st.constraints keep discard (child ((Bq.empty vt : Bq Label).apply bag) init') :=
  samplePoly_spec child vt raw choices strength keep discard init out h

/-- **`expand_initial_state`**: the state handed to the child extends the given one (labels that are neither
    product nor auxiliary variables keep their values) and is consistent — every product variable equals the
    product of its two factors.  `FreshRed` = the names written by an entry are not read or written elsewhere
    (guaranteed by `make_quadratic_names_fresh`). -/
theorem expand_initial_state_consistent (b : Bq Label) (red : List (Pair × Label × Option Label)) (hf : FreshRed red)
    (st st' : List (Label × Rat)) (h : expandInitialState b red st = some st') :
    (∀ l, (∀ e ∈ red, l ≠ e.2.1 ∧ ∀ a, e.2.2 = some a → l ≠ a) → getKey st' l = getKey st l)
    ∧ (∀ e ∈ red, ∃ su sv, getKey st' e.1.1 = some su ∧ getKey st' e.1.2 = some sv ∧ getKey st' e.2.1 = some (su * sv)) :=
  expandInitialState_consistent b red hf st st' h

/-! ## `HigherOrderComposite` end to end: `make_quadratic` tied to the reported polynomial energies -/

/-- the product constraint of `make_quadratic_cqm` / `reduce_binary_polynomial` **holds (`== 0`) iff the introduced
    variable equals the product it stands for** — the constraint expression `var(u)·var(v) − var(p)` is the same for
    BINARY and SPIN models (`var(x)` = the one-variable model of the requested vartype), at every sample -/
theorem make_quadratic_cqm_constraint_iff (c : Pair × Label) (x : Label → Rat) :
    evalBag x (prodConstraint c).2 = 0 ↔ x c.2 = x c.1.1 * x c.1.2 := by
  rw [make_quadratic_cqm_constraint]; constructor <;> intro h <;> grind

/-- hence a sample is feasible for `make_quadratic_cqm`'s model iff every introduced variable equals its product -/
theorem make_quadratic_cqm_feasible_iff (reserved : List Label) (vt : VT) (raw : List (List Label × Rat)) (choices : List Pair)
    (obj : List (PTerm Label)) (cons : List (String × List (PTerm Label)))
    (h : makeQuadraticCqm reserved vt raw choices = some (obj, cons)) (x : Label → Rat) :
    ∃ st : BK, bkReduce (normPoly vt raw) (polyVars (normPoly vt raw) ++ reserved) choices = some st
      ∧ ((∀ c ∈ cons, evalBag x c.2 = 0) ↔ ∀ c ∈ st.constraints, x c.2 = x c.1.1 * x c.1.2) := by
  unfold makeQuadraticCqm at h
  split at h
  · simp at h
  · rename_i s hs
    split at h
    · simp at h
    · split at h
      · simp at h
      · simp only [Option.some.injEq, Prod.mk.injEq] at h
        obtain ⟨_, hcons⟩ := h
        refine ⟨s, hs, ?_⟩
        rw [← hcons]
        simp only [List.mem_map, forall_exists_index, and_imp, forall_apply_eq_imp_iff₂]
        constructor
        · intro hf c hc; exact (make_quadratic_cqm_constraint_iff c x).1 (hf c hc)
        · intro hf c hc; exact (make_quadratic_cqm_constraint_iff c x).2 (hf c hc)

/-- **`HigherOrderComposite.sample_poly`, BINARY polynomial, end to end** (`penalty_strength ≥ 0`, every option, any
    child sampler): the child is called on `make_quadratic(poly, penalty_strength, BINARY)`; every returned row stems from
    a row `x` of the child's response, reports the polynomial's energy of `x`, and for 0/1 rows
    * the quadratic model's energy of `x` is never below the reduced polynomial's (the penalty is never negative);
    * if the row is reported as satisfying the penalties (always, with `discard_unsatisfied`), the energy the child saw
      for `x` **is** the reported polynomial energy;
    * if it is reported unsatisfied, the child's energy lies at least `penalty_strength` above the reduced polynomial. -/
theorem hoc_end_to_end_binary (child : Bq Label → Option (List (Label × Rat)) → Response)
    (raw : List (List Label × Rat)) (choices : List Pair) (hch : ∀ c ∈ choices, c.1 ≠ c.2)
    (strength : Rat) (hs : 0 ≤ strength) (keep discard : Bool) (init : Option (List (Label × Rat))) (out : List HocRow)
    (h : samplePoly child .binary raw choices strength keep discard init = some out) :
    ∃ bag st auxs init', makeQuadratic [] .binary strength raw choices = some (bag, st, auxs)
      ∧ ∀ r ∈ out, ∃ x ∈ (child ((Bq.empty .binary : Bq Label).apply bag) init').rows,
          r.energy = polyEnergy x (normPoly .binary raw)
          ∧ ((∀ l, x l ∈ [(0 : Rat), 1]) →
              polyEnergy x st.reduced ≤ ((Bq.empty .binary : Bq Label).apply bag).energy x
              ∧ (r.sat = true → ((Bq.empty .binary : Bq Label).apply bag).energy x = r.energy)
              ∧ (r.sat = false → polyEnergy x st.reduced + strength ≤ ((Bq.empty .binary : Bq Label).apply bag).energy x)) := by
  obtain ⟨bag, st, auxs, init', hmq, _, hout⟩ := samplePoly_spec child .binary raw choices strength keep discard init out h
  refine ⟨bag, st, auxs, init', hmq, ?_⟩
  have hspec := polymorphResponse_spec (normPoly .binary raw) st.constraints keep discard (child ((Bq.empty .binary : Bq Label).apply bag) init')
  rw [← hout] at hspec
  intro r hr
  obtain ⟨x, hxm, hdisc, _, hen, hsat⟩ := hspec.2.1 r hr
  refine ⟨x, hxm, hen, fun hx => ?_⟩
  have hdom : Dom (Bq.empty .binary : Bq Label).vt x := by
    intro v
    have := hx v
    simp only [List.mem_cons, List.not_mem_nil, or_false] at this
    rcases this with h0 | h1
    · rw [h0]; grind
    · rw [h1]; grind
  have hE : ((Bq.empty .binary : Bq Label).apply bag).energy x = evalBag x bag := by
    rw [apply_energy _ x hdom]
    simp only [Bq.empty, Bq.energy, Bq.linSum, Bq.quadSum]; grind
  have he := make_quadratic_energy [] strength raw choices bag st auxs hmq x
  have hpen := make_quadratic_penalty_nonneg x hx st.constraints
  refine ⟨?_, ?_, ?_⟩
  · rw [hE, he]
    have := Rat.mul_nonneg hs hpen.1
    grind
  · intro hsat'
    have hall : ∀ c ∈ st.constraints, x c.2 = x c.1.1 * x c.1.2 := by
      rcases hsat.1 hsat' with hd | ha
      · intro c hc; exact (hdisc hd c hc).symm
      · intro c hc; exact (ha c hc).symm
    rw [hE, hen]
    exact make_quadratic_exact [] strength raw choices bag st auxs hmq hch x hx hall
  · intro hsat'
    have hex : ∃ c ∈ st.constraints, x c.2 ≠ x c.1.1 * x c.1.2 := by
      apply Classical.byContradiction
      intro hne
      have hall : ∀ c ∈ st.constraints, x c.1.1 * x c.1.2 = x c.2 := by
        intro c hc
        apply Classical.byContradiction
        intro hcc
        exact hne ⟨c, hc, fun e => hcc e.symm⟩
      have := hsat.2 (Or.inr hall)
      rw [hsat'] at this
      exact Bool.false_ne_true this
    have h1 := hpen.2.2 hex
    rw [hE, he]
    have : strength * 1 ≤ strength * penSumB x st.constraints := Rat.mul_le_mul_of_nonneg_left h1 hs
    grind

/-- the reduced polynomial of a successful `make_quadratic` has the polynomial's energy at every assignment in which
    each introduced variable equals its product (either vartype) -/
theorem make_quadratic_reduced_consistent (reserved : List Label) (vt : VT) (strength : Rat) (raw : List (List Label × Rat)) (choices : List Pair)
    (bag : List (PTerm Label)) (st : BK) (auxs : List Label)
    (h : makeQuadratic reserved vt strength raw choices = some (bag, st, auxs)) (hch : ∀ c ∈ choices, c.1 ≠ c.2)
    (x : Label → Rat) (hc : ∀ c ∈ st.constraints, x c.2 = x c.1.1 * x c.1.2) :
    polyEnergy x st.reduced = polyEnergy x (normPoly vt raw) := by
  unfold makeQuadratic at h
  split at h
  · simp at h
  · rename_i s hs
    split at h
    · simp at h
    · rename_i hidx
      split at h
      · simp at h
      · simp only [Option.some.injEq, Prod.mk.injEq] at h
        obtain ⟨_, hst, _⟩ := h
        subst hst
        have hdone : s.idx = [] := by
          cases hi : s.idx with
          | nil => rfl
          | cons a r => rw [hi] at hidx; simp at hidx
        exact (bookkeeping_energy_consistent (normPoly vt raw) (polyVars (normPoly vt raw) ++ reserved) choices s
          (normPoly_ok vt raw) (fun tb htb w hw => List.mem_append_left _ (polyVars_mem _ tb htb w hw)) hch hs hdone x hc).1

/-- **`HigherOrderComposite.sample_poly`, SPIN polynomial, end to end** (`penalty_strength ≥ 0`, every option, any child
    sampler): every returned row stems from a row `x` of the child's response on `make_quadratic(poly, strength, SPIN)`
    and reports the polynomial's energy of `x`; for ±1 rows
    * the quadratic model's energy of `x` (auxiliaries as the child set them) is never below the reduced polynomial's;
    * if the row is reported as satisfying the penalties, the reported energy is ≤ the energy the child saw, and equals
      the quadratic model's energy after re-setting only the spin auxiliaries (its minimum over the auxiliaries);
    * if it is reported unsatisfied, the child's energy lies at least `penalty_strength` above the reduced polynomial. -/
theorem hoc_end_to_end_spin (child : Bq Label → Option (List (Label × Rat)) → Response)
    (raw : List (List Label × Rat)) (choices : List Pair) (hch : ∀ c ∈ choices, c.1 ≠ c.2)
    (strength : Rat) (hs : 0 ≤ strength) (keep discard : Bool) (init : Option (List (Label × Rat))) (out : List HocRow)
    (h : samplePoly child .spin raw choices strength keep discard init = some out) :
    ∃ bag st auxs init', makeQuadratic [] .spin strength raw choices = some (bag, st, auxs)
      ∧ ∀ r ∈ out, ∃ x ∈ (child ((Bq.empty .spin : Bq Label).apply bag) init').rows,
          r.energy = polyEnergy x (normPoly .spin raw)
          ∧ (Spin01 x →
              polyEnergy x st.reduced ≤ ((Bq.empty .spin : Bq Label).apply bag).energy x
              ∧ (r.sat = true → r.energy ≤ ((Bq.empty .spin : Bq Label).apply bag).energy x
                    ∧ ∃ x', Spin01 x' ∧ (∀ l, l ∉ auxs → x' l = x l) ∧ ((Bq.empty .spin : Bq Label).apply bag).energy x' = r.energy)
              ∧ (r.sat = false → polyEnergy x st.reduced + strength ≤ ((Bq.empty .spin : Bq Label).apply bag).energy x)) := by
  obtain ⟨bag, st, auxs, init', hmq, _, hout⟩ := samplePoly_spec child .spin raw choices strength keep discard init out h
  refine ⟨bag, st, auxs, init', hmq, ?_⟩
  have hspec := polymorphResponse_spec (normPoly .spin raw) st.constraints keep discard (child ((Bq.empty .spin : Bq Label).apply bag) init')
  rw [← hout] at hspec
  intro r hr
  obtain ⟨x, hxm, hdisc, _, hen, hsat⟩ := hspec.2.1 r hr
  refine ⟨x, hxm, hen, fun hx => ?_⟩
  have hdomOf : ∀ y : Label → Rat, Spin01 y → Dom (Bq.empty .spin : Bq Label).vt y := by
    intro y hy v
    have := hy v
    simp only [List.mem_cons, List.not_mem_nil, or_false] at this
    rcases this with h0 | h1
    · rw [h0]; grind
    · rw [h1]; grind
  have hEof : ∀ y : Label → Rat, Spin01 y → ((Bq.empty .spin : Bq Label).apply bag).energy y = evalBag y bag := by
    intro y hy
    rw [apply_energy _ y (hdomOf y hy)]
    simp only [Bq.empty, Bq.energy, Bq.linSum, Bq.quadSum]; grind
  obtain ⟨he, hlen⟩ := make_quadratic_energy_spin [] strength raw choices bag st auxs hmq x
  have hpen := make_quadratic_penalty_nonneg_spin x hx st.constraints auxs hlen
  have hge : polyEnergy x st.reduced ≤ evalBag x bag := by
    rw [he]
    have := Rat.mul_nonneg hs hpen.1
    grind
  refine ⟨by rw [hEof x hx]; exact hge, ?_, ?_⟩
  · intro hsat'
    have hall : ∀ c ∈ st.constraints, x c.2 = x c.1.1 * x c.1.2 := by
      rcases hsat.1 hsat' with hd | ha
      · intro c hc; exact (hdisc hd c hc).symm
      · intro c hc; exact (ha c hc).symm
    have hred := make_quadratic_reduced_consistent [] .spin strength raw choices bag st auxs hmq hch x hall
    refine ⟨by rw [hEof x hx, hen, ← hred]; exact hge, ?_⟩
    obtain ⟨x', hx', hoff, hE', _⟩ := make_quadratic_exact_spin [] strength raw choices bag st auxs hmq hch x hx hall
    exact ⟨x', hx', hoff, by rw [hEof x' hx', hE', hen]⟩
  · intro hsat'
    have hex : ∃ c ∈ st.constraints, x c.2 ≠ x c.1.1 * x c.1.2 := by
      apply Classical.byContradiction
      intro hne
      have hall : ∀ c ∈ st.constraints, x c.1.1 * x c.1.2 = x c.2 := by
        intro c hc
        apply Classical.byContradiction
        intro hcc
        exact hne ⟨c, hc, fun e => hcc e.symm⟩
      have := hsat.2 (Or.inr hall)
      rw [hsat'] at this
      exact Bool.false_ne_true this
    have h1 := hpen.2 hex
    rw [hEof x hx, he]
    have : strength * 1 ≤ strength * penSumS x st.constraints auxs := Rat.mul_le_mul_of_nonneg_left h1 hs
    grind

/-! ## non-vacuity -/

example : (bkReduce (normPoly .binary [([.int 0, .int 1, .int 2], -2), ([.int 0], -1)]) [.int 0, .int 1, .int 2] [(.int 0, .int 1)]).map
    (fun s => (s.reduced.length, s.constraints.length, s.idx.isEmpty)) = some (2, 1, true) := by decide +kernel

/-- the oracle hypothesis of `reduce_loop_never_raises` is satisfiable and decidable on an instance:
    for `-2·x0·x1·x2·x3 + x0·x1·x2` every pair has count ≥ 1, `{0,1}`, `{0,2}`, `{1,2}` have count 2 = `max(que)` -/
example : (BK.init (normPoly .binary [([.int 0, .int 1, .int 2, .int 3], -2), ([.int 0, .int 1, .int 2], 1)])
    [.int 0, .int 1, .int 2, .int 3]).que.map (fun e => (e.1, e.2.length)) = [(2, 3), (1, 3)] := by decide +kernel

/-- `make_quadratic(poly, 2, BINARY, bqm=<SPIN model s0>)`: the result is BINARY, the given `s0` became `2·b0 − 1` -/
example : (makeQuadraticOnto (some { vt := .spin, lin := [(.int 0, 1)], quad := [], off := 0 }) (some .binary) 2
    [([.int 0, .int 1, .int 2], -2)] [(.int 0, .int 1)]).map (fun r => (r.1.vt, r.2.1, r.1.off, r.1.lin.head?)) = some (.binary, .binary, -1, some (.int 0, 2)) := by
  decide +kernel

/-- a product name that is already a variable of the given model is avoided -/
example : (makeQuadraticOnto (some { vt := .binary, lin := [(.str "0*1", 1)], quad := [], off := 0 }) none 2
    [([.int 0, .int 1, .int 2], -2)] [(.int 0, .int 1)]).map (fun r => r.2.2.2.1.constraints.map (·.2)) = some [.str "_0*1"] := by
  decide +kernel

example : newProduct [.str "0*1", .int 0, .int 1] (.int 0) (.int 1) = .str "_0*1" := by decide +kernel

/-! ## round 7: `polymorph_response` — the whole returned sample set as coded (`Red.polymorphRecord`)

The record array of the child (`sample` rows aligned with `variables`, `energy`, the other fields), the
`penalty_satisfaction` column, `discard_unsatisfied`, `keep_penalty_variables`, the recomputed energies, the vectors
carried over, field layout, `info`, vartype and the exceptions. -/

/-- **`penalty_satisfaction(response, bqm)`**: the entry of a record is `1` iff EVERY product variable of
    `bqm.info['reduction']` equals the product of its two factors in that record's row, and `0` otherwise; one entry per
    record, in record order -/
theorem penalty_satisfaction_vector (reduction : List (Pair × Label)) (resp : SampleSetM) (pv : List Nat)
    (h : penaltyVector reduction resp = .ok pv) :
    pv = resp.rows.map (fun r => if penaltySatisfied reduction (rowFn resp.vars r.sample) then 1 else 0)
    ∧ ∀ r ∈ resp.rows, (penaltySatisfied reduction (rowFn resp.vars r.sample) = true
          ↔ ∀ c ∈ reduction, rowFn resp.vars r.sample c.1.1 * rowFn resp.vars r.sample c.1.2 = rowFn resp.vars r.sample c.2) :=
  ⟨penaltyVector_ok reduction resp pv h, fun r _ => penaltySatisfied_iff reduction _⟩

/-- **the returned sample set, for every option** (`order` = the iteration order of the set `poly.variables`).  Whenever
    `polymorph_response` returns:
    * its records are, **in the child's order**, exactly the child's records (all of them; with `discard_unsatisfied`
      exactly those in which every product constraint holds), each rebuilt as `Red.outRowOf`: the sample row itself
      (`keep_penalty_variables`) or its columns for `order`, the polynomial's energy of the row, the
      `penalty_satisfaction` flag, and the child's other fields (`num_occurrences`, …) unchanged;
    * its variables are the child's (`keep_penalty_variables`) or `order`;
    * its fields are `Generated.HocLayout.headFields` (`sample, energy, penalty_satisfaction`, regenerated from the source on
      every run) followed by the child's other fields; the vartype is the child's; `info` is the child's with the keys
      `Generated.HocLayout.reductionKey` and `…strengthKey` set;
    * the dtype of `penalty_satisfaction` is `bool` with `discard_unsatisfied`, `int64` without — and `float64` in the
      two corner cases in which the code builds the column from an empty Python list. -/
theorem polymorph_response_record (poly : List (LTerm × Rat)) (order : List Label) (reduction : List (Pair × Label))
    (strength : Option Rat) (keep discard : Bool) (resp : SampleSetM) (out : OutSet)
    (h : polymorphRecord poly order reduction strength keep discard resp = .ok out) :
    out.rows = (resp.rows.filter (fun r => !discard || penaltySatisfied reduction (rowFn resp.vars r.sample))).map
                 (outRowOf poly order reduction keep discard resp.vars)
    ∧ out.vars = (if keep then resp.vars else order)
    ∧ out.fields = Generated.HocLayout.headFields ++ resp.names
    ∧ out.vt = resp.vt
    ∧ out.info = outInfo reduction strength resp.info
    ∧ out.satDtype = (if discard then
          (if (resp.rows.filter (fun r => !discard || penaltySatisfied reduction (rowFn resp.vars r.sample))).isEmpty then .float64 else .bool)
        else if reduction.isEmpty then (if resp.rows.isEmpty then .float64 else .int64) else .int64) :=
  polymorphRecord_ok poly order reduction strength keep discard resp out h

/-- **row by row**: every returned record stems from a record `r` of the child, keeps its vectors, reports the
    polynomial's energy at the row restricted to the polynomial's variables (any assignment agreeing with the row on
    them has that energy), has `penalty_satisfaction ∈ {0, 1}` with `1` iff (`discard_unsatisfied` or) every product
    variable equals the product of its two factors in the row; with `discard_unsatisfied` every product constraint
    holds in it; and conversely every record of the child that has to be kept is returned -/
theorem polymorph_response_rows (poly : List (LTerm × Rat)) (order : List Label) (reduction : List (Pair × Label))
    (strength : Option Rat) (keep discard : Bool) (resp : SampleSetM) (out : OutSet)
    (h : polymorphRecord poly order reduction strength keep discard resp = .ok out) :
    (∀ ro ∈ out.rows, ∃ r ∈ resp.rows,
        ro.vectors = r.vectors
        ∧ ro.sample = (if keep then r.sample else order.map (rowFn resp.vars r.sample))
        ∧ (∀ y : Label → Rat, (∀ v ∈ polyVars poly, y v = rowFn resp.vars r.sample v) → ro.energy = polyEnergy y poly)
        ∧ (ro.sat = 0 ∨ ro.sat = 1)
        ∧ (ro.sat = 1 ↔ (discard = true ∨ ∀ c ∈ reduction,
              rowFn resp.vars r.sample c.1.1 * rowFn resp.vars r.sample c.1.2 = rowFn resp.vars r.sample c.2))
        ∧ (discard = true → ∀ c ∈ reduction,
              rowFn resp.vars r.sample c.1.1 * rowFn resp.vars r.sample c.1.2 = rowFn resp.vars r.sample c.2))
    ∧ (∀ r ∈ resp.rows, (discard = false ∨ ∀ c ∈ reduction,
              rowFn resp.vars r.sample c.1.1 * rowFn resp.vars r.sample c.1.2 = rowFn resp.vars r.sample c.2) →
          outRowOf poly order reduction keep discard resp.vars r ∈ out.rows)
    ∧ out.rows.length ≤ resp.rows.length
    ∧ (discard = false → out.rows.length = resp.rows.length) := by
  obtain ⟨hrows, -⟩ := polymorphRecord_ok poly order reduction strength keep discard resp out h
  rw [hrows]
  refine ⟨?_, ?_, ?_, ?_⟩
  · intro ro hro
    obtain ⟨r, hr, rfl⟩ := List.mem_map.1 hro
    obtain ⟨hrm, hkeep⟩ := List.mem_filter.1 hr
    refine ⟨r, hrm, rfl, rfl, ?_, ?_, ?_, ?_⟩
    · intro y hy
      exact Red.polyEnergy_congr _ _ poly (fun v hv => (hy v hv).symm)
    · unfold outRowOf; simp only; split <;> simp
    · unfold outRowOf
      simp only [← penaltySatisfied_iff]
      cases discard <;> cases penaltySatisfied reduction (rowFn resp.vars r.sample) <;> simp
    · intro hd
      rw [hd] at hkeep
      simp only [Bool.not_true, Bool.false_or] at hkeep
      exact (penaltySatisfied_iff reduction _).1 hkeep
  · intro r hr hc
    refine List.mem_map.2 ⟨r, List.mem_filter.2 ⟨hr, ?_⟩, rfl⟩
    rcases hc with hd | hc
    · simp [hd]
    · simp [(penaltySatisfied_iff reduction _).2 hc]
  · rw [List.length_map]; exact List.length_filter_le _ _
  · intro hd
    rw [List.length_map, hd]
    simp

/-- **without `keep_penalty_variables` exactly the polynomial's variables remain** (the set `poly.variables` iterates
    over each variable of the polynomial once), with them all columns of the child; and for a well-formed response (as
    many values per row as variables, labels pairwise different) every returned sample row is, column by column, the
    child's value of the returned variable — whatever the option -/
theorem polymorph_response_columns (poly : List (LTerm × Rat)) (order : List Label) (horder : order.Perm (polyVars poly))
    (reduction : List (Pair × Label)) (strength : Option Rat) (keep discard : Bool) (resp : SampleSetM) (out : OutSet)
    (h : polymorphRecord poly order reduction strength keep discard resp = .ok out)
    (hnd : resp.vars.Nodup) (hlen : ∀ r ∈ resp.rows, r.sample.length = resp.vars.length) :
    (keep = false → out.vars.Perm (polyVars poly))
    ∧ (keep = true → out.vars = resp.vars)
    ∧ (∀ ro ∈ out.rows, ∃ r ∈ resp.rows, ro.sample = out.vars.map (rowFn resp.vars r.sample)) := by
  obtain ⟨hrows, hvars, -⟩ := polymorphRecord_ok poly order reduction strength keep discard resp out h
  refine ⟨?_, ?_, ?_⟩
  · intro hk; rw [hvars, hk]; exact horder
  · intro hk; rw [hvars, hk]; rfl
  · intro ro hro
    rw [hrows] at hro
    obtain ⟨r, hr, rfl⟩ := List.mem_map.1 hro
    have hrm := (List.mem_filter.1 hr).1
    refine ⟨r, hrm, ?_⟩
    rw [hvars]
    unfold outRowOf
    cases keep with
    | true => exact row_eq_map_rowFn resp.vars hnd r.sample (hlen r hrm)
    | false => rfl

/-- **when `polymorph_response` raises** (`ValueError` of `variables.index`, `KeyError` inside `poly.energies`,
    `ValueError` of the record dtype): iff a label of the reduction or a variable of the polynomial is not a variable of
    the child's response, or the child's record already has a field named like one of the leading fields (`penalty_satisfaction`) -/
theorem polymorph_response_raises_iff (poly : List (LTerm × Rat)) (order : List Label) (horder : ∀ v ∈ order, v ∈ polyVars poly)
    (reduction : List (Pair × Label)) (strength : Option Rat) (keep discard : Bool) (resp : SampleSetM) :
    (∃ e, polymorphRecord poly order reduction strength keep discard resp = .error e)
      ↔ ((∃ c ∈ reduction, c.1.1 ∉ resp.vars ∨ c.1.2 ∉ resp.vars ∨ c.2 ∉ resp.vars)
          ∨ (∃ v ∈ polyVars poly, v ∉ resp.vars)
          ∨ (∃ n ∈ resp.names, n ∈ Generated.HocLayout.headFields)) :=
  polymorphRecord_error_iff poly order horder reduction strength keep discard resp

/-- **`HigherOrderComposite.sample_poly` returning the whole sample set** (`Red.samplePolyRecord`, any child): the child
    is called on `make_quadratic(poly, penalty_strength, poly.vartype)` on a fresh model, and the result is
    `polymorph_response` of the child's sample set with the reduction `make_quadratic` recorded and
    `penalty_strength` — so the four theorems above apply to it with `reduction = st.constraints` -/
theorem sample_poly_record_spec (child : Bq Label → Option (List (Label × Rat)) → SampleSetM)
    (vt : VT) (raw : List (List Label × Rat)) (choices : List Pair) (order : List Label)
    (strength : Rat) (keep discard : Bool) (init : Option (List (Label × Rat))) (res : Except HocErr OutSet)
    (h : samplePolyRecord child vt raw choices order strength keep discard init = some res) :
    ∃ bag st auxs init', makeQuadratic [] vt strength raw choices = some (bag, st, auxs)
      ∧ (init = none → init' = none)
      ∧ res = polymorphRecord (normPoly vt raw) order st.constraints (some strength) keep discard
                (child ((Bq.empty vt : Bq Label).apply bag) init') := by
  unfold samplePolyRecord at h
  split at h
  · simp at h
  · rename_i bag st auxs hmq
    simp only at h
    split at h
    · simp at h
    · rename_i i' hi
      simp only [Option.some.injEq] at h
      refine ⟨bag, st, auxs, i', hmq, ?_, h.symm⟩
      intro hnone
      subst hnone
      simp only [Option.some.injEq] at hi
      exact hi.symm

/-! ## round 7: the penalty for every `strength` — positive (never negative), zero, negative -/

/-- **the penalty is never negative, BINARY, every `strength ≥ 0`** (in particular every `strength > 0`): whenever
    `make_quadratic` succeeds, at every 0/1 assignment the penalty part `E_bqm − E_reduced` is `≥ 0`, it is `0` where
    every product variable equals its product, and `≥ strength` where some product variable does not -/
theorem make_quadratic_penalty_scaled (reserved : List Label) (strength : Rat) (hs : 0 ≤ strength)
    (raw : List (List Label × Rat)) (choices : List Pair) (bag : List (PTerm Label)) (st : BK) (auxs : List Label)
    (h : makeQuadratic reserved .binary strength raw choices = some (bag, st, auxs))
    (x : Label → Rat) (hx : ∀ l, x l ∈ [(0 : Rat), 1]) :
    0 ≤ evalBag x bag - polyEnergy x st.reduced
    ∧ ((∀ c ∈ st.constraints, x c.2 = x c.1.1 * x c.1.2) → evalBag x bag - polyEnergy x st.reduced = 0)
    ∧ ((∃ c ∈ st.constraints, x c.2 ≠ x c.1.1 * x c.1.2) → strength ≤ evalBag x bag - polyEnergy x st.reduced) := by
  have he := make_quadratic_energy reserved strength raw choices bag st auxs h x
  have hpen := make_quadratic_penalty_nonneg x hx st.constraints
  refine ⟨?_, ?_, ?_⟩
  · have := Rat.mul_nonneg hs hpen.1; grind
  · intro hc; rw [he, hpen.2.1 hc]; grind
  · intro hex
    have : strength * 1 ≤ strength * penSumB x st.constraints := Rat.mul_le_mul_of_nonneg_left (hpen.2.2 hex) hs
    grind

/-- **the penalty is never negative, SPIN-valued polynomials, every `strength ≥ 0`** (the `_spin_product` gadget with
    its auxiliary): whenever `make_quadratic` succeeds, at every ±1 assignment — **whatever the values of the spin
    auxiliaries** — the penalty part `E_bqm − E_reduced` is `≥ 0` and `≥ strength` where some product variable differs
    from its product; where all products are consistent the auxiliaries (and only they) can be re-set so that the
    penalty vanishes -/
theorem make_quadratic_penalty_scaled_spin (reserved : List Label) (strength : Rat) (hs : 0 ≤ strength)
    (raw : List (List Label × Rat)) (choices : List Pair) (hch : ∀ c ∈ choices, c.1 ≠ c.2)
    (bag : List (PTerm Label)) (st : BK) (auxs : List Label)
    (h : makeQuadratic reserved .spin strength raw choices = some (bag, st, auxs))
    (x : Label → Rat) (hx : Spin01 x) :
    0 ≤ evalBag x bag - polyEnergy x st.reduced
    ∧ ((∃ c ∈ st.constraints, x c.2 ≠ x c.1.1 * x c.1.2) → strength ≤ evalBag x bag - polyEnergy x st.reduced)
    ∧ ((∀ c ∈ st.constraints, x c.2 = x c.1.1 * x c.1.2) →
        ∃ x', Spin01 x' ∧ (∀ l, l ∉ auxs → x' l = x l) ∧ evalBag x' bag - polyEnergy x st.reduced = 0) := by
  obtain ⟨he, hlen⟩ := make_quadratic_energy_spin reserved strength raw choices bag st auxs h x
  have hpen := make_quadratic_penalty_nonneg_spin x hx st.constraints auxs hlen
  refine ⟨?_, ?_, ?_⟩
  · have := Rat.mul_nonneg hs hpen.1; grind
  · intro hex
    have : strength * 1 ≤ strength * penSumS x st.constraints auxs := Rat.mul_le_mul_of_nonneg_left (hpen.2 hex) hs
    grind
  · intro hc
    obtain ⟨x', hx', hoff, hE, _⟩ := make_quadratic_exact_spin reserved strength raw choices bag st auxs h hch x hx hc
    refine ⟨x', hx', hoff, ?_⟩
    rw [hE, make_quadratic_reduced_consistent reserved .spin strength raw choices bag st auxs h hch x hc]
    grind

/-- **`strength = 0`** (accepted by the code: there is no validation): the penalty vanishes identically, the quadratic
    model IS the reduced polynomial at every assignment, consistent or not, for both vartypes -/
theorem make_quadratic_strength_zero (reserved : List Label) (vt : VT) (raw : List (List Label × Rat)) (choices : List Pair)
    (bag : List (PTerm Label)) (st : BK) (auxs : List Label)
    (h : makeQuadratic reserved vt 0 raw choices = some (bag, st, auxs)) (x : Label → Rat) :
    evalBag x bag = polyEnergy x st.reduced := by
  cases vt with
  | binary => rw [make_quadratic_energy reserved 0 raw choices bag st auxs h x]; grind
  | spin => rw [(make_quadratic_energy_spin reserved 0 raw choices bag st auxs h x).1]; grind

/-- **`strength < 0`** (also accepted): the "penalty" is `≤ 0` at every assignment of the vartype's domain and
    `≤ strength < 0` wherever some product variable differs from its product — inconsistent assignments are rewarded -/
theorem make_quadratic_strength_negative (reserved : List Label) (strength : Rat) (hs : strength < 0)
    (raw : List (List Label × Rat)) (choices : List Pair) (bag : List (PTerm Label)) (st : BK) (auxs : List Label) (x : Label → Rat) :
    (makeQuadratic reserved .binary strength raw choices = some (bag, st, auxs) → (∀ l, x l ∈ [(0 : Rat), 1]) →
        evalBag x bag - polyEnergy x st.reduced ≤ 0
        ∧ ((∃ c ∈ st.constraints, x c.2 ≠ x c.1.1 * x c.1.2) → evalBag x bag - polyEnergy x st.reduced ≤ strength))
    ∧ (makeQuadratic reserved .spin strength raw choices = some (bag, st, auxs) → Spin01 x →
        evalBag x bag - polyEnergy x st.reduced ≤ 0
        ∧ ((∃ c ∈ st.constraints, x c.2 ≠ x c.1.1 * x c.1.2) → evalBag x bag - polyEnergy x st.reduced ≤ strength)) := by
  have hs' : (0 : Rat) ≤ -strength := by grind
  constructor
  · intro h hx
    have he := make_quadratic_energy reserved strength raw choices bag st auxs h x
    have hpen := make_quadratic_penalty_nonneg x hx st.constraints
    refine ⟨?_, ?_⟩
    · have := Rat.mul_nonneg hs' hpen.1; grind
    · intro hex
      have : -strength * 1 ≤ -strength * penSumB x st.constraints := Rat.mul_le_mul_of_nonneg_left (hpen.2.2 hex) hs'
      grind
  · intro h hx
    obtain ⟨he, hlen⟩ := make_quadratic_energy_spin reserved strength raw choices bag st auxs h x
    have hpen := make_quadratic_penalty_nonneg_spin x hx st.constraints auxs hlen
    refine ⟨?_, ?_⟩
    · have := Rat.mul_nonneg hs' hpen.1; grind
    · intro hex
      have : -strength * 1 ≤ -strength * penSumS x st.constraints auxs := Rat.mul_le_mul_of_nonneg_left (hpen.2 hex) hs'
      grind

/-- the polynomial `2·x0·x1·x2 − x0 − x1 − x2` (BINARY), reduced on the pair `(0, 1)` -/
def witnessRaw : List (List Label × Rat) :=
  [([.int 0, .int 1, .int 2], 2), ([.int 0], -1), ([.int 1], -1), ([.int 2], -1)]

/-- `x0 = x1 = x2 = 1` with the product variable `'0*1'` set to `0`: an inconsistent assignment -/
def witnessX : Label → Rat := fun l => if l = .str "0*1" then 0 else 1

/-- **`strength = 0` is not exact with respect to the polynomial** (witness): `make_quadratic(2·x0x1x2 − x0 − x1 − x2, 0)`
    has energy `−3` at the inconsistent assignment `x0 = x1 = x2 = 1, '0*1' = 0`, below every value (`≥ −2`) the
    polynomial takes on 0/1 assignments; with `strength = −1` the same assignment even has energy `−4` -/
theorem strength_nonpositive_not_exact :
    (makeQuadratic [] .binary 0 witnessRaw [(.int 0, .int 1)]).map (fun r => evalBag witnessX r.1) = some (-3)
    ∧ (makeQuadratic [] .binary (-1) witnessRaw [(.int 0, .int 1)]).map (fun r => evalBag witnessX r.1) = some (-4)
    ∧ (∀ l, witnessX l ∈ [(0 : Rat), 1])
    ∧ witnessX (.str "0*1") ≠ witnessX (.int 0) * witnessX (.int 1)
    ∧ ∀ y : Label → Rat, (∀ l, y l ∈ [(0 : Rat), 1]) → -2 ≤ polyEnergy y (normPoly .binary witnessRaw) := by
  refine ⟨by decide +kernel, by decide +kernel, ?_, by decide +kernel, ?_⟩
  · intro l; unfold witnessX; split <;> simp
  · intro y hy
    have hn : normPoly .binary witnessRaw = [([.int 0, .int 1, .int 2], 2), ([.int 0], -1), ([.int 1], -1), ([.int 2], -1)] := by
      decide +kernel
    rw [hn]
    simp only [polyEnergy, termVal]
    have h0 := hy (.int 0); have h1 := hy (.int 1); have h2 := hy (.int 2)
    simp only [List.mem_cons, List.not_mem_nil, or_false] at h0 h1 h2
    rcases h0 with h0 | h0 <;> rcases h1 with h1 | h1 <;> rcases h2 with h2 | h2 <;> rw [h0, h1, h2] <;> decide +kernel

/-! ## round 7: the whole returned sample set, end to end (BINARY) -/

/-- the quadratic model `make_quadratic` builds on a fresh BINARY model, as an energy function: at every 0/1
    assignment it is never below the reduced polynomial, equals the POLYNOMIAL where every product variable equals its
    product, and lies `≥ strength` above the reduced polynomial elsewhere (`strength ≥ 0`) -/
theorem make_quadratic_model_energy_binary (strength : Rat) (hs : 0 ≤ strength) (raw : List (List Label × Rat)) (choices : List Pair)
    (hch : ∀ c ∈ choices, c.1 ≠ c.2) (bag : List (PTerm Label)) (st : BK) (auxs : List Label)
    (h : makeQuadratic [] .binary strength raw choices = some (bag, st, auxs)) (x : Label → Rat) (hx : ∀ l, x l ∈ [(0 : Rat), 1]) :
    polyEnergy x st.reduced ≤ ((Bq.empty .binary : Bq Label).apply bag).energy x
    ∧ ((∀ c ∈ st.constraints, x c.2 = x c.1.1 * x c.1.2) →
        ((Bq.empty .binary : Bq Label).apply bag).energy x = polyEnergy x (normPoly .binary raw))
    ∧ ((∃ c ∈ st.constraints, x c.2 ≠ x c.1.1 * x c.1.2) →
        polyEnergy x st.reduced + strength ≤ ((Bq.empty .binary : Bq Label).apply bag).energy x) := by
  have hdom : Dom (Bq.empty .binary : Bq Label).vt x := by
    intro v
    have := hx v
    simp only [List.mem_cons, List.not_mem_nil, or_false] at this
    rcases this with h0 | h1
    · rw [h0]; grind
    · rw [h1]; grind
  have hE : ((Bq.empty .binary : Bq Label).apply bag).energy x = evalBag x bag := by
    rw [apply_energy _ x hdom]
    simp only [Bq.empty, Bq.energy, Bq.linSum, Bq.quadSum]; grind
  have hp := make_quadratic_penalty_scaled [] strength hs raw choices bag st auxs h x hx
  refine ⟨by rw [hE]; grind, ?_, ?_⟩
  · intro hc
    rw [hE]
    exact make_quadratic_exact [] strength raw choices bag st auxs h hch x hx hc
  · intro hex
    rw [hE]
    have := hp.2.2 hex
    grind

/-- **`HigherOrderComposite.sample_poly`, BINARY polynomial, the whole returned sample set end to end**
    (`Red.samplePolyRecord`; `penalty_strength ≥ 0`, every option, any child): whenever a sample set is returned, every one
    of its records stems from a record of the child's response to `make_quadratic(poly, penalty_strength, BINARY)`; with
    `x` the child's row (0/1 values), the reported energy is the polynomial's energy of `x`; the quadratic model's energy
    of `x` is never below the reduced polynomial's; it EQUALS the reported energy when `penalty_satisfaction = 1`
    (always, with `discard_unsatisfied`), and lies at least `penalty_strength` above the reduced polynomial when
    `penalty_satisfaction = 0` -/
theorem sample_poly_record_end_to_end_binary (child : Bq Label → Option (List (Label × Rat)) → SampleSetM)
    (raw : List (List Label × Rat)) (choices : List Pair) (hch : ∀ c ∈ choices, c.1 ≠ c.2) (order : List Label)
    (strength : Rat) (hs : 0 ≤ strength) (keep discard : Bool) (init : Option (List (Label × Rat))) (out : OutSet)
    (h : samplePolyRecord child .binary raw choices order strength keep discard init = some (.ok out)) :
    ∃ bag st auxs init', makeQuadratic [] .binary strength raw choices = some (bag, st, auxs)
      ∧ ∀ ro ∈ out.rows, ∃ r ∈ (child ((Bq.empty .binary : Bq Label).apply bag) init').rows,
          ro.vectors = r.vectors
          ∧ ro.energy = polyEnergy (rowFn (child ((Bq.empty .binary : Bq Label).apply bag) init').vars r.sample) (normPoly .binary raw)
          ∧ ((∀ a ∈ r.sample, a ∈ [(0 : Rat), 1]) →
              polyEnergy (rowFn (child ((Bq.empty .binary : Bq Label).apply bag) init').vars r.sample) st.reduced
                  ≤ ((Bq.empty .binary : Bq Label).apply bag).energy (rowFn (child ((Bq.empty .binary : Bq Label).apply bag) init').vars r.sample)
              ∧ (ro.sat = 1 → ((Bq.empty .binary : Bq Label).apply bag).energy
                    (rowFn (child ((Bq.empty .binary : Bq Label).apply bag) init').vars r.sample) = ro.energy)
              ∧ (ro.sat = 0 → polyEnergy (rowFn (child ((Bq.empty .binary : Bq Label).apply bag) init').vars r.sample) st.reduced + strength
                    ≤ ((Bq.empty .binary : Bq Label).apply bag).energy (rowFn (child ((Bq.empty .binary : Bq Label).apply bag) init').vars r.sample))) := by
  obtain ⟨bag, st, auxs, init', hmq, _, hres⟩ := sample_poly_record_spec child .binary raw choices order strength keep discard init _ h
  refine ⟨bag, st, auxs, init', hmq, ?_⟩
  generalize child ((Bq.empty .binary : Bq Label).apply bag) init' = resp at hres ⊢
  obtain ⟨hrows, -⟩ := polymorph_response_rows (normPoly .binary raw) order st.constraints (some strength) keep discard resp out hres.symm
  intro ro hro
  obtain ⟨r, hr, hvec, _, hen, _, hsat, hdisc⟩ := hrows ro hro
  refine ⟨r, hr, hvec, hen _ (fun _ _ => rfl), fun hvals => ?_⟩
  have hx : ∀ l, rowFn resp.vars r.sample l ∈ [(0 : Rat), 1] := by
    intro l
    unfold rowFn
    cases indexOf? l resp.vars with
    | none => simp
    | some i =>
      simp only [List.getD_eq_getElem?_getD]
      cases hi : r.sample[i]? with
      | none => simp
      | some a => simpa using hvals a (List.mem_of_getElem? hi)
  obtain ⟨h1, h2, h3⟩ := make_quadratic_model_energy_binary strength hs raw choices hch bag st auxs hmq _ hx
  refine ⟨h1, ?_, ?_⟩
  · intro hs1
    rw [hen _ (fun _ _ => rfl)]
    apply h2
    rcases hsat.1 hs1 with hd | ha
    · intro c hc; exact (hdisc hd c hc).symm
    · intro c hc; exact (ha c hc).symm
  · intro hs0
    apply h3
    apply Classical.byContradiction
    intro hne
    have hall : ∀ c ∈ st.constraints, rowFn resp.vars r.sample c.1.1 * rowFn resp.vars r.sample c.1.2 = rowFn resp.vars r.sample c.2 := by
      intro c hc
      apply Classical.byContradiction
      intro hcc
      exact hne ⟨c, hc, fun e => hcc e.symm⟩
    have := hsat.2 (Or.inr hall)
    omega

/-! ## round 7: the whole returned sample set, end to end (SPIN) -/

/-- the quadratic model `make_quadratic` builds on a fresh SPIN model, as an energy function (`strength ≥ 0`): at every ±1
    assignment — whatever the auxiliaries — it is never below the reduced polynomial and `≥ strength` above it where some
    product variable differs from its product; where all products are consistent it is never below the POLYNOMIAL and
    equals it after re-setting only the spin auxiliaries -/
theorem make_quadratic_model_energy_spin (strength : Rat) (hs : 0 ≤ strength) (raw : List (List Label × Rat)) (choices : List Pair)
    (hch : ∀ c ∈ choices, c.1 ≠ c.2) (bag : List (PTerm Label)) (st : BK) (auxs : List Label)
    (h : makeQuadratic [] .spin strength raw choices = some (bag, st, auxs)) (x : Label → Rat) (hx : Spin01 x) :
    polyEnergy x st.reduced ≤ ((Bq.empty .spin : Bq Label).apply bag).energy x
    ∧ ((∀ c ∈ st.constraints, x c.2 = x c.1.1 * x c.1.2) →
        polyEnergy x (normPoly .spin raw) ≤ ((Bq.empty .spin : Bq Label).apply bag).energy x
        ∧ ∃ x', Spin01 x' ∧ (∀ l, l ∉ auxs → x' l = x l)
            ∧ ((Bq.empty .spin : Bq Label).apply bag).energy x' = polyEnergy x (normPoly .spin raw))
    ∧ ((∃ c ∈ st.constraints, x c.2 ≠ x c.1.1 * x c.1.2) →
        polyEnergy x st.reduced + strength ≤ ((Bq.empty .spin : Bq Label).apply bag).energy x) := by
  have hdomOf : ∀ y : Label → Rat, Spin01 y → Dom (Bq.empty .spin : Bq Label).vt y := by
    intro y hy v
    have := hy v
    simp only [List.mem_cons, List.not_mem_nil, or_false] at this
    rcases this with h0 | h1
    · rw [h0]; grind
    · rw [h1]; grind
  have hEof : ∀ y : Label → Rat, Spin01 y → ((Bq.empty .spin : Bq Label).apply bag).energy y = evalBag y bag := by
    intro y hy
    rw [apply_energy _ y (hdomOf y hy)]
    simp only [Bq.empty, Bq.energy, Bq.linSum, Bq.quadSum]; grind
  have hp := make_quadratic_penalty_scaled_spin [] strength hs raw choices hch bag st auxs h x hx
  refine ⟨by rw [hEof x hx]; grind, ?_, ?_⟩
  · intro hc
    have hred := make_quadratic_reduced_consistent [] .spin strength raw choices bag st auxs h hch x hc
    refine ⟨by rw [hEof x hx, ← hred]; grind, ?_⟩
    obtain ⟨x', hx', hoff, hE', _⟩ := make_quadratic_exact_spin [] strength raw choices bag st auxs h hch x hx hc
    exact ⟨x', hx', hoff, by rw [hEof x' hx', hE']⟩
  · intro hex
    rw [hEof x hx]
    have := hp.2.1 hex
    grind

/-- **`HigherOrderComposite.sample_poly`, SPIN polynomial, the whole returned sample set end to end** (`penalty_strength ≥ 0`,
    every option, any child whose records have one value per variable): every returned record stems from a record of the
    child's response to `make_quadratic(poly, penalty_strength, SPIN)`; with `x` the child's row (±1 values; `1` for labels
    the response does not have), the reported energy is the polynomial's energy of `x`; the quadratic model's energy of `x`
    (auxiliaries as the child set them) is never below the reduced polynomial's; when `penalty_satisfaction = 1` the
    reported energy is ≤ the energy the child saw and equals the model's energy after re-setting only the spin
    auxiliaries; when `penalty_satisfaction = 0` the child's energy is at least `penalty_strength` above the reduced
    polynomial -/
theorem sample_poly_record_end_to_end_spin (child : Bq Label → Option (List (Label × Rat)) → SampleSetM)
    (hlen : ∀ b i, ∀ r ∈ (child b i).rows, r.sample.length = (child b i).vars.length)
    (raw : List (List Label × Rat)) (choices : List Pair) (hch : ∀ c ∈ choices, c.1 ≠ c.2)
    (order : List Label) (horder : ∀ v ∈ order, v ∈ polyVars (normPoly .spin raw))
    (strength : Rat) (hs : 0 ≤ strength) (keep discard : Bool) (init : Option (List (Label × Rat))) (out : OutSet)
    (h : samplePolyRecord child .spin raw choices order strength keep discard init = some (.ok out)) :
    ∃ bag st auxs init', makeQuadratic [] .spin strength raw choices = some (bag, st, auxs)
      ∧ ∀ ro ∈ out.rows, ∃ r ∈ (child ((Bq.empty .spin : Bq Label).apply bag) init').rows,
          ro.vectors = r.vectors
          ∧ ro.energy = polyEnergy (rowFn1 (child ((Bq.empty .spin : Bq Label).apply bag) init').vars r.sample) (normPoly .spin raw)
          ∧ ((∀ a ∈ r.sample, a ∈ [(-1 : Rat), 1]) →
              polyEnergy (rowFn1 (child ((Bq.empty .spin : Bq Label).apply bag) init').vars r.sample) st.reduced
                  ≤ ((Bq.empty .spin : Bq Label).apply bag).energy (rowFn1 (child ((Bq.empty .spin : Bq Label).apply bag) init').vars r.sample)
              ∧ (ro.sat = 1 →
                    ro.energy ≤ ((Bq.empty .spin : Bq Label).apply bag).energy (rowFn1 (child ((Bq.empty .spin : Bq Label).apply bag) init').vars r.sample)
                    ∧ ∃ x', Spin01 x' ∧ (∀ l, l ∉ auxs → x' l = rowFn1 (child ((Bq.empty .spin : Bq Label).apply bag) init').vars r.sample l)
                        ∧ ((Bq.empty .spin : Bq Label).apply bag).energy x' = ro.energy)
              ∧ (ro.sat = 0 → polyEnergy (rowFn1 (child ((Bq.empty .spin : Bq Label).apply bag) init').vars r.sample) st.reduced + strength
                    ≤ ((Bq.empty .spin : Bq Label).apply bag).energy (rowFn1 (child ((Bq.empty .spin : Bq Label).apply bag) init').vars r.sample))) := by
  obtain ⟨bag, st, auxs, init', hmq, _, hres⟩ := sample_poly_record_spec child .spin raw choices order strength keep discard init _ h
  refine ⟨bag, st, auxs, init', hmq, ?_⟩
  have hlen' := hlen ((Bq.empty .spin : Bq Label).apply bag) init'
  generalize child ((Bq.empty .spin : Bq Label).apply bag) init' = resp at hres hlen' ⊢
  -- the response has every label the code looks up
  have hnoerr : ¬ ∃ e, polymorphRecord (normPoly .spin raw) order st.constraints (some strength) keep discard resp = .error e := by
    rintro ⟨e, he⟩; rw [← hres] at he; simp at he
  rw [polymorph_response_raises_iff (normPoly .spin raw) order horder] at hnoerr
  have hredIn : ∀ c ∈ st.constraints, c.1.1 ∈ resp.vars ∧ c.1.2 ∈ resp.vars ∧ c.2 ∈ resp.vars := by
    intro c hc
    refine ⟨?_, ?_, ?_⟩ <;>
    · apply Classical.byContradiction
      intro hn
      exact hnoerr (Or.inl ⟨c, hc, by simp [hn]⟩)
  have hpolyIn : ∀ v ∈ polyVars (normPoly .spin raw), v ∈ resp.vars := by
    intro v hv
    apply Classical.byContradiction
    intro hn
    exact hnoerr (Or.inr (Or.inl ⟨v, hv, hn⟩))
  obtain ⟨hrows, -⟩ := polymorph_response_rows (normPoly .spin raw) order st.constraints (some strength) keep discard resp out hres.symm
  intro ro hro
  obtain ⟨r, hr, hvec, _, hen, _, hsat, hdisc⟩ := hrows ro hro
  have hagree : ∀ v ∈ resp.vars, rowFn1 resp.vars r.sample v = rowFn resp.vars r.sample v :=
    fun v hv => rowFn1_eq_rowFn resp.vars r.sample (hlen' r hr) v hv
  have hen1 : ro.energy = polyEnergy (rowFn1 resp.vars r.sample) (normPoly .spin raw) :=
    hen _ (fun v hv => hagree v (hpolyIn v hv))
  -- the product constraints read on the extended row
  have hcons : ∀ c ∈ st.constraints,
      (rowFn resp.vars r.sample c.1.1 * rowFn resp.vars r.sample c.1.2 = rowFn resp.vars r.sample c.2
        ↔ rowFn1 resp.vars r.sample c.2 = rowFn1 resp.vars r.sample c.1.1 * rowFn1 resp.vars r.sample c.1.2) := by
    intro c hc
    obtain ⟨h1, h2, h3⟩ := hredIn c hc
    rw [hagree _ h1, hagree _ h2, hagree _ h3]
    constructor <;> intro e <;> exact e.symm
  refine ⟨r, hr, hvec, hen1, fun hvals => ?_⟩
  have hx : Spin01 (rowFn1 resp.vars r.sample) := fun l => rowFn1_spin resp.vars r.sample hvals l
  obtain ⟨h1, h2, h3⟩ := make_quadratic_model_energy_spin strength hs raw choices hch bag st auxs hmq _ hx
  refine ⟨h1, ?_, ?_⟩
  · intro hs1
    have hall : ∀ c ∈ st.constraints, rowFn1 resp.vars r.sample c.2 = rowFn1 resp.vars r.sample c.1.1 * rowFn1 resp.vars r.sample c.1.2 := by
      intro c hc
      rcases hsat.1 hs1 with hd | ha
      · exact (hcons c hc).1 (hdisc hd c hc)
      · exact (hcons c hc).1 (ha c hc)
    obtain ⟨hle, x', hx', hoff, hE⟩ := h2 hall
    exact ⟨by rw [hen1]; exact hle, x', hx', hoff, by rw [hE, hen1]⟩
  · intro hs0
    apply h3
    apply Classical.byContradiction
    intro hne
    have hall : ∀ c ∈ st.constraints, rowFn resp.vars r.sample c.1.1 * rowFn resp.vars r.sample c.1.2 = rowFn resp.vars r.sample c.2 := by
      intro c hc
      apply (hcons c hc).2
      apply Classical.byContradiction
      intro hcc
      exact hne ⟨c, hc, hcc⟩
    have := hsat.2 (Or.inr hall)
    omega

/-! ## round 7: non-vacuity of the new hypotheses -/

/-- a child response over `[0, 1, '0*1']` with a consistent and an inconsistent record; `discard_unsatisfied` keeps the
    first only, without `keep_penalty_variables` the columns `0, 1` remain, the vector (`num_occurrences`) is carried over -/
example : ((polymorphRecord [([.int 0, .int 1], 3)] [.int 1, .int 0] [((.int 0, .int 1), .str "0*1")] (some 2) false true
      { vars := [.int 0, .int 1, .str "0*1"], names := ["num_occurrences"],
        rows := [⟨[1, 1, 1], 7, [5]⟩, ⟨[1, 0, 1], 9, [6]⟩], info := [("k", "v")], vt := .binary }).toOption.map
      (fun out => (out.vars, out.rows.map (·.sample)))) = some ([.int 1, .int 0], [[1, 1]]) := by decide +kernel

example : ((polymorphRecord [([.int 0, .int 1], 3)] [.int 1, .int 0] [((.int 0, .int 1), .str "0*1")] (some 2) false true
      { vars := [.int 0, .int 1, .str "0*1"], names := ["num_occurrences"],
        rows := [⟨[1, 1, 1], 7, [5]⟩, ⟨[1, 0, 1], 9, [6]⟩], info := [("k", "v")], vt := .binary }).toOption.map
      (fun out => (out.rows.map (·.energy), out.rows.map (·.sat), out.rows.map (·.vectors)))) = some ([3], [1], [[5]]) := by decide +kernel

example : ((polymorphRecord [([.int 0, .int 1], 3)] [.int 1, .int 0] [((.int 0, .int 1), .str "0*1")] (some 2) false true
      { vars := [.int 0, .int 1, .str "0*1"], names := ["num_occurrences"],
        rows := [⟨[1, 1, 1], 7, [5]⟩, ⟨[1, 0, 1], 9, [6]⟩], info := [("k", "v")], vt := .binary }).toOption.map
      (fun out => (out.fields, out.satDtype, out.info.map (·.1))))
    = some (["sample", "energy", "penalty_satisfaction", "num_occurrences"], .bool, ["k", "reduction", "penalty_strength"]) := by
  decide +kernel

/-- the error branch: the response lacks the product variable -/
example : (match polymorphRecord [([.int 0, .int 1], 3)] [.int 1, .int 0] [((.int 0, .int 1), .str "0*1")] none true false
      { vars := [.int 0, .int 1], names := [], rows := [], info := [], vt := .binary } with
    | .ok _ => none
    | .error e => some e) = some .indexValueError := by decide +kernel

/-- `make_quadratic` with `strength = 0` and with a negative strength returns a model (hypotheses of the two theorems) -/
example : ((makeQuadratic [] .spin 0 witnessRaw [(.int 0, .int 1)]).isSome, (makeQuadratic [] .spin (-1) witnessRaw [(.int 0, .int 1)]).isSome,
           (makeQuadratic [] .binary (3/4) witnessRaw [(.int 0, .int 1)]).isSome) = (true, true, true) := by decide +kernel

/-- a consistent and an inconsistent 0/1 record over the variables of `make_quadratic(2·x0x1x2 − x0 − x1 − x2, 2, BINARY)` -/
def witnessRespB : SampleSetM :=
  { vars := [.int 0, .int 1, .int 2, .str "0*1"], names := ["num_occurrences"],
    rows := [⟨[1, 1, 1, 1], 0, [1]⟩, ⟨[1, 1, 0, 0], 0, [2]⟩], info := [], vt := .binary }

/-- ±1 records with one value per variable of the SPIN model -/
def witnessRespS : SampleSetM :=
  { vars := [.int 0, .int 1, .int 2, .str "0*1", .str "aux0,1"], names := [],
    rows := [⟨[1, 1, 1, 1, -1], 0, []⟩, ⟨[1, 1, -1, -1, 1], 0, []⟩], info := [], vt := .spin }

/-- the hypothesis of `sample_poly_record_end_to_end_binary` is met; reported: the polynomial's energies, flags 1 and 0 -/
example : ((samplePolyRecord (fun _ _ => witnessRespB) .binary witnessRaw [(.int 0, .int 1)] [.int 0, .int 1, .int 2] 2 false false none).map
      (fun r => r.toOption.map (fun out => out.rows.map (fun ro => (ro.energy, ro.sat))))) = some (some [(-1, 1), (-2, 0)]) := by
  decide +kernel

/-- the same for `sample_poly_record_end_to_end_spin` (`order` = the polynomial's variables; `discard_unsatisfied` drops the second record) -/
example : ((samplePolyRecord (fun _ _ => witnessRespS) .spin witnessRaw [(.int 0, .int 1)] [.int 0, .int 1, .int 2] 2 true true none).map
      (fun r => r.toOption.map (fun out => out.rows.map (fun ro => (ro.energy, ro.sat))))) = some (some [(-1, 1)])
    ∧ polyVars (normPoly .spin witnessRaw) = [.int 0, .int 1, .int 2] := by
  decide +kernel

/-- the hypotheses of `polymorph_response_columns` are met by `witnessRespB` with `order` = the polynomial's variables:
    pairwise different labels, one value per variable in every record -/
example : witnessRespB.vars.Nodup ∧ (witnessRespB.rows.all (fun r => r.sample.length == witnessRespB.vars.length)) = true
    ∧ polyVars (normPoly .binary witnessRaw) = [.int 0, .int 1, .int 2] := by
  decide +kernel

/-! ## histories on ONE `BinaryPolynomial` object (round 8)

`Red.PolyOp` / `Red.applyOp` / `Red.runOps` (`DimodModel/PolyObject.lean`) model the object's mutations as coded
(`__setitem__`, `poly[t] += b`, `__delitem__` / `pop`, `popitem`, `scale`, `normalize`, with their `KeyError` /
`ZeroDivisionError` refusals).  The reductions read the object's CURRENT terms (no per-object cache in the code), so
"reduce → mutate → reduce the same object again" is the reduction of the state after the history: -/

/-- the object stays a well-formed dict (every key duplicate-free, keys pairwise different as sets) under every history -/
theorem poly_object_history_well_formed (vt : VT) (raw : List (List Label × Rat)) (ops : List PolyOp) (s : PolyState)
    (h : objectAfter vt raw ops = .ok s) : TermsOK s :=
  runOps_ok ops _ s (normPoly_ok vt raw) h

/-- the reductions applied to the object itself (`_init_binary_polynomial` returns a `BinaryPolynomial` unchanged) reduce
    exactly its current terms: they are a fixed point of the constructor's normalisation -/
theorem poly_object_terms_fixed_point (vt : VT) (raw : List (List Label × Rat)) (ops : List PolyOp) (s : PolyState)
    (h : objectAfter vt raw ops = .ok s) : normPoly vt s = s :=
  normPoly_of_ok vt s (poly_object_history_well_formed vt raw ops s h)

/-- **BINARY, any history**: `make_quadratic` of the SAME object after any sequence of mutations is exact, on consistent
    assignments, for the polynomial the object denotes NOW (`polyEnergy x s`, `s` the current terms) -/
theorem history_make_quadratic_exact (raw : List (List Label × Rat)) (ops : List PolyOp) (s : PolyState)
    (hobj : objectAfter .binary raw ops = .ok s)
    (reserved : List Label) (strength : Rat) (choices : List Pair) (bag : List (PTerm Label)) (st : BK) (auxs : List Label)
    (h : makeQuadratic reserved .binary strength s choices = some (bag, st, auxs)) (hch : ∀ c ∈ choices, c.1 ≠ c.2)
    (x : Label → Rat) (hx : ∀ l, x l ∈ [(0 : Rat), 1]) (hc : ∀ c ∈ st.constraints, x c.2 = x c.1.1 * x c.1.2) :
    evalBag x bag = polyEnergy x s := by
  have := make_quadratic_exact reserved strength s choices bag st auxs h hch x hx hc
  rwa [poly_object_terms_fixed_point .binary raw ops s hobj] at this

/-- **SPIN, any history** (minimised over the spin auxiliaries, as `make_quadratic_exact_spin`) -/
theorem history_make_quadratic_exact_spin (raw : List (List Label × Rat)) (ops : List PolyOp) (s : PolyState)
    (hobj : objectAfter .spin raw ops = .ok s)
    (reserved : List Label) (strength : Rat) (choices : List Pair) (bag : List (PTerm Label)) (st : BK) (auxs : List Label)
    (h : makeQuadratic reserved .spin strength s choices = some (bag, st, auxs)) (hch : ∀ c ∈ choices, c.1 ≠ c.2)
    (x : Label → Rat) (hx : Spin01 x) (hc : ∀ c ∈ st.constraints, x c.2 = x c.1.1 * x c.1.2) :
    ∃ x', Spin01 x' ∧ (∀ l, l ∉ auxs → x' l = x l) ∧ evalBag x' bag = polyEnergy x s := by
  obtain ⟨x', h1, h2, h3, _⟩ := make_quadratic_exact_spin reserved strength s choices bag st auxs h hch x hx hc
  rw [poly_object_terms_fixed_point .spin raw ops s hobj] at h3
  exact ⟨x', h1, h2, h3⟩

/-- **`make_quadratic_cqm`, any history, both vartypes** -/
theorem history_make_quadratic_cqm_exact (vt : VT) (raw : List (List Label × Rat)) (ops : List PolyOp) (s : PolyState)
    (hobj : objectAfter vt raw ops = .ok s)
    (reserved : List Label) (choices : List Pair) (obj : List (PTerm Label)) (cons : List (String × List (PTerm Label)))
    (h : makeQuadraticCqm reserved vt s choices = some (obj, cons)) (hch : ∀ c ∈ choices, c.1 ≠ c.2)
    (x : Label → Rat) (hfeas : ∀ c ∈ cons, evalBag x c.2 = 0) :
    evalBag x obj = polyEnergy x s := by
  have := make_quadratic_cqm_exact reserved vt s choices obj cons h hch x hfeas
  rwa [poly_object_terms_fixed_point vt raw ops s hobj] at this

/-- `poly.scale(c)`: the polynomial is multiplied by `c` — at every assignment -/
theorem poly_object_scale_energy (x : Label → Rat) (c : Rat) (s : PolyState) :
    polyEnergy x (scaleTerms c [] s) = c * polyEnergy x s := scaleTerms_energy x c s

/-- `poly.scale(c, ignored_terms)`: the ignored terms keep their bias, the others are multiplied -/
theorem poly_object_scale_ignored_energy (x : Label → Rat) (c : Rat) (ig : List LTerm) (s : PolyState) :
    polyEnergy x (scaleTerms c ig s)
      = c * polyEnergy x (s.filter (fun e => !isIgnored ig e.1)) + polyEnergy x (s.filter (fun e => isIgnored ig e.1)) :=
  scaleTerms_energy_split x c ig s

/-- `poly.normalize(...)` is a `scale` (by `1 / inv_scalar`), no change, or a `ZeroDivisionError` -/
theorem poly_object_normalize_is_scale (s s' : PolyState) (rg : Ranges) (ig : List (List Label))
    (h : applyOp s (.normalize rg ig) = .ok s') :
    s' = s ∨ s' = scaleTerms (1 / invScalar rg (ig.map asKey) s) (ig.map asKey) s := by
  simp only [applyOp] at h
  split at h
  · simp at h
  · split at h
    · simp only [Except.ok.injEq] at h; exact Or.inl h.symm
    · simp only [Except.ok.injEq] at h; exact Or.inr h.symm

/-- `poly[t] = b` on a well-formed object: the old contribution of the term (0 when absent) is replaced by `b·∏t` -/
theorem poly_object_setitem_energy (x : Label → Rat) (s : PolyState) (hs : TermsOK s) (t : List Label) (b : Rat) :
    polyEnergy x (objSet s (asKey t) b)
      = polyEnergy x s - (objGet s (asKey t)).getD 0 * termVal x (asKey t) + b * termVal x (asKey t) :=
  objSet_energy x s hs (asKey t) (asKey_nodup t) b

/-- `del poly[t]` / `poly.pop(t)` on a well-formed object removes the term's contribution -/
theorem poly_object_delitem_energy (x : Label → Rat) (s : PolyState) (hs : TermsOK s) (t : List Label) :
    polyEnergy x (objDel s (asKey t)) = polyEnergy x s - (objGet s (asKey t)).getD 0 * termVal x (asKey t) :=
  objDel_energy x s hs (asKey t) (asKey_nodup t)

/-- refusals: `poly[t] += b`, `del poly[t]`, `poly.pop(t)` raise `KeyError` exactly when the term is absent;
    `popitem` exactly on the empty polynomial; `normalize` divides by zero exactly when a range bound is 0 -/
theorem poly_object_refuses_iff (s : PolyState) :
    (∀ t b, applyOp s (.addItem t b) = .error .keyError ↔ objGet s (asKey t) = none)
    ∧ (∀ t, applyOp s (.delItem t) = .error .keyError ↔ objGet s (asKey t) = none)
    ∧ (applyOp s .popItem = .error .keyError ↔ s = [])
    ∧ (∀ rg ig, applyOp s (.normalize rg ig) = .error .zeroDivision ↔ (rg.linLo = 0 ∨ rg.linHi = 0 ∨ rg.polyLo = 0 ∨ rg.polyHi = 0))
    ∧ (∀ t b, ∃ s', applyOp s (.setItem t b) = .ok s') ∧ (∀ c ig, ∃ s', applyOp s (.scale c ig) = .ok s') := by
  refine ⟨?_, ?_, ?_, ?_, ?_, ?_⟩
  · intro t b; simp only [applyOp]; cases objGet s (asKey t) <;> simp
  · intro t; simp only [applyOp]; cases objGet s (asKey t) <;> simp
  · cases s <;> simp [applyOp]
  · intro rg ig; simp only [applyOp]
    split
    · rename_i h0; simp [h0]
    · rename_i h0; split <;> simp [h0]
  · intro t b; exact ⟨_, rfl⟩
  · intro c ig; exact ⟨_, rfl⟩

/-- a history with every kind of mutation that succeeds: `2abc − 3/2·abd + a/2 + 1/4`, scaled by 2, `abc := −3/4` (spelled
    `b, a, c`), constant `+= 1`, `a` deleted, normalised to [−1, 1] (inv_scalar = 3): the object is `−abc/4 − abd + 1/2` — by kernel evaluation; so the
    hypothesis `objectAfter … = .ok s` of the history theorems is met by a history with every kind of mutation -/
example : (objectAfter .binary [([.str "a", .str "b", .str "c"], 1), ([.str "a", .str "b", .str "d"], -3/2), ([.str "a"], 1/2), ([], 1/4)]
      [.scale 2 [], .setItem [.str "b", .str "a", .str "c"] (-3/4), .addItem [] 1, .delItem [.str "a"],
       .normalize { linLo := -1, linHi := 1, polyLo := -1, polyHi := 1 } []]).toOption
    = some [([.str "a", .str "b", .str "c"], -1/4), ([.str "a", .str "b", .str "d"], -1), ([], 1/2)] := by
  decide +kernel

example : (applyOp [([.int 0, .int 1], (1 : Rat))] (.delItem [.int 2])).toOption = none
    ∧ (applyOp [([.int 0, .int 1], (1 : Rat))] (.addItem [.int 1, .int 0] 2)).toOption = some [([.int 0, .int 1], 3)] := by
  decide +kernel

/-- **the term dict is the whole state** (regenerated from the source by `harness/translators/c15_poly_state.py`): a
    `BinaryPolynomial` stores nothing but `_terms` and `vartype` (no per-object or class-level cache, no memoising decorator), and
    the reductions of `dimod/higherorder/utils.py` use nothing of the polynomial argument but `items()`, `variables`, `vartype` (and
    iteration), and keep no module-level container: `Red.PolyState` models all of it, and a reduction after a history depends on the
    current terms only -/
theorem polynomial_object_state_is_terms_and_vartype :
    Generated.PolyState.instanceAttributes = ["_terms", "vartype"]
    ∧ Generated.PolyState.reductionUses = ["items", "variables", "vartype"] := by decide

/-- `relabel_variables` inside a history (the history theorems above cover it: `PolyOp.relabel`): `abc − a/2` with `a ↦ x, b ↦ 7`
    becomes `x·7·c − x/2`; mapping two variables to one label, or onto an existing variable that is not relabelled itself, is refused
    (`ValueError`), and the object is then unchanged by construction (`applyOp` returns no state) -/
example : (objectAfter .binary [([.str "a", .str "b", .str "c"], 1), ([.str "a"], -1/2)] [.relabel [(.str "a", .str "x"), (.str "b", .int 7)]]).toOption
      = some [([.str "x", .int 7, .str "c"], 1), ([.str "x"], -1/2)]
    ∧ (applyOp [([.str "a", .str "b"], (1 : Rat))] (.relabel [(.str "a", .str "q"), (.str "b", .str "q")])).toOption = none
    ∧ (applyOp [([.str "a", .str "b"], (1 : Rat))] (.relabel [(.str "a", .str "b")])).toOption = none := by
  decide +kernel

/-- one term under `relabel_variables`: when the mapping is injective on the term's variables, the new term `frozenset(submap.get(v, v)
    for v in oldterm)` has, at every assignment `x` of the new labels, the value of the old term at `x ∘ mapping` (the bias is carried
    over unchanged by `self[newterm] = bias`); the whole-polynomial statement is not proved (`relabel_variables` is tied by correspondence) -/
theorem poly_object_relabel_term_value_partial (x : Label → Rat) (m : List (Label × Label)) (t : LTerm)
    (hinj : (t.map (mapLabel m)).Nodup) :
    termVal x (relabelTerm m t) = termVal (fun v => x (mapLabel m v)) t := relabelTerm_value x m t hinj

/-- **`relabel_variables` relabels the whole polynomial** (in place, a mapping without label conflicts): when different terms stay
    different and a changed term collides with no old term (`RelabelOK`: what fresh new labels and an injective mapping give) and
    the mapping is injective on every term, the in-place loop over the snapshot (`self[newterm] = bias; del self[oldterm]`) leaves
    exactly the relabelled entries (`relabelStep_perm`), so at every assignment `x` of the new labels the object has the energy the old
    polynomial had at `x ∘ mapping` — and by the history theorems the reductions after it are exact for that polynomial -/
theorem poly_object_relabel_energy (x : Label → Rat) (m : List (Label × Label)) (s : PolyState) (hs : TermsOK s)
    (hok : RelabelOK m s) (hinj : ∀ e ∈ s, (e.1.map (mapLabel m)).Nodup) :
    polyEnergy x (relabelStep m s) = polyEnergy (fun v => x (mapLabel m v)) s
    ∧ (relabelStep m s).Perm (s.map (relabelEntry m)) :=
  ⟨relabelStep_energy x m s hs hok hinj, relabelStep_perm m s hs hok⟩

/-- the hypotheses of `poly_object_relabel_energy` are met by `abc − a/2 + c` with `a ↦ x, b ↦ 7` -/
example : RelabelOK [(.str "a", .str "x"), (.str "b", .int 7)] [([.str "a", .str "b", .str "c"], 1), ([.str "a"], -1/2), ([.str "c"], 1)]
    ∧ (∀ e ∈ ([([.str "a", .str "b", .str "c"], 1), ([.str "a"], -1/2), ([.str "c"], 1)] : PolyState),
        (e.1.map (mapLabel [(.str "a", .str "x"), (.str "b", .int 7)])).Nodup) :=
  ⟨⟨by decide +kernel, by decide +kernel⟩, by decide +kernel⟩

/-- the same from the LABEL-level conditions: the mapping is injective on the polynomial's variables and a variable that changes gets
    a label that is not a variable of the polynomial (for a conflict-free dict that `iter_safe_relabels` accepts: new labels pairwise
    different, none of them an existing variable) -/
theorem poly_object_relabel_energy_of_labels (x : Label → Rat) (m : List (Label × Label)) (s : PolyState) (hs : TermsOK s)
    (hinj : ∀ v w, v ∈ stateVars s → w ∈ stateVars s → mapLabel m v = mapLabel m w → v = w)
    (hfresh : ∀ v ∈ stateVars s, mapLabel m v ≠ v → mapLabel m v ∉ stateVars s) :
    polyEnergy x (relabelStep m s) = polyEnergy (fun v => x (mapLabel m v)) s :=
  relabelStep_energy x m s hs (relabelOK_of_labels m s hinj hfresh) (relabel_inj_on_terms m s hs hinj)

/-- **end of the chain for `relabel_variables`**: whenever the in-place relabelling of a well-formed object succeeds (mapping accepted
    by `iter_safe_relabels`, no label conflict), the object afterwards has, at every assignment `x` of the new labels, the energy the
    polynomial had before at `x ∘ mapping` — no hypothesis left but the success of the call -/
theorem poly_object_relabel_succeeds_energy (x : Label → Rat) (m : List (Label × Label)) (s s' : PolyState) (hs : TermsOK s)
    (h : applyOp s (.relabel m) = .ok s') :
    polyEnergy x s' = polyEnergy (fun v => x (mapLabel m v)) s := by
  simp only [applyOp] at h
  split at h
  · rename_i sub hsub
    simp only [Except.ok.injEq] at h
    obtain ⟨hsubm, hinj, hfresh⟩ := safeRelabel_ok_conditions m sub s hsub
    subst hsubm; subst h
    exact poly_object_relabel_energy_of_labels x _ s hs hinj hfresh
  · simp at h

/-- the conflict path (`PolyOp.relabelVia`, `resolve_label_conflict` as coded): swapping `0 ↔ 1` in `x0x1x2 + x0/2 + 3x1` goes through the
    intermediate labels 4 and 5 (`2·len(mapping)` onwards) and gives `x0x1x2 + 3x0 + x1/2`; the history theorems cover this op too
    (every `PolyOp` keeps the object well formed) -/
example : (objectAfter .binary [([.int 0, .int 1, .int 2], 1), ([.int 0], 1/2), ([.int 1], 3)] [.relabelVia [(.int 0, .int 1), (.int 1, .int 0)]]).toOption
      = some [([.int 1, .int 0, .int 2], 1), ([.int 1], 1/2), ([.int 0], 3)]
    ∧ resolveConflict [(.int 0, .int 1), (.int 1, .int 0)] [.int 0, .int 1, .int 2]
      = ([(.int 0, .int 4), (.int 1, .int 5)], [(.int 4, .int 1), (.int 5, .int 0)]) := by
  decide +kernel

/-- the conflict path (swap / cycle: two safe steps through intermediate labels) composes two relabellings: when each of the two dicts of
    `resolve_label_conflict` meets the label-level conditions on the state it is applied to, the object has the old polynomial's energy at
    `x ∘ intermediate_to_new ∘ old_to_intermediate`.  Partial: that the two dicts as coded meet these conditions (fresh integer labels
    from the counter, `intermediate_to_new` injective on the intermediate state) is not proved — tied by the per-run replay only -/
theorem poly_object_relabel_conflict_energy_partial (x : Label → Rat) (o2i i2n : List (Label × Label)) (s : PolyState) (hs : TermsOK s)
    (h1inj : ∀ v w, v ∈ stateVars s → w ∈ stateVars s → mapLabel o2i v = mapLabel o2i w → v = w)
    (h1fresh : ∀ v ∈ stateVars s, mapLabel o2i v ≠ v → mapLabel o2i v ∉ stateVars s)
    (h2inj : ∀ v w, v ∈ stateVars (relabelStep o2i s) → w ∈ stateVars (relabelStep o2i s) → mapLabel i2n v = mapLabel i2n w → v = w)
    (h2fresh : ∀ v ∈ stateVars (relabelStep o2i s), mapLabel i2n v ≠ v → mapLabel i2n v ∉ stateVars (relabelStep o2i s)) :
    polyEnergy x (relabelStep i2n (relabelStep o2i s)) = polyEnergy (fun v => x (mapLabel i2n (mapLabel o2i v))) s := by
  rw [poly_object_relabel_energy_of_labels x i2n (relabelStep o2i s) (relabelStep_ok o2i s hs) h2inj h2fresh,
    poly_object_relabel_energy_of_labels (fun v => x (mapLabel i2n v)) o2i s hs h1inj h1fresh]

end C15
