import DimodProofs.Sparse
import DimodProofs.D4Witness
import DimodProofs.C03Poly
import DimodProofs.C03Witness
import DimodProofs.C03Fix
import DimodProofs.C03CopyCqm
import DimodProofs.C03Multi
import DimodProofs.C03Mixin
import DimodProofs.C03PyFix
import DimodProofs.C03Front
import Properties.C05
import DimodProofs.C03Reindex

/-! # C03 — fixing a variable equals substituting its value everywhere

Models: `DimodModel/Fix.lean` (namespace `En`).  Energies: `QMB.energy` (C01).  `skip v i` is the index the `i`-th
remaining variable had before `v` was removed. -/

namespace C03

open En

variable {R : Type} [CommRing R]

/-- `fix_eval` on the sparse model (`abc.h::fix_variable`, which is also what `QuadraticViewsMixin.fix_variable`
    executes through `iter_neighborhood`/`add_linear`/`offset`/`remove_variable` for BQM and QM): at every
    assignment `x'` of the remaining variables the fixed model has the energy of the original at `x'` extended by
    `v ↦ a` — squared term of `v`, constant term, any value `a` (in the domain or not) -/
theorem fix_eval (m : QMB R) (hm : m.WF) (v : Nat) (hv : v < m.n) (a : R) (x' x : Nat → R)
    (hxv : x v = a) (hxs : ∀ i, i < m.n - 1 → x (skip v i) = x' i) :
    (m.fixVariable v a).energy x' = m.energy x :=
  QMB.fixVariable_energy m hm v hv a x' x hxv hxs

/-- the result is again well-formed with one variable less (so the theorem applies again: fixing several variables one after the other) -/
theorem fix_preserves_invariant (m : QMB R) (hm : m.WF) (v : Nat) (hv : v < m.n) (a : R) :
    (m.fixVariable v a).WF ∧ (m.fixVariable v a).n = m.n - 1 := by
  have hpre := QMB.WF_fixPre m hm v a
  have hvn : v < (m.fixPre v a).n := by rw [QMB.n_fixPre]; exact hv
  exact ⟨QMB.WF_removeVariable _ hpre v hvn, by rw [QMB.fixVariable_eq, QMB.n_removeVariable _ v hvn, QMB.n_fixPre]⟩

/-- **both paths agree**: `QuadraticViewsMixin.fix_variable` as coded on an array back-end (`add_linear(u, value*bias)` for every
    neighbour in neighbourhood order — a squared term lands on `v`'s own linear bias —, then `offset += value*get_linear(v)`, then
    `remove_variable(v)`) builds the very model `abc.h::fix_variable` builds; in particular the same energies (`fix_eval`) -/
theorem fix_mixin_eq_cpp (m : QMB R) (v : Nat) (a : R) : m.fixVariableMixin v a = m.fixVariable v a :=
  QMB.fixVariableMixin_eq m v a

/-- **`fix_variables(fixed)` of a BQM / QM** through the mixin loop, by label, in the order of the given pairs, squared terms
    included: for distinct labels of the model and any valuation `val` giving every fixed label its value, the call succeeds, the
    remaining labels are the others in their order, the invariant holds again, and the result evaluated at
    `k ↦ val (remaining label k)` has the energy of the original at `g ↦ val (label g)` -/
theorem qm_fix_many_eval (m : QmL R) (hm : m.Ok) (fixed : List (Label × R)) (hfd : (fixed.map (·.1)).Nodup)
    (hall : ∀ p ∈ fixed, p.1 ∈ m.labels) (val : Label → R) (hval : ∀ p ∈ fixed, val p.1 = p.2) :
    let r := m.fixVariables fixed
    r.2 = true ∧ r.1.Ok ∧ r.1.labels.Sublist m.labels ∧ (∀ l, l ∈ r.1.labels ↔ l ∈ m.labels ∧ l ∉ fixed.map (·.1)) ∧
    r.1.qb.energy (valL val r.1.labels) = m.qb.energy (valL val m.labels) :=
  QmL.fixVariables_spec m hm fixed hfd hall val hval

/-- the CQM in-place path on one expression (`substitute_variable(v, 0, a)` then `remove_variable(v)`, repaired D4):
    same statement -/
theorem fix_inplace_eval (m : QMB R) (hm : m.WF) (v : Nat) (hv : v < m.n) (a : R) (x' x : Nat → R)
    (hxv : x v = a) (hxs : ∀ i, i < m.n - 1 → x (skip v i) = x' i) :
    ((m.substituteVariable v 0 a).removeVariable v).energy x' = m.energy x :=
  QMB.substitute_remove_energy m hm v hv a x' x hxv hxs

/-- **`fix_variable` of a CQM, in place** (`cyconstrained.fix_variable` → C++ `substitute_variable(v, 0, a)` + `remove_variable(v)`
    with `reindex_variables` on every expression; repaired D4): over *global* variable indices, the objective and every
    constraint left-hand side have at every assignment `X'` of the remaining variables the value of the original at `X'`
    extended by `v ↦ a` — whether `v` occurs in the expression or not, squared or not, alone or not; sense, rhs, weight,
    penalty, number and order of constraints are unchanged -/
theorem cqm_fix_inplace_eval (m : CqmC R) (hm : m.WF) (v : Nat) (a : R) (X' X : Nat → R)
    (hXv : X v = a) (hXs : ∀ k, X (skip v k) = X' k) :
    let m' := m.fixVariable v a
    m'.obj.energyCpp X' = m.obj.energyCpp X ∧ m'.cons.length = m.cons.length ∧
    ∀ i (hi : i < m.cons.length) (hi' : i < m'.cons.length),
      m'.cons[i].e.energyCpp X' = m.cons[i].e.energyCpp X ∧
      m'.cons[i].sense = m.cons[i].sense ∧ m'.cons[i].rhs = m.cons[i].rhs ∧
      m'.cons[i].weight = m.cons[i].weight ∧ m'.cons[i].quadPenalty = m.cons[i].quadPenalty :=
  CqmC.fixVariable_spec m hm v a X' X hXv hXs

/-- the CQM left by an in-place fix is again well-formed, so `cqm_fix_inplace_eval` applies to the next fix
    (`fix_variables(…, inplace=True)` is this step repeated) -/
theorem cqm_fix_preserves_invariant (m : CqmC R) (hm : m.WF) (v : Nat) (a : R) : (m.fixVariable v a).WF :=
  CqmC.WF_fixVariable m hm v a

/-- **several variables fixed in place** (`fix_variables(fixed, inplace=True)` = `cyconstrained.fix_variable` repeated, the remaining
    variables moving down after every step; composed statement). Assignments are given by label: for any valuation `val` that
    gives every fixed label its value, the result — evaluated at `k ↦ val (remaining label k)` — has, for the objective and every
    constraint left-hand side, the value of the original evaluated at `g ↦ val (label g)`; the call succeeds, the remaining
    labels are the non-fixed ones in their old order, constraint labels and sense / rhs / weight / penalty are unchanged
    (`CqmC.Rel`), and the invariant holds again -/
theorem cqm_fix_many_inplace_eval [DecidableEq R] (m : CqmL R) (hm : m.c.WF) (hnd : m.labels.Nodup) (fixed : List (Label × R))
    (hfd : (fixed.map (·.1)).Nodup) (hall : ∀ p ∈ fixed, p.1 ∈ m.labels) (val : Label → R) (hval : ∀ p ∈ fixed, val p.1 = p.2) :
    let r := m.fixVariablesInplace fixed
    r.2 = true ∧ r.1.c.WF ∧ r.1.labels.Nodup ∧ r.1.labels.Sublist m.labels ∧
    (∀ l, l ∈ r.1.labels ↔ l ∈ m.labels ∧ l ∉ fixed.map (·.1)) ∧ r.1.clabels = m.clabels ∧
    CqmC.Rel r.1.c m.c (valL val r.1.labels) (valL val m.labels) :=
  CqmL.fixVariablesInplace_spec m hm hnd fixed hfd hall val hval

/-- the vartype/bounds table loses exactly the fixed variable's row -/
theorem cqm_fix_varinfo (m : CqmC R) (v : Nat) (a : R) : (m.fixVariable v a).info = m.info.eraseIdx v :=
  CqmC.fixVariable_info m v a

/-- the two single-expression routines of the C++ layer — substitute-then-remove (CQM in place) and `fix_variable`
    (what BQM/QM execute) — give the same energy at every assignment -/
theorem fix_variable_eq_substitute_remove (m : QMB R) (hm : m.WF) (v : Nat) (hv : v < m.n) (a : R) (x' : Nat → R) :
    ((m.substituteVariable v 0 a).removeVariable v).energy x' = (m.fixVariable v a).energy x' :=
  QMB.fix_paths_agree m hm v hv a x'

/-- **the copying path** `fix_variables(fixed, inplace=False)` (C++ `fix_variables` / `fix_variables_expr`: term-by-term
    rebuild with `add_linear`, `add_offset`, `add_quadratic_back`), any number of fixed variables, repeated indices
    allowed (last value wins): objective and every constraint left-hand side of the new model take at `X'` the value of
    the original at the assignment that gives fixed variables their values and the `k`-th remaining variable `X' k`;
    sense, rhs, weight, penalty, order of constraints unchanged; the variable table keeps the remaining rows in order.
    `ExprOk`: the expression is well-formed, mentions only variables of the model, and has no squared term on a
    BINARY/SPIN variable.
    **Local order vs model order**: an expression stores its own variable list `e.vars` (`variables_`: model indices, in the
    order the expression first met them — any duplicate-free list, not sorted, not a prefix of the model's) and its
    biases by *local* index.  `Expr.fixVariablesExpr` as coded takes the local index `i` of a term to the model index
    `g = e.vars[i]` first and looks up `old_to_new[g]` / `assignments[g]` by that MODEL index; `energyCpp X` on the right
    reads `X (e.vars[i])` likewise.  So the statement is about every such expression; a lookup by local index
    (`assignments[i]`) falsifies it whenever `e.vars ≠ [0, 1, …]` (the example at the end: `variables_ = [2, 0]`). -/
theorem cqm_fix_copy_eval [DecidableEq R] (m : CqmC R) (hobj : CqmC.ExprOk m m.obj) (hcons : ∀ k ∈ m.cons, CqmC.ExprOk m k.e)
    (fixed : List (Nat × R)) (X' : Nat → R) :
    let m' := m.fixVariables fixed
    let X := Expr.Xext X' (CqmC.o2nOf m.info.length fixed) (CqmC.asgOf m.info.length fixed)
    m'.obj.energyCpp X' = m.obj.energyCpp X ∧ m'.cons.length = m.cons.length ∧
    (∀ i (hi : i < m.cons.length) (hi' : i < m'.cons.length),
      m'.cons[i].e.energyCpp X' = m.cons[i].e.energyCpp X ∧
      m'.cons[i].sense = m.cons[i].sense ∧ m'.cons[i].rhs = m.cons[i].rhs ∧
      m'.cons[i].weight = m.cons[i].weight ∧ m'.cons[i].quadPenalty = m.cons[i].quadPenalty) ∧
    m'.info = (CqmC.keptIdx m.info.length fixed).map fun i => m.info.getD i { vt := .binary, lb := 0, ub := 0 } :=
  CqmC.fixVariables_spec m hobj hcons fixed X'

/-- **`fix_inplace_eq_copy`**: `fix_variable(v, a)` in place and `fix_variables({v: a}, inplace=False)` produce models whose
    objective and every constraint left-hand side agree at every assignment of the remaining variables, with the same
    sense / rhs / weight / penalty and number of constraints. (For several variables the in-place path is this step
    repeated, the copying path is `cqm_fix_copy_eval`; both are pinned to the substituted original.) -/
theorem fix_inplace_eq_copy [DecidableEq R] (m : CqmC R) (hobj : CqmC.ExprOk m m.obj) (hcons : ∀ k ∈ m.cons, CqmC.ExprOk m k.e)
    (v : Nat) (hv : v < m.info.length) (a : R) (X' : Nat → R) :
    let mi := m.fixVariable v a
    let mc := m.fixVariables [(v, a)]
    mi.obj.energyCpp X' = mc.obj.energyCpp X' ∧ mi.cons.length = mc.cons.length ∧
    ∀ i (hi : i < mi.cons.length) (hi' : i < mc.cons.length),
      mi.cons[i].e.energyCpp X' = mc.cons[i].e.energyCpp X' ∧
      mi.cons[i].sense = mc.cons[i].sense ∧ mi.cons[i].rhs = mc.cons[i].rhs ∧
      mi.cons[i].weight = mc.cons[i].weight ∧ mi.cons[i].quadPenalty = mc.cons[i].quadPenalty :=
  CqmC.fix_inplace_eq_copy m hobj hcons v hv a X'

/-- removing a variable whose coefficients are all zero changes no energy (`remove_variable` re-indexes correctly) -/
theorem remove_eval (m : QMB R) (hm : m.WF) (v : Nat) (hv : v < m.n)
    (hL : m.L v = 0) (hQ : ∀ w, m.Q v w = 0) (x' x : Nat → R)
    (hxs : ∀ i, i < m.n - 1 → x (skip v i) = x' i) :
    (m.removeVariable v).energy x' = m.energy x :=
  QMB.removeVariable_energy m hm v hv hL hQ x' x hxs

/-- `fix_keeps_attrs`: the in-place path touches expressions only — sense, right-hand side, weight, penalty and the
    number/order of constraints are what they were -/
theorem fix_keeps_attrs (m : CqmC R) (v : Nat) (a : R) :
    (m.fixVariable v a).cons.map (fun k => (k.sense, k.rhs, k.weight, k.quadPenalty))
      = m.cons.map (fun k => (k.sense, k.rhs, k.weight, k.quadPenalty)) := by
  simp [CqmC.fixVariable, CqmC.removeVariable, CqmC.substituteVariable, CqmC.mapExprs, List.map_map, Function.comp]

/-- `poly_fix_eval` (`higherordercomposites.fix_variables`, repaired D5; what `PolyFixedVariableComposite` submits to
    its child): at every assignment of the remaining variables the returned polynomial has the energy of the original
    at the assignment extended by the fixed values; the constant term counts once; a term all of whose variables are
    fixed becomes part of the constant -/
theorem poly_fix_eval (p : Poly R) (hk : (p.map (·.1)).Nodup) (hterms : ∀ tb ∈ p, tb.1.Nodup)
    (fixed : List (Nat × R)) (hfd : (fixed.map (·.1)).Nodup) (x' : Nat → R) :
    polySpec x' (polyFixVariables p fixed) = polySpec (extend x' fixed) p :=
  polyFixVariables_energy p hk hterms fixed hfd x'

/-- D5 witness: before the repair `5 + a` with `a := 1` became the constant 11 -/
theorem d5_witness :
    polySpec (fun _ => 0) (polyFixVariablesOld C03Witness.p [(0, 1)]) ≠ polySpec (fun _ => (1 : Rat)) C03Witness.p :=
  C03Witness.d5_old_wrong

/-- D4 witness: before the repair the in-place path turned `3i² + 2i + 1` with `i := 2` into the constant 5, not 17 -/
theorem d4_witness : (D4Witness.cqm0.fixVariableOld 0 2).obj.qb.off ≠ 17 :=
  D4Witness.fix_inplace_wrong_on_selfloop

/-! ## non-vacuity -/

/-- the copying path on an expression whose *local* variable order differs from the model's: a model with variables 0, 1, 2, the
    expression `5·x₂ + 7·x₀ + x₂·x₀` stored with `variables_ = [2, 0]`; fixing model variable 2 to 3 (`assignments[2] = 3`, looked
    up by MODEL index) leaves `15 + 10·x₀` over the new index of old variable 0 -/
example :
    let e : Expr Rat := { vars := [2, 0], qb := { lin := [5, 7], adj := some [[(1, 1)], [(0, 1)]], off := 0 } }
    let m : CqmC Rat := { obj := e, cons := [], info := [⟨.integer, 0, 9⟩, ⟨.integer, 0, 9⟩, ⟨.integer, 0, 9⟩] }
    (m.fixVariables [(2, 3)]).obj.vars = [0] ∧ (m.fixVariables [(2, 3)]).obj.qb.lin = [10] ∧
      (m.fixVariables [(2, 3)]).obj.qb.off = 15 := by decide +kernel



example : (({ lin := [2], adj := some [[(0, 3)]], off := 1 } : QMB Rat).fixVariable 0 2).off = 17 := by decide +kernel
example : (D4Witness.cqm0.fixVariable 0 2).obj.qb.off = 17 := D4Witness.fix_inplace_new_value
example : (D4Witness.cqm0.fixVariables [(0, 2)]).obj.qb.off = 17 := D4Witness.fix_copy_value
example : polySpec (fun _ => 0) (polyFixVariables C03Witness.p [(0, 1)]) = 6 := C03Witness.d5_new_value

/-! ## several variables: the fold over the pairs = simultaneous substitution, in any order; every variable fixed -/

/-- **order independence, BQM / QM**: `fix_variables` over two orderings of the same duplicate-free pairs both succeed, leave
    the same set of labels, and — evaluated by label at any valuation that gives the fixed labels their values — both
    results have the energy of the original at that valuation (simultaneous substitution), hence of each other -/
theorem qm_fix_order_independent (m : QmL R) (hm : m.Ok) (f1 f2 : List (Label × R)) (hp : f1.Perm f2)
    (hfd : (f1.map (·.1)).Nodup) (hall : ∀ p ∈ f1, p.1 ∈ m.labels) (val : Label → R) (hval : ∀ p ∈ f1, val p.1 = p.2) :
    (m.fixVariables f1).2 = true ∧ (m.fixVariables f2).2 = true ∧
    (∀ l, l ∈ (m.fixVariables f1).1.labels ↔ l ∈ (m.fixVariables f2).1.labels) ∧
    (m.fixVariables f1).1.qb.energy (valL val (m.fixVariables f1).1.labels) = m.qb.energy (valL val m.labels) ∧
    (m.fixVariables f2).1.qb.energy (valL val (m.fixVariables f2).1.labels) = m.qb.energy (valL val m.labels) := by
  have hfd2 : (f2.map (·.1)).Nodup := (hp.map (·.1)).nodup_iff.mp hfd
  have hall2 : ∀ p ∈ f2, p.1 ∈ m.labels := fun p h => hall p (hp.mem_iff.mpr h)
  have hval2 : ∀ p ∈ f2, val p.1 = p.2 := fun p h => hval p (hp.mem_iff.mpr h)
  obtain ⟨a1, _, _, a4, a5⟩ := qm_fix_many_eval m hm f1 hfd hall val hval
  obtain ⟨b1, _, _, b4, b5⟩ := qm_fix_many_eval m hm f2 hfd2 hall2 val hval2
  refine ⟨a1, b1, fun l => ?_, a5, b5⟩
  rw [a4 l, b4 l]
  have : l ∈ f1.map (·.1) ↔ l ∈ f2.map (·.1) := (hp.map (·.1)).mem_iff
  rw [this]

/-- **every variable fixed, BQM / QM** (`fix_all_vars_const`): no variable is left and the model is the constant — its offset,
    and its energy at any sample — equal to the original's energy at the fixed values -/
theorem qm_fix_all_vars_const (m : QmL R) (hm : m.Ok) (fixed : List (Label × R)) (hfd : (fixed.map (·.1)).Nodup)
    (hall : ∀ p ∈ fixed, p.1 ∈ m.labels) (hcover : ∀ l ∈ m.labels, l ∈ fixed.map (·.1))
    (val : Label → R) (hval : ∀ p ∈ fixed, val p.1 = p.2) :
    (m.fixVariables fixed).1.labels = [] ∧ (m.fixVariables fixed).1.qb.off = m.qb.energy (valL val m.labels) ∧
    ∀ x, (m.fixVariables fixed).1.qb.energy x = m.qb.energy (valL val m.labels) := by
  obtain ⟨_, a2, _, a4, a5⟩ := qm_fix_many_eval m hm fixed hfd hall val hval
  have hnil : (m.fixVariables fixed).1.labels = [] := by
    apply List.eq_nil_iff_forall_not_mem.mpr
    intro l hl
    have := (a4 l).mp hl
    exact this.2 (hcover l this.1)
  have hlin : (m.fixVariables fixed).1.qb.lin = [] := by
    have := a2.len
    rw [hnil] at this
    exact List.length_eq_zero_iff.mp this.symm
  have hconst : ∀ x, (m.fixVariables fixed).1.qb.energy x = (m.fixVariables fixed).1.qb.off := by
    intro x
    unfold QMB.energy
    cases (m.fixVariables fixed).1.qb.adj <;> simp [hlin, QMB.adjLoop, QMB.linLoop]
  refine ⟨hnil, ?_, fun x => ?_⟩
  · rw [← hconst (valL val (m.fixVariables fixed).1.labels)]; exact a5
  · rw [hconst x, ← hconst (valL val (m.fixVariables fixed).1.labels)]; exact a5

/-- **order independence, CQM in place**: for two orderings of the same pairs both runs succeed, keep the same labels and
    constraint labels, and the objective and every constraint left-hand side of both results — evaluated by label — equal
    those of the original at the valuation (sense / rhs / weight / penalty unchanged: `CqmC.Rel`) -/
theorem cqm_fix_order_independent [DecidableEq R] (m : CqmL R) (hm : m.c.WF) (hnd : m.labels.Nodup) (f1 f2 : List (Label × R))
    (hp : f1.Perm f2) (hfd : (f1.map (·.1)).Nodup) (hall : ∀ p ∈ f1, p.1 ∈ m.labels) (val : Label → R)
    (hval : ∀ p ∈ f1, val p.1 = p.2) :
    (m.fixVariablesInplace f1).2 = true ∧ (m.fixVariablesInplace f2).2 = true ∧
    (∀ l, l ∈ (m.fixVariablesInplace f1).1.labels ↔ l ∈ (m.fixVariablesInplace f2).1.labels) ∧
    (m.fixVariablesInplace f1).1.clabels = (m.fixVariablesInplace f2).1.clabels ∧
    CqmC.Rel (m.fixVariablesInplace f1).1.c m.c (valL val (m.fixVariablesInplace f1).1.labels) (valL val m.labels) ∧
    CqmC.Rel (m.fixVariablesInplace f2).1.c m.c (valL val (m.fixVariablesInplace f2).1.labels) (valL val m.labels) := by
  have hfd2 : (f2.map (·.1)).Nodup := (hp.map (·.1)).nodup_iff.mp hfd
  have hall2 : ∀ p ∈ f2, p.1 ∈ m.labels := fun p h => hall p (hp.mem_iff.mpr h)
  have hval2 : ∀ p ∈ f2, val p.1 = p.2 := fun p h => hval p (hp.mem_iff.mpr h)
  obtain ⟨a1, _, _, _, a5, a6, a7⟩ := cqm_fix_many_inplace_eval m hm hnd f1 hfd hall val hval
  obtain ⟨b1, _, _, _, b5, b6, b7⟩ := cqm_fix_many_inplace_eval m hm hnd f2 hfd2 hall2 val hval2
  refine ⟨a1, b1, fun l => ?_, by rw [a6, b6], a7, b7⟩
  rw [a5 l, b5 l]
  have : l ∈ f1.map (·.1) ↔ l ∈ f2.map (·.1) := (hp.map (·.1)).mem_iff
  rw [this]

/-- **every variable of the CQM fixed in place**: no variable is left; objective and every left-hand side are the values
    of the original at the fixed values, whatever sample they are evaluated at afterwards is irrelevant for the labels
    (there are none), attributes unchanged -/
theorem cqm_fix_all_vars [DecidableEq R] (m : CqmL R) (hm : m.c.WF) (hnd : m.labels.Nodup) (fixed : List (Label × R))
    (hfd : (fixed.map (·.1)).Nodup) (hall : ∀ p ∈ fixed, p.1 ∈ m.labels) (hcover : ∀ l ∈ m.labels, l ∈ fixed.map (·.1))
    (val : Label → R) (hval : ∀ p ∈ fixed, val p.1 = p.2) :
    (m.fixVariablesInplace fixed).1.labels = [] ∧
    CqmC.Rel (m.fixVariablesInplace fixed).1.c m.c (valL val []) (valL val m.labels) := by
  obtain ⟨_, _, _, _, a5, _, a7⟩ := cqm_fix_many_inplace_eval m hm hnd fixed hfd hall val hval
  have hnil : (m.fixVariablesInplace fixed).1.labels = [] := by
    apply List.eq_nil_iff_forall_not_mem.mpr
    intro l hl
    have := (a5 l).mp hl
    exact this.2 (hcover l this.1)
  rw [hnil] at a7
  exact ⟨hnil, a7⟩

/-! ## the dict back-end (`dtype=object`) at any point of an edit history

`LBqm` (`DimodModel/Convert.lean`, `PyHist.lean`): `_adj` as insertion-ordered dict of dicts.  `LBqm.fixVariable` is
`QuadraticViewsMixin.fix_variable` as it runs on a `pyBQM` (`iter_neighborhood`, `add_linear`, `get_linear`, offset setter,
`remove_variable`, each as coded).  `repEval` is the polynomial of the reported coefficients (`offset`, `linear`,
`iter_quadratic`). -/

/-- **`remove_variable(v)`** on any state satisfying the representation invariant removes exactly the terms that mention `v` -/
theorem pybqm_remove_variable_eval (m : LBqm Rat) (g : LBqm.GInv m) (v : Label) (nv : ODict Label Rat)
    (hv : ODict.get? m.adj v = some nv) :
    ∃ m', m.removeVariable v = .ok m' ∧ LBqm.GInv m' ∧ m'.vt = m.vt ∧ okeys m'.adj = (okeys m.adj).erase v ∧
      ∀ x, LBqm.evalL (1/2) m' x
        = LBqm.evalL (1/2) m x - (LBqm.lbias v nv * x v + ((LBqm.others v nv).map fun p => p.2 * (x v * x p.1)).sum) :=
  LBqm.removeVariable_evalL g v nv hv

/-- **`fix_variable(v, a)` on the dict back-end, any invariant state**: succeeds for a variable of the model, `v` is gone, the
    invariant and the vartype are kept, and at every assignment giving `v` the value `a` (in the domain or not) the energy
    computed from the reported coefficients of the fixed model equals that of the original -/
theorem pybqm_fix_eval (m : LBqm Rat) (g : LBqm.GInv m) (v : Label) (hv : v ∈ okeys m.adj) (a : Rat) :
    ∃ m', m.fixVariable v a = .ok m' ∧ LBqm.GInv m' ∧ m'.vt = m.vt ∧ v ∉ okeys m'.adj ∧
      ∀ x, x v = a → LBqm.repEval m' x = LBqm.repEval m x := by
  obtain ⟨m', h1, h2, h3, h4, h5⟩ := LBqm.fixVariable_evalL g v hv a
  have h4' : v ∉ okeys m'.adj := by rw [h4]; exact List.Nodup.not_mem_erase g.s.nodup
  refine ⟨m', h1, h2, h3, h4', fun x hx => ?_⟩
  rw [← LBqm.evalL_eq_repEval m' h2.toLInv, ← LBqm.evalL_eq_repEval m g.toLInv]
  exact h5 x hx

/-- **… at any point of an edit history**: after any history of calls through the model and its `.spin` / `.binary` views
    (incl. relabelling and in-place vartype changes), fixing a variable of the model equals substituting its value -/
theorem pybqm_fix_after_history (vt : En.VT) (calls : List (En.VT × LBqm.VOp Rat)) (v : Label)
    (hv : v ∈ okeys (LBqm.vrun vt calls).adj) (a : Rat) :
    ∃ m', (LBqm.vrun vt calls).fixVariable v a = .ok m' ∧ v ∉ okeys m'.adj ∧
      ∀ x, x v = a → LBqm.repEval m' x = LBqm.repEval (LBqm.vrun vt calls) x := by
  obtain ⟨m', h1, _, _, h4, h5⟩ := pybqm_fix_eval _ (LBqm.GInv.vrun vt calls) v hv a
  exact ⟨m', h1, h4, h5⟩

/-- **several variables on the dict back-end, any invariant state** (`fix_variables` = the loop over `fix_variable`): for
    distinct variables of the model, in any order, the loop succeeds, the remaining variables are the others in their order, the
    invariant is kept, and at every assignment giving the fixed variables their values the energy computed from the reported
    coefficients is that of the original (simultaneous substitution) -/
theorem pybqm_fix_many_eval (m : LBqm Rat) (g : LBqm.GInv m) (fixed : List (Label × Rat)) (hnd : (fixed.map (·.1)).Nodup)
    (hall : ∀ p ∈ fixed, p.1 ∈ okeys m.adj) :
    ∃ m', m.fixVariables fixed = .ok m' ∧ LBqm.GInv m' ∧ m'.vt = m.vt ∧
      okeys m'.adj = (okeys m.adj).filter (fun l => !(fixed.map (·.1)).contains l) ∧
      ∀ x, (∀ p ∈ fixed, x p.1 = p.2) → LBqm.repEval m' x = LBqm.repEval m x := by
  obtain ⟨m', h1, h2, h3, h4, h5⟩ := LBqm.fixVariables_evalL fixed m g hnd hall
  refine ⟨m', h1, h2, h3, h4, fun x hx => ?_⟩
  rw [← LBqm.evalL_eq_repEval m' h2.toLInv, ← LBqm.evalL_eq_repEval m g.toLInv]
  exact h5 x hx

/-- … after any history of calls through the model and its views; and with **every variable fixed** nothing is left and the
    offset of the result is the energy of the original at the fixed values -/
theorem pybqm_fix_many_after_history (vt : En.VT) (calls : List (En.VT × LBqm.VOp Rat)) (fixed : List (Label × Rat))
    (hnd : (fixed.map (·.1)).Nodup) (hall : ∀ p ∈ fixed, p.1 ∈ okeys (LBqm.vrun vt calls).adj) :
    ∃ m', (LBqm.vrun vt calls).fixVariables fixed = .ok m' ∧
      (∀ x, (∀ p ∈ fixed, x p.1 = p.2) → LBqm.repEval m' x = LBqm.repEval (LBqm.vrun vt calls) x) ∧
      ((∀ l ∈ okeys (LBqm.vrun vt calls).adj, l ∈ fixed.map (·.1)) → m'.adj = [] ∧
        ∀ x, (∀ p ∈ fixed, x p.1 = p.2) → m'.off = LBqm.repEval (LBqm.vrun vt calls) x) := by
  obtain ⟨m', h1, _, _, h4, h5⟩ := pybqm_fix_many_eval _ (LBqm.GInv.vrun vt calls) fixed hnd hall
  refine ⟨m', h1, h5, fun hcover => ?_⟩
  have hnil : m'.adj = [] := by
    have : okeys m'.adj = [] := by
      rw [h4]
      apply List.filter_eq_nil_iff.mpr
      intro l hl
      simp [hcover l hl]
    unfold okeys at this
    exact List.map_eq_nil_iff.mp this
  refine ⟨hnil, fun x hx => ?_⟩
  rw [← h5 x hx]
  unfold LBqm.repEval LBqm.iterQuadratic
  rw [hnil]
  simp [LBqm.iterQuadratic.go]


/-! ## round 7: the Python front of `fix_variables` (the argument as an object), `variables_` search = `indices_` lookup -/

/-- **`fix_variables(fixed)` of a BQM / QM for every form of `fixed`** — a Mapping (`.items()`), a list / tuple of pairs, or a
    one-shot iterable (zip, generator, `iter`, `map`): the front makes one pass, so the call is the model on the pairs the object
    yields: for distinct labels of the model it succeeds, leaves exactly the other labels in order, is the simultaneous
    substitution, and leaves a one-shot iterator exhausted (any other object untouched) -/
theorem qm_fix_variables_any_form (m : QmL R) (hm : m.Ok) (arg : FixedArg R) (hfd : (arg.pairs.map (·.1)).Nodup)
    (hall : ∀ p ∈ arg.pairs, p.1 ∈ m.labels) (val : Label → R) (hval : ∀ p ∈ arg.pairs, val p.1 = p.2) :
    let r := m.fixVariablesFront arg
    r.1.2 = true ∧ r.1.1.Ok ∧ r.1.1.labels.Sublist m.labels ∧ (∀ l, l ∈ r.1.1.labels ↔ l ∈ m.labels ∧ l ∉ arg.pairs.map (·.1)) ∧
    r.1.1.qb.energy (valL val r.1.1.labels) = m.qb.energy (valL val m.labels) ∧ r.2 = arg.after [] := by
  obtain ⟨h1, h2⟩ := QmL.fixVariablesFront_eq m arg
  obtain ⟨a, b, c, d, e⟩ := QmL.fixVariables_spec m hm arg.pairs hfd hall val hval
  simp only []
  rw [h1]
  exact ⟨a, b, c, d, e, h2 a⟩

/-- the same for **`CQM.fix_variables(fixed, inplace=True)`** -/
theorem cqm_fix_variables_inplace_any_form [DecidableEq R] (m : CqmL R) (hm : m.c.WF) (hnd : m.labels.Nodup) (arg : FixedArg R)
    (hfd : (arg.pairs.map (·.1)).Nodup) (hall : ∀ p ∈ arg.pairs, p.1 ∈ m.labels) (val : Label → R)
    (hval : ∀ p ∈ arg.pairs, val p.1 = p.2) :
    let r := m.fixVariablesInplaceFront arg
    r.1.2 = true ∧ r.1.1.c.WF ∧ r.1.1.labels.Nodup ∧ (∀ l, l ∈ r.1.1.labels ↔ l ∈ m.labels ∧ l ∉ arg.pairs.map (·.1)) ∧
    r.1.1.clabels = m.clabels ∧ CqmC.Rel r.1.1.c m.c (valL val r.1.1.labels) (valL val m.labels) ∧ r.2 = arg.after [] := by
  obtain ⟨h1, h2⟩ := CqmL.fixVariablesInplaceFront_eq m arg
  obtain ⟨a, b, c, _, e, f, g⟩ := CqmL.fixVariablesInplace_spec m hm hnd arg.pairs hfd hall val hval
  simp only []
  rw [h1]
  exact ⟨a, b, c, e, f, g, h2 a⟩

/-- **`CQM.fix_variables(fixed, inplace=False)`**: the one pass that collects indices, values and the label set, then the C++
    copy, is the copying model on the pairs the object yields (an unknown label is rejected in the pass) -/
theorem cqm_fix_variables_copy_any_form [DecidableEq R] (m : CqmL R) (arg : FixedArg R) :
    (m.fixVariablesCopyFront arg).1 = m.fixVariablesCopy arg.pairs :=
  CqmL.fixVariablesCopyFront_eq m arg

/-- a front that validates in a first pass over the same object (seeded change C03-5) fixes nothing when `fixed` is a one-shot
    iterable: the second pass sees an exhausted iterator -/
theorem fix_variables_two_pass_front_loses_iterator (m : QmL R) (ps : List (Label × R))
    (hall : ∀ p ∈ ps, m.labels.contains p.1 = true) :
    (m.fixVariablesFrontTwoPass (.iterator ps)).1 = (m, true) := by
  have hchk : ∀ (ps : List (Label × R)), (∀ p ∈ ps, m.labels.contains p.1 = true) →
      loopFront (fun (_ : Unit) v (_ : R) => if m.labels.contains v then some () else none) () ps = (((), true), []) := by
    intro ps
    induction ps with
    | nil => intro _; rfl
    | cons p t ih =>
      intro h
      simp only [loopFront, h p (by simp), if_true]
      exact ih (fun q hq => h q (by simp [hq]))
  unfold QmL.fixVariablesFrontTwoPass
  simp only [FixedArg.pairs, hchk ps hall, if_true, FixedArg.after, QmL.fixVariablesFront, loopFront]

/-- **The C03 expression models search `variables_`; the code looks up `indices_`.**  On every state a history of public CQM
    operations reaches (C05: `indices_` is the inverse of `variables_`, `variables_` duplicate-free), for the objective and every
    constraint the search returns exactly what `indices_.find` returns — so the C03 theorems speak about the code's lookups. -/
theorem expr_search_is_indices_lookup_after_history (ops : List Cqm.Op) (hops : ∀ op ∈ ops, CqmP.OpOK op) (qb : QMB R) (g : Nat) :
    ({ vars := (({} : Cqm).run ops).obj.vars, qb := qb } : En.Expr R).localOf? g = (({} : Cqm).run ops).obj.idx.get? g ∧
    ∀ c ∈ (({} : Cqm).run ops).cons, ({ vars := c.e.vars, qb := qb } : En.Expr R).localOf? g = c.e.idx.get? g := by
  have hwf := C05.history_inv ops hops
  exact ⟨localOf?_eq_indices _ _ hwf.obj.nodup hwf.obj.idx qb g,
         fun c hc => localOf?_eq_indices _ _ (hwf.cons c hc).nodup (hwf.cons c hc).idx qb g⟩

/-- a generator of two pairs on a two-variable model: both fixed, the generator is exhausted afterwards -/
example : let m : QmL Rat := { qb := { lin := [1, 2], adj := none, off := 0 },
                               info := [⟨.integer, 0, 9⟩, ⟨.integer, 0, 9⟩], labels := [.int 0, .int 1] }
    let r := m.fixVariablesFront (.iterator [(.int 1, 3), (.int 0, 5)])
    (r.1.1.qb.off, r.1.2, r.1.1.labels, r.2.pairs) = (11, true, [], []) := by decide +kernel


/-! ## round 8 — in-place removal on expressions in ANY private variable order: the C03 step is the projection of the
    `indices_`-keeping model

The C03 theorems above (`cqm_fix_inplace_eval`, …) are about `En.Expr.reindexVariables`, which finds the removed variable by
SEARCHING `variables_`.  The code looks it up in `indices_` and repairs that map with the three loops of `reindex_variables`
(C05's model `Expr.reindex`; `ExprReads.reindexGen` = the same over the guards regenerated from expression.h).  On every state a
history of public CQM operations reaches — objective / constraints written descending, interleaved, successor first … — the
two agree on `variables_` and on the base model, so the substitution theorems speak about what the code computes, and (C01
`reindex_keeps_label_reads`) the label-based accessors keep reporting the coefficients of that result. -/

section IndicesModel
open ExprReads CqmP

/-- one removal step: C05's model (with `indices_`, over the generated guards), projected to `variables_` + base model, is the
    C03 step -/
theorem removal_step_is_projection_of_indices_model (e : Expr) (hwf : ExprWF e) (hs : ExprSorted e) (v : Nat) :
    toEn (reindexGen e v) = (toEn e).reindexVariables v := by
  rw [reindexGen_eq]; exact toEn_reindex hwf hs v

/-- … on the objective and every constraint of every state a history of public CQM operations reaches -/
theorem removal_step_is_projection_after_history (ops : List Cqm.Op) (hops : ∀ op ∈ ops, OpOK op) (v : Nat) :
    toEn (reindexGen (({} : Cqm).run ops).obj v) = (toEn (({} : Cqm).run ops).obj).reindexVariables v ∧
    ∀ c ∈ (({} : Cqm).run ops).cons, toEn (reindexGen c.e v) = (toEn c.e).reindexVariables v := by
  have hwf := C05.history_inv ops hops
  have hs := C05.history_sorted ops hops
  exact ⟨removal_step_is_projection_of_indices_model _ hwf.obj hs.1 v,
         fun c hc => removal_step_is_projection_of_indices_model _ (hwf.cons c hc) (hs.2 c hc) v⟩

/-- the state after the step is again one the theorems apply to (so a `fix_variables(…, inplace=True)` loop stays inside) -/
theorem removal_step_keeps_indices_invariant (e : Expr) (hwf : ExprWF e) (hs : ExprSorted e) (v : Nat) :
    ExprWF (reindexGen e v) ∧ ExprSorted (reindexGen e v) := by
  rw [reindexGen_eq]; exact ⟨reindex_wf hwf v, reindex_sorted hs v⟩

/-- the neighbourhood update of the two models agrees on sorted neighbourhoods: C05's filter-and-decrement is C03's backwards
    walk of `remove_variable` -/
theorem neighbourhood_removal_models_agree (i : Nat) (nb : List (Nat × Rat)) (hs : (nb.map Prod.fst).Pairwise (· < ·)) :
    QB.shiftNbh i nb = QMB.removeFromNbh i nb :=
  shiftNbh_eq_removeFromNbh i nb hs

/-- the objective `3·x₁ + 5·x₀ + 2·x₀x₁` written with `x₁` first; removing variable 0: both models leave `variables_ = [0]`,
    linear `[3]`, no interaction -/
example :
    let e := rebuild 2 [1, 0] [3, 5] [(0, 1, 2)] 0
    (toEn (reindexGen e 0)).vars = ((toEn e).reindexVariables 0).vars
    ∧ (toEn (reindexGen e 0)).qb.lin = ((toEn e).reindexVariables 0).qb.lin
    ∧ (toEn (reindexGen e 0)).qb.adj = ((toEn e).reindexVariables 0).qb.adj
    ∧ (toEn (reindexGen e 0)).vars = [0] ∧ (reindexGen e 0).qb.lin = [3] ∧ (reindexGen e 0).qb.adj = [[]] := by
  decide +kernel

end IndicesModel

end C03
