import DimodProofs.Vars
import DimodProofs.VarsInv
import DimodProofs.VarsRelabel
import DimodProofs.VarsSteps

/-! # C13 — Variables is an order-preserving bijection between labels and indices

Model: `DimodModel/Vars.lean` (`VState`, mirror of `dimod/cyvariables.pyx`).
Specification: `LSpec` (a duplicate-free list of labels) in the same file.
`abs : VState → List Label` is what iteration yields.

Main results: `step_refines` (every operation preserves the representation invariant and does to
the iteration order exactly what the list specification says, including whether the call raises)
and `history_refines` (hence every history from the empty object).  The only side condition is
`Op.WF`: the key/value literal of a `relabel` has pairwise distinct keys (it is a Python dict);
`relabel_dupkey_counterexample` shows that it cannot be dropped for the model as written. -/

namespace C13

open VState (Op)

/-- a non-trivial witness state: iteration yields `[2, "a", 0, 3]` -/
def wS : VState :=
  { i2l := [(0, .int 2), (1, .str "a"), (2, .int 0)],
    l2i := [(.int 2, 0), (.str "a", 1), (.int 0, 2)], stop := 4 }

theorem wS_inv : wS.Inv := VState.inv_of_invCheck _ (by decide +kernel)
theorem wS_abs : wS.abs = [.int 2, .str "a", .int 0, .int 3] := by decide +kernel

/-- membership/`count` of the sparse representation is list membership -/
theorem count_iff_mem (s : VState) (h : s.Inv) (v : Label) : s.count v = true ↔ v ∈ s.abs :=
  VState.count_iff s h v

example : wS.Inv ∧ wS.count (.int 3) = true ∧ wS.count (.int 1) = false := ⟨wS_inv, by decide +kernel⟩

/-- appending a fresh label appends to the list -/
theorem append_refines (s : VState) (h : s.Inv) (v : Label) (hv : v ∉ s.abs) :
    (s.append v).abs = s.abs ++ [v] :=
  VState.abs_append s h v hv

example : wS.Inv ∧ Label.int 1 ∉ wS.abs := ⟨wS_inv, by decide +kernel⟩

/-- `index()` is the position in the list: a label sits at exactly one position -/
theorem index_is_position (s : VState) (h : s.Inv) (i : Nat) (hi : i < s.stop) (v : Label) :
    s.labelAt i = v ↔ (v ∈ s.abs ∧ s.idxOf v = i) :=
  VState.labelAt_eq_iff s h i hi v

example : wS.Inv ∧ 2 < wS.stop ∧ wS.labelAt 2 = .int 0 := ⟨wS_inv, by decide +kernel⟩

/-- one relabel step on the sparse maps is `List.map` on the list -/
theorem relabelOne_refines (s : VState) (h : s.Inv) (old new : Label) (hold : old ∈ s.abs) (hne : new ≠ old) :
    (s.relabelOne old new).abs = s.abs.map (fun l => if l = old then new else l) :=
  VState.abs_relabelOne s h old new hold hne

example : wS.Inv ∧ Label.str "a" ∈ wS.abs ∧ Label.int 1 ≠ Label.str "a" := ⟨wS_inv, by decide +kernel⟩

/-! ## the bijection -/

/-- iteration never yields a label twice -/
theorem abs_nodup (s : VState) (h : s.Inv) : s.abs.Nodup := VState.abs_nodup s h

/-- the number of labels is `_stop` -/
theorem abs_length (s : VState) : s.abs.length = s.stop := VState.abs_length s

/-- `index(v) = i` exactly when the list has `v` at position `i` -/
theorem index_correct (s : VState) (h : s.Inv) (v : Label) (i : Nat) :
    s.index? v = some i ↔ s.abs[i]? = some v := VState.index?_eq_some_iff s h v i

/-- `index(v)` raises exactly when `v` is not in the list -/
theorem index_raises_iff (s : VState) (h : s.Inv) (v : Label) : s.index? v = none ↔ v ∉ s.abs :=
  VState.index?_eq_none_iff s h v

example : wS.Inv ∧ wS.index? (.int 0) = some 2 ∧ wS.index? (.int 1) = none := ⟨wS_inv, by decide +kernel⟩

/-- `at(idx)` is Python list indexing, negative indices counting from the end, `none` = IndexError -/
theorem at_correct (s : VState) (idx : Int) :
    s.at? idx =
      if 0 ≤ idx then s.abs[idx.toNat]?
      else if -idx ≤ s.abs.length then s.abs[(s.abs.length + idx).toNat]? else none :=
  VState.at?_eq s idx

example : wS.at? (-1) = some (.int 3) ∧ wS.at? (-4) = some (.int 2) ∧ wS.at? (-5) = none ∧ wS.at? 4 = none := by
  decide +kernel

/-! ## the invariant is established and preserved -/

theorem empty_inv : VState.empty.Inv := VState.inv_empty

/-- appending a fresh label keeps the invariant -/
theorem append_inv (s : VState) (h : s.Inv) (v : Label) (hv : v ∉ s.abs) : (s.append v).Inv :=
  VState.append_inv s h v hv

/-- the generated label is the documented one and is not yet present -/
theorem autoLabel_correct (s : VState) (h : s.Inv) :
    s.autoLabel = LSpec.autoLabel s.abs ∧ s.autoLabel ∉ s.abs :=
  ⟨VState.autoLabel_eq s h, VState.autoLabel_fresh s h⟩

/-- the documented auto label is never already in the list (pigeonhole) -/
theorem spec_autoLabel_fresh (l : List Label) : LSpec.autoLabel l ∉ l := VState.spec_autoLabel_fresh l

/-- position 4 would be labelled `4`, but after appending `5` the index label `5` is taken: least free is `1` -/
example : (wS.append (.int 5)).Inv ∧ (wS.append (.int 5)).autoLabel = .int 1 :=
  ⟨VState.append_inv wS wS_inv _ (by decide +kernel), by decide +kernel⟩

/-- `pop` removes the last list element -/
theorem pop_refines (s : VState) (h : s.Inv) (h0 : s.stop ≠ 0) :
    s.pop = some (s.popState, s.labelAt (s.stop - 1)) ∧ s.popState.Inv ∧
      s.popState.abs = s.abs.dropLast ∧ s.abs = s.popState.abs ++ [s.labelAt (s.stop - 1)] :=
  ⟨by rw [VState.pop_eq, if_neg h0], VState.popState_inv s h h0, VState.popState_abs_dropLast s h0,
    VState.popState_abs s h0⟩

example : wS.Inv ∧ wS.stop ≠ 0 := ⟨wS_inv, by decide +kernel⟩

/-- `relabelOne` keeps the invariant when the old label is present and the new one is not -/
theorem relabelOne_inv (s : VState) (h : s.Inv) (old new : Label) (hold : old ∈ s.abs) (hnew : new ∉ s.abs) :
    (s.relabelOne old new).Inv := VState.relabelOne_inv s h old new hold hnew

/-- … and also when it relabels a present label to itself (then nothing changes) -/
theorem relabelOne_self (s : VState) (h : s.Inv) (old : Label) (hold : old ∈ s.abs) :
    (s.relabelOne old old).Inv ∧ (s.relabelOne old old).abs = s.abs :=
  ⟨VState.relabelOne_self_inv s h old hold, VState.relabelOne_self_abs s h old hold⟩

example : wS.Inv ∧ Label.int 0 ∈ wS.abs ∧ Label.int 1 ∉ wS.abs := ⟨wS_inv, by decide +kernel⟩

/-! ## relabel and remove -/

/-- `relabel` of a dict (distinct keys): accepted exactly when the specification accepts; then the
    invariant holds and the list is the simultaneous substitution (one-phase and two-phase plans) -/
theorem relabel_refines (s : VState) (h : s.Inv) (m : List (Label × Label)) (hk : (m.map Prod.fst).Nodup) :
    (LSpec.relabelOk m s.abs = true →
      ∃ s', s.relabel m = some s' ∧ s'.Inv ∧ s'.abs = LSpec.subst (LSpec.dictOf m) s.abs) ∧
    (LSpec.relabelOk m s.abs = false → s.relabel m = none) :=
  VState.relabel_spec s h m hk

/-- a swap plus a chain: needs the two-phase plan with intermediate labels -/
example : wS.Inv ∧
    ([(Label.int 2, Label.int 0), (.int 0, .int 2), (.str "a", .int 7)].map Prod.fst).Nodup ∧
    LSpec.relabelOk [(Label.int 2, Label.int 0), (.int 0, .int 2), (.str "a", .int 7)] wS.abs = true :=
  ⟨wS_inv, by decide +kernel⟩

/-- `remove(v)` is `List.erase` -/
theorem remove_refines (s : VState) (h : s.Inv) (v : Label) :
    (v ∈ s.abs → ∃ s', s.remove v = some s' ∧ s'.Inv ∧ s'.abs = s.abs.erase v) ∧
    (v ∉ s.abs → s.remove v = none) :=
  VState.remove_spec s h v

example : wS.Inv ∧ Label.str "a" ∈ wS.abs := ⟨wS_inv, by decide +kernel⟩

/-! ## every step, every history -/

/-- every operation with a well-formed argument preserves the invariant and refines the list
    specification, including the ok/raise flag -/
theorem step_refines (s : VState) (h : s.Inv) (op : Op) (hop : op.WF) :
    (s.step op).1.Inv ∧ ((s.step op).1.abs, (s.step op).2) = LSpec.step s.abs op :=
  VState.step_refines s h op hop

example : wS.Inv ∧ (Op.relabel [(.int 2, .int 0), (.int 0, .int 2)]).WF ∧ (Op.remove (.str "a")).WF :=
  ⟨wS_inv, by decide +kernel⟩

/-- for an arbitrary literal (repeated keys allowed) the model run on the Python dict of the literal
    refines the specification -/
theorem step_relabel_dictOf_refines (s : VState) (h : s.Inv) (m : List (Label × Label)) :
    (s.step (.relabel (LSpec.dictOf m))).1.Inv ∧
      ((s.step (.relabel (LSpec.dictOf m))).1.abs, (s.step (.relabel (LSpec.dictOf m))).2) =
        LSpec.step s.abs (.relabel m) :=
  VState.step_relabel_dictOf_refines s h m

/-- histories from the empty object -/
theorem history_refines (ops : List Op) (hwf : ∀ op ∈ ops, op.WF) :
    let r := ops.foldl (fun st op => ((st.1.step op).1, (LSpec.step st.2 op).1)) (VState.empty, [])
    r.1.Inv ∧ r.1.abs = r.2 :=
  VState.history_refines ops hwf

/-- histories from the empty object, with the ok/raise flags of every call recorded -/
theorem history_refines_flags (ops : List Op) (hwf : ∀ op ∈ ops, op.WF) :
    let r := ops.foldl VState.bothStep (VState.empty, [], [])
    r.1.Inv ∧ r.1.abs = r.2.1 ∧ ∀ p ∈ r.2.2, p.1 = p.2 :=
  VState.history_refines_flags ops hwf

example : ∀ op ∈ [Op.append none false, .append (some (.str "a")) false, .append (some (.int 0)) true,
    .relabel [(.int 0, .str "a"), (.str "a", .int 0)], .remove (.str "a"), .pop, .relabelInts, .clear],
    op.WF := by decide +kernel

/-- `Op.WF` cannot be dropped: on a literal with a repeated key the model (which walks the literal)
    and the specification (which first builds the dict, last value wins) disagree -/
theorem relabel_dupkey_counterexample :
    let s := VState.empty.append (.str "a")
    let m : List (Label × Label) := [(.str "a", .str "b"), (.str "a", .str "c")]
    s.abs = [.str "a"] ∧ (s.step (.relabel m)).1.abs = [.str "b"] ∧ (s.step (.relabel m)).2 = true ∧
      LSpec.step s.abs (.relabel m) = ([.str "c"], true) := by
  decide +kernel

end C13

section Axioms
#print axioms C13.abs_nodup
#print axioms C13.index_correct
#print axioms C13.at_correct
#print axioms C13.autoLabel_correct
#print axioms C13.relabel_refines
#print axioms C13.remove_refines
#print axioms C13.step_refines
#print axioms C13.step_relabel_dictOf_refines
#print axioms C13.history_refines
#print axioms C13.history_refines_flags
#print axioms C13.relabel_dupkey_counterexample
#print axioms C13.wS_inv
end Axioms
