import DimodProofs.Vars

/-! # C13 — Variables is an order-preserving bijection between labels and indices

Model: `DimodModel/Vars.lean` (`VState`, mirror of `dimod/cyvariables.pyx`).
Specification: `LSpec` (a duplicate-free list of labels) in the same file.
`abs : VState → List Label` is what iteration yields. -/

namespace C13

/-- membership/`count` of the sparse representation is list membership -/
theorem count_iff_mem (s : VState) (h : s.Inv) (v : Label) : s.count v = true ↔ v ∈ s.abs :=
  VState.count_iff s h v

/-- appending a fresh label appends to the list -/
theorem append_refines (s : VState) (h : s.Inv) (v : Label) (hv : v ∉ s.abs) :
    (s.append v).abs = s.abs ++ [v] :=
  VState.abs_append s h v hv

/-- `index()` is the position in the list: a label sits at exactly one position -/
theorem index_is_position (s : VState) (h : s.Inv) (i : Nat) (hi : i < s.stop) (v : Label) :
    s.labelAt i = v ↔ (v ∈ s.abs ∧ s.idxOf v = i) :=
  VState.labelAt_eq_iff s h i hi v

/-- one relabel step on the sparse maps is `List.map` on the list -/
theorem relabelOne_refines (s : VState) (h : s.Inv) (old new : Label) (hold : old ∈ s.abs) (hne : new ≠ old) :
    (s.relabelOne old new).abs = s.abs.map (fun l => if l = old then new else l) :=
  VState.abs_relabelOne s h old new hold hne

end C13
