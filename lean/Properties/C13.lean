import DimodProofs.Vars
import DimodProofs.VarsInv
import DimodProofs.VarsRelabel
import DimodProofs.VarsSteps
import DimodProofs.VarsMore
import DimodProofs.VarsWhole
import DimodProofs.VarsKeys
import DimodProofs.VarsKeysRelabel
import DimodProofs.VarsObj
import DimodProofs.VarsObjMixin
import DimodModel.VarsAlphabet
import DimodProofs.LabelF

/-! # C13 — Variables is an order-preserving bijection between labels and indices

Model: `DimodModel/Vars.lean` (`VState`, mirror of `dimod/cyvariables.pyx`).
Specification: `LSpec` (a duplicate-free list of labels) in the same file.
`abs : VState → List Label` is what iteration yields.

Main results: `step_refines` (every operation preserves the representation invariant and does to
the iteration order exactly what the list specification says, including whether the call raises)
and `history_refines` (hence every history from the empty object).  The only side condition is
`Op.WF`: the key/value literal of a `relabel` has pairwise distinct keys (it is a Python dict);
`relabel_dupkey_counterexample` shows that it cannot be dropped for the model as written.

Round 6 (sections at the end): whole-mapping relabel theorems (`relabel_whole_mapping`, `relabel_merge_rejected`,
`relabel_raises_iff_merge`, `relabel_raises_iff`), `relabelAsIntegers_restore`, the extended alphabet
(`_extend`, copy, pickle, slicing: `step2_refines`, `history2_refines`), readers (`readers_are_list`,
`eq_is_list_eq`, `slice_refines`), rules regenerated from the source (`autoLabel_rule_from_source`,
`errClass_matches_list`), and numeric aliases: Python objects as keys (`key_equality_is_canon`,
`primitives_factor_through_canon`, `object_relabel_remove_factor`, `object_history_all_mutators`). -/

namespace C13

open VState (Op)

/-- a non-trivial witness state: iteration yields `[2, "a", 0, 3]` -/
def wS : VState :=
  { i2l := [(0, .int 2), (1, .str "a"), (2, .int 0)],
    l2i := [(.int 2, 0), (.str "a", 1), (.int 0, 2)], stop := 4 }

theorem wS_inv : wS.Inv := VState.inv_of_invCheck _ (by decide +kernel)
theorem wS_abs : wS.abs = [.int 2, .str "a", .int 0, .int 3] := by decide +kernel

/-- membership/`count` of the sparse representation is list membership -/
theorem count_iff_mem (s : VState) (h : s.Inv) (v : Label) : s.count v = true ↔ v ∈ s.abs :=
  VState.count_iff s h v

example : wS.Inv ∧ wS.count (.int 3) = true ∧ wS.count (.int 1) = false := ⟨wS_inv, by decide +kernel⟩

/-- appending a fresh label appends to the list -/
theorem append_refines (s : VState) (h : s.Inv) (v : Label) (hv : v ∉ s.abs) :
    (s.append v).abs = s.abs ++ [v] :=
  VState.abs_append s h v hv

example : wS.Inv ∧ Label.int 1 ∉ wS.abs := ⟨wS_inv, by decide +kernel⟩

/-- `index()` is the position in the list: a label sits at exactly one position -/
theorem index_is_position (s : VState) (h : s.Inv) (i : Nat) (hi : i < s.stop) (v : Label) :
    s.labelAt i = v ↔ (v ∈ s.abs ∧ s.idxOf v = i) :=
  VState.labelAt_eq_iff s h i hi v

example : wS.Inv ∧ 2 < wS.stop ∧ wS.labelAt 2 = .int 0 := ⟨wS_inv, by decide +kernel⟩

/-- one relabel step on the sparse maps is `List.map` on the list -/
theorem relabelOne_refines (s : VState) (h : s.Inv) (old new : Label) (hold : old ∈ s.abs) (hne : new ≠ old) :
    (s.relabelOne old new).abs = s.abs.map (fun l => if l = old then new else l) :=
  VState.abs_relabelOne s h old new hold hne

example : wS.Inv ∧ Label.str "a" ∈ wS.abs ∧ Label.int 1 ≠ Label.str "a" := ⟨wS_inv, by decide +kernel⟩

/-! ## the bijection -/

/-- iteration never yields a label twice -/
theorem abs_nodup (s : VState) (h : s.Inv) : s.abs.Nodup := VState.abs_nodup s h

/-- the number of labels is `_stop` -/
theorem abs_length (s : VState) : s.abs.length = s.stop := VState.abs_length s

/-- `index(v) = i` exactly when the list has `v` at position `i` -/
theorem index_correct (s : VState) (h : s.Inv) (v : Label) (i : Nat) :
    s.index? v = some i ↔ s.abs[i]? = some v := VState.index?_eq_some_iff s h v i

/-- `index(v)` raises exactly when `v` is not in the list -/
theorem index_raises_iff (s : VState) (h : s.Inv) (v : Label) : s.index? v = none ↔ v ∉ s.abs :=
  VState.index?_eq_none_iff s h v

example : wS.Inv ∧ wS.index? (.int 0) = some 2 ∧ wS.index? (.int 1) = none := ⟨wS_inv, by decide +kernel⟩

/-- `at(idx)` is Python list indexing, negative indices counting from the end, `none` = IndexError -/
theorem at_correct (s : VState) (idx : Int) :
    s.at? idx =
      if 0 ≤ idx then s.abs[idx.toNat]?
      else if -idx ≤ s.abs.length then s.abs[(s.abs.length + idx).toNat]? else none :=
  VState.at?_eq s idx

example : wS.at? (-1) = some (.int 3) ∧ wS.at? (-4) = some (.int 2) ∧ wS.at? (-5) = none ∧ wS.at? 4 = none := by
  decide +kernel

/-! ## the invariant is established and preserved -/

theorem empty_inv : VState.empty.Inv := VState.inv_empty

/-- appending a fresh label keeps the invariant -/
theorem append_inv (s : VState) (h : s.Inv) (v : Label) (hv : v ∉ s.abs) : (s.append v).Inv :=
  VState.append_inv s h v hv

/-- the generated label is the documented one and is not yet present -/
theorem autoLabel_correct (s : VState) (h : s.Inv) :
    s.autoLabel = LSpec.autoLabel s.abs ∧ s.autoLabel ∉ s.abs :=
  ⟨VState.autoLabel_eq s h, VState.autoLabel_fresh s h⟩

/-- the documented auto label is never already in the list (pigeonhole) -/
theorem spec_autoLabel_fresh (l : List Label) : LSpec.autoLabel l ∉ l := VState.spec_autoLabel_fresh l

/-- position 4 would be labelled `4`, but after appending `5` the index label `5` is taken: least free is `1` -/
example : (wS.append (.int 5)).Inv ∧ (wS.append (.int 5)).autoLabel = .int 1 :=
  ⟨VState.append_inv wS wS_inv _ (by decide +kernel), by decide +kernel⟩

/-- `pop` removes the last list element -/
theorem pop_refines (s : VState) (h : s.Inv) (h0 : s.stop ≠ 0) :
    s.pop = some (s.popState, s.labelAt (s.stop - 1)) ∧ s.popState.Inv ∧
      s.popState.abs = s.abs.dropLast ∧ s.abs = s.popState.abs ++ [s.labelAt (s.stop - 1)] :=
  ⟨by rw [VState.pop_eq, if_neg h0], VState.popState_inv s h h0, VState.popState_abs_dropLast s h0,
    VState.popState_abs s h0⟩

example : wS.Inv ∧ wS.stop ≠ 0 := ⟨wS_inv, by decide +kernel⟩

/-- `relabelOne` keeps the invariant when the old label is present and the new one is not -/
theorem relabelOne_inv (s : VState) (h : s.Inv) (old new : Label) (hold : old ∈ s.abs) (hnew : new ∉ s.abs) :
    (s.relabelOne old new).Inv := VState.relabelOne_inv s h old new hold hnew

/-- … and also when it relabels a present label to itself (then nothing changes) -/
theorem relabelOne_self (s : VState) (h : s.Inv) (old : Label) (hold : old ∈ s.abs) :
    (s.relabelOne old old).Inv ∧ (s.relabelOne old old).abs = s.abs :=
  ⟨VState.relabelOne_self_inv s h old hold, VState.relabelOne_self_abs s h old hold⟩

example : wS.Inv ∧ Label.int 0 ∈ wS.abs ∧ Label.int 1 ∉ wS.abs := ⟨wS_inv, by decide +kernel⟩

/-! ## relabel and remove -/

/-- `relabel` of a dict (distinct keys): accepted exactly when the specification accepts; then the
    invariant holds and the list is the simultaneous substitution (one-phase and two-phase plans) -/
theorem relabel_refines (s : VState) (h : s.Inv) (m : List (Label × Label)) (hk : (m.map Prod.fst).Nodup) :
    (LSpec.relabelOk m s.abs = true →
      ∃ s', s.relabel m = some s' ∧ s'.Inv ∧ s'.abs = LSpec.subst (LSpec.dictOf m) s.abs) ∧
    (LSpec.relabelOk m s.abs = false → s.relabel m = none) :=
  VState.relabel_spec s h m hk

/-- a swap plus a chain: needs the two-phase plan with intermediate labels -/
example : wS.Inv ∧
    ([(Label.int 2, Label.int 0), (.int 0, .int 2), (.str "a", .int 7)].map Prod.fst).Nodup ∧
    LSpec.relabelOk [(Label.int 2, Label.int 0), (.int 0, .int 2), (.str "a", .int 7)] wS.abs = true :=
  ⟨wS_inv, by decide +kernel⟩

/-- `remove(v)` is `List.erase` -/
theorem remove_refines (s : VState) (h : s.Inv) (v : Label) :
    (v ∈ s.abs → ∃ s', s.remove v = some s' ∧ s'.Inv ∧ s'.abs = s.abs.erase v) ∧
    (v ∉ s.abs → s.remove v = none) :=
  VState.remove_spec s h v

example : wS.Inv ∧ Label.str "a" ∈ wS.abs := ⟨wS_inv, by decide +kernel⟩

/-! ## every step, every history -/

/-- every operation with a well-formed argument preserves the invariant and refines the list
    specification, including the ok/raise flag -/
theorem step_refines (s : VState) (h : s.Inv) (op : Op) (hop : op.WF) :
    (s.step op).1.Inv ∧ ((s.step op).1.abs, (s.step op).2) = LSpec.step s.abs op :=
  VState.step_refines s h op hop

example : wS.Inv ∧ (Op.relabel [(.int 2, .int 0), (.int 0, .int 2)]).WF ∧ (Op.remove (.str "a")).WF :=
  ⟨wS_inv, by decide +kernel⟩

/-- for an arbitrary literal (repeated keys allowed) the model run on the Python dict of the literal
    refines the specification -/
theorem step_relabel_dictOf_refines (s : VState) (h : s.Inv) (m : List (Label × Label)) :
    (s.step (.relabel (LSpec.dictOf m))).1.Inv ∧
      ((s.step (.relabel (LSpec.dictOf m))).1.abs, (s.step (.relabel (LSpec.dictOf m))).2) =
        LSpec.step s.abs (.relabel m) :=
  VState.step_relabel_dictOf_refines s h m

/-- histories from the empty object -/
theorem history_refines (ops : List Op) (hwf : ∀ op ∈ ops, op.WF) :
    let r := ops.foldl (fun st op => ((st.1.step op).1, (LSpec.step st.2 op).1)) (VState.empty, [])
    r.1.Inv ∧ r.1.abs = r.2 :=
  VState.history_refines ops hwf

/-- histories from the empty object, with the ok/raise flags of every call recorded -/
theorem history_refines_flags (ops : List Op) (hwf : ∀ op ∈ ops, op.WF) :
    let r := ops.foldl VState.bothStep (VState.empty, [], [])
    r.1.Inv ∧ r.1.abs = r.2.1 ∧ ∀ p ∈ r.2.2, p.1 = p.2 :=
  VState.history_refines_flags ops hwf

example : ∀ op ∈ [Op.append none false, .append (some (.str "a")) false, .append (some (.int 0)) true,
    .relabel [(.int 0, .str "a"), (.str "a", .int 0)], .remove (.str "a"), .pop, .relabelInts, .clear],
    op.WF := by decide +kernel

/-- `Op.WF` cannot be dropped: on a literal with a repeated key the model (which walks the literal)
    and the specification (which first builds the dict, last value wins) disagree -/
theorem relabel_dupkey_counterexample :
    let s := VState.empty.append (.str "a")
    let m : List (Label × Label) := [(.str "a", .str "b"), (.str "a", .str "c")]
    s.abs = [.str "a"] ∧ (s.step (.relabel m)).1.abs = [.str "b"] ∧ (s.step (.relabel m)).2 = true ∧
      LSpec.step s.abs (.relabel m) = ([.str "c"], true) := by
  decide +kernel

/-! ## round 6: whole mappings, restore, the extended history, every reader, source-extracted rules

`DimodModel/VarsMore.lean` adds `_extend`, `copy`, the pickle round trip, `__iter__`, `__len__`,
`__contains__`, `__getitem__(slice)`, `__eq__`, the constructor and the auto-label rule written over
`Generated/VarsRules.lean` (regenerated from `cyvariables.pyx` / `utilities.py` on every run). -/

open VState (Op2)

/-- **whole mapping.**  For ANY mapping with distinct keys (partial, swapping, cyclic, chains through labels
    that are not variables, absent keys), `_relabel` as coded (conflict check of `iter_safe_relabels`, one- or
    two-phase plan with intermediate labels) does exactly one of two things: it returns, the state is sound and
    iteration yields `[mapping.get(l, l) for l in labels]`; or it raises, the object is untouched, and the
    mapping is a rejected one (two keys share a target, or a target is an existing label that is not a key). -/
theorem relabel_whole_mapping (s : VState) (h : s.Inv) (m : List (Label × Label)) (hk : (m.map Prod.fst).Nodup) :
    (∃ s', s.relabel m = some s' ∧ s.step (.relabel m) = (s', true) ∧ s'.Inv ∧
        s'.abs = s.abs.map (fun l => (LSpec.lookup m l).getD l) ∧ ¬ VState.Rejected m s.abs) ∨
    (s.relabel m = none ∧ s.step (.relabel m) = (s, false) ∧ VState.Rejected m s.abs) :=
  VState.relabel_total s h m hk

/-- a relabel that would merge two labels is rejected without changing anything -/
theorem relabel_merge_rejected (s : VState) (h : s.Inv) (m : List (Label × Label)) (hk : (m.map Prod.fst).Nodup)
    (hmerge : ¬ (s.abs.map (fun l => (LSpec.lookup m l).getD l)).Nodup) :
    s.relabel m = none ∧ s.step (.relabel m) = (s, false) :=
  VState.relabel_rejects_merge s h m hk hmerge

/-- `_relabel` raises exactly for the rejected mappings -/
theorem relabel_raises_iff (s : VState) (h : s.Inv) (m : List (Label × Label)) (hk : (m.map Prod.fst).Nodup) :
    s.relabel m = none ↔ VState.Rejected m s.abs :=
  VState.relabel_none_iff s h m hk

/-- **exactly**: when every key of the mapping is a variable (the documented use), `_relabel` raises — changing
    nothing — if and only if the mapping would merge two labels -/
theorem relabel_raises_iff_merge (s : VState) (h : s.Inv) (m : List (Label × Label)) (hk : (m.map Prod.fst).Nodup)
    (hsub : ∀ k ∈ m.map Prod.fst, k ∈ s.abs) :
    (s.relabel m = none ∧ s.step (.relabel m) = (s, false)) ↔
      ¬ (s.abs.map (fun l => (LSpec.lookup m l).getD l)).Nodup := by
  constructor
  · intro hn; exact (VState.relabel_none_iff_merge s h m hk hsub).1 hn.1
  · intro hm; exact VState.relabel_rejects_merge s h m hk hm

/-- a swap is accepted, mapping both onto one label is a merge -/
example : wS.Inv ∧ (∀ k ∈ [(Label.int 2, Label.int 0), (.int 0, .int 2)].map Prod.fst, k ∈ wS.abs) ∧
    (wS.abs.map (fun l => (LSpec.lookup [(Label.int 2, Label.int 0), (.int 0, .int 2)] l).getD l)).Nodup ∧
    ¬ (wS.abs.map (fun l => (LSpec.lookup [(Label.int 2, Label.int 7), (.int 0, .int 7)] l).getD l)).Nodup :=
  ⟨wS_inv, by decide +kernel⟩

/-- the rejection test of the code is coarser than "would merge": `{"zz": "a"}` on `[2, "a", 0, 3]` is rejected
    although the key is absent and nothing would be merged (the reference list of the harness rejects it too) -/
example : wS.Inv ∧ ([(Label.str "zz", Label.str "a")].map Prod.fst).Nodup ∧
    wS.relabel [(.str "zz", .str "a")] = none ∧
    (wS.abs.map (fun l => (LSpec.lookup [(Label.str "zz", Label.str "a")] l).getD l)).Nodup :=
  ⟨wS_inv, by decide +kernel⟩

/-- a 3-cycle through an absent label plus an absent key: accepted -/
example : wS.Inv ∧ ¬ VState.Rejected [(Label.int 2, Label.str "a"), (.str "a", .int 0), (.int 0, .int 2), (.int 9, .int 11)] wS.abs := by
  refine ⟨wS_inv, ?_⟩
  rw [← VState.relabelOk_false_iff _ (by decide +kernel)]
  decide +kernel

/-- `_relabel_as_integers` leaves `range(n)` and returns the mapping that restores the labels -/
theorem relabelAsIntegers_restore (s : VState) (h : s.Inv) :
    s.relabelAsIntegers.1.Inv ∧
    s.relabelAsIntegers.1.abs = (List.range s.abs.length).map (fun i => Label.int (i : Nat)) ∧
    ∃ s2, s.relabelAsIntegers.1.relabel (VState.restoreMap s.relabelAsIntegers.2) = some s2 ∧ s2.Inv ∧ s2.abs = s.abs :=
  VState.relabelAsIntegers_restore s h

/-- the auto-label rule *as extracted from the source* (`Generated.VarsRules`) yields the documented label,
    which is not yet present -/
theorem autoLabel_rule_from_source (s : VState) (h : s.Inv) :
    s.autoLabelG = LSpec.autoLabel s.abs ∧ s.autoLabelG ∉ s.abs := by
  rw [VState.autoLabelG_eq_autoLabel]
  exact ⟨VState.autoLabel_eq s h, VState.autoLabel_fresh s h⟩

/-- the exception class of every rejected call is the one a Python list raises for the same call
    (classes read from the source) -/
theorem errClass_matches_list (op : Op2) : VState.errClass op = LSpec.errClass op := by
  cases op with
  | base op => cases op <;> rfl
  | _ => rfl

theorem reader_errClass : VState.errAt = .index ∧ VState.errIndex = .value := ⟨rfl, rfl⟩

/-- `_extend`: the fold of appends, a raising call keeps the appended prefix -/
theorem extend_refines (s : VState) (h : s.Inv) (vs : List (Option Label)) (p : Bool) :
    (s.extend vs p).1.Inv ∧ ((s.extend vs p).1.abs, (s.extend vs p).2) = LSpec.extend s.abs vs p :=
  VState.extend_refines vs p s h

/-- `copy()` and the pickle round trip give a sound object with the same labels in the same order -/
theorem copy_pickle_refine (s : VState) (h : s.Inv) :
    (s.copy.Inv ∧ s.copy.abs = s.abs) ∧ (s.pickleRoundTrip.Inv ∧ s.pickleRoundTrip.abs = s.abs) ∧
      VState.setState s.reduce = s :=
  ⟨VState.copy_spec s h, VState.pickle_spec s h, rfl⟩

/-- `Variables(iterable)` / `Variables(range(n))` -/
theorem constructor_refines (vs : List Label) (n : Nat) :
    ((VState.ofList vs).Inv ∧ (VState.ofList vs).abs = (LSpec.extend [] (vs.map some) true).1 ∧
      ∀ x, x ∈ (VState.ofList vs).abs ↔ x ∈ vs) ∧
    ((VState.ofRange n).Inv ∧ (VState.ofRange n).abs = (List.range n).map fun i => Label.int (i : Nat)) :=
  ⟨⟨(VState.ofList_spec vs).1, (VState.ofList_spec vs).2, VState.ofList_mem vs⟩, VState.ofRange_spec n⟩

/-- `__iter__` (both branches), `__len__`, `__contains__` are those of the list -/
theorem readers_are_list (s : VState) (h : s.Inv) :
    s.iter = s.abs ∧ s.len = s.abs.length ∧ ∀ v, (s.contains v = true ↔ v ∈ s.abs) :=
  ⟨VState.iter_eq_abs s h, VState.len_eq s, VState.contains_iff s h⟩

/-- `==`: with a sequence it is list equality (ordered), with a set it is equality of the element sets, else False -/
theorem eq_is_list_eq (s : VState) (h : s.Inv) (o : List Label) :
    (s.eqOther (.seq o) = true ↔ s.abs = o) ∧ (s.eqOther (.set o) = true ↔ ∀ x, x ∈ s.abs ↔ x ∈ o) ∧
      s.eqOther .other = false :=
  ⟨VState.eqOther_seq s h o, VState.eqOther_set s h o, rfl⟩

/-- `v[slice]` is Python list slicing (`slice.indices`, then the selected positions in order); the result is a
    sound object; the only rejected slices are those with a zero step -/
theorem slice_refines (s : VState) (h : s.Inv) (sl : SSM.PySlice) :
    (s.getSlice sl).map VState.abs = LSpec.slice s.abs sl ∧ (∀ s', s.getSlice sl = some s' → s'.Inv) ∧
      (s.getSlice sl = none ↔ sl.step = some 0) := by
  refine ⟨(VState.getSlice_refines s h sl).1, (VState.getSlice_refines s h sl).2, ?_⟩
  have h1 := (VState.getSlice_refines s h sl).1
  constructor
  · intro hn
    rw [hn] at h1
    simp only [Option.map_none, LSpec.slice, SSM.sliceIndices, SSM.sliceBounds] at h1
    cases hs : sl.step with
    | none => simp [hs] at h1
    | some c =>
      by_cases hc : c = 0
      · rw [hc]
      · simp [hs, hc] at h1
  · intro hs
    cases hg : s.getSlice sl with
    | none => rfl
    | some s' =>
      rw [hg] at h1
      simp [LSpec.slice, SSM.sliceIndices, SSM.sliceBounds, hs] at h1

example : wS.Inv ∧ (wS.getSlice ⟨some (-1), none, some (-2)⟩).map VState.abs = some [.int 3, .str "a"] ∧
    wS.getSlice ⟨none, none, some 0⟩ = none := ⟨wS_inv, by decide +kernel⟩

/-- every operation of the extended alphabet (mutators, `_extend`, copy, pickle, slicing) preserves the invariant
    and refines the list specification, ok/raise flag included -/
theorem step2_refines (s : VState) (h : s.Inv) (op : Op2) (hop : op.WF) :
    (s.step2 op).1.Inv ∧ ((s.step2 op).1.abs, (s.step2 op).2) = LSpec.step2 s.abs op :=
  VState.step2_refines s h op hop

/-- **history theorem**: any finite sequence of append / auto-append / extend / pop / remove / relabel /
    relabel-as-integers / clear / copy / pickle round trip / slice, from the empty object: the invariant holds at
    the end, iteration yields the specification list, and every call returned or raised as the list says -/
theorem history2_refines (ops : List Op2) (hwf : ∀ op ∈ ops, op.WF) :
    let r := ops.foldl VState.bothStep2 (VState.empty, [], [])
    r.1.Inv ∧ r.1.abs = r.2.1 ∧ ∀ p ∈ r.2.2, p.1 = p.2 := by
  have := VState.history2_refines_from VState.empty VState.inv_empty ops hwf
  rw [VState.abs_empty] at this
  exact this

example : ∀ op ∈ [Op2.base (.append none false), .extend [some (.str "a"), none, some (.int 0)] true, .copy,
    .base (.relabel [(.int 0, .str "a"), (.str "a", .int 0)]), .pickle, .slice ⟨none, none, some (-1)⟩,
    .base (.remove (.str "a")), .base .relabelInts], op.WF := by decide +kernel

/-! ## numeric aliases: Python key equality is a canonicalisation, and the code factors through it

`DimodModel/VarsKeys.lean`: `PyKey` (int, bool, integral float, NumPy integer / floating scalars, str, nested
tuples), `pyEq` = Python `==` on them, `canon : PyKey → Label`, and `KState` = the sparse dictionaries holding the
*objects*, with `count`, `index`, `_append`, `_pop` and the `_relabel` loop body written as coded
(`PyLong_Check`, `isinstance(v, Number)`, `int(v) == v`, `PyDict_Contains`, `dict.pop`).  The harness checks
`pyEq` and `canon` against CPython / NumPy dict lookups exhaustively over the alias table on every run. -/

/-- Python `==` between label objects is equality of canonical labels (hence an equivalence relation) -/
theorem key_equality_is_canon (a b : PyKey) : PyKey.pyEq a b = true ↔ PyKey.canon a = PyKey.canon b :=
  PyKey.pyEq_iff a b

/-- `1`, `True`, `1.0`, `np.int64(1)`, `np.float32(1.0)` are one label; so are tuples built from them -/
example : PyKey.canon (.bool true) = .int 1 ∧ PyKey.canon (.float 1) = .int 1 ∧ PyKey.canon (.npInt 1) = .int 1 ∧
    PyKey.canon (.npFloat 1) = .int 1 ∧ PyKey.pyEq (.tup [.bool true, .str "a"]) (.tup [.npFloat 1, .str "a"]) = true ∧
    PyKey.pyEq (.str "1") (.int 1) = false ∧ PyKey.pyEq (.tup [.int 1]) (.int 1) = false := by decide +kernel

/-- every primitive of `cyvariables.pyx` written over Python objects factors through `canon`: the object-level
    state abstracts (`toV`) to the label-level state, and `count`, `index`, `_append`, `_pop`, the `_relabel` loop
    body commute with the abstraction -/
theorem primitives_factor_through_canon (k : KState) (h : k.toV.Inv) :
    (∀ v, k.count v = k.toV.count (PyKey.canon v)) ∧
    (∀ v, k.idxOf v = k.toV.idxOf (PyKey.canon v)) ∧
    (∀ v, (k.append v).toV = k.toV.append (PyKey.canon v)) ∧
    (k.stop ≠ 0 → k.toV.pop = some (k.pop.1.toV, PyKey.canon k.pop.2)) ∧
    (∀ old new, (k.relabelOne old new).toV = k.toV.relabelOne (PyKey.canon old) (PyKey.canon new)) :=
  ⟨KState.count_factors k h, KState.idxOf_factors k, KState.append_factors k, KState.pop_factors k,
    KState.relabelOne_factors k⟩

/-- histories of append / auto-append / pop / clear / relabel-as-integers over *objects* (numeric aliases included):
    the object-level state abstracts, step by step and flag by flag, to the label-level run of the canonicalised
    operations, the invariant holds throughout, `index`, the auto label and iteration factor through `canon` -/
theorem object_history_factors (k : KState) (h : k.toV.Inv) (ops : List KState.KOp) :
    ((ops.foldl (fun k op => (k.step op).1) k).toV =
        (ops.map KState.KOp.toOp).foldl (fun s op => (s.step op).1) k.toV ∧
      (ops.foldl (fun k op => (k.step op).1) k).toV.Inv) ∧
    (∀ op, ((k.step op).1.toV, (k.step op).2) = k.toV.step op.toOp) ∧
    (∀ v, k.index? v = k.toV.index? (PyKey.canon v)) ∧
    PyKey.canon k.autoLabel = k.toV.autoLabel ∧
    (List.range k.stop).map (fun i => PyKey.canon (k.labelAt i)) = k.toV.abs :=
  ⟨KState.history_factors ops k h, KState.step_factors k h, KState.index?_factors k h, KState.autoLabel_factors k h,
    KState.abs_factors k⟩

/-- `_relabel(mapping)` and `_remove(v)` over objects (`iter_safe_relabels` / `resolve_label_conflict` with `==`
    dictionary lookups, mapping keys and values numeric aliases or not) factor through `canon`: same accept / reject,
    and the resulting object-level state abstracts to the label-level result of the canonicalised mapping -/
theorem object_relabel_remove_factor (k : KState) (h : k.toV.Inv) :
    (∀ m : KState.KDict, ((m.map KState.cc).map Prod.fst).Nodup →
      (k.relabel m).map KState.toV = k.toV.relabel (m.map KState.cc)) ∧
    (∀ v, (k.remove v).map KState.toV = k.toV.remove (PyKey.canon v)) :=
  ⟨fun m hk => KState.relabel_factors k h m hk, KState.remove_factors k h⟩

/-- **every mutator over objects**: histories of append / auto-append / pop / clear / relabel-as-integers / relabel /
    remove on Python objects abstract step by step (flags included) to the label-level history of the canonicalised
    operations — to which `history_refines` applies -/
theorem object_history_all_mutators (k : KState) (h : k.toV.Inv) (ops : List KState.KOp2)
    (hwf : ∀ op ∈ ops, op.toOp.WF) :
    ((ops.foldl (fun k op => (k.step2 op).1) k).toV =
        (ops.map KState.KOp2.toOp).foldl (fun s op => (s.step op).1) k.toV ∧
      (ops.foldl (fun k op => (k.step2 op).1) k).toV.Inv) ∧
    (∀ op : KState.KOp2, op.toOp.WF → ((k.step2 op).1.toV, (k.step2 op).2) = k.toV.step op.toOp) :=
  ⟨KState.history2_factors ops k h hwf, fun op hop => KState.step2_factors k h op hop⟩

/-- a swap through aliases: `{1.0: "a", "a": True}` on `["a", np.int64(1)]` -/
example : (KState.mk [(0, .str "a")] [(.str "a", 0)] 2).toV.Inv ∧
    ((KState.mk [(0, .str "a")] [(.str "a", 0)] 2).relabel [(.float 1, .str "a"), (.str "a", .bool true)]).map
      (fun k => k.toV.abs) = some [.int 1, .str "a"] :=
  ⟨VState.inv_of_invCheck _ (by decide +kernel), by decide +kernel⟩

/-- hence membership / `count` of any alias is list membership of its canonical label -/
theorem alias_count_iff_mem (k : KState) (h : k.toV.Inv) (v : PyKey) :
    k.count v = true ↔ PyKey.canon v ∈ k.toV.abs := by
  rw [KState.count_factors k h v]; exact VState.count_iff k.toV h _

example : (KState.mk [(0, .str "a"), (2, .npInt 0)] [(.str "a", 0), (.float 0, 2)] 3).toV.Inv ∧
    (KState.mk [(0, .str "a"), (2, .npInt 0)] [(.str "a", 0), (.float 0, 2)] 3).count (.bool false) = true ∧
    (KState.mk [(0, .str "a"), (2, .npInt 0)] [(.str "a", 0), (.float 0, 2)] 3).count (.npFloat 1) = true ∧
    (KState.mk [(0, .str "a"), (2, .npInt 0)] [(.str "a", 0), (.float 0, 2)] 3).count (.int 2) = false :=
  ⟨VState.inv_of_invCheck _ (by decide +kernel), by decide +kernel⟩

end C13

section Axioms
#print axioms C13.abs_nodup
#print axioms C13.index_correct
#print axioms C13.at_correct
#print axioms C13.autoLabel_correct
#print axioms C13.relabel_refines
#print axioms C13.remove_refines
#print axioms C13.step_refines
#print axioms C13.step_relabel_dictOf_refines
#print axioms C13.history_refines
#print axioms C13.history_refines_flags
#print axioms C13.relabel_dupkey_counterexample
#print axioms C13.wS_inv
#print axioms C13.relabel_whole_mapping
#print axioms C13.relabel_merge_rejected
#print axioms C13.relabelAsIntegers_restore
#print axioms C13.autoLabel_rule_from_source
#print axioms C13.slice_refines
#print axioms C13.step2_refines
#print axioms C13.history2_refines
#print axioms C13.key_equality_is_canon
#print axioms C13.primitives_factor_through_canon
#print axioms C13.object_history_factors
#print axioms C13.object_history_all_mutators
#print axioms C13.object_relabel_remove_factor
#print axioms C13.relabel_raises_iff_merge
end Axioms

/-! ## Round 7: the object level of the remaining surface, the inherited mixin methods, the range fast path

`DimodModel/VarsObj.lean`: `_extend`, `Variables(iterable)` / `Variables(range(n))`, `copy()`, pickle, `deepcopy`,
`at`, `__iter__`, `__reversed__`, `v[slice]`, `==` and the `abc.Set` mixins (`isdisjoint`, `<=`, `<`, `>=`, `>`,
`&`, `|`, `-`, `^`, `_from_iterable`) written over `KState` (the dicts hold Python objects; `1`, `True`, `1.0`,
`np.int64(1)` are one key, what is stored is the first object, unless it equals its own index: then nothing is
stored and the label is the `int` index). -/

namespace C13
open VState (Op2)

/-- a witness object-level state: `Variables(['a', np.int64(7), 2.0, (True, 'x'), 0.0])`, i.e. the dicts hold
    `np.int64(7)` at 1, nothing at 2 (`2.0 == 2`), the tuple at 3, `0.0` at 4 -/
def wK : KState :=
  { i2l := [(0, .str "a"), (1, .npInt 7), (3, .tup [.bool true, .str "x"]), (4, .float 0)],
    l2i := [(.str "a", 0), (.npInt 7, 1), (.tup [.bool true, .str "x"], 3), (.float 0, 4)], stop := 5 }

theorem wK_inv : wK.toV.Inv := VState.inv_of_invCheck _ (by decide +kernel)

/-- `_extend`, the constructor, `copy()`, pickle and `deepcopy` over objects: `_extend` abstracts to the label-level
    `_extend` of the canonical labels (flag and kept prefix included); the three copies abstract to the label-level
    copy / pickle round trip AND hold the very same object (type and value) at every index -/
theorem object_extend_copy_pickle_factor (k : KState) (h : k.toV.Inv) :
    (∀ vs p, ((k.extend vs p).1.toV, (k.extend vs p).2) = k.toV.extend (vs.map fun v => v.map PyKey.canon) p ∧
      (k.extend vs p).1.toV.Inv) ∧
    (∀ vs, (KState.ofList vs).toV = VState.ofList (vs.map PyKey.canon) ∧ (KState.ofList vs).toV.Inv) ∧
    (∀ n, (KState.ofRange n).toV = VState.ofRange n) ∧
    k.copy.toV = k.toV.copy ∧ k.pickleRoundTrip.toV = k.toV.pickleRoundTrip ∧ k.deepcopy.toV = k.toV.pickleRoundTrip ∧
    (∀ i, k.copy.labelAt i = k.labelAt i ∧ k.pickleRoundTrip.labelAt i = k.labelAt i ∧ k.deepcopy.labelAt i = k.labelAt i) :=
  ⟨fun vs p => KState.extend_factors vs p k h, KState.ofList_factors, KState.ofRange_factors,
    KState.copy_factors k, KState.pickle_factors k, KState.deepcopy_factors k, KState.copy_same_objects k⟩

example : wK.toV.Inv ∧ (wK.extend [some (.bool false), some (.npFloat 9), none, some (.float 7)] false).2 = false ∧
    (wK.extend [some (.bool false), some (.npFloat 9), none, some (.float 7)] false).1.toV.abs =
      [.str "a", .int 7, .int 2, .tup [.int 1, .str "x"], .int 0] ∧
    (wK.extend [some (.bool false), some (.npFloat 9), none, some (.float 7)] true).1.toV.abs =
      [.str "a", .int 7, .int 2, .tup [.int 1, .str "x"], .int 0, .int 9, .int 6] := ⟨wK_inv, by decide +kernel⟩

/-- readers over objects: `at` (both branches, negative indices, IndexError), `__iter__` (both branches) yields the
    stored objects in index order and their canonical labels are the list, `reversed(v)` is the reversed iteration,
    `in` / `count` of any alias is list membership of its canonical label -/
theorem object_readers_factor (k : KState) (h : k.toV.Inv) :
    (∀ idx, (k.at? idx).map PyKey.canon = k.toV.at? idx) ∧
    k.iterObjs = (List.range k.stop).map k.labelAt ∧
    k.iterObjs.map PyKey.canon = k.toV.abs ∧
    k.reversedObjs = k.iterObjs.reverse ∧
    (∀ v, k.count v = true ↔ PyKey.canon v ∈ k.toV.abs) :=
  ⟨KState.at?_factors k h, KState.iterObjs_eq k h, KState.iterObjs_canon k h, KState.reversedObjs_eq k h,
    KState.count_iff_mem k h⟩

/-- the stored objects with their types (`PyKey.code`: 0 int, 1 bool, 2 float, 3 NumPy int, 4 NumPy float, 5 str,
    6 tuple): `2.0` is NOT stored (it equals its index, the label is the int `2`), `np.int64(7)` and `0.0` are -/
example : wK.iterObjs.map PyKey.code = [PyKey.code (.str "a"), PyKey.code (.npInt 7), PyKey.code (.int 2),
      PyKey.code (.tup [.bool true, .str "x"]), PyKey.code (.float 0)] ∧
    wK.reversedObjs.map PyKey.code = [PyKey.code (.float 0), PyKey.code (.tup [.bool true, .str "x"]),
      PyKey.code (.int 2), PyKey.code (.npInt 7), PyKey.code (.str "a")] ∧
    (wK.at? (-4)).map PyKey.code = some (PyKey.code (.npInt 7)) ∧ (wK.at? 5).map PyKey.code = none := by decide +kernel

/-- `v[slice]` and `==` over objects abstract to the label-level slice / `==` of the canonicalised operand
    (for which `slice_refines` and `eq_is_list_eq` give the list semantics) -/
theorem object_slice_eq_factor (k : KState) (h : k.toV.Inv) :
    (∀ sl, (k.getSlice sl).map KState.toV = k.toV.getSlice sl ∧ ∀ k', k.getSlice sl = some k' → k'.toV.Inv) ∧
    (∀ o, k.eqOther o = k.toV.eqOther o.canon) :=
  ⟨KState.getSlice_factors k h, KState.eqOther_factors k h⟩

/-- `v[::-2]` = `[0.0, 2, 'a']`: the `0.0` lands on index 0 and is therefore not stored (label: int `0`), the `2`
    on index 1 is stored, `'a'` on index 2 -/
example : (wK.getSlice ⟨some (-1), none, some (-2)⟩).map (fun k => k.iterObjs.map PyKey.code) =
      some [PyKey.code (.int 0), PyKey.code (.int 2), PyKey.code (.str "a")] ∧
    wK.eqOther (.seq [.str "a", .float 7, .bool false, .tup [.int 1, .str "x"], .int 0]) = false ∧
    wK.eqOther (.seq [.str "a", .float 7, .npInt 2, .tup [.int 1, .str "x"], .bool false]) = true ∧
    wK.eqOther (.set [.npFloat 0, .str "a", .float 7, .npInt 2, .tup [.int 1, .str "x"]]) = true := by decide +kernel

/-- **one step of the whole object-level alphabet is the list step**: every mutator, `_extend`, copy, pickle,
    deepcopy and slicing on Python objects does to the iteration (canonicalised) exactly what the plain list does,
    ok/raise flag included, and keeps the invariant -/
theorem object_step_is_list_step (k : KState) (h : k.toV.Inv) (op : KState.KOp3) (hwf : op.WF) :
    (k.step3 op).1.toV.Inv ∧
    (((k.step3 op).1.iterObjs.map PyKey.canon), (k.step3 op).2) = LSpec.step2 (k.iterObjs.map PyKey.canon) op.toOp2 := by
  obtain ⟨hs, hI⟩ := KState.step3_factors k h op hwf
  refine ⟨hI, ?_⟩
  have hwf2 : op.toOp2.WF := by cases op <;> first | exact hwf | trivial
  have hr := (VState.step2_refines k.toV h op.toOp2 hwf2).2
  rw [KState.iterObjs_canon _ hI, KState.iterObjs_canon k h, ← hr]
  have h1 : (k.step3 op).1.toV = (k.toV.step2 op.toOp2).1 := congrArg Prod.fst hs
  have h2 : (k.step3 op).2 = (k.toV.step2 op.toOp2).2 := congrArg Prod.snd hs
  rw [h1, h2]

/-- **history theorem over objects**: any finite sequence over the whole alphabet from the empty object: the invariant
    holds, the object-level state abstracts to the label-level run, and iteration (canonicalised) is the list run -/
theorem object_history_whole_alphabet (ops : List KState.KOp3) (hwf : ∀ op ∈ ops, op.WF) :
    let kf := ops.foldl (fun k op => (k.step3 op).1) KState.empty
    kf.toV.Inv ∧
    kf.toV = (ops.map KState.KOp3.toOp2).foldl (fun s op => (s.step2 op).1) VState.empty ∧
    kf.iterObjs.map PyKey.canon = (ops.map KState.KOp3.toOp2).foldl (fun l op => (LSpec.step2 l op).1) [] := by
  have hf := KState.history3_factors ops KState.empty VState.inv_empty hwf
  refine ⟨hf.2, hf.1, ?_⟩
  rw [KState.iterObjs_canon _ hf.2, hf.1]
  have gen : ∀ (os : List Op2) (s : VState) (l : List Label), s.Inv → s.abs = l → (∀ op ∈ os, op.WF) →
      (os.foldl (fun s op => (s.step2 op).1) s).abs = os.foldl (fun l op => (LSpec.step2 l op).1) l := by
    intro os
    induction os with
    | nil => intro s l _ e _; exact e
    | cons o os ih =>
      intro s l hI e hw
      have hr := VState.step2_refines s hI o (hw o List.mem_cons_self)
      simp only [List.foldl_cons]
      apply ih _ _ hr.1 _ (fun op hop => hw op (List.mem_cons_of_mem _ hop))
      rw [← e]; exact congrArg Prod.fst hr.2
  apply gen _ _ _ VState.inv_empty VState.abs_empty
  intro op hop
  obtain ⟨o, ho, rfl⟩ := List.mem_map.1 hop
  have := hwf o ho
  cases o <;> first | exact this | trivial

example : (KState.KOp3.extend [some (.str "a"), some (.npInt 1), none, some (.float 1)] true).WF ∧
    KState.KOp3.copy.WF ∧ (KState.KOp3.base (.relabel [(.bool true, .str "a"), (.str "a", .float 1)])).WF ∧
    KState.KOp3.deepcopy.WF ∧ (KState.KOp3.slice ⟨none, none, some (-1)⟩).WF ∧
    (KState.KOp3.base (.remove (.npFloat 0))).WF ∧ (KState.KOp3.base (.base .relabelInts)).WF :=
  ⟨trivial, trivial, by show ([(Label.int 1, Label.str "a"), (.str "a", .int 1)].map Prod.fst).Nodup; decide +kernel, trivial, trivial, trivial, trivial⟩

/-- the `abc.Set` comparison mixins over objects (`other` a Set with pairwise different elements):
    `isdisjoint`, `<=`, `<`, `>=`, `>` are the list / set statements about canonical labels -/
theorem object_set_comparisons (k : KState) (h : k.toV.Inv) (o : List PyKey) :
    (k.isdisjoint o = true ↔ ∀ x ∈ o.map PyKey.canon, x ∉ k.toV.abs) ∧
    ((o.map PyKey.canon).Nodup →
      (k.le o = true ↔ ∀ x ∈ k.toV.abs, x ∈ o.map PyKey.canon) ∧
      (k.lt o = true ↔ (∀ x ∈ k.toV.abs, x ∈ o.map PyKey.canon) ∧ k.toV.abs.length < (o.map PyKey.canon).length) ∧
      (k.ge o = true ↔ ∀ x ∈ o.map PyKey.canon, x ∈ k.toV.abs) ∧
      (k.gt o = true ↔ (∀ x ∈ o.map PyKey.canon, x ∈ k.toV.abs) ∧ (o.map PyKey.canon).length < k.toV.abs.length)) :=
  ⟨KState.isdisjoint_iff k h o, fun ho => ⟨KState.le_iff k h o ho, KState.lt_iff k h o ho, KState.ge_iff k h o ho,
    KState.gt_iff k h o ho⟩⟩

/-- the `abc.Set` operators over objects return sound `Variables`: `v - o` = the labels of `v` not in `o` (order of
    `v`); `v & o` = the labels of `o` that are in `v`, order of `o`, first occurrences; `v | o` = `v` then the new labels
    of `o`; `v ^ o` = `(v - o)` then the labels of `o` (first occurrences) not in `v` -/
theorem object_set_operators (k : KState) (h : k.toV.Inv) (o : List PyKey) :
    ((k.sub o).toV.Inv ∧ (k.sub o).toV.abs = k.toV.abs.filter fun x => !decide (x ∈ o.map PyKey.canon)) ∧
    ((k.and o).toV.Inv ∧ (k.and o).toV.abs =
      (LSpec.extend [] (((o.map PyKey.canon).filter fun x => decide (x ∈ k.toV.abs)).map some) true).1) ∧
    ((k.or o).toV.Inv ∧ (k.or o).toV.abs = (LSpec.extend [] ((k.toV.abs ++ o.map PyKey.canon).map some) true).1) ∧
    ((k.xor o).toV.Inv ∧ (k.xor o).toV.abs = (LSpec.extend []
      (((k.toV.abs.filter fun x => !decide (x ∈ o.map PyKey.canon)) ++
        ((LSpec.extend [] ((o.map PyKey.canon).map some) true).1.filter fun x => !decide (x ∈ k.toV.abs))).map some) true).1) :=
  ⟨KState.sub_abs k h o, KState.and_abs k h o, KState.or_abs k h o, KState.xor_abs k h o⟩

/-- `_from_iterable` of pairwise different labels is that list (so `&` of a duplicate-free `o` is the plain filter) -/
theorem from_iterable_nodup (l : List Label) (h : l.Nodup) : (LSpec.extend [] (l.map some) true).1 = l :=
  LSpec.extend_nil_nodup l h

/-- `v & [2, 'zz', 0.0, 2.0, 'a']` = `[2, 0.0, 'a']` holding OTHER's objects (`0.0` on index 1 is stored; `'a'` on index 2);
    `v - [0.0, 'a']` = `[np.int64(7), 2, (True, 'x')]`: the int `2` now sits on index 1 and is stored -/
example : (wK.and [.int 2, .str "zz", .float 0, .float 2, .str "a"]).iterObjs.map PyKey.code =
      [PyKey.code (.int 2), PyKey.code (.float 0), PyKey.code (.str "a")] ∧
    (wK.sub [.float 0, .str "a"]).iterObjs.map PyKey.code =
      [PyKey.code (.npInt 7), PyKey.code (.int 2), PyKey.code (.tup [.bool true, .str "x"])] ∧
    wK.isdisjoint [.float 3, .str "b"] = true ∧ wK.le [.float 0, .str "a", .int 7, .int 2, .tup [.int 1, .str "x"], .int 9] = true ∧
    wK.ge [.bool false, .float 2] = true ∧ wK.gt [.int 5] = false := by decide +kernel

/-- the range-labelled fast path: `_is_range()` (empty `_label_to_index`) holds exactly when the labels are
    `0 … n-1` in order, and then the dict-free branches of `count` / `at` / `index` agree with the general ones -/
theorem range_fast_path_sound (s : VState) (h : s.Inv) :
    (s.isRange = true ↔ s.abs = (List.range s.stop).map fun i => Label.int (i : Nat)) ∧
    (s.isRange = true →
      (∀ z : Int, s.count (.int z) = s.countIntRange z) ∧ (∀ idx : Int, s.at? idx = s.atRange idx) ∧
      (∀ v : Label, s.index? v = s.indexRange v)) :=
  ⟨VState.isRange_iff_labels s h, VState.range_fast_path s h⟩

/-- transitions range → materialised → range: the constructor from a range, `_clear`, `_relabel_as_integers` land
    on the fast path; an append from the fast path stays on it iff the label is the next index; a pop is on it iff
    what remains is `0 … n-2` -/
theorem range_transitions (s : VState) (h : s.Inv) :
    (∀ n, (VState.ofRange n).isRange = true) ∧ (s.step .clear).1.isRange = true ∧ (s.step .relabelInts).1.isRange = true ∧
    (∀ v, v ∉ s.abs → s.isRange = true → ((s.append v).isRange = true ↔ v = .int s.stop)) ∧
    (∀ s' l, s.pop = some (s', l) →
      (s'.isRange = true ↔ s.abs.dropLast = (List.range (s.stop - 1)).map fun i => Label.int (i : Nat))) :=
  VState.range_transitions s h

example : (VState.ofRange 3).Inv ∧ (VState.ofRange 3).isRange = true ∧
    ((VState.ofRange 3).append (.str "a")).isRange = false ∧
    (((VState.ofRange 3).append (.str "a")).pop.map fun p => p.1.isRange) = some true :=
  ⟨(VState.ofRange_spec 3).1, by decide +kernel⟩

/-- the reflected operators: `other - v` = the labels of `other` (first occurrences) not in `v`; `other | v`,
    `other & v`, `other ^ v` are `__or__` / `__and__` / `__xor__` themselves (`__ror__ = __or__`, `__rand__ = __and__`,
    `__rxor__ = __xor__` in `collections.abc.Set`: the labels of `v` come first in `other | v`) -/
theorem object_set_reflected (k : KState) (h : k.toV.Inv) (o : List PyKey) :
    ((k.rsub o).toV.Inv ∧ (k.rsub o).toV.abs =
      (LSpec.extend [] ((o.map PyKey.canon).map some) true).1.filter fun x => !decide (x ∈ k.toV.abs)) ∧
    ((k.ror o).toV.Inv ∧ (k.ror o).toV.abs = (LSpec.extend [] ((k.toV.abs ++ o.map PyKey.canon).map some) true).1) ∧
    (∀ x, k.neOther x = !(k.toV.eqOther x.canon)) :=
  ⟨KState.rsub_abs k h o, KState.ror_abs k h o, fun x => by rw [KState.neOther, KState.eqOther_factors k h]⟩

/-- **the model's alphabet covers the method set of the source**: every `def` / `cpdef` / `cdef` method of
    `cyVariables`, every method of `class Variables` and every inherited mixin / pickle hook that
    `harness/translators/vars_methods.py` finds is mapped to a model definition or explicitly out of scope (rendering,
    serialisation, a helper nothing calls), and no entry of the table is stale.  A method added to (or removed from)
    the source breaks this theorem. -/
theorem alphabet_covers_source :
    (∀ m ∈ Generated.VarsMethods.all, VarsAlphabet.covers m = true) ∧
    (∀ m ∈ VarsAlphabet.modelled.map Prod.fst ++ VarsAlphabet.outOfScope.map Prod.fst, m ∈ Generated.VarsMethods.all) ∧
    Generated.VarsMethods.bases = ["cyVariables", "abc.Set[Variable]", "abc.Sequence[Variable]"] := by
  refine ⟨by decide +kernel, by decide +kernel, by decide +kernel⟩

/-! ## round 8: labels with a non-integral number (`LabelF`: `1.5`, `np.float32(0.5)`, `Fraction(3, 2)`, tuples of them)

The shared `Label` type is unchanged; `LabelF` wraps it (`LabelF.ofLabel`) and adds `frac`.  The class over `LabelF` is the
existing model run on the injective, `int`-preserving encoding `LabelF.enc` (the driver receives encoded labels). -/

/-- the encoding is injective: two `LabelF` labels are one model label exactly when they are equal -/
theorem labelF_enc_injective (a b : LabelF) : a.enc = b.enc ↔ a = b := LabelF.enc_eq_iff a b

/-- the integers of the model side are exactly the integer labels: the `PyLong` / range fast paths of `count` see no other
    label, in particular no non-integral number -/
theorem labelF_int_preserved (a : LabelF) (z : Int) : a.enc = .int z ↔ a = .int z := LabelF.enc_eq_int_iff a z

/-- `Label` embeds in `LabelF`, and a label containing a non-integral number is none of the embedded ones (it aliases
    nothing of the old alphabet) and is no integer of the model side -/
theorem labelF_embedding :
    (∀ a b : Label, LabelF.ofLabel a = LabelF.ofLabel b ↔ a = b) ∧
    (∀ (a : LabelF), a.hasFrac = true → (∀ l : Label, a ≠ LabelF.ofLabel l) ∧ ∀ z : Int, a.enc ≠ .int z) := by
  refine ⟨fun a b => ⟨LabelF.ofLabel_inj a b, fun h => by rw [h]⟩, fun a h => ⟨LabelF.frac_ne_ofLabel a h, fun z e => ?_⟩⟩
  rw [LabelF.enc_eq_int_iff] at e
  rw [e] at h; cases h

/-- **every history of the mutators over `LabelF`** (explicit / auto appends, pops, clears, relabels with a dict literal,
    relabel-as-integers, removals; from the empty object): the state keeps the invariant and is the encoding of a
    DUPLICATE-FREE `LabelF` list of length `_stop`, which is the list specification run on the history; `count` /
    membership and `index` of ANY `LabelF` label (non-integral numbers included) are membership and position in that
    list -/
theorem labelF_history_bijection (ops : List OpF) (hwf : ∀ op ∈ ops, op.WF) :
    ∃ lF : List LabelF,
      lF.map LabelF.enc = (VState.runF ops).abs ∧ lF.map LabelF.enc = LSpec.runF ops ∧ (VState.runF ops).Inv ∧
      lF.Nodup ∧ lF.length = (VState.runF ops).stop ∧
      (∀ v : LabelF, (VState.runF ops).count v.enc = true ↔ v ∈ lF) ∧
      (∀ (v : LabelF) (i : Nat), (VState.runF ops).index? v.enc = some i ↔ lF[i]? = some v) := by
  obtain ⟨hinv, hspec, himg⟩ := VState.runF_spec ops hwf
  obtain ⟨lF, hlF⟩ := LabelF.exists_preimage _ himg
  refine ⟨lF, hlF, by rw [hlF, hspec], hinv, ?_, ?_, ?_, ?_⟩
  · have hn := VState.abs_nodup _ hinv
    rw [← hlF, List.Nodup, List.pairwise_map] at hn
    exact List.Pairwise.imp (fun hne he => hne (by rw [he])) hn
  · have := VState.abs_length (VState.runF ops)
    rw [← hlF, List.length_map] at this; exact this
  · intro v
    rw [VState.count_iff _ hinv, ← hlF]; exact LabelF.mem_map_enc lF v
  · intro v i
    rw [VState.index?_eq_some_iff _ hinv, ← hlF, List.getElem?_map]
    cases lF[i]? with
    | none => simp
    | some w => simp [LabelF.enc_eq_iff]

/-- a concrete history with non-integral numbers: `1.5`, an auto label, `(0.5, "a")`, the integer `1`, then `1.5` is removed
    and `(0.5, "a")` relabelled to `2.5`: three labels, the non-integral ones at positions 1 and absent -/
def wOpsF : List OpF := [.append (some (.frac 3 2)) false, .append none false, .append (some (.tup [.frac 1 2, .str "a"])) false,
  .append (some (.int 1)) true, .remove (.frac 3 2), .relabel [(.tup [.frac 1 2, .str "a"], .frac 5 2)]]

example : (∀ op ∈ wOpsF, op.WF) := by
  intro op h
  simp only [wOpsF, List.mem_cons, List.not_mem_nil, or_false] at h
  rcases h with rfl | rfl | rfl | rfl | rfl | rfl <;> simp [OpF.WF]

example : (VState.runF wOpsF).abs = [LabelF.enc (.int 1), LabelF.enc (.frac 5 2)] ∧
    (VState.runF wOpsF).index? (LabelF.enc (.frac 5 2)) = some 1 ∧ (VState.runF wOpsF).count (LabelF.enc (.frac 3 2)) = false ∧
    VState.flagsF wOpsF = [true, true, true, true, true, true] := by
  decide +kernel

/-- **every history over the WHOLE alphabet with `LabelF` arguments** (the seven mutators + `_extend` from any iterable with
    explicit / auto labels, `copy`, the pickle round trip, slicing `v[a:b:c]`; from the empty object): same statement -/
theorem labelF_history2_bijection (ops : List OpF2) (hwf : ∀ op ∈ ops, op.WF) :
    ∃ lF : List LabelF,
      lF.map LabelF.enc = (VState.runF2 ops).abs ∧ lF.map LabelF.enc = LSpec.runF2 ops ∧ (VState.runF2 ops).Inv ∧
      lF.Nodup ∧ lF.length = (VState.runF2 ops).stop ∧
      (∀ v : LabelF, (VState.runF2 ops).count v.enc = true ↔ v ∈ lF) ∧
      (∀ (v : LabelF) (i : Nat), (VState.runF2 ops).index? v.enc = some i ↔ lF[i]? = some v) := by
  obtain ⟨hinv, hspec, himg⟩ := VState.runF2_spec ops hwf
  obtain ⟨lF, h1, h2, h3, h4, h5⟩ := VState.labelF_view _ hinv himg
  exact ⟨lF, h1, by rw [h1, hspec], hinv, h2, h3, h4, h5⟩

def wOpsF2 : List OpF2 := [.extend [some (.frac 3 2), none, some (.int 1), some (.tup [.frac 1 2])] true, .pickle,
  .slice ⟨none, none, some (-1)⟩, .base (.remove (.int 1)), .copy]

example : (∀ op ∈ wOpsF2, op.WF) := by
  intro op h
  simp only [wOpsF2, List.mem_cons, List.not_mem_nil, or_false] at h
  rcases h with rfl | rfl | rfl | rfl | rfl <;> simp [OpF2.WF, OpF.WF]

example : (VState.runF2 wOpsF2).abs = [LabelF.enc (.tup [.frac 1 2]), LabelF.enc (.frac 3 2)] ∧
    (VState.runF2 wOpsF2).index? (LabelF.enc (.frac 3 2)) = some 1 := by
  decide +kernel

end C13

section AxiomsR8
#print axioms C13.labelF_enc_injective
#print axioms C13.labelF_int_preserved
#print axioms C13.labelF_embedding
#print axioms C13.labelF_history_bijection
#print axioms C13.labelF_history2_bijection
end AxiomsR8

section AxiomsR7
#print axioms C13.object_set_reflected
#print axioms C13.alphabet_covers_source
#print axioms C13.object_extend_copy_pickle_factor
#print axioms C13.object_readers_factor
#print axioms C13.object_slice_eq_factor
#print axioms C13.object_step_is_list_step
#print axioms C13.object_history_whole_alphabet
#print axioms C13.object_set_comparisons
#print axioms C13.object_set_operators
#print axioms C13.range_fast_path_sound
#print axioms C13.range_transitions
end AxiomsR7
