import DimodProofs.ContainerProofs
import DimodProofs.JsonString
import DimodProofs.JsonValue
import DimodProofs.DqmFile
import DimodProofs.LegacyProofs
import DimodModel.HeaderDicts
import DimodProofs.FileIO
import DimodProofs.JsonContracts
import DimodProofs.HeaderContracts
import DimodProofs.ZipEnd
import DimodProofs.CqmDirs
import DimodProofs.CqmClosed
import DimodProofs.ZipTrunc
import DimodProofs.DqmClosed
import DimodProofs.CqmDomain

/-! # C09 — binary model files load back as the identical model

Models: `DimodModel/FileReader.lean` (reader programs, headers, sections), `DimodModel/BqmFile.lean`
(BQM v1/v2, QM, raw loaders), `DimodModel/CqmFile.lean` (expressions, CQM archive layout, labels,
DQM framing).  `json.loads`, the zip container and `np.savez/np.load` are parameters with the
contracts stated in the hypotheses (`JsonContract`, archives as member lists). -/

namespace C09

open FileFmt

/-- `read_header(make_header(prefix, data, version))` returns the version and the dictionary and
    leaves the position at the first byte after the header — for every prefix, version, JSON text
    (ASCII, as `json.dumps` produces) and whatever follows. -/
theorem header_roundtrip (pre text : Bytes) (maj min : UInt8) (parse : Bytes → Option H) (h : H)
    (hj : JsonContract parse text h) (hascii : ∀ b ∈ text, b < 128) (hlen : text.length + 65 < 2 ^ 32) (rest : Bytes) :
    (readHeader pre parse).run (makeHeader pre maj min text ++ rest) = .ok (([maj.toNat, min.toNat], h), rest) :=
  readHeader_full pre text maj min parse h hj hascii hlen rest

/-- every header is a whole number of 64-byte blocks -/
theorem header_len_mod64 (pre : Bytes) (maj min : UInt8) (text : Bytes) :
    (makeHeader pre maj min text).length % 64 = 0 :=
  makeHeader_length_mod pre maj min text

/-- `Section.load(Section.dumps(data))`: `loads_data` is handed the data followed by its padding,
    and the position is at the first byte after the section — for every magic, length-field width,
    data and whatever follows. -/
theorem section_roundtrip (magic : Bytes) (nlb : Nat) (data : Bytes) (loads : Bytes → Res α) (a : α)
    (h0 : 0 < nlb) (hsize : data.length + 64 < 256 ^ nlb)
    (hloads : loads (data ++ spaces (sectionPad magic nlb data)) = .ok a) (rest : Bytes) :
    (sectionLoadWith magic nlb loads).run (sectionDumps magic nlb data ++ rest) = .ok (a, rest) :=
  sectionLoadWith_full magic nlb data loads a h0 hsize hloads rest

/-- every section is a whole number of 64-byte blocks (so every section of a file that starts
    aligned is aligned) -/
theorem section_len_mod64 (magic : Bytes) (nlb : Nat) (data : Bytes) :
    (sectionDumps magic nlb data).length % 64 = 0 :=
  sectionDumps_length_mod magic nlb data

/-- **QM files.**  For every well-formed model content (`QmWF`: sizes agree with the header,
    payloads have the dtype's width, indices fit the index type, sections fit their length
    fields), every header text and label text satisfying the JSON contract:
    `QuadraticModel.from_file(to_file(m))` returns the header's dtype/shape, the vartypes and
    bounds, the offset, every linear bias, every lower-triangle neighbourhood (self-loops
    included) and the labels — and has consumed the file exactly. -/
theorem qm_file_roundtrip (parse : Bytes → Option (QHeader J)) (parseVars : Bytes → Option (List J))
    (hdrText varsText : Bytes) (h : QHeader J) (vi : VarInfo) (c : QContent) (labels : List J)
    (hh : HeaderOK parse hdrText h) (wf : QmWF h vi c) (hv : h.vars.truthy = true → VarsOK parseVars varsText labels) :
    (qmDecode true parse parseVars).run (qmEncode hdrText h vi c varsText) = .ok (qmResult h vi c labels, []) := by
  obtain ⟨_, _, hc⟩ := Comp.qm parse parseVars hdrText varsText h vi c labels hh wf hv
  simpa using hc.full []

/-- **BQM files, format 1 and 2.**  For every well-formed BQM content (`BqmWF`: sizes agree with
    the header, the header's `num_interactions` is the number of lower-triangle entries, lower
    triangles hold indices below their row, payloads have the dtype's width, counts fit the index
    types) `BinaryQuadraticModel.from_file(to_file(m, version=maj))` returns the offset, every linear
    bias, every lower triangle and the labels: the header's list in format 1, the `VARS` list in
    format 2, none when the header says the model is index-labelled (`ignore_labels=True`, or labels
    `0..n-1`: the result is `m` relabelled to `0..n-1`).  The proof goes through the neighbourhood
    starts written by `_ilinear_and_degree` (`degrees_accs`) and the fact that the neighbourhoods
    hold every interaction exactly twice (`handshake`). -/
theorem bqm_file_roundtrip (parse : Bytes → Option (QHeader J)) (parseVars : Bytes → Option (List J)) (maj : UInt8)
    (hdrText varsText : Bytes) (h : QHeader J) (c : QContent) (labels : List J)
    (hmaj : maj.toNat < 3) (hh : HeaderOK parse hdrText h) (wf : BqmWF h c)
    (hv1 : maj.toNat < 2 → ∃ l, h.vars = .labels l)
    (hv2 : 2 ≤ maj.toNat → h.vars.truthy = true → VarsOK parseVars varsText labels) :
    (bqmDecode parse parseVars).run (bqmEncode maj hdrText h c varsText) = .ok (bqmResult maj h c labels, []) := by
  obtain ⟨_, _, hc⟩ := Comp.bqm parse parseVars maj hdrText varsText h c labels hmaj hh wf hv1 hv2
  simpa using hc.full []

/-- the neighbourhoods `to_file` writes hold every interaction exactly twice, so the last
    variable's degree `2*num_interactions - nidx[n-1]` is right -/
theorem bqm_handshake {dsz : Nat} (lower : List (List (Nat × Bytes))) (hl : LowerOK dsz 0 lower) :
    totalDeg (allNeigh lower) = 2 * totalDeg lower :=
  handshake lower hl

/-- **expression files** (`_cyExpression._into_file / _from_file`): parent indices, offset, linear
    biases and quadratic terms in iteration order come back exactly. -/
theorem expr_roundtrip (parse : Bytes → Option (QHeader J)) (hdrText : Bytes) (h : QHeader J) (e : ExprContent)
    (hh : HeaderOK parse hdrText h) (wf : ExprWF h e) :
    (exprDecode true parse).run (exprEncode hdrText h.isize e) = .ok ((h, e), []) := by
  simpa using (Comp.expr parse hdrText h e hh wf).full []

/-- **labels through JSON values**: `deserialize_variable(json(serialize_variable(l))) = l` for
    integers, floats, strings and arbitrarily nested tuples (JSON turns tuples into arrays,
    `deserialize_variable` turns every array back into a tuple). -/
theorem label_json_roundtrip (l : FLabel) : deserializeLabel (serializeLabel l) = l :=
  deserialize_serialize l

/-- **every label is path-safe after the D11 repair**: the directory name `to_file` uses for a
    constraint (`json.dumps(serialize_variable(label)).replace('/', <backslash>u002f)`) never
    contains `/`, whatever the label. -/
theorem pathSafe_all (l : FLabel) : pathSafe (labelText true l) := by
  unfold labelText; exact escapeSlash_safe _

/-- **the directory name of a string label parses back to the label**, at the level of JSON text:
    `json.loads` (model `loadsStr` of `py_scanstring`) applied to what `to_file` writes — before and
    after the D11 repair replaced `/` by its `\u` escape — returns the string, for every string
    (quotes, backslashes, control characters, non-ASCII and astral characters included). -/
theorem label_text_roundtrip_str (fixed : Bool) (s : String) :
    loadsStr (labelText fixed (.str s)) = some s.toList := by
  cases fixed
  · exact loadsStr_dumpsStr s
  · exact loadsStr_escapeSlash_dumpsStr s

/-- the repair changes nothing for labels that were already safe -/
theorem labelText_unchanged_when_safe (l : FLabel) (h : pathSafe (labelText false l)) :
    labelText true l = labelText false l := by
  unfold labelText at *; exact escapeSlash_id _ h

/-- a path-safe, non-empty directory name is what the loader's regular expression extracts -/
theorem path_split (lstr file : List Char) (h : pathSafe lstr) (hne : lstr ≠ []) :
    matchConstraint (constraintPath lstr file) = some lstr :=
  matchConstraint_path lstr file h hne

/-- without path-safety it is not (D11): the label `a/b` as written before the repair -/
theorem path_split_unsafe_witness :
    labelText false (.str "a/b") = ['"', 'a', '/', 'b', '"'] ∧
    matchConstraint (constraintPath (labelText false (.str "a/b")) fLhs) ≠ some (labelText false (.str "a/b")) := by
  have h : labelText false (.str "a/b") = ['"', 'a', '/', 'b', '"'] := by decide
  refine ⟨h, ?_⟩
  rw [h]; decide

/-- **CQM archives.**  Under `CqmWF` — every constraint directory name non-empty, free of `/`
    (`pathSafe`, guaranteed by `pathSafe_all` for names produced by the repaired writer) and
    pairwise different; expression headers satisfying the JSON contract; float64 right-hand sides
    and weights — `from_file` applied to the members `to_file` wrote returns the variable info,
    the label text, the objective and every constraint with its directory name, left-hand side,
    right-hand side, sense, discrete mark, weight and penalty, in the writer's order. -/
theorem cqm_file_roundtrip (parse : Bytes → Option (QHeader J)) (okLabel : List Char → Bool) (isz dsz : Nat) (m : CqmContent)
    (wf : CqmWF parse okLabel isz dsz m) :
    cqmDecode true dsz m.varinfo.length parse okLabel (cqmMembers isz m) = .ok m.erase :=
  cqmDecode_members parse okLabel isz dsz m wf

/-- … including the header consistency check, and the header + container framing of the file:
    the whole `from_file(to_file(m))` under the zip contract (`openZip` on the archive bytes gives
    the members written). -/
theorem cqm_file_roundtrip_checked (parseHdr : Bytes → Option CqmCounts) (openZip : Bytes → Option Archive)
    (parse : Bytes → Option (QHeader J)) (okLabel : List Char → Bool) (isz dsz : Nat) (m : CqmContent)
    (hdrText zipBytes : Bytes) (wf : CqmWF parse okLabel isz dsz m)
    (hh : HeaderOK parseHdr hdrText (cqmCounts m.erase)) (hz : ContainerContract openZip zipBytes (cqmMembers isz m)) :
    cqmFileLoad true dsz parseHdr openZip parse okLabel (makeHeader cqmPrefix 2 0 hdrText ++ zipBytes) = .ok m.erase := by
  unfold cqmFileLoad
  rw [containerLoad_full cqmPrefix hdrText zipBytes 2 0 parseHdr _ cqmVerOk openZip _ hh (by decide) hz]
  simp only [Res.bind, cqmDecodeChecked]
  have hn : (cqmCounts m.erase).numVariables = m.varinfo.length := rfl
  rw [hn, cqmDecode_members parse okLabel isz dsz m wf]
  simp [Res.bind]

/-- **DQM framing** (`dqm_file_roundtrip_partial`): header, `BIAS` + length + blob, optional `VARS`
    come back; the body itself is `np.savez`/`np.load`, a parameter (`ContainerContract npLoad`). -/
theorem dqm_file_roundtrip_partial (parse : Bytes → Option (Bool × H)) (parseVars : Bytes → Option (List J))
    (npLoad : Bytes → Option D) (nvarsOf : D → Nat) (hdrText npz varsText : Bytes) (labelled : Bool) (h : H) (d : D)
    (labels : List J) (hh : HeaderOK parse hdrText (labelled, h)) (hz : ContainerContract npLoad npz d) (hsz : npz.length < 256 ^ 4)
    (hv : labelled = true → VarsOK parseVars varsText labels ∧ labels.length = nvarsOf d) :
    (dqmDecode parse parseVars npLoad nvarsOf).run (dqmEncode hdrText labelled npz varsText) =
      .ok ((h, d, if labelled then some labels else none), []) := by
  obtain ⟨_, _, hc⟩ := Comp.dqm parse parseVars npLoad nvarsOf hdrText npz varsText labelled h d labels hh hz hsz hv
  simpa using hc.full []

/-! ## round 2: JSON at text level for every label kind, DQM arrays, legacy CQM layout, header dictionaries -/

/-- **labels at JSON-text level, every kind.**  `deserialize_variable(json.loads(text))` is the
    label, where `text` is what `to_file` writes for it (optionally followed by blanks): integers,
    strings, nested tuples, and floats in any of the forms `float.__repr__` produces (`JOK`:
    sign, digits, optional fraction, optional exponent).  `loadsJ` models `json.loads` on these
    texts (`NUMBER_RE`, `py_scanstring`, `JSONArray`).  What stays a contract is only IEEE's
    `float(repr(x)) == x`: the model keeps a float as its text. -/
theorem label_text_roundtrip (fixed : Bool) (l : FLabel) (hl : JOK (serializeLabel l)) (ws : List Char) (hws : Blank ws) :
    (loadsJ (labelText fixed l ++ ws)).map deserializeLabel = some l :=
  loads_labelText fixed l hl ws hws

/-- the same for a whole label list as written in the `VARS` section, `variable_labels.json` and
    the format-1 header: the JSON array followed by padding blanks parses back to the labels
    (this is the `full` half of `JsonContract` for the real parser) -/
theorem label_list_text_roundtrip (ls : List FLabel) (hl : JOKs (serializeLabels ls)) (ws : List Char) (hws : Blank ws) :
    (loadsJ (dumpsJ (.arr (serializeLabels ls)) ++ ws)).map deserializeLabel = some (.tup ls) :=
  loads_labelList ls hl ws hws

/-- `json.loads(json.dumps(v)) = v` for every value built from integers, float texts, strings and
    arrays, with or without the `/` escape inside strings -/
theorem json_value_roundtrip (esc : Bool) (v : JVal) (hv : JOK v) (ws : List Char) (hws : Blank ws) :
    loadsJ (dumpsE esc v ++ ws) = some v :=
  loadsJ_dumpsE esc v hv ws hws

/-- **DQM arrays.**  `from_numpy_vectors` applied to the arrays `to_numpy_vectors` produced, as
    `np.savez` stores them (names, order, index dtype chosen from the number of cases, shapes,
    payloads), rebuilds case starts, every linear bias, every case interaction and the offset. -/
theorem dqm_vectors_roundtrip (c : DqmContent) (wf : DqmWF c) : dqmFromMembers (dqmMembers c) = .ok c :=
  dqmFromMembers_members c wf

/-- **DQM files**, lifting `dqm_file_roundtrip_partial`: under the npz *container* contract only
    (`openNpz` on the blob gives the arrays written; `compress` changes the blob, not the arrays)
    `from_file(to_file(dqm, ignore_labels=…))` returns the DQM content and the labels (none when the
    header says index-labelled). -/
theorem dqm_file_roundtrip (parse : Bytes → Option (Bool × H)) (parseVars : Bytes → Option (List J))
    (openNpz : Bytes → Option (List NpyMember)) (hdrText npz varsText : Bytes) (labelled : Bool) (h : H) (c : DqmContent)
    (labels : List J) (hh : HeaderOK parse hdrText (labelled, h)) (wf : DqmWF c)
    (hz : ContainerContract openNpz npz (dqmMembers c)) (hsz : npz.length < 256 ^ 4)
    (hv : labelled = true → VarsOK parseVars varsText labels ∧ labels.length = c.caseStarts.length) :
    (dqmDecode parse parseVars (fun blob => (openNpz blob).bind fun ms => match dqmFromMembers ms with | .ok d => some d | _ => none)
        (fun d => d.caseStarts.length)).run (dqmEncode hdrText labelled npz varsText) =
      .ok ((h, c, if labelled then some labels else none), []) := by
  have hc : ContainerContract (fun blob => (openNpz blob).bind fun ms => match dqmFromMembers ms with | .ok d => some d | _ => none) npz c :=
    ⟨by simp [hz.full, dqmFromMembers_members c wf], fun j hj => by simp [hz.cut j hj]⟩
  obtain ⟨_, _, hcomp⟩ := Comp.dqm parse parseVars _ (fun d : DqmContent => d.caseStarts.length) hdrText npz varsText labelled h c labels hh hc hsz hv
  simpa using hcomp.full []

/-- **the legacy CQM layout** (serialization versions 1.0–1.3, the layout of the bundled
    `tests/data/cqm/*_v1.*.cqm` files): `_from_file_legacy` applied to an archive whose `objective`
    and `constraints/<label>/lhs` members are complete QM or BQM files returns the objective
    model and, per constraint, the left-hand-side model, right-hand side, sense, discrete mark,
    weight and penalty. -/
theorem cqm_legacy_roundtrip (parse : Bytes → Option (QHeader J)) (parseVars : Bytes → Option (List J))
    (okLabel : List Char → Bool) (obj : MemberModel J) (objLabels : List J) (cs : List (LegacySrcConstraint J))
    (lab : LegacySrcConstraint J → List J)
    (hobj : obj.OK parse parseVars objLabels)
    (hdirs : (∀ c ∈ cs, pathSafe c.lstr ∧ c.lstr ≠ []) ∧ (cs.map (·.lstr)).Nodup)
    (hcs : ∀ c ∈ cs, LegacyConstraintWF parse parseVars (lab c) c ∧ okLabel c.lstr = true) :
    legacyDecode true parse parseVars okLabel (legacyMembers obj cs) =
      .ok { objective := obj.loaded objLabels, constraints := cs.map fun c => c.loaded (lab c) } :=
  legacyDecode_members parse parseVars okLabel obj objLabels cs lab hobj hdirs hcs

/-- the dictionary `BinaryQuadraticModel.to_file` builds is consistent with the content it
    describes: its `shape` is (number of linear biases, number of lower-triangle entries) — the
    `nlin` / `ninter` fields `BqmWF` asks for -/
theorem bqm_header_dict_consistent (ver : Nat) (ignore : Bool) (vartype dsz isz : Nat) (c : QContent) (labels : List FLabel) :
    ((bqmHeaderDict ver ignore vartype dsz isz c labels).toQHeader dsz isz vartype).nvars = c.linear.length ∧
    ((bqmHeaderDict ver ignore vartype dsz isz c labels).toQHeader dsz isz vartype).ninter = totalDeg c.lower := by
  refine ⟨rfl, ?_⟩
  simp only [HeaderDict.toQHeader, bqmHeaderDict]
  induction c.lower with
  | nil => rfl
  | cons r t ih => simp [rowsCount, totalDeg, ih]

/-- floats: the `repr` forms are non-empty (e.g. `-0.25`, `1e+16`, `1.5e-07`) -/
example : (FloatParts.mk true 0 ['2', '5'] none).OK ∧ (FloatParts.mk false 1 [] (some (['+'], ['1', '6']))).OK ∧
    (FloatParts.mk false 1 ['5'] (some (['-'], ['0', '7']))).OK := by
  refine ⟨⟨?_, ?_, ?_⟩, ⟨?_, ?_, ?_⟩, ⟨?_, ?_, ?_⟩⟩ <;> simp [isDigit] <;> decide

/-! ## round 4: spool size, input kind, ignore_labels, object dtype -/

/-- **`spool_size` does not matter**: whatever `max_size` the `SpooledTemporaryFile` was given (in
    memory or rolled over to disk), reading the file `to_file` returns gives the same bytes — the
    encoder's — for BQM, QM, CQM and DQM files. -/
theorem spool_size_irrelevant (s1 s2 : Nat) (maj : UInt8) (hdrText varsText zipBytes npz : Bytes) (h : QHeader J) (vi : VarInfo)
    (c : QContent) (labelled : Bool) :
    (bqmToFile s1 maj hdrText h c varsText).readAll = (bqmToFile s2 maj hdrText h c varsText).readAll ∧
    (bqmToFile s1 maj hdrText h c varsText).readAll = bqmEncode maj hdrText h c varsText ∧
    (qmToFile s1 hdrText h vi c varsText).readAll = (qmToFile s2 hdrText h vi c varsText).readAll ∧
    (qmToFile s1 hdrText h vi c varsText).readAll = qmEncode hdrText h vi c varsText ∧
    (cqmToFile s1 hdrText zipBytes).readAll = (cqmToFile s2 hdrText zipBytes).readAll ∧
    (dqmToFile s1 hdrText labelled npz varsText).readAll = (dqmToFile s2 hdrText labelled npz varsText).readAll := by
  simp [bqmToFile_readAll, qmToFile_readAll, cqmToFile_readAll, dqmToFile_readAll]

/-- **bytes or file input**: `from_file` gives the same result for the bytes object and for a file
    object positioned at the start of the model (wherever that is in the file); with the file
    `to_file` returned (any spool size) it is the original model.  Stated for BQM and QM. -/
theorem from_file_input_irrelevant (parse : Bytes → Option (QHeader J)) (parseVars : Bytes → Option (List J)) (spool : Nat)
    (maj : UInt8) (hdrText varsText junk : Bytes) (h : QHeader J) (vi : VarInfo) (c : QContent) (labels : List J)
    (hmaj : maj.toNat < 3) (hh : HeaderOK parse hdrText h)
    (hv1 : maj.toNat < 2 → ∃ l, h.vars = .labels l) (hv2 : 2 ≤ maj.toNat → h.vars.truthy = true → VarsOK parseVars varsText labels)
    (hvq : h.vars.truthy = true → VarsOK parseVars varsText labels) :
    (BqmWF h c →
      bqmFromFile parse parseVars (.bytes (bqmToFile spool maj hdrText h c varsText).readAll) = .ok (bqmResult maj h c labels, []) ∧
      bqmFromFile parse parseVars (.file (junk ++ (bqmToFile spool maj hdrText h c varsText).readAll) junk.length) =
        .ok (bqmResult maj h c labels, [])) ∧
    (QmWF h vi c →
      qmFromFile true parse parseVars (.bytes (qmToFile spool hdrText h vi c varsText).readAll) = .ok (qmResult h vi c labels, []) ∧
      qmFromFile true parse parseVars (.file (junk ++ (qmToFile spool hdrText h vi c varsText).readAll) junk.length) =
        .ok (qmResult h vi c labels, [])) := by
  refine ⟨fun wf => ?_, fun wf => ?_⟩
  · have := bqm_file_roundtrip parse parseVars maj hdrText varsText h c labels hmaj hh wf hv1 hv2
    simp only [bqmFromFile, stream_file, bqmToFile_readAll]
    exact ⟨this, this⟩
  · have := qm_file_roundtrip parse parseVars hdrText varsText h vi c labels hh wf hvq
    simp only [qmFromFile, stream_file, qmToFile_readAll]
    exact ⟨this, this⟩

/-- **`ignore_labels`** (an option of `BinaryQuadraticModel.to_file` and `DiscreteQuadraticModel.to_file`;
    `QuadraticModel.to_file` and `ConstrainedQuadraticModel.to_file` have no such option).  With it
    the header says "index-labelled" (format 2, DQM) or lists `0 … n-1` (format 1); the loader then
    leaves the variables of the fresh model alone, and those are C13's `relabel_as_integers` of the
    original labels, whatever they were. -/
theorem ignore_labels_is_relabel_as_integers (vartype dsz isz : Nat) (c : QContent) (labels : List FLabel) (orig : List Label) :
    (bqmHeaderDict 2 true vartype dsz isz c labels).variables.truthy = false ∧
    (bqmHeaderDict 1 true vartype dsz isz c labels).variables =
      .labels ((List.range c.linear.length).map fun (i : Nat) => JVal.int (i : Int)) ∧
    dqmVariablesFlag true labels = false ∧
    loadedLabels (fun i => Label.int (i : Nat)) orig.length none = (LSpec.step orig .relabelInts).1 := by
  refine ⟨by simp [bqmHeaderDict, VarsField.truthy], by simp [bqmHeaderDict], by simp [dqmVariablesFlag], rfl⟩

/-- **object dtype**: a BQM of dtype `object` is written as its float64 copy (documented in
    `to_file`), so `from_file(to_file(bqm))` is that copy: the float64 content `asF64 c`, under the
    float64 header. -/
theorem bqm_object_dtype_roundtrip (parse : Bytes → Option (QHeader J)) (parseVars : Bytes → Option (List J)) (maj : UInt8)
    (hdrText varsText : Bytes) (h : QHeader J) (asF64 : QContent → QContent) (c : QContent) (labels : List J)
    (hmaj : maj.toNat < 3) (hh : HeaderOK parse hdrText h) (wf : BqmWF h (asF64 c)) (h8 : h.dsize = 8)
    (hv1 : maj.toNat < 2 → ∃ l, h.vars = .labels l)
    (hv2 : 2 ≤ maj.toNat → h.vars.truthy = true → VarsOK parseVars varsText labels) :
    (bqmDecode parse parseVars).run (bqmEncode maj hdrText h (bqmWritten .object asF64 c) varsText) =
      .ok (bqmResult maj h (asF64 c) labels, []) ∧ (bqmResult maj h (asF64 c) labels).hdr.dsize = 8 :=
  ⟨bqm_file_roundtrip parse parseVars maj hdrText varsText h (asF64 c) labels hmaj hh wf hv1 hv2, h8⟩

/-! ## round 4: header dictionaries as JSON text; whole files without a JSON oracle -/

/-- **header dictionaries at text level**: `json.loads(json.dumps(d) + "\n" + blanks) = d` for every
    flat dictionary with integer / float-text / string / array / boolean values (the modelled
    `JSONObject`, separators `", "` and `": "`, keys in the writer's sorted order). -/
theorem header_dict_text_roundtrip (d : HDict) (hd : ∀ kv ∈ d, FOK kv.2) (hsz : ∀ kv ∈ d, fieldSize kv.2 ≤ (dumpsDict d).length + 1)
    (hlen : d.length ≤ (dumpsDict d).length + 1) (ws : List Char) (hws : Blank ws) : loadsDict (dumpsDict d ++ ws) = some d :=
  loadsDict_dumps d hd hsz hlen ws hws

/-- the BQM / QM header builders' dictionaries parse (text → dictionary → fields) to exactly the
    header the loaders use: construction ↔ parsing is a round trip, and the keys are sorted as
    `sort_keys=True` requires. -/
theorem header_construction_parses (ver : Nat) (ignore : Bool) (vartype dsz isz : Nat) (c : QContent) (labels : List FLabel)
    (hd : dsz = 4 ∨ dsz = 8) (hi : isz = 4 ∨ isz = 8) (hv : vartype = 0 ∨ vartype = 1) :
    qheaderOfDict true true true (bqmDict (bqmHeaderDict ver ignore vartype dsz isz c labels)) =
      some (bqmHeaderOf ver ignore vartype dsz isz c labels) ∧
    qheaderOfDict false false true (qmDict (qmHeaderDict dsz isz c labels)) = some (qmHeaderOf dsz isz c labels) ∧
    keysSorted (bqmDict (bqmHeaderDict ver ignore vartype dsz isz c labels)) = true ∧
    keysSorted (qmDict (qmHeaderDict dsz isz c labels)) = true :=
  ⟨bqm_dict_parses ver ignore vartype dsz isz c labels hd hi hv, qm_dict_parses dsz isz c labels hd hi,
   by simp [keysSorted, bqmDict] <;> decide, by simp [keysSorted, qmDict] <;> decide⟩

/-- **QM files end to end with no JSON oracle**: header text and label text written by the model
    (`dumpsDict`, `dumpsJ`), parsed by the modelled `json.loads`; what is left to assume is only
    well-formedness of the content (`QmWF`), float label texts of `repr` form (`JOKs`) and size bounds. -/
theorem qm_file_roundtrip_json (dsz isz : Nat) (vi : VarInfo) (c : QContent) (labels : List FLabel)
    (hd : dsz = 4 ∨ dsz = 8) (hi : isz = 4 ∨ isz = 8) (hl : JOKs (serializeLabels labels))
    (wf : QmWF (qmHeaderOf dsz isz c labels) vi c)
    (hlen : (dumpsDict (qmDict (qmHeaderDict dsz isz c labels))).length + 65 < 2 ^ 32)
    (hvlen : (dumpsJ (.arr (serializeLabels labels))).length + 64 < 256 ^ nlb4) :
    (qmDecode true parseQmHeader parseVarsReal).run
        (qmEncode (qmHeaderText dsz isz c labels) (qmHeaderOf dsz isz c labels) vi c (varsTextOf labels)) =
      .ok (qmResult (qmHeaderOf dsz isz c labels) vi c (serializeLabels labels), []) := by
  obtain ⟨_, _, hc⟩ := Comp.qm_json dsz isz vi c labels hd hi hl wf hlen hvlen
  simpa using hc.full []

/-- **BQM files (format 1 and 2, `ignore_labels` or not) end to end with no JSON oracle** -/
theorem bqm_file_roundtrip_json (maj : UInt8) (ignore : Bool) (vartype dsz isz : Nat) (c : QContent) (labels : List FLabel)
    (hmaj : maj.toNat < 3) (hd : dsz = 4 ∨ dsz = 8) (hi : isz = 4 ∨ isz = 8) (hv : vartype = 0 ∨ vartype = 1)
    (hl : JOKs (serializeLabels labels))
    (wf : BqmWF (bqmHeaderOf maj.toNat ignore vartype dsz isz c labels) c)
    (hlen : (dumpsDict (bqmDict (bqmHeaderDict maj.toNat ignore vartype dsz isz c labels))).length + 65 < 2 ^ 32)
    (hvlen : (dumpsJ (.arr (serializeLabels labels))).length + 64 < 256 ^ nlb4) :
    (bqmDecode parseBqmHeader parseVarsReal).run
        (bqmEncode maj (bqmHeaderText maj.toNat ignore vartype dsz isz c labels) (bqmHeaderOf maj.toNat ignore vartype dsz isz c labels) c
          (varsTextOf labels)) =
      .ok (bqmResult maj (bqmHeaderOf maj.toNat ignore vartype dsz isz c labels) c (serializeLabels labels), []) := by
  obtain ⟨_, _, hc⟩ := Comp.bqm_json maj ignore vartype dsz isz c labels hmaj hd hi hv hl wf hlen hvlen
  simpa using hc.full []

/-! ## round 6: expression / CQM / DQM headers without `HeaderOK`; constraint directories from the labels;
    the archive located the way `zipfile` locates it; the DQM loader before and after the `np.load` repair -/

/-- **`HeaderOK` holds for the three remaining header kinds**: the dictionaries `_cyExpression._into_file`,
    `ConstrainedQuadraticModel.to_file` and `DiscreteQuadraticModel.to_file` build, written by the modelled
    `json.dumps(…, sort_keys=True)`, are ASCII, parse back through the modelled `json.loads` and the loaders'
    field extraction to exactly the header the loader uses, no proper prefix parses, and the keys are in
    sorted order.  Every theorem above that assumes `HeaderOK parse hdrText h` is thereby hypothesis-free in
    its header for the texts the writers emit (only a size bound `< 2^32` remains). -/
theorem header_texts_ok (typeName : String) (dsz isz : Nat) (e : ExprContent) (k : CqmCounts) (q : DqmCounts) (variables : Bool)
    (hd : dsz = 4 ∨ dsz = 8) (hi : isz = 4 ∨ isz = 8)
    (h1 : (dumpsDict (exprDict (exprHeaderDict typeName dsz isz e))).length + 65 < 2 ^ 32)
    (h2 : (dumpsDict (cqmCountsDict k)).length + 65 < 2 ^ 32)
    (h3 : (dumpsDict (dqmCountsDict q variables)).length + 65 < 2 ^ 32) :
    HeaderOK parseExprHeader (exprHeaderText typeName dsz isz e) (exprHeaderOf dsz isz e) ∧
    HeaderOK parseCqmHeader (cqmHeaderText k) k ∧
    HeaderOK parseDqmHeader (dqmHeaderText q variables) (variables, dqmCountsDict q variables) ∧
    keysSorted (exprDict (exprHeaderDict typeName dsz isz e)) = true ∧ keysSorted (cqmCountsDict k) = true ∧
    keysSorted (dqmCountsDict q variables) = true :=
  ⟨expr_header_ok typeName dsz isz e hd hi h1, cqm_header_ok k h2, dqm_header_ok q variables h3,
   (keysSorted_count_dicts k q variables _).2.2, (keysSorted_count_dicts k q variables (exprHeaderDict typeName dsz isz e)).1,
   (keysSorted_count_dicts k q variables (exprHeaderDict typeName dsz isz e)).2.1⟩

/-- **expression files end to end with no JSON oracle** (the `objective` and `constraints/*/lhs` members) -/
theorem expr_roundtrip_json (typeName : String) (dsz isz : Nat) (e : ExprContent) (hd : dsz = 4 ∨ dsz = 8) (hi : isz = 4 ∨ isz = 8)
    (wf : ExprWF (exprHeaderOf dsz isz e) e)
    (hlen : (dumpsDict (exprDict (exprHeaderDict typeName dsz isz e))).length + 65 < 2 ^ 32) :
    (exprDecode true parseExprHeader).run (exprEncode (exprHeaderText typeName dsz isz e) isz e) =
      .ok ((exprHeaderOf dsz isz e, e), []) :=
  expr_roundtrip parseExprHeader (exprHeaderText typeName dsz isz e) (exprHeaderOf dsz isz e) e
    (expr_header_ok typeName dsz isz e hd hi hlen) wf

/-- **constraint directories from the labels**: for pairwise different constraint labels (floats in
    `repr` form) the directory names `to_file` writes — `json.dumps(serialize_variable(label))` with `/`
    escaped — are free of `/`, non-empty and pairwise different (`CqmWF.dirs`), `json.loads` accepts
    them (`okLabel`), and `deserialize_variable(json.loads(name))` is the label again; so the labels
    `from_file` attaches to the constraints are the original ones. -/
theorem cqm_dirs_from_labels (ls : List FLabel) (hok : ∀ l ∈ ls, JOK (serializeLabel l)) (hnd : ls.Nodup) :
    (∀ d ∈ ls.map (labelText true), pathSafe d ∧ d ≠ []) ∧ (ls.map (labelText true)).Nodup ∧
    (∀ l ∈ ls, (loadsJ (labelText true l)).isSome = true ∧ dirLabel (labelText true l) = some l) :=
  dirs_of_labels ls hok hnd

/-- **CQM files, the archive located as `zipfile` locates it** (`_EndRecData` on the bytes of the whole
    file), header text written by the model and parsed by the modelled `json.loads`.  What is assumed of
    `zipfile` is one equation about the COMPLETE file: reading the central directory and the members of
    the file `to_file` wrote (`x` = local entries + central directory, `e` = the 22-byte end record) gives
    the members written — "member bytes in = member bytes out".  Member names, their order, the grouping
    of `constraints/<label>/…` and everything `from_file` does with the members are the model's. -/
theorem cqm_file_roundtrip_zip (readDir : EndRec → Bytes → Option Archive) (parse : Bytes → Option (QHeader J))
    (okLabel : List Char → Bool) (isz dsz : Nat) (m : CqmContent) (x e : Bytes) (wf : CqmWF parse okLabel isz dsz m)
    (hh : (dumpsDict (cqmCountsDict (cqmCounts m.erase))).length + 65 < 2 ^ 32)
    (hlen : e.length = 22) (hsig : e.take 4 = sigEOCD) (hz : e.drop 20 = [0, 0])
    (hdir : (EndRec.mk (makeHeader cqmPrefix 2 0 (cqmHeaderText (cqmCounts m.erase)) ++ x).length e).sizeCd ≤
      (makeHeader cqmPrefix 2 0 (cqmHeaderText (cqmCounts m.erase)) ++ x).length)
    (hread : readDir ⟨(makeHeader cqmPrefix 2 0 (cqmHeaderText (cqmCounts m.erase)) ++ x).length, e⟩
      ((makeHeader cqmPrefix 2 0 (cqmHeaderText (cqmCounts m.erase)) ++ x) ++ e) = some (cqmMembers isz m)) :
    cqmFileLoadW true dsz parseCqmHeader readDir parse okLabel
      (makeHeader cqmPrefix 2 0 (cqmHeaderText (cqmCounts m.erase)) ++ (x ++ e)) = .ok m.erase := by
  unfold cqmFileLoadW
  have hopen : zipOpen readDir (makeHeader cqmPrefix 2 0 (cqmHeaderText (cqmCounts m.erase)) ++ (x ++ e)) = some (cqmMembers isz m) := by
    rw [← List.append_assoc]
    exact zipOpen_full readDir _ e _ hlen hsig hz hdir hread
  rw [containerLoadW_full cqmPrefix _ (x ++ e) 2 0 parseCqmHeader _ cqmVerOk _ _ (cqm_header_ok _ hh) (by decide) hopen]
  simp only [Res.bind, cqmDecodeChecked]
  have hn : (cqmCounts m.erase).numVariables = m.varinfo.length := rfl
  rw [hn, cqmDecode_members parse okLabel isz dsz m wf]
  simp [Res.bind]

/-- **DQM files end to end with no JSON oracle**: header dictionary and `VARS` text written by the model,
    parsed by the modelled `json.loads`; `ignore_labels` and range labels give an index-labelled file. -/
theorem dqm_file_roundtrip_json (openNpz : Bytes → Option (List NpyMember)) (npz : Bytes) (ignore : Bool) (c : DqmContent)
    (labels : List FLabel) (hl : JOKs (serializeLabels labels)) (wf : DqmWF c)
    (hz : ContainerContract openNpz npz (dqmMembers c)) (hsz : npz.length < 256 ^ 4) (hn : labels.length = c.caseStarts.length)
    (hlen : (dumpsDict (dqmCountsDict (dqmCounts c) (dqmVariablesFlag ignore labels))).length + 65 < 2 ^ 32)
    (hvlen : (dumpsJ (.arr (serializeLabels labels))).length + 64 < 256 ^ nlb4) :
    (dqmDecode parseDqmHeader parseVarsReal
        (fun blob => (openNpz blob).bind fun ms => match dqmFromMembers ms with | .ok d => some d | _ => none)
        (fun d => d.caseStarts.length)).run
      (dqmEncode (dqmHeaderText (dqmCounts c) (dqmVariablesFlag ignore labels)) (dqmVariablesFlag ignore labels) npz (varsTextOf labels)) =
      .ok ((dqmCountsDict (dqmCounts c) (dqmVariablesFlag ignore labels), c,
            if dqmVariablesFlag ignore labels then some (serializeLabels labels) else none), []) :=
  dqm_file_roundtrip parseDqmHeader parseVarsReal openNpz _ npz (varsTextOf labels) _ _ c (serializeLabels labels)
    (dqm_header_ok _ _ hlen) wf hz hsz (fun _ => ⟨VarsOK_real _ hl hvlen, by rw [serializeLabels_length, hn]⟩)

/-- **the DQM loader that hands `np.load` the whole file (dimod before the D58 repair) cannot read back
    long label lists**: for EVERY file `to_file` writes whose `VARS` section `v` (any trailing bytes in
    which the end-record signature does not occur) is at least `65536 + 22` bytes long, `from_file` raises
    `BadZipFile` on the complete file: `zipfile` looks for the end record in the last `65536 + 22` bytes of
    the file, and those all belong to `v`. -/
theorem dqm_whole_file_loader_rejects_long_vars (parse : Bytes → Option (Bool × H)) (parseVars : Bytes → Option (List J))
    (readNpz : EndRec → Bytes → Option D) (nvarsOf : D → Nat) (hdrText npz v : Bytes) (labelled : Bool) (h : H)
    (hh : HeaderOK parse hdrText (labelled, h)) (hsz : npz.length < 256 ^ 4) (hmagic : npz.take 4 = sigLocal)
    (hv : ∀ i, ¬ SigAt v i) (hlen : eocdWindow ≤ v.length) :
    dqmLoad true parse parseVars readNpz nvarsOf
      (makeHeader dqmPrefix 1 1 hdrText ++ (magBIAS ++ (toLE 4 npz.length ++ (npz ++ v)))) = .err .zip :=
  dqmLoad_whole_long_tail parse parseVars readNpz nvarsOf hdrText npz v labelled h hh hsz hmagic hv hlen

/-- **with the repair** (`np.load(io.BytesIO(file_like.read(length)))`: the archive is looked for at the end of
    the blob) the complete file loads whatever the length of the `VARS` section: header, `BIAS` frame, the
    end record of the blob `x ++ e` found by the modelled `_EndRecData`, the directory reader on the complete
    blob (the contract), `VARS`. -/
theorem dqm_blob_loader_roundtrip (parse : Bytes → Option (Bool × H)) (parseVars : Bytes → Option (List J))
    (readNpz : EndRec → Bytes → Option D) (nvarsOf : D → Nat) (hdrText x e varsText : Bytes) (labelled : Bool) (h : H) (d : D)
    (labels : List J) (hh : HeaderOK parse hdrText (labelled, h)) (hsz : (x ++ e).length < 256 ^ 4) (hmagic : (x ++ e).take 4 = sigLocal)
    (hlen : e.length = 22) (hsig : e.take 4 = sigEOCD) (hz : e.drop 20 = [0, 0])
    (hdir : (EndRec.mk x.length e).sizeCd ≤ x.length) (hread : readNpz ⟨x.length, e⟩ (x ++ e) = some d)
    (hv : labelled = true → VarsOK parseVars varsText labels ∧ labels.length = nvarsOf d) :
    dqmLoad false parse parseVars readNpz nvarsOf (dqmEncode hdrText labelled (x ++ e) varsText) =
      .ok (h, d, if labelled then some labels else none) :=
  dqmLoad_blob_full parse parseVars readNpz nvarsOf hdrText x e varsText labelled h d labels hh hsz hmagic hlen hsig hz hdir hread hv

/-- the end record `zipfile` writes has the shape the search accepts, and its fields read back -/
theorem eocd_record_wellformed (count sizeCd offsetCd loc : Nat) (h1 : sizeCd < 256 ^ 4) (h2 : offsetCd < 256 ^ 4) (h3 : count < 256 ^ 2) :
    (eocdRecord count sizeCd offsetCd).length = 22 ∧ (eocdRecord count sizeCd offsetCd).take 4 = sigEOCD ∧
    (eocdRecord count sizeCd offsetCd).drop 20 = [0, 0] ∧
    (EndRec.mk loc (eocdRecord count sizeCd offsetCd)).sizeCd = sizeCd ∧
    (EndRec.mk loc (eocdRecord count sizeCd offsetCd)).offsetCd = offsetCd ∧
    (EndRec.mk loc (eocdRecord count sizeCd offsetCd)).entries = count := by
  obtain ⟨a, b, c⟩ := eocdRecord_shape count sizeCd offsetCd
  obtain ⟨d, e, f⟩ := eocdRecord_fields count sizeCd offsetCd loc h1 h2 h3
  exact ⟨a, b, c, d, e, f⟩

/-- non-vacuity: a 24-byte "archive" (two bytes, then the end record of an empty archive) is found, and
    not in its 23-byte prefix -/
example : endRecData ([1, 2] ++ eocdRecord 0 0 0) = some ⟨2, eocdRecord 0 0 0⟩ ∧
    endRecData (([1, 2] ++ eocdRecord 0 0 0).take 23) = none := by decide

/-! ## non-vacuity: the hypotheses are satisfiable (the driver's JSON oracle, a one-variable model) -/

/-- the JSON oracle of the driver satisfies the contract the theorems assume -/
example (text : Bytes) (v : α) : JsonContract (oracleParse text v) text v := oracle_contract text v

/-- a concrete QM with one INTEGER variable and a self-loop satisfies `QmWF` -/
example : QmWF (J := Nat)
    { nvars := 1, ninter := 1, dsize := 4, isize := 4, nsize := 4, vartype := 0, vars := .flag false }
    [(2, [0, 0, 0, 0], [0, 0, 224, 64])]
    { offset := [0, 0, 128, 63], linear := [[0, 0, 0, 64]], lower := [[(0, [0, 0, 64, 64])]] } := by
  constructor <;> simp [VarInfoWF, RowOK, RowWF, neigData, encInt64, encNeigh, encRec, encVarInfo, toLE_length] <;> decide

/-- a concrete BQM (two variables, one interaction, float32) satisfies `BqmWF` -/
example : BqmWF (J := Nat)
    { nvars := 2, ninter := 1, dsize := 4, isize := 4, nsize := 4, vartype := 0, vars := .flag false }
    { offset := [0, 0, 128, 63], linear := [[0, 0, 0, 64], [0, 0, 0, 0]], lower := [[], [(0, [0, 0, 64, 64])]] } := by
  constructor <;> simp [LowerOK, totalDeg] <;> decide

/-- a concrete expression (two variables, one interaction) satisfies `ExprWF` -/
example : ExprWF (J := Nat)
    { nvars := 2, ninter := 1, dsize := 8, isize := 4, nsize := 4, vartype := 0, vars := .flag false }
    { indices := [3, 0], offset := [0, 0, 0, 0, 0, 0, 240, 63], linear := [[0, 0, 0, 0, 0, 0, 0, 64], [0, 0, 0, 0, 0, 0, 0, 0]],
      quad := [(1, 0, [0, 0, 0, 0, 0, 0, 8, 64])] } := by
  constructor <;> simp [countDistinct, encQuadRec, toLE_length] <;> decide

/-- the two archive contracts are satisfiable (an "archive" that is its own byte string) -/
example (body : Bytes) : ContainerContract (fun b => if b = body then some b else none) body body :=
  ⟨by simp, fun j hj => by simp [take_ne_of_lt hj]⟩

/-! ## round 7: the ZIP container at byte level; the CQM file closed end to end -/

/-- **the modelled `zipfile` reader reads back what the modelled `zipfile` writer appended** to a file of
    `pre.length` bytes (for dimod: the header): local file headers, central directory and end record as
    `ZipFile(file, mode='a')` lays them out; `_RealGetContents` walks the directory, `ZipFile.open` checks each
    local header against it and the CRC-32 of what it read.  `ZIP_STORED` members need nothing else;
    `ZIP_DEFLATED` members only the codec contract inside `ZEntry.OK` (`inflate stored = some content`).
    This is the equation `cqm_file_roundtrip_zip` assumed of `readDir`. -/
theorem zip_reader_reads_writer (crc32 : Bytes → Nat) (inflate : Bytes → Option Bytes) (pre : Bytes) (zs : List ZEntry)
    (hz : ∀ z ∈ zs, z.OK crc32 inflate) (hcount : zs.length < 256 ^ 2)
    (hsize : pre.length + (zipLocals zs).length + (zipCD pre.length zs).length < 4294967295) :
    readDirBytes crc32 inflate
      ⟨(pre ++ (zipLocals zs ++ zipCD pre.length zs)).length,
        eocdRecord zs.length (zipCD pre.length zs).length (pre.length + (zipLocals zs).length)⟩
      ((pre ++ (zipLocals zs ++ zipCD pre.length zs)) ++
        eocdRecord zs.length (zipCD pre.length zs).length (pre.length + (zipLocals zs).length)) =
      some (zs.map fun z => (z.name, z.content)) :=
  readDirBytes_zipBytes crc32 inflate pre zs hz hcount hsize

/-- … and the whole archive opens: `_EndRecData` finds the record the writer put at the end, `_RealGetContents`
    accepts it (`concat = 0`), every member is read back. -/
theorem zip_open_reads_writer (crc32 : Bytes → Nat) (inflate : Bytes → Option Bytes) (pre : Bytes) (zs : List ZEntry)
    (hz : ∀ z ∈ zs, z.OK crc32 inflate) (hcount : zs.length < 256 ^ 2)
    (hsize : pre.length + (zipLocals zs).length + (zipCD pre.length zs).length < 4294967295) :
    zipOpen (readDirBytes crc32 inflate) (pre ++ zipBytes pre.length zs) = some (zs.map fun z => (z.name, z.content)) := by
  have h256 : (256 : Nat) ^ 4 = 4294967296 := by decide
  obtain ⟨a, b, c⟩ := eocdRecord_shape zs.length (zipCD pre.length zs).length (pre.length + (zipLocals zs).length)
  obtain ⟨d, _, _⟩ := eocdRecord_fields zs.length (zipCD pre.length zs).length (pre.length + (zipLocals zs).length)
    (pre ++ (zipLocals zs ++ zipCD pre.length zs)).length (by omega) (by omega) hcount
  have hfile : pre ++ zipBytes pre.length zs = (pre ++ (zipLocals zs ++ zipCD pre.length zs)) ++
      eocdRecord zs.length (zipCD pre.length zs).length (pre.length + (zipLocals zs).length) := by
    simp [zipBytes, List.append_assoc]
  rw [hfile]
  exact zipOpen_full _ _ _ _ a b c (by rw [d]; simp only [List.length_append]; omega) (readDirBytes_zipBytes crc32 inflate pre zs hz hcount hsize)

/-- **CQM files, closed: `load (dump cqm) = some cqm`.**  For every CQM in the format's domain (`CqmSrc.InDomain`:
    sizes agree and fit their length fields, float64 right-hand sides and weights, float labels in `repr` form,
    pairwise different constraint directory names, header dictionaries below 4 GiB) and every choice of what the
    reader ignores (`μ`: time stamps, versions, attributes, zip64-style local size fields and extra fields):
    the bytes `ConstrainedQuadraticModel.to_file(compress=…)` writes — header dictionary by the modelled
    `json.dumps`, members by the member models, local headers / central directory / end record by the byte-level
    ZIP writer — load back through the whole modelled `from_file` (`read_header`, `_EndRecData` on the whole file,
    directory walk, per-member local header and CRC-32 check, `cqmDecodeChecked` with the header consistency
    check, `json.loads` + `deserialize_variable` on every directory name and on `variable_labels.json`) to
    exactly the CQM: variable info, variable labels, objective, and every constraint's label, left-hand side,
    right-hand side, sense, discrete mark, weight and penalty, in order.
    No parse function, `okLabel` or directory reader is a parameter.  Left opaque: `crc32` (checked: the reader
    compares), and for `compress=True` the codec (`hcodec`: `inflate (deflate b) = some b`). -/
theorem cqm_file_roundtrip_closed (crc32 : Bytes → Nat) (inflate : Bytes → Option Bytes) (deflate : Option (Bytes → Bytes))
    (μ : Nat → ZMeta) (s : CqmSrc) (hd : s.InDomain)
    (hcrc : ∀ b, crc32 b < 256 ^ 4) (hcodec : ∀ d, deflate = some d → ∀ b, inflate (d b) = some b) (hμ : ∀ i, (μ i).OK)
    (hfit : ∀ m ∈ cqmMembers 4 s.content, MemberFits deflate m) (hcount : (cqmMembers 4 s.content).length < 256 ^ 2)
    (hsize : (dumpCqm crc32 deflate μ s).length < 4294967295) :
    loadCqmSrc crc32 inflate (dumpCqm crc32 deflate μ s) = some s := by
  have h256 : (256 : Nat) ^ 4 = 4294967296 := by decide
  have hzs := mkEntries_ok crc32 inflate deflate μ hcrc hcodec hμ (cqmMembers 4 s.content) 0 hfit
  have hlenz := mkEntries_length crc32 deflate μ (cqmMembers 4 s.content) 0
  generalize hzdef : mkEntries crc32 deflate μ 0 (cqmMembers 4 s.content) = zs at hzs hlenz
  have hdump : dumpCqm crc32 deflate μ s = cqmFileHeader s ++ zipBytes (cqmFileHeader s).length zs := by rw [dumpCqm, hzdef]
  rw [hdump] at hsize ⊢
  have hsz : (cqmFileHeader s).length + (zipLocals zs).length + (zipCD (cqmFileHeader s).length zs).length < 4294967295 := by
    simp only [zipBytes, List.length_append] at hsize; omega
  obtain ⟨a, b, c⟩ := eocdRecord_shape zs.length (zipCD (cqmFileHeader s).length zs).length ((cqmFileHeader s).length + (zipLocals zs).length)
  obtain ⟨d, _, _⟩ := eocdRecord_fields zs.length (zipCD (cqmFileHeader s).length zs).length ((cqmFileHeader s).length + (zipLocals zs).length)
    (cqmFileHeader s ++ (zipLocals zs ++ zipCD (cqmFileHeader s).length zs)).length (by omega) (by omega) (by omega)
  have hread : readDirChars crc32 inflate
      ⟨(cqmFileHeader s ++ (zipLocals zs ++ zipCD (cqmFileHeader s).length zs)).length,
        eocdRecord zs.length (zipCD (cqmFileHeader s).length zs).length ((cqmFileHeader s).length + (zipLocals zs).length)⟩
      ((cqmFileHeader s ++ (zipLocals zs ++ zipCD (cqmFileHeader s).length zs)) ++
        eocdRecord zs.length (zipCD (cqmFileHeader s).length zs).length ((cqmFileHeader s).length + (zipLocals zs).length)) =
      some (cqmMembers 4 s.content) := by
    unfold readDirChars
    rw [readDirBytes_zipBytes crc32 inflate (cqmFileHeader s) zs hzs (by omega) hsz, ← hzdef, mkEntries_members]
    simp only [Option.map_some]
    rw [asciiRoundtrip_members _ (cqmMembers_ascii 4 s.content fun c hc => by
      obtain ⟨c0, hc0, rfl⟩ := List.mem_map.mp hc
      exact labelText_ascii c0.label (hd.cons c0 hc0).2.2.2.2)]
  have hload := cqm_file_roundtrip_zip (readDirChars crc32 inflate) parseExprHeader (fun d => (loadsJ d).isSome) 4 8 s.content
    (zipLocals zs ++ zipCD (cqmFileHeader s).length zs)
    (eocdRecord zs.length (zipCD (cqmFileHeader s).length zs).length ((cqmFileHeader s).length + (zipLocals zs).length))
    hd.cqmWF hd.hdrLen a b c
    (by show (EndRec.mk (cqmFileHeader s ++ (zipLocals zs ++ zipCD (cqmFileHeader s).length zs)).length _).sizeCd ≤
          (cqmFileHeader s ++ (zipLocals zs ++ zipCD (cqmFileHeader s).length zs)).length
        rw [d]; simp only [List.length_append]; omega) hread
  have hfile : cqmFileHeader s ++ zipBytes (cqmFileHeader s).length zs =
      makeHeader cqmPrefix 2 0 (cqmHeaderText (cqmCounts s.content.erase)) ++ ((zipLocals zs ++ zipCD (cqmFileHeader s).length zs) ++
        eocdRecord zs.length (zipCD (cqmFileHeader s).length zs).length ((cqmFileHeader s).length + (zipLocals zs).length)) := by
    simp [zipBytes, cqmFileHeader, List.append_assoc]
  unfold loadCqmSrc loadCqm
  rw [hfile, hload]
  have hc : srcConstraints s.content.erase.constraints = some s.constraints :=
    srcConstraints_content s.constraints (fun c hc => (hd.cons c hc).2.2.2.2)
  have hl : srcLabels s.content.erase.labelsText = some s.labels := srcLabels_content s.labels hd.labelsOK
  simp only [hc, hl]
  rfl

/-- **the constants of the model are the constants of the source** (regenerated into `Generated/FileConsts.lean` by
    `harness/translators/fileconsts.py` on every run: `ast` over `ConstrainedQuadraticModel.to_file / from_file`,
    `DiscreteQuadraticModel._to_file_numpy`, `make_header`, `Section.dumps`, the loaders' version tests; the
    `Vartype` enum of `vartypes.h`; the record signatures and sizes of the `zipfile` module in use): 64-byte
    alignment of headers and sections; the archive member names in the order `to_file` writes them, which of them
    are written with `force_zip64`, the names `from_file` asks for; the npz array names in `np.savez` order; the
    expression type names; `ZIP_STORED` / `ZIP_DEFLATED`; the three ZIP record signatures and fixed sizes; the
    vartype code of `REAL`.  A change of any of them in the source breaks this theorem (and `lake build`). -/
theorem format_constants_from_source (c : DqmContent) :
    Gen.headerAlign = 64 ∧ Gen.sectionAlign = 64 ∧
    Gen.cqmMemberNames = [nmVarinfo, nmLabels, nmObjective, constraintPath ['{', '}'] fLhs, constraintPath ['{', '}'] fRhs,
      constraintPath ['{', '}'] fSense, constraintPath ['{', '}'] fDiscrete, constraintPath ['{', '}'] fWeight,
      constraintPath ['{', '}'] fPenalty] ∧
    Gen.cqmZip64Members = [nmObjective, constraintPath ['{', '}'] fLhs] ∧
    (∀ n ∈ Gen.cqmReadNames, n ∈ Gen.cqmMemberNames) ∧
    (dqmMembers c).map (·.name) = Gen.npzArrayNames ∧
    Gen.exprTypeObjective = tObjective.toList ∧ Gen.exprTypeConstraint = tConstraint.toList ∧
    Gen.zipStoredMethod = 0 ∧ Gen.cqmCompressMethod = 8 ∧
    Gen.eocdSignature = sigEOCD ∧ Gen.eocdSize = 22 ∧ Gen.localHeaderSignature = sigLocal ∧ Gen.localHeaderSize = 30 ∧
    Gen.centralDirSignature = sigCD ∧ Gen.centralDirSize = 46 ∧
    Gen.vartypeNames.length = 4 ∧ Gen.vartypeNames[vtREAL.toNat]? = some ['R', 'E', 'A', 'L'] ∧
    Gen.qmVersion = [1, 0] ∧ Gen.dqmVersion = [1, 1] ∧ Gen.bqmVersionLimit = 3 ∧ Gen.dqmVersionLimit = 2 := by
  refine ⟨by decide, by decide, by decide, by decide, by decide, by simp [dqmMembers, mStarts, mLinear, mRow, mCol, mQuad, mOffset]; decide, by decide, by decide, by decide, by decide, by decide,
    by decide, by decide, by decide, by decide, by decide, by decide, by decide, by decide, by decide, by decide, by decide⟩

/-- **`.npy` members and the `.npz` archive**: `format.read_array` (magic, version, header length, the dictionary
    `{'descr': …, 'fortran_order': False, 'shape': …, }` with its padding to a multiple of 64, exactly
    `count * itemsize` data bytes) reads back every array `np.savez` wrote, whatever follows it; and the
    archive's members `<name>.npy` come back as the arrays, in order. -/
theorem npy_roundtrip (m : NpyMember) (hm : m.OK) (rest : Bytes) (ms : List NpyMember) (hms : ∀ x ∈ ms, x.OK) :
    parseNpy m.name (npyFile m ++ rest) = some m ∧ (npyHeader m.descr m.shape).length % 64 = 0 ∧
    npzMembersOf (npzArchive ms) = some ms := by
  refine ⟨parseNpy_npyFile m hm rest, ?_, npzMembersOf_archive ms hms⟩
  simp only [npyHeader, List.length_append, toLE_length, spaces_length, List.length_cons, List.length_nil]
  have : npyMagic.length = 6 := by decide
  omega

/-- **DQM files, closed**: for every DQM content in the format's domain (`DqmWF`, every array fits its `.npy` header:
    `NpyMember.OK`), every label list (floats in `repr` form) and both values of `ignore_labels` / `compress`:
    the bytes `DiscreteQuadraticModel.to_file` writes — header dictionary, `BIAS` frame, `.npy` headers and data,
    ZIP local headers / central directory / end record, `VARS` — load back through the whole modelled `from_file`
    (the loader that hands `np.load` the `BIAS` section) to the header dictionary, the DQM content and the labels.
    Nothing is a parameter except `crc32` (checked) and, for `compress=True`, the codec contract. -/
theorem dqm_file_roundtrip_closed (crc32 : Bytes → Nat) (inflate : Bytes → Option Bytes) (deflate : Option (Bytes → Bytes))
    (μ : Nat → ZMeta) (ignore : Bool) (c : DqmContent) (labels : List FLabel)
    (wf : DqmWF c) (hnpy : ∀ m ∈ dqmMembers c, m.OK) (hl : JOKs (serializeLabels labels)) (hn : labels.length = c.caseStarts.length)
    (hcrc : ∀ b, crc32 b < 256 ^ 4) (hcodec : ∀ d, deflate = some d → ∀ b, inflate (d b) = some b) (hμ : ∀ i, (μ i).OK)
    (hfit : ∀ m ∈ npzArchive (dqmMembers c), MemberFits deflate m)
    (hsize : dqmBlobBase ignore c labels + (npzBytes crc32 deflate μ (dqmBlobBase ignore c labels) (dqmMembers c)).length < 4294967295)
    (hlen : (dumpsDict (dqmCountsDict (dqmCounts c) (dqmVariablesFlag ignore labels))).length + 65 < 2 ^ 32)
    (hvlen : (dumpsJ (.arr (serializeLabels labels))).length + 64 < 256 ^ nlb4) :
    loadDqm crc32 inflate (dumpDqm crc32 deflate μ ignore c labels) =
      .ok (dqmCountsDict (dqmCounts c) (dqmVariablesFlag ignore labels), c,
           if dqmVariablesFlag ignore labels then some (serializeLabels labels) else none) := by
  obtain ⟨x, e, hxe, h22, hsig, hz, hdir, hmagic, _, hread⟩ :=
    readDqmBlob_npz crc32 inflate deflate μ (dqmBlobBase ignore c labels) c wf hnpy hcrc hcodec hμ hfit hsize
  unfold loadDqm dumpDqm
  rw [hxe]
  have h256 : (256 : Nat) ^ 4 = 4294967296 := by decide
  exact dqm_blob_loader_roundtrip parseDqmHeader parseVarsReal (readDqmBlob crc32 inflate) (fun d => d.caseStarts.length) _ x e
    (varsTextOf labels) _ _ c (serializeLabels labels) (dqm_header_ok _ _ hlen) (by rw [← hxe]; omega) hmagic h22 hsig hz hdir hread
    (fun _ => ⟨VarsOK_real _ hl hvlen, by rw [serializeLabels_length, hn]⟩)

/-- **the domain of `cqm_file_roundtrip_closed` is decidable** (for labels without floats): the Boolean check
    `CqmSrc.domainB` evaluates every conjunct of `CqmSrc.InDomain` and is sound for it. -/
theorem cqm_domain_check_sound (s : CqmSrc) (h : s.domainB = true) : s.InDomain := s.domainB_sound h

/-- non-vacuity of `cqm_file_roundtrip_closed`: a concrete CQM (one binary variable, objective `x + 2`, a hard constraint
    labelled `"c0"` and a soft, discrete-marked one labelled `("a", 1)`) passes the decidable domain check, its members
    fit the directory fields, the ignored header fields of `zipfile` are admissible, and the file is below 4 GiB -/
example : exCqm.domainB = true ∧ (∀ i, (exMeta i).OK) ∧
    (∀ m ∈ cqmMembers 4 exCqm.content, m.1.length < 256 ^ 2 ∧ m.2.length < 256 ^ 4 - 1) ∧
    (cqmMembers 4 exCqm.content).length = 11 ∧ (dumpCqm exCrc none exMeta exCqm).length < 4294967295 ∧ (∀ b, exCrc b < 256 ^ 4) := by
  refine ⟨by decide +kernel, exMeta_ok, by decide +kernel, by decide +kernel, by decide +kernel, fun b => ?_⟩
  unfold exCrc; omega

/-- … hence the closed theorem applies to it: the file loads back to the model -/
example : loadCqmSrc exCrc (fun _ => none) (dumpCqm exCrc none exMeta exCqm) = some exCqm :=
  cqm_file_roundtrip_closed exCrc (fun _ => none) none exMeta exCqm (exCqm.domainB_sound (by decide +kernel))
    (fun b => by unfold exCrc; omega) (fun d hd => by simp at hd) exMeta_ok
    (fun m hm => memberFits_none m ((by decide +kernel : ∀ m ∈ cqmMembers 4 exCqm.content, m.1.length < 256 ^ 2 ∧ m.2.length < 256 ^ 4 - 1) m hm).1
      ((by decide +kernel : ∀ m ∈ cqmMembers 4 exCqm.content, m.1.length < 256 ^ 2 ∧ m.2.length < 256 ^ 4 - 1) m hm).2)
    (by decide +kernel) (by decide +kernel)

/-- non-vacuity of `dqm_file_roundtrip_closed` / `npy_roundtrip`: the six arrays of a concrete DQM (one variable, two
    cases) satisfy the `.npy` side conditions (checked by the Boolean `NpyMember.okB`), and its content is well formed -/
example : (∀ m ∈ dqmMembers exDqm, m.okB = true) ∧ (∀ m ∈ dqmMembers exDqm, m.OK) := by
  have h : ∀ m ∈ dqmMembers exDqm, m.okB = true := by decide +kernel
  exact ⟨h, fun m hm => m.okB_sound (h m hm)⟩

example : DqmWF exDqm := by
  constructor <;> simp [exDqm, exF8, LowerOK, startsBad] <;> decide

/-! ## round 8: the repaired CQM loader (`_open_archive` compares the local headers with the directory) loses no valid file -/

/-- **the round-8 repair refuses no written file and changes no loaded model**: on the complete bytes `to_file` writes, the
    modelled `from_file` with the repaired opener (`cqmFileLoadTiled`: `read_header`, version test, `_open_archive` at the
    position the header reader stopped at — end-record search, directory loop, walk over the local headers comparing
    signature, name and recorded size with the directory, `pos == start_dir` —, members, decoding, header check) returns
    exactly what the loader of `cqm_file_roundtrip_closed` returns; so `load (dump cqm) = some cqm` holds for the loader
    dimod has now.  Needed of the members beyond `ZEntry.OK`: each local header records the size of its data (`LocalOK`:
    directly, or `0xFFFFFFFF` + zip64 extra for the members written with `force_zip64=True`; evaluated by the driver on the
    archive of every generated file, op `ziplocalok`). -/
theorem cqm_file_roundtrip_repaired_loader (crc32 : Bytes → Nat) (inflate : Bytes → Option Bytes) (deflate : Option (Bytes → Bytes))
    (μ : Nat → ZMeta) (s : CqmSrc) (hlen : (dumpsDict (cqmCountsDict (cqmCounts s.content.erase))).length + 65 < 2 ^ 32)
    (hz : ∀ z ∈ mkEntries crc32 deflate μ 0 (cqmMembers 4 s.content), z.OK crc32 inflate)
    (hl : ∀ z ∈ mkEntries crc32 deflate μ 0 (cqmMembers 4 s.content), z.LocalOK)
    (hcount : (mkEntries crc32 deflate μ 0 (cqmMembers 4 s.content)).length < 256 ^ 2)
    (hsize : (dumpCqm crc32 deflate μ s).length < 4294967295) :
    cqmFileLoadTiled true 8 parseCqmHeader crc32 inflate parseExprHeader (fun d => (loadsJ d).isSome) (dumpCqm crc32 deflate μ s) =
      loadCqm crc32 inflate (dumpCqm crc32 deflate μ s) :=
  cqmFileLoadTiled_full_eq crc32 inflate deflate μ s hlen hz hl hcount hsize

end C09
