import DimodProofs.GenProofs
import DimodProofs.MultComplete
import DimodProofs.RandomGen
import DimodProofs.GenProofs2
import DimodProofs.GenProofs3
import DimodModel.GenTables
import DimodModel.GenPurity
import DimodProofs.RandomCycle

/-! # C17 — problem generators encode exactly the relation they document

Models: `DimodModel/Generators.lean` (namespace `Gen`), coefficient tables in `Generated/Gates.lean`
(rewritten from `dimod/generators/gates.py` on every run by `harness/translators/c17_gates.py`).
`evalBag x bag` is the energy of the model the generator returns, at sample `x` (`Pen.apply_energy`). -/

namespace C17
open Pen Gen GateTable Generated.Gates

/-! ## generated gate tables: finite truth tables (`decide +kernel`, no axioms beyond the usual three) -/

theorem and_gate_table : GateSpec andBinary [0, 1] 3 0 GateKind.and.rel := by decide +kernel
theorem or_gate_table : GateSpec orBinary [0, 1] 3 0 GateKind.or.rel := by decide +kernel
theorem xor_gate_table : GateSpec xorBinary [0, 1] 3 1 GateKind.xor.rel := by decide +kernel
theorem halfadder_gate_table : GateSpec halfadderBinary [0, 1] 4 0 GateKind.halfadder.rel := by decide +kernel
theorem fulladder_gate_table : GateSpec fulladderBinary [0, 1] 5 0 GateKind.fulladder.rel := by decide +kernel

/-- the same tables after `change_vartype('SPIN')`, on ±1 values -/
theorem and_gate_table_spin : GateSpec andSpin [-1, 1] 3 0 (spinRel GateKind.and.rel) := by decide +kernel
theorem or_gate_table_spin : GateSpec orSpin [-1, 1] 3 0 (spinRel GateKind.or.rel) := by decide +kernel
theorem xor_gate_table_spin : GateSpec xorSpin [-1, 1] 3 1 (spinRel GateKind.xor.rel) := by decide +kernel
theorem halfadder_gate_table_spin : GateSpec halfadderSpin [-1, 1] 4 0 (spinRel GateKind.halfadder.rel) := by decide +kernel
theorem fulladder_gate_table_spin : GateSpec fulladderSpin [-1, 1] 5 0 (spinRel GateKind.fulladder.rel) := by decide +kernel

/-- every generated table is well formed (one linear bias per variable, interactions inside the table) -/
theorem tables_wf : ∀ t ∈ [andBinary, orBinary, xorBinary, halfadderBinary, fulladderBinary,
                           andSpin, orSpin, xorSpin, halfadderSpin, fulladderSpin, spinProduct], t.WF = true := by decide +kernel

/-! ## any labels, any strength -/

/-- `scale_energy` + `relabel_eval`: the model a gate generator returns has, at every sample, `strength ×`
    the table energy at the values of the labelled variables -/
theorem scale_relabel_eval (t : GateTable) (labels : List Label) (s : Rat) (x : Label → Rat) :
    evalBag x (tableBag t labels s) = s * t.energy (fun j => x (labels.getD j (.int 0))) := tableBag_eval t labels s x

theorem gate_spec (k : GateKind) : GateSpec k.table [0, 1] k.nvis k.naux k.rel := by
  cases k
  · exact and_gate_table
  · exact or_gate_table
  · exact xor_gate_table
  · exact halfadder_gate_table
  · exact fulladder_gate_table

/-- **gate generators** (`and_gate`, `or_gate`, `xor_gate`, `halfadder_gate`, `fulladder_gate`): whenever the
    call succeeds (distinct labels, positive strength), at every 0/1 sample the energy is ≥ 0, it is
    ≥ strength when the visible variables violate the truth table (whatever the auxiliary), it can be 0
    only on the truth table, and on the truth table some auxiliary value makes it 0 -/
theorem gate_correct (k : GateKind) (labels : List Label) (s : Rat) (bag : List (PTerm Label)) (h : gate k labels s = some bag)
    (x : Label → Rat) (hx : ∀ l ∈ labels, x l ∈ [(0 : Rat), 1]) :
    let e := evalBag x bag
    let vis := (labels.take k.nvis).map x
    0 ≤ e ∧ (k.rel vis = false → s ≤ e) ∧ (e = 0 → k.rel vis = true)
    ∧ (k.rel vis = true → ∃ a ∈ assignments [0, 1] k.naux, s * k.table.energy (ofList (vis ++ a)) = 0) := by
  unfold gate at h
  split at h
  · simp at h
  · rename_i hlen
    split at h
    · simp at h
    · split at h
      · simp at h
      · rename_i hs
        simp only [Option.some.injEq] at h
        subst h
        have hwf : k.table.WF = true := by cases k <;> decide +kernel
        have hn : k.table.n = k.nvis + k.naux := by cases k <;> rfl
        have hlen' : labels.length = k.nvis + k.naux := by
          have : labels.length = k.table.n := by simpa using hlen
          omega
        have := gate_lift k.table [0, 1] k.nvis k.naux k.rel (gate_spec k) hwf hn labels hlen' s (Rat.not_le.1 hs) x hx
        exact ⟨this.1, this.2.1, this.2.2.2, this.2.2.1⟩

/-- the generators refuse exactly: wrong arity, repeated labels, non-positive strength -/
theorem gate_refuses_iff (k : GateKind) (labels : List Label) (s : Rat) :
    gate k labels s = none ↔ (labels.length ≠ k.table.n ∨ hasDup labels = true ∨ s ≤ 0) := by
  unfold gate
  split
  · simp_all
  · split
    · simp_all
    · split <;> simp_all

/-! ## circuits -/

/-- **any circuit of auxiliary-free gates** (and / or / half adder / full adder at strength 1): the total
    energy at a 0/1 sample is 0 iff every gate's relation holds, and at least 1 otherwise -/
theorem gates_sum_zero_iff_all_satisfied (gs : List (GateKind × List Label))
    (hgs : ∀ g ∈ gs, g.2.length = g.1.table.n ∧ g.1.naux = 0)
    (x : Label → Rat) (hx : ∀ v, x v ∈ [(0 : Rat), 1]) :
    (evalBag x (circuitBag gs) = 0 ↔ ∀ g ∈ gs, g.1.rel (g.2.map x) = true)
    ∧ (evalBag x (circuitBag gs) ≠ 0 → 1 ≤ evalBag x (circuitBag gs)) := by
  rw [evalBag_circuit]
  have hg : ∀ g ∈ gs, let e := evalBag x (gateBag g.1.table g.2 1)
      0 ≤ e ∧ (e = 0 ↔ g.1.rel (g.2.map x) = true) ∧ (e ≠ 0 → 1 ≤ e) := by
    intro g hmem
    obtain ⟨hl, ha⟩ := hgs g hmem
    have hwf : g.1.table.WF = true := by cases g.1 <;> decide +kernel
    have hspec : GateSpec g.1.table [0, 1] g.1.table.n 0 g.1.rel := by
      have := gate_spec g.1
      have hv : g.1.nvis = g.1.table.n := by unfold GateKind.nvis; rw [ha]; rfl
      rw [hv, ha] at this; exact this
    exact gate_lift0 g.1.table [0, 1] g.1.rel hspec hwf g.2 hl 1 (by decide) x (fun l _ => hx l)
  have hs := sum_zero_iff (gs.map (fun g => evalBag x (gateBag g.1.table g.2 1)))
    (by intro e he; simp only [List.mem_map] at he; obtain ⟨g, hm, rfl⟩ := he; exact (hg g hm).1)
    (by intro e he; simp only [List.mem_map] at he; obtain ⟨g, hm, rfl⟩ := he; exact (hg g hm).2.2)
  refine ⟨?_, hs.2.1⟩
  rw [hs.1]
  simp only [List.mem_map, forall_exists_index, and_imp, forall_apply_eq_imp_iff₂]
  constructor
  · intro h g hm; exact ((hg g hm).2.1).1 (h g hm)
  · intro h g hm; exact ((hg g hm).2.1).2 (h g hm)

/-- `multiplication_circuit(n, m)`, gate level: energy 0 ⇔ every AND / half-adder / full-adder of the wiring
    is satisfied, ≥ 1 otherwise — for all sizes.  That the satisfied wirings are exactly `a·b = p` is
    `multiplication_circuit_zero_iff_product` below (all `n, m ≥ 2`); it is *false* when an argument has one
    bit (D36: the product bits are not named `p1, …`). -/
theorem multiplication_circuit_gate_level (n m : Nat) (gs : List (GateKind × List Label)) (h : mulCircuit n m = some gs)
    (x : Label → Rat) (hx : ∀ v, x v ∈ [(0 : Rat), 1]) :
    (evalBag x (circuitBag gs) = 0 ↔ ∀ g ∈ gs, g.1.rel (g.2.map x) = true)
    ∧ (evalBag x (circuitBag gs) ≠ 0 → 1 ≤ evalBag x (circuitBag gs)) :=
  gates_sum_zero_iff_all_satisfied gs (mulCircuit_lengths n m gs h) x hx

/-- **the array multiplies (all `n, m ≥ 2`)**: at a 0/1 sample of energy 0 the product bits `p0 … p(n+m-1)`
    encode the product of the numbers on `a0 … a(n-1)` and `b0 … b(m-1)`; at every 0/1 sample whose product
    bits are *not* that product the energy is at least 1 — whatever the internal wires are -/
theorem multiplication_circuit_sound (n m : Nat) (hn : 2 ≤ n) (hm : 2 ≤ m) (gs : List (GateKind × List Label))
    (h : mulCircuit n m = some gs) (x : Label → Rat) (hx : ∀ v, x v ∈ [(0 : Rat), 1]) :
    (evalBag x (circuitBag gs) = 0 → pVal x (n + m) = aVal x n * bVal x m)
    ∧ (pVal x (n + m) ≠ aVal x n * bVal x m → 1 ≤ evalBag x (circuitBag gs)) := by
  obtain ⟨h1, h2⟩ := multiplication_circuit_gate_level n m gs h x hx
  have hs : evalBag x (circuitBag gs) = 0 → pVal x (n + m) = aVal x n * bVal x m :=
    fun h0 => mulCircuit_sound n m hn hm gs h x (h1.1 h0)
  exact ⟨hs, fun hne => h2 (fun h0 => hne (hs h0))⟩

/-- **and every product is reachable**: for all operand bits there is a 0/1 sample carrying them with
    energy 0 (so its product bits encode `a·b`) -/
theorem multiplication_circuit_complete (n m : Nat) (hn : 2 ≤ n) (hm : 2 ≤ m) (gs : List (GateKind × List Label))
    (h : mulCircuit n m = some gs) (A B : Nat → Rat) (hA : ∀ i, A i ∈ [(0 : Rat), 1]) (hB : ∀ j, B j ∈ [(0 : Rat), 1]) :
    ∃ x : Label → Rat, (∀ l, x l ∈ [(0 : Rat), 1]) ∧ (∀ i, x (aLabel i) = A i) ∧ (∀ j, x (bLabel j) = B j)
      ∧ evalBag x (circuitBag gs) = 0 ∧ pVal x (n + m) = wsum A n * wsum B m := by
  obtain ⟨x, hx, ha, hb, hsat⟩ := mulCircuit_complete n m hn hm gs h A B hA hB
  have h0 : evalBag x (circuitBag gs) = 0 := (multiplication_circuit_gate_level n m gs h x hx).1.2 hsat
  refine ⟨x, hx, ha, hb, h0, ?_⟩
  rw [mulCircuit_sound n m hn hm gs h x hsat]
  unfold aVal bVal
  rw [wsum_congr _ A n (fun i _ => ha i), wsum_congr _ B m (fun j _ => hb j)]

/-- **`multiplication_circuit(n, m)`, all `n, m ≥ 2`: energy 0 ⇔ `p = a·b`, minimised over the internal
    wires.**  Fix the values of the operand and product variables (those of `x₀`).  Some 0/1 assignment of
    the remaining (internal) variables has energy 0 iff the product bits encode the product of the operands;
    otherwise every assignment of the internal variables has energy ≥ 1. -/
theorem multiplication_circuit_zero_iff_product (n m : Nat) (hn : 2 ≤ n) (hm : 2 ≤ m) (gs : List (GateKind × List Label))
    (h : mulCircuit n m = some gs) (x₀ : Label → Rat) (hx₀ : ∀ v, x₀ v ∈ [(0 : Rat), 1]) :
    let Agree (x : Label → Rat) : Prop :=
      (∀ i, i < n → x (aLabel i) = x₀ (aLabel i)) ∧ (∀ j, j < m → x (bLabel j) = x₀ (bLabel j))
      ∧ (∀ k, k < n + m → x (pLabel k) = x₀ (pLabel k))
    ((∃ x, (∀ v, x v ∈ [(0 : Rat), 1]) ∧ Agree x ∧ evalBag x (circuitBag gs) = 0)
        ↔ pVal x₀ (n + m) = aVal x₀ n * bVal x₀ m)
    ∧ (pVal x₀ (n + m) ≠ aVal x₀ n * bVal x₀ m →
        ∀ x, (∀ v, x v ∈ [(0 : Rat), 1]) → Agree x → 1 ≤ evalBag x (circuitBag gs)) := by
  intro Agree
  have transfer : ∀ x, Agree x → (pVal x (n + m) = pVal x₀ (n + m) ∧ aVal x n = aVal x₀ n ∧ bVal x m = bVal x₀ m) := by
    intro x hag
    exact ⟨wsum_congr _ _ _ hag.2.2, wsum_congr _ _ _ hag.1, wsum_congr _ _ _ hag.2.1⟩
  refine ⟨⟨?_, ?_⟩, ?_⟩
  · rintro ⟨x, hx, hag, h0⟩
    obtain ⟨e1, e2, e3⟩ := transfer x hag
    rw [← e1, ← e2, ← e3]
    exact (multiplication_circuit_sound n m hn hm gs h x hx).1 h0
  · intro hprod
    obtain ⟨x, hx, ha, hb, h0, hp⟩ := multiplication_circuit_complete n m hn hm gs h
      (fun i => x₀ (aLabel i)) (fun j => x₀ (bLabel j)) (fun i => hx₀ _) (fun j => hx₀ _)
    refine ⟨x, hx, ⟨fun i _ => ha i, fun j _ => hb j, ?_⟩, h0⟩
    have : wsum (fun k => x (pLabel k)) (n + m) = wsum (fun k => x₀ (pLabel k)) (n + m) := by
      have h2 := hprod
      unfold pVal aVal bVal at h2
      unfold pVal at hp
      rw [hp, h2]
    exact wsum_inj _ _ _ (fun k _ => hx _) (fun k _ => hx₀ _) this
  · intro hne x hx hag
    obtain ⟨e1, e2, e3⟩ := transfer x hag
    exact (multiplication_circuit_sound n m hn hm gs h x hx).2 (by rw [e1, e2, e3]; exact hne)

/-! ## random generators: the deterministic post-processing of an explicit draw stream

`DimodModel/RandomGen.lean` (namespace `Rnd`): the NumPy generator is a contract — a stream `σ` of the scalars
it returns, in consumption order (recorded by the harness and handed to the models) — and everything dimod
does with the draws is modelled as coded. -/

open Rnd in
/-- `uniform` / `randint`: **biases only on the declared graph** — the linear calls are exactly the node list,
    the quadratic calls exactly the edge list, in order -/
theorem random_graph_biases_on_declared_graph (vars : List Label) (edges : List (Label × Label)) (σ : Stream) :
    (∀ t ∈ (graphGen vars edges σ).1, OnGraph vars edges t)
    ∧ ((graphGen vars edges σ).1.filterMap (fun t => match t with | .lin v _ => some v | _ => none)) = vars
    ∧ ((graphGen vars edges σ).1.filterMap (fun t => match t with | .quad u v _ => some (u, v) | _ => none)) = edges :=
  graphGen_on_graph vars edges σ

open Rnd in
/-- `uniform` / `randint`: **each bias is one of the consumed draws, hence in the declared range when the draws are** -/
theorem random_graph_biases_in_range (vars : List Label) (edges : List (Label × Label)) (σ : Stream) (lo hi : Rat)
    (hσ : ∀ i, i < (graphGen vars edges σ).2 → lo ≤ σ i ∧ σ i ≤ hi) :
    ∀ t ∈ (graphGen vars edges σ).1, lo ≤ coef t ∧ coef t ≤ hi := graphGen_in_range vars edges σ lo hi hσ

open Rnd in
/-- `uniform` / `randint`: **same stream ⇒ same model** (only `len(variables) + len(edges) + 1` scalars matter) -/
theorem random_graph_same_stream (vars : List Label) (edges : List (Label × Label)) (σ τ : Stream)
    (h : ∀ i, i < vars.length + edges.length + 1 → σ i = τ i) : graphGen vars edges σ = graphGen vars edges τ :=
  graphGen_same_stream vars edges σ τ h

open Rnd in
/-- `ran_r` / `power_r`: on the declared graph, linear biases and offset 0, interactions integers of
    `{-r, …, -1, 1, …, r}` given index draws `< 2r`; refused exactly for `r < 1` -/
theorem ran_r_spec (r : Nat) (vars : List Label) (edges : List (Label × Label)) (σ : Stream)
    (bag : List (PTerm Label)) (k : Nat) (h : ranR r vars edges σ = some (bag, k))
    (hσ : ∀ i, i < edges.length → idxOf (σ i) < 2 * r) :
    k = edges.length ∧ 1 ≤ r
    ∧ (∀ t ∈ bag, OnGraph vars edges t)
    ∧ (∀ t ∈ bag, match t with
        | .const c => c = 0
        | .lin _ c => c = 0
        | .quad _ _ c => ∃ z : Int, c = (z : Rat) ∧ 1 ≤ z.natAbs ∧ z.natAbs ≤ r) :=
  ranR_spec r vars edges σ bag k h hσ

open Rnd in
theorem ran_r_same_stream (r : Nat) (vars : List Label) (edges : List (Label × Label)) (σ τ : Stream)
    (h : ∀ i, i < edges.length → σ i = τ i) : ranR r vars edges σ = ranR r vars edges τ := ranR_same_stream r vars edges σ τ h

open Rnd in
/-- `doped`: variables = ends of the edges with linear bias 0, every interaction `±1`, one draw per edge -/
theorem doped_spec (edges : List (Label × Label)) (σ : Stream) :
    (doped edges σ).2 = edges.length
    ∧ ∀ t ∈ (doped edges σ).1, match t with
        | .const _ => False
        | .lin v c => c = 0 ∧ ∃ e ∈ edges, v = e.1 ∨ v = e.2
        | .quad u v c => (u, v) ∈ edges ∧ (c = 1 ∨ c = -1) := Rnd.doped_spec edges σ

open Rnd in
theorem doped_same_stream (edges : List (Label × Label)) (σ τ : Stream) (h : ∀ i, i < edges.length → σ i = τ i) :
    doped edges σ = doped edges τ := Rnd.doped_same_stream edges σ τ h

open Rnd in
/-- `gnm_random_bqm`: **exactly `min(num_interactions, n(n−1)/2)` interactions**, each between positions
    `ui < vi < n`, a sub-list of the row-ordered pairs (so pairwise different), for every stream within the
    `randint` contract -/
theorem gnm_selects_exactly (n numInter : Nat) (σ : Stream)
    (hσ : ∀ j, j < n * (n - 1) / 2 → σ (n + min (n * (n - 1) / 2) numInter + j) < (((n * (n - 1) / 2 - j : Nat)) : Rat)) :
    let m := min (n * (n - 1) / 2) numInter
    let sel := if m = 0 then (([] : List (Nat × Nat)), n + m) else gnmLoop m σ (pairsRow n) 0 (n + m)
    sel.1.length = m ∧ sel.1.Sublist (pairsRow n) ∧ (∀ p ∈ sel.1, p.1 < p.2 ∧ p.2 < n) :=
  Rnd.gnm_selects_exactly n numInter σ hσ

open Rnd in
/-- `gnm_random_bqm`: **every set of `m` pairs is reachable** by draws within the `randint` contract — the
    interactions really depend on the stream (this is what D39 violated) -/
theorem gnm_every_pair_set_reachable (m : Nat) (pairs T : List (Nat × Nat)) (hT : T.Sublist pairs) (k : Nat) (hk : k < m)
    (hlen : T.length = m - k) :
    ∃ d : List Nat, d.length = pairs.length ∧ (∀ j, j < pairs.length → d.getD j 0 < pairs.length - j)
      ∧ ∀ (σ : Stream) (pos : Nat), (∀ j, j < pairs.length → σ (pos + j) = ((d.getD j 0 : Nat) : Rat)) →
          (gnmLoop m σ pairs k pos).1 = T := gnmLoop_reachable m pairs T hT k hk hlen

open Rnd in
theorem gnm_same_stream (labels : List Label) (numInter : Nat) (σ τ : Stream)
    (h : ∀ i, i < (gnm labels numInter σ).2 → σ i = τ i) : gnm labels numInter σ = gnm labels numInter τ :=
  Rnd.gnm_same_stream labels numInter σ τ h

open Rnd in
/-- `gnp_random_bqm`: pairs are `v < w < n`; none when no draw is `< p` (`p = 0`); all when every draw is `< p`
    (`p = 1`); same stream ⇒ same pairs -/
theorem gnp_pairs (n : Nat) (p : Rat) (σ : Stream) :
    (∀ e ∈ gnpRows n p σ n 0, e.1 < e.2 ∧ e.2 < n)
    ∧ ((∀ i, ¬ σ i < p) → gnpRows n p σ n 0 = [])
    ∧ ((∀ i, σ i < p) → ∀ e, e ∈ gnpRows n p σ n 0 ↔ (e.1 < e.2 ∧ e.2 < n))
    ∧ (∀ τ : Stream, (∀ i, i < n * n → σ i = τ i) → gnpRows n p σ n 0 = gnpRows n p τ n 0) := by
  refine ⟨fun e he => (gnpRows_mem n p σ n 0 (Nat.le_refl _) e he).2, fun h => gnpRows_none n p σ h n 0, ?_, ?_⟩
  · intro h e
    rw [gnpRows_all n p σ h n 0 (Nat.le_refl _) e]
    simp
  · intro τ h
    exact gnpRows_congr n p σ τ n 0 (Nat.le_refl _) (fun i _ hi => h i (by simpa using hi))

open Rnd in
/-- the random knapsacks: the data are the draws (value `σ i`, weight `σ (n+i)`, for `random_multi_knapsack` the
    capacities `σ (2n+j)`), `random_knapsack`'s capacity is `⌊Σ weights · ratio⌋`; same stream ⇒ same model -/
theorem random_knapsacks_spec (n bins : Nat) (ratio cap : Rat) (σ τ : Stream) :
    (randomKnapsack n ratio σ).1
        = knapsack (takeS σ 0 n) (takeS σ n n) ((((takeS σ n n).foldl (· + ·) 0 * ratio).floor : Int) : Rat)
    ∧ ((∀ i, i < 2 * n → σ i = τ i) → randomKnapsack n ratio σ = randomKnapsack n ratio τ)
    ∧ ((∀ i, i < 2 * n + bins → σ i = τ i) → randomMultiKnapsack n bins σ = randomMultiKnapsack n bins τ)
    ∧ ((∀ i, i < n → σ i = τ i) → randomBinPacking n cap σ = randomBinPacking n cap τ) :=
  ⟨rfl, randomKnapsack_same_stream n ratio σ τ, randomMultiKnapsack_same_stream n bins σ τ, randomBinPacking_same_stream n cap σ τ⟩

/-! ## combinations(n, k): `strength·(Σx − k)²` for every n, k -/

theorem combinations_energy (labels : List Label) (k : Int) (s : Rat) (x : Label → Rat) (hx : Dom .binary x) :
    evalBag x (combBinaryBag labels k s) = s * ((vsum x labels - (k : Rat)) * (vsum x labels - (k : Rat))) :=
  combBinary_eval x hx s k labels

theorem combinations_energy_spin (labels : List Label) (k : Int) (s : Rat) (x : Label → Rat) (hx : Dom .spin x) :
    evalBag x (toSpinBag (combBinaryBag labels k s))
      = s * ((vsum (viewSample .binary x) labels - (k : Rat)) * (vsum (viewSample .binary x) labels - (k : Rat))) :=
  combSpin_eval x hx s k labels

/-- hence (0/1 sample, `strength ≥ 0`): energy 0 iff exactly `k` variables are selected, at least `strength` otherwise -/
theorem combinations_zero_iff (labels : List Label) (k : Int) (s : Rat) (hs : 0 ≤ s) (z : Label → Int) (hz : Bin01 z) :
    (icount z labels = k → evalBag (toRat z) (combBinaryBag labels k s) = 0)
    ∧ (icount z labels ≠ k → s ≤ evalBag (toRat z) (combBinaryBag labels k s)) := by
  have he : evalBag (toRat z) (combBinaryBag labels k s)
      = s * ((((icount z labels - k) * (icount z labels - k) : Int)) : Rat) := by
    rw [combBinary_eval (toRat z) (dom_toRat z hz), vsum_cast]
    simp [Rat.intCast_sub, Rat.intCast_mul]
  rw [he]
  constructor
  · intro h; exact (penalty_gap s hs _).1 (by omega)
  · intro h; exact (penalty_gap s hs _).2 (by omega)

theorem combinations_refuses_iff (labels : List Label) (k : Int) (s : Rat) (vt : VT) :
    Gen.combinations labels k s vt = none ↔ (k > labels.length ∨ k < 0) := by
  unfold Gen.combinations
  split
  · simp_all
  · cases vt <;> simp_all

/-! ## independent-set family -/

/-- `independent_set`: number of edges (by list multiplicity) with both ends selected -/
theorem independent_set_energy (edges : List (Label × Label)) (nodes : List Label) (bag : List (PTerm Label))
    (h : independentSet edges nodes = some bag) (x : Label → Rat) : evalBag x bag = edgeSum x edges := by
  unfold independentSet at h
  split at h
  · simp at h
  · simp only [Option.some.injEq] at h; subst h
    rw [evalBag_append, evalBag_edges, evalBag_zeros]; grind

/-- `maximum_weight_independent_set` (and `maximum_independent_set`): `strength × violated edges − selected weight`,
    for every graph and weights, with the strength the code derives (`max weight × multiplier` unless given) -/
theorem mwis_energy (edges : List (Label × Label)) (nodes : Option (List (Label × Rat))) (strength : Option Rat) (mult : Rat)
    (bag : List (PTerm Label)) (h : mwis edges nodes strength mult = some bag) (x : Label → Rat) :
    let w := match nodes with | none => (edgeVars edges).map (fun v => (v, (1 : Rat))) | some ns => mwisWeights edges ns
    let maxw : Rat := match nodes with | none => 1 | some _ => maxRat (w.map (·.2))
    let s := match strength with | some s => s | none => maxw * mult
    evalBag x bag = s * edgeSum x edges - lsum x w := by
  unfold mwis at h
  split at h
  · simp at h
  · simp only [Option.some.injEq] at h; subst h
    intro w maxw s
    rw [evalBag_append, evalBag_edges, evalBag_weights]; grind

/-! ## knapsack, multi_knapsack, bin_packing -/

theorem knapsack_objective (values weights : List Rat) (cap : Rat) (q : GCqm) (h : knapsack values weights cap = some q) (x : Label → Rat) :
    evalBag x q.obj = - isumBy x xI (enumFrom values) := by
  unfold knapsack at h
  split at h
  · simp at h
  · simp only [Option.some.injEq] at h; subst h
    exact evalBag_linBy_neg x xI _

/-- feasible ⇔ total selected weight within capacity -/
theorem knapsack_feasible_iff (values weights : List Rat) (cap : Rat) (q : GCqm) (h : knapsack values weights cap = some q) (x : Label → Rat) :
    q.feasible x ↔ isumBy x xI (enumFrom weights) ≤ cap := by
  unfold knapsack at h
  split at h
  · simp at h
  · simp only [Option.some.injEq] at h; subst h
    simp only [GCqm.feasible, List.mem_singleton, forall_eq, GCons.holds, evalBag_append, evalBag_linBy, evalBag, PTerm.eval]
    constructor <;> intro h <;> grind

/-- `bin_packing` objective = number of open bins -/
theorem binpacking_objective (weights : List Rat) (cap : Rat) (x : Label → Rat) :
    evalBag x (binPacking weights cap).obj = rangeSum x yJ (List.range weights.length) := evalBag_ones x yJ _

/-- `bin_packing` feasible ⇔ every item is in exactly one bin and every bin's load is within `capacity·y_j`
    (so a bin holding positive weight is open) -/
theorem binpacking_feasible_iff (weights : List Rat) (cap : Rat) (x : Label → Rat) :
    (binPacking weights cap).feasible x ↔
      (∀ i ∈ List.range weights.length, rangeSum x (xIJ i) (List.range weights.length) = 1)
      ∧ (∀ j ∈ List.range weights.length, isumBy x (fun i => xIJ i j) (enumFrom weights) ≤ cap * x (yJ j)) := by
  simp only [GCqm.feasible, binPacking, List.mem_append, List.mem_map]
  constructor
  · intro h
    constructor
    · intro i hi
      have := h _ (Or.inl ⟨i, hi, rfl⟩)
      simp only [GCons.holds, evalBag_append, evalBag_ones, evalBag, PTerm.eval] at this
      grind
    · intro j hj
      have := h _ (Or.inr ⟨j, hj, rfl⟩)
      simp only [GCons.holds, evalBag_append, evalBag_linBy (f := fun i => xIJ i j), evalBag, PTerm.eval] at this
      grind
  · rintro ⟨h1, h2⟩ c hc
    rcases hc with ⟨i, hi, rfl⟩ | ⟨j, hj, rfl⟩
    · have := h1 i hi
      simp only [GCons.holds, evalBag_append, evalBag_ones, evalBag, PTerm.eval]
      grind
    · have := h2 j hj
      simp only [GCons.holds, evalBag_append, evalBag_linBy (f := fun i => xIJ i j), evalBag, PTerm.eval]
      grind

/-- `multi_knapsack` objective: minus the value of every placed item -/
theorem multi_knapsack_objective (values weights caps : List Rat) (q : GCqm) (h : multiKnapsack values weights caps = some q) (x : Label → Rat) :
    evalBag x q.obj = evalBag x ((enumFrom values).flatMap (fun p => (List.range caps.length).map (fun j => PTerm.lin (xIJ p.1 j) (-p.2)))) := by
  unfold multiKnapsack at h
  split at h
  · simp at h
  · simp only [Option.some.injEq] at h; subst h; rfl

/-- `multi_knapsack` feasible ⇔ every item in at most one knapsack and every knapsack within its capacity -/
theorem multi_knapsack_feasible_iff (values weights caps : List Rat) (q : GCqm) (h : multiKnapsack values weights caps = some q) (x : Label → Rat) :
    q.feasible x ↔
      (∀ i ∈ List.range values.length, rangeSum x (xIJ i) (List.range caps.length) ≤ 1)
      ∧ (∀ c ∈ enumFrom caps, isumBy x (fun i => xIJ i c.1) (enumFrom weights) ≤ c.2) := by
  unfold multiKnapsack at h
  split at h
  · simp at h
  · simp only [Option.some.injEq] at h; subst h
    simp only [GCqm.feasible, List.mem_append, List.mem_map]
    constructor
    · intro h
      constructor
      · intro i hi
        have := h _ (Or.inl ⟨i, hi, rfl⟩)
        simp only [GCons.holds, evalBag_append, evalBag_ones, evalBag, PTerm.eval] at this
        grind
      · intro c hc
        have := h _ (Or.inr ⟨c, hc, rfl⟩)
        simp only [GCons.holds, evalBag_append, evalBag_linBy (f := fun i => xIJ i c.1), evalBag, PTerm.eval] at this
        grind
    · rintro ⟨h1, h2⟩ c hc
      rcases hc with ⟨i, hi, rfl⟩ | ⟨c', hc', rfl⟩
      · have := h1 i hi
        simp only [GCons.holds, evalBag_append, evalBag_ones, evalBag, PTerm.eval]
        grind
      · have := h2 c' hc'
        simp only [GCons.holds, evalBag_append, evalBag_linBy (f := fun i => xIJ i c'.1), evalBag, PTerm.eval]
        grind


/-! ## quadratic knapsacks (`quadratic_knapsack`, `quadratic_multi_knapsack`) -/

/-- the profit entries used are exactly the index pairs `i < j < n` (each unordered pair of items once) -/
theorem quadratic_knapsack_pairs (n : Nat) (p : Nat × Nat) : p ∈ upperPairs n ↔ (p.1 < p.2 ∧ p.2 < n) := upperPairs_mem n p

/-- `quadratic_knapsack` objective: minus the value of the selected items minus the profit of every selected pair -/
theorem quadratic_knapsack_objective (values weights : List Rat) (profits : List (List Rat)) (cap : Rat) (q : GCqm)
    (h : quadraticKnapsack values weights profits cap = some q) (x : Label → Rat) :
    evalBag x q.obj = - isumBy x xI (enumFrom values) - pairSumBy x xI (matGet profits) (upperPairs values.length) :=
  quadraticKnapsack_obj values weights profits cap q h x

/-- feasible ⇔ total selected weight within capacity -/
theorem quadratic_knapsack_feasible_iff (values weights : List Rat) (profits : List (List Rat)) (cap : Rat) (q : GCqm)
    (h : quadraticKnapsack values weights profits cap = some q) (x : Label → Rat) :
    q.feasible x ↔ isumBy x xI (enumFrom weights) ≤ cap := quadraticKnapsack_feasible values weights profits cap q h x

/-- refused exactly for: different numbers of values and weights, a profit matrix that is not square-symmetric, or
    of the wrong size -/
theorem quadratic_knapsack_refuses_iff (values weights : List Rat) (profits : List (List Rat)) (cap : Rat) :
    quadraticKnapsack values weights profits cap = none ↔
      (values.length ≠ weights.length ∨ isSymmetric profits = false ∨ values.length ≠ profits.length) :=
  quadraticKnapsack_refuses values weights profits cap

/-- `quadratic_multi_knapsack` objective: per knapsack `j`, minus the values placed in `j` minus the profits of the
    pairs placed together in `j` -/
theorem quadratic_multi_knapsack_objective (values weights : List Rat) (profits : List (List Rat)) (caps : List Rat) (q : GCqm)
    (h : quadraticMultiKnapsack values weights profits caps = some q) (x : Label → Rat) :
    evalBag x q.obj
      = - (((List.range caps.length).map (fun j => isumBy x (fun i => xIJ i j) (enumFrom values))).foldr (· + ·) 0)
        - (((List.range caps.length).map (fun j => pairSumBy x (fun i => xIJ i j) (matGet profits) (upperPairs values.length))).foldr (· + ·) 0) :=
  quadraticMultiKnapsack_obj values weights profits caps q h x

/-- `quadratic_multi_knapsack` has the constraints of `multi_knapsack`: feasible ⇔ every item in at most one
    knapsack and every knapsack within its capacity -/
theorem quadratic_multi_knapsack_feasible_iff (values weights : List Rat) (profits : List (List Rat)) (caps : List Rat) (q : GCqm)
    (h : quadraticMultiKnapsack values weights profits caps = some q) (x : Label → Rat) :
    q.feasible x ↔
      (∀ i ∈ List.range values.length, rangeSum x (xIJ i) (List.range caps.length) ≤ 1)
      ∧ (∀ c ∈ enumFrom caps, isumBy x (fun i => xIJ i c.1) (enumFrom weights) ≤ c.2) := by
  obtain ⟨q', hq', hc, _⟩ := quadraticMultiKnapsack_cons values weights profits caps q h
  rw [← multi_knapsack_feasible_iff values weights caps q' hq' x]
  unfold GCqm.feasible
  rw [hc]

/-! ## `quadratic_assignment(distance_matrix, flow_matrix)` (with the repair of D60: reverse orientation uses `D[l][j]`) -/

/-- feasible ⇔ every facility at exactly one location and every location holding exactly one facility -/
theorem quadratic_assignment_feasible_iff (D F : List (List Rat)) (q : GCqm) (h : quadraticAssignment D F = some q) (x : Label → Rat) :
    q.feasible x ↔
      (∀ i ∈ List.range D.length, rangeSum x (xIJ i) (List.range D.length) = 1)
      ∧ (∀ j ∈ List.range D.length, rangeSum x (fun i => xIJ i j) (List.range D.length) = 1) :=
  quadraticAssignment_feasible D F q h x

/-- **objective = quadratic-assignment cost**: at the 0/1 sample placing facility `i` at location `π i` (any `π` into
    the locations; for a feasible sample `π` is a permutation) the objective is
    `Σ_{i<k} (F[i][k]·D[π i][π k] + F[k][i]·D[π k][π i])`, i.e. `Σ_{i≠k} flow[i][k]·distance[π i][π k]` over unordered
    pairs of facilities — for every size, symmetric or asymmetric matrices -/
theorem quadratic_assignment_objective (D F : List (List Rat)) (q : GCqm) (h : quadraticAssignment D F = some q)
    (π : Nat → Nat) (hπ : ∀ i, i < D.length → π i < D.length) (x : Label → Rat) (hx : assignSample π x D.length) :
    evalBag x q.obj
      = nsum (fun i => nsum (fun k => if i < k then
            matGet F i k * matGet D (π i) (π k) + matGet F k i * matGet D (π k) (π i) else 0) (List.range D.length)) (List.range D.length) :=
  quadraticAssignment_obj D F q h π hπ x hx

theorem quadratic_assignment_refuses_iff (D F : List (List Rat)) :
    quadraticAssignment D F = none ↔ (isSquare D.length D && isSquare D.length F) = false := by
  unfold quadraticAssignment
  simp only
  cases hD : isSquare D.length D <;> cases hF : isSquare D.length F <;> simp

/-! ## `binary_paint_shop_problem(car_sequence)` (with the repair of the multiplicity check) -/

/-- accepted exactly when every car of the sequence appears exactly twice -/
theorem paint_shop_refuses_iff (seq : List Label) : bpsp seq = none ↔ ∃ c ∈ seq, countL c seq ≠ 2 := by
  unfold bpsp
  split
  · rename_i h
    refine ⟨fun _ => ?_, fun _ => rfl⟩
    simpa [List.any_eq_true] using h
  · rename_i h
    refine ⟨fun hh => by simp at hh, fun hex => ?_⟩
    exfalso; apply h
    simpa [List.any_eq_true] using hex

/-- **the Ising energy is the paint-shop objective up to a constant**: for every accepted sequence and every spin
    sample, `2 × (number of colour changes of the colouring sample_to_coloring reads off the sample)
    = (L − 1) + E(s) + #(car directly followed by itself)` -/
theorem paint_shop_energy_counts_changes (seq : List Label) (bag : List (PTerm Label)) (h : bpsp seq = some bag)
    (x : Label → Rat) (hx : ∀ v, x v * x v = 1) :
    twiceChanges x [] seq = (((seq.length - 1 : Nat)) : Rat) + evalBag x bag + ((sameAdj seq : Nat) : Rat) := by
  unfold bpsp at h
  split at h
  · simp at h
  · rename_i hall
    simp only [Option.some.injEq] at h; subst h
    apply bpspGo_changes x hx seq []
    intro c
    have h0 : countL c [] = 0 := rfl
    rw [h0]
    by_cases hm : c ∈ seq
    · have : ¬ (countL c seq ≠ 2) := by
        intro hne
        apply hall
        simp only [List.any_eq_true, decide_eq_true_eq]
        exact ⟨c, hm, hne⟩
      omega
    · rw [countL_zero_of_not_mem c seq hm]; omega

/-! ## kMC-SAT (`random_kmcsat`, `random_nae3sat`, `random_2in4sat`): the model as a function of the drawn clauses -/

/-- the energy is the sum of the clause energies (the variables themselves carry no bias) -/
theorem kmcsat_energy (labels : List Label) (k : Nat) (clauses : List Clause) (bag : List (PTerm Label))
    (h : kmcsat labels k clauses = some bag) (x : Label → Rat) :
    evalBag x bag = bagSum x (clauseBag (fun i => labels.getD i (.int 0))) clauses := kmcsat_eval labels k clauses bag h x

/-- one clause at a spin sample: `2·E = (2t − k)² − k`, `t` = number of true literals (`sign·s = +1`) -/
theorem kmcsat_clause_energy (x : Label → Rat) (hx : ∀ v, x v = 1 ∨ x v = -1) (lab : Nat → Label) (c : Clause) (hc : ClauseOK c) :
    2 * evalBag x (clauseBag lab c)
      = ((((2 * (litTrue x lab c : Int) - (c.length : Int)) * (2 * (litTrue x lab c : Int) - (c.length : Int)) - (c.length : Int) : Int)) : Rat) :=
  clause_energy_count x hx lab c hc

/-- **documented relation, every `k`**: each clause contributes at least `−(k // 2)`, and exactly that iff it is
    satisfied (true and false literals differ in number by at most one: a maximum cut of the clause) -/
theorem kmcsat_clause_bound (x : Label → Rat) (hx : ∀ v, x v = 1 ∨ x v = -1) (lab : Nat → Label) (c : Clause) (hc : ClauseOK c) :
    -(((c.length / 2 : Nat)) : Rat) ≤ evalBag x (clauseBag lab c)
    ∧ (evalBag x (clauseBag lab c) = -(((c.length / 2 : Nat)) : Rat)
        ↔ (c.length ≤ 2 * litTrue x lab c + 1 ∧ 2 * litTrue x lab c ≤ c.length + 1)) := kmc_clause_bound x hx lab c hc

/-- `random_nae3sat`: a clause has energy `−1` iff its three literals are not all equal, `+3` otherwise -/
theorem nae3sat_clause_energy (x : Label → Rat) (hx : ∀ v, x v = 1 ∨ x v = -1) (lab : Nat → Label) (c : Clause) (hc : ClauseOK c) (hk : c.length = 3) :
    ((0 < litTrue x lab c ∧ litTrue x lab c < 3) → evalBag x (clauseBag lab c) = -1)
    ∧ ((litTrue x lab c = 0 ∨ litTrue x lab c = 3) → evalBag x (clauseBag lab c) = 3) := nae3_clause x hx lab c hc hk

/-- `random_2in4sat`: a clause has energy `−2` iff exactly two of its four literals are true, `≥ 0` otherwise -/
theorem twoin4sat_clause_energy (x : Label → Rat) (hx : ∀ v, x v = 1 ∨ x v = -1) (lab : Nat → Label) (c : Clause) (hc : ClauseOK c) (hk : c.length = 4) :
    (litTrue x lab c = 2 → evalBag x (clauseBag lab c) = -2)
    ∧ (litTrue x lab c ≠ 2 → 0 ≤ evalBag x (clauseBag lab c)) := twoin4_clause x hx lab c hc hk

theorem kmcsat_refuses_iff (labels : List Label) (k : Nat) (clauses : List Clause) :
    kmcsat labels k clauses = none ↔ (labels.length < 1 ∨ k < 1 ∨ labels.length < k) := by
  unfold kmcsat; split <;> simp_all

/-! ## `magic_square(size, power)` as coded -/

/-- every line constraint (`row_i`, `col_i`, `diagonal`, `antidiagonal`) is `Σ cell^power − sum == 0`, and the
    `uniqueness` constraint is `Σ_{pairs of different cells} (a − b)² ≥ (size⁴ − size²)/2`: a sample is feasible iff
    all rows, columns and both diagonals have (power-)sum `x(sum)` and the squared differences add up to at least the
    number of cell pairs.  NOTE: the last condition is necessary for pairwise different entries (each pair then
    contributes ≥ 1) but does not imply it — see `magic_square_uniqueness_not_forced_witness`. -/
theorem magic_square_feasible_iff (n power : Nat) (q : GCqm) (h : magicSquare n power = some q) (x : Label → Rat) :
    q.feasible x ↔
      ((∀ i ∈ List.range n, cellSum x power ((List.range n).map (fun j => (i, j))) = x msSum
                          ∧ cellSum x power ((List.range n).map (fun j => (j, i))) = x msSum)
       ∧ cellSum x power ((List.range n).map (fun i => (i, i))) = x msSum
       ∧ cellSum x power ((List.range n).map (fun i => (i, n - 1 - i))) = x msSum
       ∧ (((n * n * n * n - n * n : Nat)) : Rat) / 2 ≤ sqDiffSum x (msPairs n)) := by
  unfold magicSquare at h
  split at h
  · simp at h
  · simp only [Option.some.injEq] at h; subst h
    simp only [GCqm.feasible, List.mem_append, List.mem_flatMap, List.mem_cons, List.not_mem_nil, or_false]
    constructor
    · intro hf
      refine ⟨fun i hi => ⟨?_, ?_⟩, ?_, ?_, ?_⟩
      · have := hf _ (Or.inl ⟨i, hi, Or.inl rfl⟩)
        simp only [GCons.holds, msLine_eval] at this; grind
      · have := hf _ (Or.inl ⟨i, hi, Or.inr rfl⟩)
        simp only [GCons.holds, msLine_eval] at this; grind
      · have := hf _ (Or.inr (Or.inl rfl))
        simp only [GCons.holds, msLine_eval] at this; grind
      · have := hf _ (Or.inr (Or.inr (Or.inl rfl)))
        simp only [GCons.holds, msLine_eval] at this; grind
      · have := hf _ (Or.inr (Or.inr (Or.inr rfl)))
        simp only [GCons.holds, msUnique_eval] at this; exact this
    · rintro ⟨hl, hd, ha, hu⟩ c hc
      rcases hc with ⟨i, hi, rfl | rfl⟩ | rfl | rfl | rfl
      · simp only [GCons.holds, msLine_eval]; have := (hl i hi).1; grind
      · simp only [GCons.holds, msLine_eval]; have := (hl i hi).2; grind
      · simp only [GCons.holds, msLine_eval]; grind
      · simp only [GCons.holds, msLine_eval]; grind
      · simp only [GCons.holds, msUnique_eval]; exact hu

/-- the uniqueness pairs are every unordered pair of different cells exactly once -/
theorem magic_square_pairs (n : Nat) (p : (Nat × Nat) × (Nat × Nat)) :
    p ∈ msPairs n ↔ (p.1.1 < n ∧ p.1.2 < n ∧ p.2.1 < n ∧ p.2.2 < n ∧ ((p.2.1 > p.1.1 ∧ p.2.2 = p.1.2) ∨ p.2.2 > p.1.2)) := msPairs_mem n p

/-- the single quadratic `uniqueness` constraint does not force different entries: the 3×3 square
    `7 1 7 / 5 5 5 / 3 9 3` with `sum = 15` satisfies every constraint of `magic_square(3)` -/
theorem magic_square_uniqueness_not_forced_witness :
    ∃ q, magicSquare 3 1 = some q ∧
      q.feasible (fun l => if l = msVar 0 0 then 7 else if l = msVar 0 1 then 1 else if l = msVar 0 2 then 7
                      else if l = msVar 1 0 then 5 else if l = msVar 1 1 then 5 else if l = msVar 1 2 then 5
                      else if l = msVar 2 0 then 3 else if l = msVar 2 1 then 9 else if l = msVar 2 2 then 3
                      else if l = msSum then 15 else 0) := by
  refine ⟨_, rfl, ?_⟩
  rw [magic_square_feasible_iff 3 1 _ rfl]
  decide +kernel

/-! ## non-vacuity -/

example : gate .and [.str "a", .str "b", .str "c"] 2 ≠ none := by decide +kernel
example : (mulCircuit 2 2).map List.length = some 6 := by decide +kernel
example : Gen.combinations [.int 0, .int 1, .int 2] 1 1 .binary ≠ none := by decide +kernel
example : (quadraticKnapsack [1, 2] [1, 1] [[0, 3], [3, 0]] 1).map (fun q => q.obj.length) = some 5 := by decide +kernel
example : (kmcsat [.int 0, .int 1, .int 2] 3 [[(0, 1), (2, -1), (1, 1)]]).map List.length = some 6 := by decide +kernel
example : (quadraticAssignment [[0, 1], [2, 0]] [[0, 3], [5, 0]]).map (fun q => q.cons.length) = some 4 := by decide +kernel
example : (bpsp [.str "a", .str "b", .str "a", .str "b"]).map List.length = some 3 := by decide +kernel
example : bpsp [.str "a", .str "a", .str "a", .str "b"] = none := by decide +kernel
example : (magicSquare 2 2).map (fun q => q.cons.length) = some 7 := by decide +kernel

/-! ## round 7: anti-crossing, frustrated loops, chimera anticluster, MIMO, one-bit multiplier -/

theorem anti_crossing_clique_refuses_iff (n : Nat) : acClique n = none ↔ (n % 2 ≠ 0 ∨ n < 6) := by
  unfold acClique; split <;> simp_all

/-- **documented biases**: the calls are exactly: `−1` on every pair of the clique `[0, N)`, `−1` on `v ~ v+N`, `+1` on every
    clique variable, `−1` on every attached variable (`N = num_variables / 2`); variable 1 is then reset to 0 -/
theorem anti_crossing_clique_calls (hf : Nat) (t : PTerm Label) :
    t ∈ acCliqueAdds hf ↔
      ((∃ n m, n < m ∧ m < hf ∧ t = PTerm.quad (iv n) (iv m) (-1)) ∨ (∃ n, n < hf ∧ t = PTerm.quad (iv n) (iv (n + hf)) (-1))
       ∨ (∃ n, n < hf ∧ t = PTerm.lin (iv n) 1) ∨ (∃ n, n < hf ∧ t = PTerm.lin (iv (n + hf)) (-1))) := by
  unfold acCliqueAdds acCliqueRow
  simp only [List.mem_flatMap, List.mem_range, List.mem_append, List.mem_map, List.mem_cons, List.not_mem_nil, or_false]
  constructor
  · rintro ⟨n, hn, ⟨k, hk, rfl⟩ | rfl | rfl | rfl⟩
    · exact Or.inl ⟨n, n + 1 + k, by omega, by omega, rfl⟩
    · exact Or.inr (Or.inl ⟨n, hn, rfl⟩)
    · exact Or.inr (Or.inr (Or.inl ⟨n, hn, rfl⟩))
    · exact Or.inr (Or.inr (Or.inr ⟨n, hn, rfl⟩))
  · rintro (⟨n, m, h1, h2, rfl⟩ | ⟨n, hn, rfl⟩ | ⟨n, hn, rfl⟩ | ⟨n, hn, rfl⟩)
    · have e : n + 1 + (m - (n + 1)) = m := by omega
      exact ⟨n, (by omega), Or.inl ⟨m - (n + 1), (by omega), (by rw [e])⟩⟩
    · exact ⟨n, hn, Or.inr (Or.inl rfl)⟩
    · exact ⟨n, hn, Or.inr (Or.inr (Or.inl rfl))⟩
    · exact ⟨n, hn, Or.inr (Or.inr (Or.inr rfl))⟩

/-- the returned model: the sum of the calls, minus the bias `+1` that `set_linear(1, 0)` removes from variable 1 -/
theorem anti_crossing_clique_energy (n : Nat) (b : Bq Label) (h : acClique n = some b) (x : Label → Rat) (hx : ∀ v, x v * x v = 1) :
    b.energy x = evalBag x (acCliqueAdds (n / 2)) - x (iv 1) := by
  unfold acClique at h
  split at h
  · simp at h
  · rename_i hn
    simp only [Option.some.injEq] at h; subst h
    have hhf : 2 ≤ n / 2 := by omega
    rw [energy_setLinear, apply_energy _ x (by simpa [Bq.empty, Dom] using hx), lookup_apply _ rfl]
    unfold acCliqueAdds
    rw [linCoef_acRows _ hhf, count_one_range]
    simp only [hhf, if_true, Bq.empty, Bq.energy, Bq.linSum, Bq.quadSum, Bq.lookupKey]
    grind

/-- **"The ground state of this problem is therefore +1 for all variables"**: no spin state has a lower energy -/
theorem anti_crossing_clique_ground_state (n : Nat) (b : Bq Label) (h : acClique n = some b) (x : Label → Rat)
    (hx : ∀ v, x v = 1 ∨ x v = -1) : b.energy (fun _ => 1) ≤ b.energy x := by
  rw [anti_crossing_clique_energy n b h x (fun v => pm_sq _ (hx v)),
      anti_crossing_clique_energy n b h (fun _ => 1) (fun _ => by grind)]
  have h1 := acCliqueAdds_bound x hx (n / 2) (List.range (n / 2))
  have h2 := pm_le _ (hx (iv 1))
  unfold acCliqueAdds; grind

theorem anti_crossing_loops_refuses_iff (n : Nat) : acLoops n = none ↔ (n % 4 ≠ 0 ∨ n < 8) := by
  unfold acLoops; split <;> simp_all

/-- **every loop is frustrated** (both `plant_solution` branches, as functions of the recorded cycle and draw): at every spin
    state the loop contributes at least `−(L − 2)`, and exactly that at the all-(+1) state -/
theorem frustrated_loop_each_loop (x : Label → Rat) (hx : ∀ v, x v = 1 ∨ x v = -1) (c : List Label) :
    (∀ idx, idx < c.length → 2 - (c.length : Rat) ≤ evalBag x (flPlanted c idx)
        ∧ evalBag (fun _ => (1 : Rat)) (flPlanted c idx) = 2 - (c.length : Rat))
    ∧ (0 < c.length → 2 - (c.length : Rat) ≤ evalBag x (flUnplanted c)
        ∧ evalBag (fun _ => (1 : Rat)) (flUnplanted c) = 2 - (c.length : Rat)) :=
  ⟨fun idx h => flPlanted_bound x hx c idx h, fun h => flUnplanted_bound x hx c h⟩

/-- **planted solution**: for any graph and any recorded good cycles (anti-ferromagnetic position inside the loop), the
    all-(+1) state has energy `−Σ (L − 2)` and no spin state is below it -/
theorem frustrated_loop_planted_ground_state (nodes : List Label) (edges : List (Label × Label))
    (cycles : List (List Label × Option Nat)) (h : LoopsOK cycles) (x : Label → Rat) (hx : ∀ v, x v = 1 ∨ x v = -1) :
    evalBag (fun _ => (1 : Rat)) (frustratedLoop nodes edges cycles) = - loopBound cycles
    ∧ evalBag (fun _ => (1 : Rat)) (frustratedLoop nodes edges cycles) ≤ evalBag x (frustratedLoop nodes edges cycles) := by
  unfold frustratedLoop
  simp only [evalBag_append, evalBag_zeros, evalBag_zeroQuads]
  have hb := loops_bound x hx cycles h
  constructor <;> grind

/-- the deprecated `planted_solution` gauge: the gauged model at `x` is the ungauged one at `p·x`; so `p` itself is a ground
    state of the gauged model -/
theorem frustrated_loop_gauge (nodes : List Label) (edges : List (Label × Label)) (cycles : List (List Label × Option Nat))
    (h : LoopsOK cycles) (p x : Label → Rat) (hp : ∀ v, p v = 1 ∨ p v = -1) (hx : ∀ v, x v = 1 ∨ x v = -1) :
    evalBag x ((frustratedLoop nodes edges cycles).map (gaugeTerm p)) = evalBag (fun v => p v * x v) (frustratedLoop nodes edges cycles)
    ∧ evalBag p ((frustratedLoop nodes edges cycles).map (gaugeTerm p)) ≤ evalBag x ((frustratedLoop nodes edges cycles).map (gaugeTerm p)) := by
  have hlin : ∀ t ∈ frustratedLoop nodes edges cycles, ∀ v c, t = PTerm.lin v c → c = 0 := by
    intro t ht v c he
    subst he
    unfold frustratedLoop at ht
    simp only [List.mem_append, List.mem_map, List.mem_flatMap] at ht
    rcases ht with (⟨w, _, hw⟩ | ⟨e, _, he⟩) | ⟨cy, _, hc⟩
    · injection hw with _ h2; exact h2.symm
    · cases he
    · exfalso
      have hwalk : ∀ (sg : Nat → Rat) (r : List Label) (u : Label) (i : Nat), PTerm.lin v c ∉ walkBag sg u r i := by
        intro sg r; induction r with
        | nil => intro u i; simp [walkBag]
        | cons a r ih => intro u i; simp only [walkBag, List.mem_cons, not_or]; exact ⟨(by intro h; cases h), ih a (i + 1)⟩
      rcases cy with ⟨cl, _ | idx⟩ <;> cases cl <;> simp only [flPlanted, flUnplanted, List.mem_cons, List.mem_append, List.not_mem_nil] at hc
      · rcases hc with hc | hc | hc
        · exact hwalk _ _ _ _ hc
        · cases hc
        · exact hc
      · rcases hc with hc | hc
        · cases hc
        · exact hwalk _ _ _ _ hc
  have hg := gauge_eval p
  constructor
  · exact hg x _ hlin
  · rw [hg x _ hlin, hg p _ hlin]
    have h1 := frustrated_loop_planted_ground_state nodes edges cycles h (fun v => p v * x v) (fun v => pm_mul _ _ (hp v) (hx v))
    have : (fun v => p v * p v) = (fun _ => (1 : Rat)) := by funext v; exact pm_sq _ (hp v)
    rw [this]; exact h1.2

/-- **anticluster structure**: all linear biases are 0, every coupler inside a tile is a draw `±1`, every coupler between
    tiles is `±multiplier` (draw `i` goes to edge `i` of the iterators) -/
theorem chimera_anticluster_couplers (m n t : Nat) (mult : Rat) (draws : List Nat) (term : PTerm Label)
    (h : term ∈ chimeraFull m n t mult draws) :
    (∃ v, term = PTerm.lin v 0)
    ∨ (∃ u v c, term = PTerm.quad u v c ∧ (c = 1 ∨ c = -1))
    ∨ (∃ u v c, term = PTerm.quad u v c ∧ (c = mult ∨ c = -mult)) := by
  unfold chimeraFull at h
  simp only [List.mem_append, List.mem_map] at h
  rcases h with (⟨v, _, rfl⟩ | ⟨p, _, rfl⟩) | ⟨p, _, rfl⟩
  · exact Or.inl ⟨_, rfl⟩
  · exact Or.inr (Or.inl ⟨_, _, _, rfl, pm_draw _ _⟩)
  · refine Or.inr (Or.inr ⟨_, _, _, rfl, ?_⟩)
    rcases pm_draw draws ((if m ≠ 0 ∧ n ≠ 0 ∧ t ≠ 0 then chimeraTileEdges m n t else []).length + p.1) with h | h <;> rw [h] <;> grind

/-- without `subgraph` nothing is refused; with one, exactly the nodes / edges outside the lattice are -/
theorem chimera_anticluster_total (m n t : Nat) (mult : Rat) (draws : List Nat) :
    chimeraAnticluster m n t mult none draws = some (chimeraFull m n t mult draws) := rfl

theorem mimo_refuses_iff (nt : Nat) (y : List Rat) (F : List (List Rat)) :
    mimoBpsk nt y F = none ↔ (F.length ≠ y.length ∨ ∃ row ∈ F, row.length ≠ nt) := by
  unfold mimoBpsk; split <;> simp_all

/-- **`mimo('BPSK', y, F)`, real channel: the energy is `‖y − F·x‖²`** — at every `x` (for a spin sample this is the energy of
    the returned SPIN model: the diagonal of `FᵀF` goes to the offset), all sizes -/
theorem mimo_bpsk_energy (nt : Nat) (y : List Rat) (F : List (List Rat)) (bag : List (PTerm Label)) (h : mimoBpsk nt y F = some bag)
    (x : Label → Rat) : evalBag x bag = residual x nt y F := by
  unfold mimoBpsk at h
  split at h
  · simp at h
  · rename_i hs
    simp only [Option.some.injEq] at h; subst h
    have hlen : F.length = y.length := by
      by_cases hl : F.length = y.length
      · exact hl
      · exact absurd (Or.inl hl) hs
    rw [← mimoVal_residual x nt y F hlen]
    simp only [evalBag_append, evalBag_rangeMap, evalBag_rangeFlatMap, denseRow_eval, evalBag, PTerm.eval, mimoVal]
    grind

theorem residual_nonneg (x : Label → Rat) (nt : Nat) : ∀ (y : List Rat) (F : List (List Rat)), 0 ≤ residual x nt y F := by
  intro y F
  induction F generalizing y with
  | nil => cases y <;> simp [residual]
  | cons row F ih =>
    cases y with
    | nil => simp [residual]
    | cons y0 y =>
      simp only [residual]
      have h1 := ih y
      have h2 : ∀ a : Rat, 0 ≤ a * a := fun a => by
        rcases (Rat.le_total : (0 : Rat) ≤ a ∨ a ≤ 0) with h | h
        · exact Rat.mul_nonneg h h
        · have : 0 ≤ -a := by grind
          have := Rat.mul_nonneg this this
          grind
      have := h2 (y0 - sumN nt (fun i => row.getD i 0 * x (iv i)))
      grind

/-- the `('binary', 'real')` channel with the recorded draws: the model is the one of `(y, F) = (F·v, F)`: never negative -/
theorem mimo_binary_channel_energy (nr nt : Nat) (draws : List Nat) (bag : List (PTerm Label)) (h : mimoBinary nr nt draws = some bag)
    (x : Label → Rat) :
    evalBag x bag = residual x nt (matVec (binaryChannel nr nt draws) (bpskSymbols nt (draws.drop (nr * nt)))) (binaryChannel nr nt draws)
    ∧ 0 ≤ evalBag x bag := by
  have := mimo_bpsk_energy nt _ _ bag h x
  exact ⟨this, by rw [this]; exact residual_nonneg x nt _ _⟩

/-- **one-bit multiplier** (as repaired): with `n = 1` or `m = 1` there are no internal wires; the energy at a 0/1 sample is 0
    iff every product bit below the top is the AND of its operand bits and the top product bit is 0 (i.e. `p = a·b`), and at
    least 1 otherwise -/
theorem multiplication_circuit_one_bit (n mArg : Nat) (bag : List (PTerm Label)) (h : mulCircuitBag n mArg = some bag)
    (hone : n = 1 ∨ (if mArg = 0 then n else mArg) = 1) (x : Label → Rat) (hx : ∀ v, x v ∈ [(0 : Rat), 1]) :
    (evalBag x bag = 0 ↔
        ((∀ g ∈ mcOneBitGates n (if mArg = 0 then n else mArg), g.1.rel (g.2.map x) = true)
          ∧ x (strLabel s!"p{n + (if mArg = 0 then n else mArg) - 1}") = 0))
    ∧ (evalBag x bag ≠ 0 → 1 ≤ evalBag x bag) := by
  unfold mulCircuitBag at h
  split at h
  · simp at h
  · simp only [hone, if_true] at h
    simp only [Option.some.injEq] at h; subst h
    have hl : ∀ g ∈ mcOneBitGates n (if mArg = 0 then n else mArg), g.2.length = g.1.table.n ∧ g.1.naux = 0 := by
      intro g hg
      unfold mcOneBitGates at hg
      simp only [List.mem_flatMap, List.mem_map, List.mem_range] at hg
      obtain ⟨i, _, j, _, rfl⟩ := hg
      exact ⟨rfl, rfl⟩
    obtain ⟨h1, h2⟩ := gates_sum_zero_iff_all_satisfied _ hl x hx
    have h0 : 0 ≤ evalBag x (circuitBag (mcOneBitGates n (if mArg = 0 then n else mArg))) := by
      by_cases hz : evalBag x (circuitBag (mcOneBitGates n (if mArg = 0 then n else mArg))) = 0
      · rw [hz]; exact Rat.le_refl
      · have := h2 hz; grind
    have hp := hx (strLabel s!"p{n + (if mArg = 0 then n else mArg) - 1}")
    simp only [List.mem_cons, List.not_mem_nil, or_false] at hp
    simp only [evalBag_append, evalBag, PTerm.eval]
    constructor
    · constructor
      · intro he
        rcases hp with hp | hp
        · rw [hp] at he ⊢; exact ⟨h1.1 (by grind), rfl⟩
        · rw [hp] at he; exfalso; grind
      · rintro ⟨hg, hp0⟩
        rw [hp0, h1.2 hg]; grind
    · intro hne
      by_cases hz : evalBag x (circuitBag (mcOneBitGates n (if mArg = 0 then n else mArg))) = 0
      · rcases hp with hp | hp
        · rw [hp, hz] at hne; exfalso; grind
        · rw [hp, hz]; grind
      · have := h2 hz
        rcases hp with hp | hp <;> rw [hp] <;> grind

/-- with two or more bits per argument `mulCircuitBag` is the adder circuit of `mulCircuit` -/
theorem multiplication_circuit_bag_eq (n m : Nat) (hn : 2 ≤ n) (hm : 2 ≤ m) :
    mulCircuitBag n m = (mulCircuit n m).map circuitBag := by
  unfold mulCircuitBag
  have h1 : ¬ n < 1 := by omega
  have h2 : ¬ m = 0 := by omega
  have h3 : ¬ (n = 1 ∨ m = 1) := by omega
  simp only [h1, h2, h3, if_false]

example : (acClique 8).isSome = true := by decide +kernel
example : acLoops 10 = none := by decide +kernel
example : LoopsOK [([.str "a", .str "b", .str "c"], some 1), ([.int 0, .int 1, .int 2, .int 3], none)] := by
  intro c hc; simp only [List.mem_cons, List.not_mem_nil, or_false] at hc
  rcases hc with rfl | rfl
  · exact ⟨by decide, fun idx h => by cases h; decide⟩
  · exact ⟨by decide, fun idx h => by cases h⟩
example : (chimeraAnticluster 1 2 1 3 none [0, 1, 1]).map List.length = some 7 := by decide +kernel
example : (mimoBpsk 2 [1, 2] [[1, -1], [1, 1]]).isSome = true := by decide +kernel
example : (mulCircuitBag 3 1).isSome = true := by decide +kernel

/-! ## complete coefficient tables regenerated from the source (`Generated/GenTables.lean`, kernel evaluation)

A change of a constant of `combinations`, of the wiring / naming of `multiplication_circuit` or of an anti-crossing generator
changes the regenerated tables and breaks these theorems; the harness then searches for a concrete failing input. -/

open Generated.GenTables in
set_option maxRecDepth 100000 in
/-- `combinations(n, k, strength, vartype)` for `n ≤ 4`, every `k ≤ n`, strength 1 and 3/2, both vartypes: the model
    (`triu(qbias) + diag(lbias)`, offset `strength·k²`, `change_vartype`) has exactly the coefficients of the real return value -/
theorem combinations_matches_generated_tables : combTables.all combRowOK = true := by decide +kernel

open Generated.GenTables in
set_option maxRecDepth 100000 in
/-- `multiplication_circuit(n, m)` for the sizes (1,1) … (3,3): wiring, wire names and gate tables give exactly the real model -/
theorem multiplication_circuit_matches_generated_tables : multTables.all multRowOK = true := by decide +kernel

open Generated.GenTables in
set_option maxRecDepth 100000 in
/-- `anti_crossing_clique(6 … 12)`: the model has exactly the coefficients of the real return value -/
theorem anti_crossing_clique_matches_generated_tables : acCliqueTables.all acCliqueRowOK = true := by decide +kernel

open Generated.GenTables in
set_option maxRecDepth 100000 in
/-- `anti_crossing_loops(8 … 20)` (including the single-edge loops of `num_variables = 8`, where `set_quadratic` writes the
    same interaction twice): the model has exactly the coefficients of the real return value -/
theorem anti_crossing_loops_matches_generated_tables : acLoopsTables.all acLoopsRowOK = true := by decide +kernel

example : Generated.GenTables.combTables.length = 60 ∧ Generated.GenTables.multTables.length = 8
    ∧ Generated.GenTables.acCliqueTables.length = 4 ∧ Generated.GenTables.acLoopsTables.length = 4 := by decide +kernel

/-! ## MIMO / CoMP without noise: the transmitted symbols are a ground state of energy 0 -/

theorem bpskSymbols_length (nt : Nat) (d : List Nat) : (bpskSymbols nt d).length = nt := by
  unfold bpskSymbols; simp

/-- BPSK has the single amplitude 1: with index draws inside `amps` (all 0) every transmitted symbol is `+1` -/
theorem bpsk_symbols_are_one (nt : Nat) (d : List Nat) (hd : ∀ i, i < nt → d.getD i 0 = 0) (i : Nat) (hi : i < nt) :
    (bpskSymbols nt d).getD i 0 = 1 := by
  unfold bpskSymbols
  rw [List.getD_eq_getElem?_getD, List.getElem?_map, List.getElem?_range hi]
  simp only [Option.map_some, Option.getD_some, hd i hi, bpskAmps, List.getD_cons_zero]

/-- `mimo('BPSK', num_transmitters, num_receivers, F_distribution=('binary', 'real'), seed)` with `SNRb = inf`, as a function
    of the recorded draws: at the transmitted symbols the energy is 0, and no sample has a negative energy -/
theorem mimo_binary_transmitted_ground_state (nr nt : Nat) (draws : List Nat) (bag : List (PTerm Label))
    (h : mimoBinary nr nt draws = some bag) (x : Label → Rat)
    (hx : ∀ i, i < nt → x (iv i) = (bpskSymbols nt (draws.drop (nr * nt))).getD i 0) :
    evalBag x bag = 0 ∧ ∀ x', evalBag x bag ≤ evalBag x' bag := by
  have h0 : evalBag x bag = 0 := by
    rw [(mimo_binary_channel_energy nr nt draws bag h x).1]
    exact residual_transmitted x nt _ (bpskSymbols_length _ _) hx _
  exact ⟨h0, fun x' => by rw [h0]; exact (mimo_binary_channel_energy nr nt draws bag h x').2⟩

/-- `coordinated_multipoint(lattice, 'BPSK', F_distribution=('binary', 'real'), seed)` for the attenuation matrix `A` of the
    lattice: energy `‖F·v − F·x‖²` with `F = (±1 draws) ∘ A`; 0 at the transmitted symbols, never negative -/
theorem coordinated_multipoint_energy (nr nt : Nat) (A : List (List Rat)) (draws : List Nat) (bag : List (PTerm Label))
    (h : compBinary nr nt A draws = some bag) (x : Label → Rat) :
    evalBag x bag = residual x nt (matVec (attenuate (binaryChannel nr nt draws) A) (bpskSymbols nt (draws.drop (nr * nt))))
                      (attenuate (binaryChannel nr nt draws) A)
    ∧ 0 ≤ evalBag x bag
    ∧ ((∀ i, i < nt → x (iv i) = (bpskSymbols nt (draws.drop (nr * nt))).getD i 0) → evalBag x bag = 0) := by
  have := mimo_bpsk_energy nt _ _ bag h x
  refine ⟨this, by rw [this]; exact residual_nonneg x nt _ _, fun hx => ?_⟩
  rw [this]; exact residual_transmitted x nt _ (bpskSymbols_length _ _) hx _

example : (compBinary 2 2 [[1, 1], [0, 1]] [0, 1, 1, 0, 0, 0]).isSome = true := by decide +kernel

/-! ## `anti_crossing_loops`: exact coefficients for every `num_variables` (the `set_*` calls overwrite) -/

/-- the interactions written by `set_quadratic`, for `hf = num_variables / 4`: per `n < hf` the rung `n ~ n+hf` (odd `n`), the two
    loop edges `n ~ (n+1) % hf` and `n+hf ~ (n+1) % hf + hf`, the two pendant edges `n ~ n+2hf`, `n+hf ~ n+3hf` -/
theorem anti_crossing_loops_pairs (hf : Nat) (p : Label × Label) :
    p ∈ pairsOf (acLoopsOps hf) ↔ ∃ n, n < hf ∧
      ((n % 2 = 1 ∧ p = (iv n, iv (n + hf))) ∨ p = (iv n, iv ((n + 1) % hf)) ∨ p = (iv (n + hf), iv ((n + 1) % hf + hf))
        ∨ p = (iv n, iv (n + 2 * hf)) ∨ p = (iv (n + hf), iv (n + 3 * hf))) := by
  unfold acLoopsOps
  simp only [pairsOf_append, pairsOf_flatMap, pairsOf, List.append_nil, List.mem_flatMap, List.mem_range, pairsOf_acLoopsRow,
    List.mem_append, List.mem_cons, List.not_mem_nil, or_false]
  constructor
  · rintro ⟨n, hn, h⟩
    refine ⟨n, hn, ?_⟩
    rcases h with h | h
    · split at h
      · rename_i hodd; simp only [List.mem_cons, List.not_mem_nil, or_false] at h; exact Or.inl ⟨hodd, h⟩
      · simp at h
    · exact Or.inr h
  · rintro ⟨n, hn, h⟩
    refine ⟨n, hn, ?_⟩
    rcases h with ⟨hodd, h⟩ | h
    · left; simp only [hodd, if_true, List.mem_cons, List.not_mem_nil, or_false]; exact h
    · exact Or.inr h

/-- **every interaction is ferromagnetic `−1`, exactly on the written pairs** (a pair written twice — the single-edge loops of
    `num_variables = 8` — is still `−1`: `set_quadratic` overwrites), 0 elsewhere -/
theorem anti_crossing_loops_quadratic (num : Nat) (b : Bq Label) (h : acLoops num = some b) (u v : Label) :
    Bq.lookupPair b.quad u v = if (pairsOf (acLoopsOps (num / 4))).any (fun p => samePair p.1 p.2 u v) = true then -1 else 0 := by
  unfold acLoops at h
  split at h
  · simp at h
  · rename_i hn
    simp only [Option.some.injEq] at h; subst h
    have hhf : 2 ≤ num / 4 := by omega
    have hrows := acLoopsRows_ok (num / 4) hhf (List.range (num / 4)) (fun n hn => List.mem_range.mp hn)
    have hneg : NegSets (acLoopsOps (num / 4)) := NegSets_append _ _ hrows.1 (by simp [NegSets])
    rw [lookupPair_runOps _ hneg]
    rfl

/-- **linear biases**: `+1` on the loop variables `[0, 2hf)` except `0` and `hf` (reset by `set_linear`), `−1` on the pendant
    variables `[2hf, 4hf)`, nothing else (`hf = num_variables / 4`) -/
theorem anti_crossing_loops_linear (num : Nat) (b : Bq Label) (h : acLoops num = some b) (k : Nat) :
    Bq.lookupKey b.lin (iv k)
      = if k = 0 ∨ k = num / 4 then 0 else if k < 2 * (num / 4) then 1 else if k < 4 * (num / 4) then -1 else 0 := by
  unfold acLoops at h
  split at h
  · simp at h
  · rename_i hn
    simp only [Option.some.injEq] at h; subst h
    have hhf : 2 ≤ num / 4 := by omega
    have hrows := acLoopsRows_ok (num / 4) hhf (List.range (num / 4)) (fun n hn => List.mem_range.mp hn)
    unfold acLoopsOps
    rw [runOps_append]
    simp only [runOps, SetOp.run, Bq.setLinear, lookupKey_setKey, iv_inj]
    rw [lookupKey_runOps _ hrows.2, linAdd_rangeFlatMap]
    have e : (fun i => linAdd (iv k) (acLoopsRow (num / 4) i))
        = (fun n => ((if n + 0 = k then (1 : Rat) else 0) + (if n + num / 4 = k then 1 else 0))
            + ((-1) * (if n + 2 * (num / 4) = k then 1 else 0) + (-1) * (if n + 3 * (num / 4) = k then 1 else 0))) := by
      funext n; rw [linAdd_acLoopsRow]; grind
    rw [e, sumN_add, sumN_add, sumN_add, sumN_mul, sumN_mul, sumN_indicator, sumN_indicator, sumN_indicator, sumN_indicator]
    simp only [Bq.empty, Bq.lookupKey]
    by_cases h0 : k = 0
    · subst h0
      have : (0 : Nat) = 0 ∨ 0 = num / 4 := Or.inl rfl
      simp
    · by_cases h1 : k = num / 4
      · subst h1; simp
      · have hA : ¬ (num / 4 = k) := fun h => h1 h.symm
        have hB : ¬ (0 = k) := fun h => h0 h.symm
        simp only [hA, hB, h0, h1, if_false, or_self]
        by_cases c1 : k < num / 4
        · have a1 : (0 ≤ k ∧ k < 0 + num / 4) := by omega
          have a2 : ¬ (num / 4 ≤ k ∧ k < num / 4 + num / 4) := by omega
          have a3 : ¬ (2 * (num / 4) ≤ k ∧ k < 2 * (num / 4) + num / 4) := by omega
          have a4 : ¬ (3 * (num / 4) ≤ k ∧ k < 3 * (num / 4) + num / 4) := by omega
          have a5 : k < 2 * (num / 4) := by omega
          simp only [a1, a2, a3, a4, a5, if_true, if_false, and_self]; grind
        · by_cases c2 : k < 2 * (num / 4)
          · have a1 : ¬ (0 ≤ k ∧ k < 0 + num / 4) := by omega
            have a2 : (num / 4 ≤ k ∧ k < num / 4 + num / 4) := by omega
            have a3 : ¬ (2 * (num / 4) ≤ k ∧ k < 2 * (num / 4) + num / 4) := by omega
            have a4 : ¬ (3 * (num / 4) ≤ k ∧ k < 3 * (num / 4) + num / 4) := by omega
            simp only [a1, a2, a3, a4, c2, if_true, if_false, and_self]; grind
          · by_cases c3 : k < 3 * (num / 4)
            · have a1 : ¬ (0 ≤ k ∧ k < 0 + num / 4) := by omega
              have a2 : ¬ (num / 4 ≤ k ∧ k < num / 4 + num / 4) := by omega
              have a3 : (2 * (num / 4) ≤ k ∧ k < 2 * (num / 4) + num / 4) := by omega
              have a4 : ¬ (3 * (num / 4) ≤ k ∧ k < 3 * (num / 4) + num / 4) := by omega
              have a5 : k < 4 * (num / 4) := by omega
              simp only [a1, a2, a3, a4, c2, a5, if_true, if_false, and_self]; grind
            · by_cases c4 : k < 4 * (num / 4)
              · have a1 : ¬ (0 ≤ k ∧ k < 0 + num / 4) := by omega
                have a2 : ¬ (num / 4 ≤ k ∧ k < num / 4 + num / 4) := by omega
                have a3 : ¬ (2 * (num / 4) ≤ k ∧ k < 2 * (num / 4) + num / 4) := by omega
                have a4 : (3 * (num / 4) ≤ k ∧ k < 3 * (num / 4) + num / 4) := by omega
                simp only [a1, a2, a3, a4, c2, c4, if_true, if_false, and_self]; grind
              · have a1 : ¬ (0 ≤ k ∧ k < 0 + num / 4) := by omega
                have a2 : ¬ (num / 4 ≤ k ∧ k < num / 4 + num / 4) := by omega
                have a3 : ¬ (2 * (num / 4) ≤ k ∧ k < 2 * (num / 4) + num / 4) := by omega
                have a4 : ¬ (3 * (num / 4) ≤ k ∧ k < 3 * (num / 4) + num / 4) := by omega
                simp only [a1, a2, a3, a4, c2, c4, if_false]; grind

open Generated.GenTables in
set_option maxRecDepth 100000 in
/-- the two Chimera edge iterators (`_iter_chimera_tile_edges`, `_iter_chimera_intertile_edges`): the model lists are, element by
    element and in iteration order, the lists the source produces for 11 lattice shapes up to Chimera(3, 3, 2) and Chimera(2, 2, 4) -/
theorem chimera_edge_iterators_match_generated_tables : chimeraEdgeTables.all chimeraRowOK = true := by decide +kernel

/-! ## `mimo('QPSK', y, F)` as coded: the quadrature form, and the data-dependent real form (known finding D65) -/

theorem mimo_qpsk_refuses_iff (nt : Nat) (yr yi : List Rat) (Fr Fi : List (List Rat)) :
    mimoQpsk nt yr yi Fr Fi = none ↔
      (Fr.length ≠ yr.length ∨ Fi.length ≠ yi.length ∨ yr.length ≠ yi.length
        ∨ (∃ row ∈ Fr, row.length ≠ nt) ∨ (∃ row ∈ Fi, row.length ≠ nt)) := by
  unfold mimoQpsk
  split
  · rename_i h; simp only [List.any_eq_true, decide_eq_true_eq] at h; simp [h]
  · rename_i h
    simp only [List.any_eq_true, decide_eq_true_eq] at h
    have hs : ¬ (Fr.length ≠ yr.length ∨ Fi.length ≠ yi.length ∨ yr.length ≠ yi.length
        ∨ (∃ row ∈ Fr, row.length ≠ nt) ∨ (∃ row ∈ Fi, row.length ≠ nt)) := h
    simp only [hs, iff_false]
    have hlen1 : (stackF Fr Fi).length = (yr ++ yi).length := by
      simp only [stackF, List.length_append, List.length_map, List.length_zip]; omega
    have hrow1 : ∀ row ∈ stackF Fr Fi, row.length = 2 * nt := by
      intro row hrow
      simp only [stackF, List.mem_append, List.mem_map] at hrow
      rcases hrow with ⟨p, hp, rfl⟩ | ⟨p, hp, rfl⟩ <;>
        (have h1 := List.of_mem_zip hp
         have a : p.1.length = nt := by
           by_cases c : p.1.length = nt
           · exact c
           · exact absurd (Or.inr (Or.inr (Or.inr (Or.inl ⟨p.1, h1.1, c⟩)))) hs
         have b : p.2.length = nt := by
           by_cases c : p.2.length = nt
           · exact c
           · exact absurd (Or.inr (Or.inr (Or.inr (Or.inr ⟨p.2, h1.2, c⟩)))) hs
         simp only [List.length_append, List.length_map]; omega)
    have hlen2 : (Fr ++ Fi).length = (yr ++ yi).length := by simp only [List.length_append]; omega
    have hrow2 : ∀ row ∈ Fr ++ Fi, row.length = nt := by
      intro row hrow
      simp only [List.mem_append] at hrow
      by_cases c : row.length = nt
      · exact c
      · rcases hrow with hrow | hrow
        · exact absurd (Or.inr (Or.inr (Or.inr (Or.inl ⟨row, hrow, c⟩)))) hs
        · exact absurd (Or.inr (Or.inr (Or.inr (Or.inr ⟨row, hrow, c⟩)))) hs
    split
    · intro hnone
      rw [mimo_refuses_iff] at hnone
      rcases hnone with h1 | ⟨row, hrow, h2⟩
      · exact h1 hlen1
      · exact h2 (hrow1 row hrow)
    · intro hnone
      rw [mimo_refuses_iff] at hnone
      rcases hnone with h1 | ⟨row, hrow, h2⟩
      · exact h1 hlen2
      · exact h2 (hrow2 row hrow)

/-- **the quadrature form encodes `‖y − F·v‖²`**: when `F†y` or `F†F` has a non-zero imaginary part, the energy at `x` is the
    residual of the stacked real system `(yr; yi) − [[Fr, −Fi], [Fi, Fr]]·(p; q)` — the squared real parts plus the squared
    imaginary parts of `y − F·(p + i·q)`, `p = x[0:nt]`, `q = x[nt:2nt]` -/
theorem mimo_qpsk_energy (nt : Nat) (yr yi : List Rat) (Fr Fi : List (List Rat)) (bag : List (PTerm Label))
    (h : mimoQpsk nt yr yi Fr Fi = some bag) (hc : qpskIsComplex nt yr yi Fr Fi = true) (x : Label → Rat) :
    evalBag x bag = residual x (2 * nt) (yr ++ yi) (stackF Fr Fi) := by
  unfold mimoQpsk at h
  split at h
  · simp at h
  · try rw [if_pos hc] at h
    exact mimo_bpsk_energy _ _ _ bag h x

/-- **known finding D65, stated**: when `F†y` and `F†F` happen to be real the model has only the `nt` real-part variables and its
    energy is the residual of `(yr; yi) − [Fr; Fi]·p`: the imaginary parts `q` of the symbols do not occur -/
theorem mimo_qpsk_real_form_drops_imaginary_parts (nt : Nat) (yr yi : List Rat) (Fr Fi : List (List Rat)) (bag : List (PTerm Label))
    (h : mimoQpsk nt yr yi Fr Fi = some bag) (hc : qpskIsComplex nt yr yi Fr Fi = false) (x : Label → Rat) :
    evalBag x bag = residual x nt (yr ++ yi) (Fr ++ Fi) := by
  unfold mimoQpsk at h
  split at h
  · simp at h
  · have hn : ¬ (qpskIsComplex nt yr yi Fr Fi = true) := by rw [hc]; simp
    try rw [if_neg hn] at h
    exact mimo_bpsk_energy _ _ _ bag h x

/-- witness (real data `y = (1, 2)`, `F = [[1, −1], [1, 1]]`): the model has 2 variables, the documented encoding has 4 -/
example : qpskIsComplex 2 [1, 2] [0, 0] [[1, -1], [1, 1]] [[0, 0], [0, 0]] = false
    ∧ (mimoQpsk 2 [1, 2] [0, 0] [[1, -1], [1, 1]] [[0, 0], [0, 0]]).map
        (fun bag => ((Bq.empty .spin : Bq Label).apply bag).lin.length) = some 2 := by decide +kernel
example : qpskIsComplex 2 [1, 2] [1, 0] [[1, -1], [1, 1]] [[0, 0], [0, 0]] = true
    ∧ (mimoQpsk 2 [1, 2] [1, 0] [[1, -1], [1, 1]] [[0, 0], [0, 0]]).map
        (fun bag => ((Bq.empty .spin : Bq Label).apply bag).lin.length) = some 4 := by decide +kernel

/-! ## quadrature amplitude modulations (16QAM, 64QAM, 256QAM as repaired: 4 amplitude bits per quadrature) -/

/-- **`mimo` with `na` amplitude bits per quadrature, quadrature form: the energy is the residual of the stacked real system whose
    channel rows are `row, 2·row, …, 2^(na−1)·row` side by side** — i.e. `‖y − F·v‖²` for the symbols
    `v_i = Σ_a 2^a·(p_a[i] + i·q_a[i])`, variables ordered by amplitude bit, within one bit the real parts then the imaginary parts -/
theorem mimo_qam_energy (na nt : Nat) (yr yi : List Rat) (Fr Fi : List (List Rat)) (bag : List (PTerm Label))
    (h : mimoQam na nt yr yi Fr Fi = some bag) (hc : qpskIsComplex nt yr yi Fr Fi = true) (x : Label → Rat) :
    evalBag x bag = residual x (na * (2 * nt)) (yr ++ yi) (ampRows na (stackF Fr Fi)) := by
  unfold mimoQam at h
  split at h
  · simp at h
  · try rw [if_pos hc] at h
    exact mimo_bpsk_energy _ _ _ bag h x

/-- the number of variables per row of the amplitude-expanded channel: `na` copies -/
theorem ampRows_width (na : Nat) (F : List (List Rat)) (w : Nat) (hw : ∀ row ∈ F, row.length = w) :
    ∀ row ∈ ampRows na F, row.length = na * w := by
  intro row hrow
  unfold ampRows at hrow
  simp only [List.mem_map] at hrow
  obtain ⟨r0, hr0, rfl⟩ := hrow
  have hlen := hw r0 hr0
  have : ∀ n : Nat, ((List.range n).flatMap (fun a => r0.map (fun c => ((2 ^ a : Nat) : Rat) * c))).length = n * w := by
    intro n
    induction n with
    | zero => simp
    | succ k ih => rw [List.range_succ, List.flatMap_append, List.length_append, ih]; simp [hlen, Nat.succ_mul]
  exact this na

example : (mimoQam 2 1 [1] [1] [[1]] [[2]]).map (fun bag => ((Bq.empty .spin : Bq Label).apply bag).lin.length) = some 4 := by decide +kernel
example : (mimoQam 4 1 [1] [1] [[1]] [[2]]).map (fun bag => ((Bq.empty .spin : Bq Label).apply bag).lin.length) = some 8 := by decide +kernel

/-! ## `anti_crossing_clique`: the ground state is unique -/

/-- **"The ground state of this problem is therefore +1 for all variables"**, uniqueness: a spin state that is not `+1` on all of
    the `num_variables` variables has an energy at least 2 above the all-(+1) state -/
theorem anti_crossing_clique_unique_ground_state (n : Nat) (b : Bq Label) (h : acClique n = some b) (x : Label → Rat)
    (hx : ∀ v, x v = 1 ∨ x v = -1) (k : Nat) (hk : k < n) (hkx : x (iv k) = -1) :
    b.energy (fun _ => 1) + 2 ≤ b.energy x := by
  have hn : ¬ (n % 2 ≠ 0 ∨ n < 6) := by
    intro hc; unfold acClique at h; rw [if_pos hc] at h; cases h
  have hhf : 3 ≤ n / 2 := by omega
  have hk2 : k < 2 * (n / 2) := by omega
  rw [anti_crossing_clique_energy n b h x (fun v => pm_sq _ (hx v)),
      anti_crossing_clique_energy n b h (fun _ => 1) (fun _ => by grind)]
  have hall := acCliqueAdds_bound x hx (n / 2) (List.range (n / 2))
  have h1le := pm_le _ (hx (iv 1))
  unfold acCliqueAdds
  -- a clique variable at −1 gives a gap: either variable 1 itself, or its pair with variable 1
  have clique_gap : ∀ c, c < n / 2 → x (iv c) = -1 →
      evalBag (fun _ => (1 : Rat)) ((List.range (n / 2)).flatMap (acCliqueRow (n / 2))) - 1 + 2
        ≤ evalBag x ((List.range (n / 2)).flatMap (acCliqueRow (n / 2))) - x (iv 1) := by
    intro c hc hcx
    rcases hx (iv 1) with h1 | h1
    · -- x 1 = +1, so c ≠ 1 and the pair {1, c} is unsatisfied
      have hc1 : c ≠ 1 := by intro e; subst e; rw [h1] at hcx; grind
      by_cases hlt : c < 1
      · have hc0 : c = 0 := by omega
        subst hc0
        have hg := acCliqueRow_pair_gap x hx (n / 2) 0 1 (by omega) (by omega) (by rw [hcx, h1]; grind)
        have := acCliqueAdds_gap x hx (n / 2) (List.range (n / 2)) 0 (List.mem_range.mpr (by omega)) hg
        rw [h1]; grind
      · have hg := acCliqueRow_pair_gap x hx (n / 2) 1 c (by omega) hc (by rw [hcx, h1]; grind)
        have := acCliqueAdds_gap x hx (n / 2) (List.range (n / 2)) 1 (List.mem_range.mpr (by omega)) hg
        rw [h1]; grind
    · rw [h1]; grind
  by_cases hlow : k < n / 2
  · have := clique_gap k hlow hkx; grind
  · -- an attached variable: its clique partner is k − hf
    have hpart : k - n / 2 < n / 2 := by omega
    have hke : k - n / 2 + n / 2 = k := by omega
    rcases hx (iv (k - n / 2)) with hp | hp
    · have hg := acCliqueRow_pendant_gap x hx (n / 2) (k - n / 2) hp (by rw [hke]; exact hkx)
      have := acCliqueAdds_gap x hx (n / 2) (List.range (n / 2)) (k - n / 2) (List.mem_range.mpr hpart) hg
      grind
    · have := clique_gap (k - n / 2) hpart hp; grind

/-! ## `chimera_anticluster`: the weak couplers are exactly the intra-tile edges, for every lattice shape -/

/-- **tile edges, all `m, n, t`**: `_iter_chimera_tile_edges(m, n, t)` yields `(k0, k1)` iff both ends lie in one tile
    (`row < m`, `col < n`, tile offset `2t·col + n·2t·row`), `k0` in its first shore (`+ a`, `a < t`) and `k1` in its second shore
    (`+ t + b`, `b < t`): every pair of the two shores of every tile, and nothing else -/
theorem chimera_tile_edges_iff (m n t : Nat) (ht : 0 < t) (hn : 0 < n) (e : Nat × Nat) :
    e ∈ chimeraTileEdges m n t ↔
      ∃ col row a b, col < n ∧ row < m ∧ a < t ∧ b < t
        ∧ e = (2 * t * col + n * (2 * t) * row + a, 2 * t * col + n * (2 * t) * row + t + b) := by
  unfold chimeraTileEdges
  have hh : 0 < 2 * t := by omega
  have hv : 0 < n * (2 * t) := Nat.mul_pos hn hh
  simp only [List.mem_flatMap, List.mem_map, mem_rangeStep _ _ _ _ hh, mem_rangeStep _ _ _ _ hv, mem_rangeStep _ _ 1 _ (by omega)]
  constructor
  · rintro ⟨i, ⟨col, rfl, hcol⟩, j, ⟨row, rfl, hrow⟩, k0, ⟨a, rfl, ha⟩, k1, ⟨b, rfl, hb⟩, rfl⟩
    have hcol' : col < n := (mul_lt_iff (2 * t) col n hh).mp (by simpa using hcol)
    have hi : 0 + 2 * t * col < n * (2 * t) := hcol
    have hrow' : row < m := (offset_lt_iff _ _ row m hi).mp hrow
    refine ⟨col, row, a, b, hcol', hrow', by omega, by omega, ?_⟩
    simp only [Nat.zero_add, Nat.one_mul]
  · rintro ⟨col, row, a, b, hcol, hrow, ha, hb, rfl⟩
    have hi : 0 + 2 * t * col < n * (2 * t) := by
      have := (mul_lt_iff (2 * t) col n hh).mpr hcol; omega
    refine ⟨0 + 2 * t * col, ⟨col, rfl, hi⟩, 0 + 2 * t * col + n * (2 * t) * row, ⟨row, rfl, (offset_lt_iff _ _ row m hi).mpr hrow⟩,
      0 + 2 * t * col + n * (2 * t) * row + 1 * a, ⟨a, rfl, by omega⟩,
      0 + 2 * t * col + n * (2 * t) * row + t + 1 * b, ⟨b, rfl, by omega⟩, ?_⟩
    simp only [Nat.zero_add, Nat.one_mul]

/-- **inter-tile edges, all `m, n, t`**: `_iter_chimera_intertile_edges(m, n, t)` yields exactly: for every second-shore position
    `t + a` (`a < t`), every column `col` with a right neighbour (`col + 1 < n`) and every row, the horizontal edge to the same position
    one tile to the right (`+ 2t`); and for every first-shore position `a < t`, every column and every row with a lower neighbour
    (`row + 1 < m`), the vertical edge to the same position one tile down (`+ n·2t`) -/
theorem chimera_intertile_edges_iff (m n t : Nat) (ht : 0 < t) (hn : 0 < n) (e : Nat × Nat) :
    e ∈ chimeraInterEdges m n t ↔
      ((∃ a col row, a < t ∧ col + 1 < n ∧ row < m
          ∧ e = (t + a + 2 * t * col + n * (2 * t) * row, t + a + 2 * t * col + n * (2 * t) * row + 2 * t))
       ∨ (∃ a col row, a < t ∧ col < n ∧ row + 1 < m
          ∧ e = (a + 2 * t * col + n * (2 * t) * row, a + 2 * t * col + n * (2 * t) * row + n * (2 * t)))) := by
  unfold chimeraInterEdges
  have hh : 0 < 2 * t := by omega
  have hv : 0 < n * (2 * t) := Nat.mul_pos hn hh
  simp only [List.mem_append, List.mem_flatMap, List.mem_map, mem_rangeStep _ _ _ _ hh, mem_rangeStep _ _ _ _ hv, mem_rangeStep _ _ 1 _ (by omega)]
  constructor
  · rintro (⟨i, ⟨a, rfl, ha⟩, j, ⟨col, rfl, hcol⟩, k, ⟨row, rfl, hrow⟩, rfl⟩ | ⟨i, ⟨a, rfl, ha⟩, j, ⟨col, rfl, hcol⟩, k, ⟨row, rfl, hrow⟩, rfl⟩)
    · left
      have hi : t + 1 * a < 2 * t := by omega
      have hcol' : col + 1 < n := (offset_lt_sub_iff _ _ col n hi).mp hcol
      have hj : t + 1 * a + 2 * t * col < n * (2 * t) := by omega
      have hrow' : row < m := (offset_lt_iff _ _ row m hj).mp hrow
      exact ⟨a, col, row, by omega, hcol', hrow', by simp only [Nat.one_mul]⟩
    · right
      have hi : 0 + 1 * a < 2 * t := by omega
      have hcol' : col < n := (offset_lt_iff _ _ col n hi).mp hcol
      have hj : 0 + 1 * a + 2 * t * col < n * (2 * t) := hcol
      have hrow' : row + 1 < m := (offset_lt_sub_iff _ _ row m hj).mp hrow
      exact ⟨a, col, row, by omega, hcol', hrow', by simp only [Nat.zero_add, Nat.one_mul]⟩
  · rintro (⟨a, col, row, ha, hcol, hrow, rfl⟩ | ⟨a, col, row, ha, hcol, hrow, rfl⟩)
    · left
      have hi : t + 1 * a < 2 * t := by omega
      have hc := (offset_lt_sub_iff _ _ col n hi).mpr hcol
      have hj : t + 1 * a + 2 * t * col < n * (2 * t) := by omega
      exact ⟨t + 1 * a, ⟨a, rfl, by omega⟩, t + 1 * a + 2 * t * col, ⟨col, rfl, hc⟩, t + 1 * a + 2 * t * col + n * (2 * t) * row,
        ⟨row, rfl, (offset_lt_iff _ _ row m hj).mpr hrow⟩, by simp only [Nat.one_mul]⟩
    · right
      have hi : 0 + 1 * a < 2 * t := by omega
      have hc := (offset_lt_iff _ _ col n hi).mpr hcol
      exact ⟨0 + 1 * a, ⟨a, rfl, by omega⟩, 0 + 1 * a + 2 * t * col, ⟨col, rfl, hc⟩, 0 + 1 * a + 2 * t * col + n * (2 * t) * row,
        ⟨row, rfl, (offset_lt_sub_iff _ _ row m hc).mpr hrow⟩, by simp only [Nat.zero_add, Nat.one_mul]⟩

/-! ## purity: the caller's argument objects are left unchanged; a second call with the same objects gives the same model (round 8)

`Generated.GenPurity` is rewritten on every run from the source of every public function of `dimod/generators/*.py`
(`harness/translators/c17_purity.py`): `scanned` lists the functions with their parameters, `writes` every statement that writes
through a name that may alias an argument (`values *= -1` after `values = np.asarray(values, dtype=float)`, `weights[0] = …`,
`nodes.sort()`, `out=`…).  The harness checks the same on the real objects (`pure`: snapshot of values, dtype, flags, strides
before and after every call, for every held form of every container argument, and equality of the two returned models). -/

/-- no public generator writes through an argument (or a name that may alias one) -/
theorem generators_never_write_through_an_argument : Generated.GenPurity.writes = [] := by decide

/-- the scan covers the generators the property names (one per module at least; the list itself is regenerated) -/
theorem purity_scan_covers_the_generators :
    (["knapsack", "quadratic_knapsack", "multi_knapsack", "quadratic_multi_knapsack", "bin_packing", "quadratic_assignment",
      "independent_set", "maximum_independent_set", "maximum_weight_independent_set", "combinations", "and_gate", "or_gate", "xor_gate",
      "halfadder_gate", "fulladder_gate", "multiplication_circuit", "binary_paint_shop_problem", "random_kmcsat", "random_nae3sat",
      "random_2in4sat", "gnm_random_bqm", "gnp_random_bqm", "uniform", "randint", "ran_r", "power_r", "doped", "frustrated_loop",
      "chimera_anticluster", "anti_crossing_clique", "anti_crossing_loops", "mimo", "coordinated_multipoint", "magic_square",
      "binary_encoding"].all
      (fun f => Generated.GenPurity.scanned.any (fun e => e.2.1 == f))) = true := by decide +kernel

/-- **arguments unchanged and two calls agree**: for every generator function `fn`, whatever model `gen` it computes from the
    argument objects and whatever an in-place write would do (`mutate`), a call leaves the argument objects as they were, and a
    second call with the same objects returns the same model and again leaves them unchanged -/
theorem generator_call_leaves_arguments_unchanged {H M : Type} (fn : String) (gen : H → M) (mutate : H → H) (heap : H) :
    (Gen.callOn Generated.GenPurity.writes fn gen mutate heap).2 = heap
    ∧ Gen.callTwice Generated.GenPurity.writes fn gen mutate heap = (gen heap, gen heap, heap) := by
  have h : Gen.writesOf Generated.GenPurity.writes fn = [] := by
    simp [Gen.writesOf, generators_never_write_through_an_argument]
  simp [Gen.callTwice, Gen.callOn, h]

/-- the statement is not vacuous: with the in-place negation of seed C17-9 in the table, the caller's array is negated after the
    first call and the second model is built from the negated values -/
example : Gen.callTwice [("knapsack.knapsack", "values *= -1")] "knapsack.knapsack" (fun (v : List Int) => v.map (fun a => -a))
      (fun v => v.map (fun a => -a)) [3, 5] = ([-3, -5], [3, 5], [3, 5]) := by decide

/-! ## `_random_cycle` (the random walk of `frustrated_loop`) as coded (round 8)

`Gen.randomCycle adj draws`: `adj` with the recorded iteration order of the dict and of every neighbour set, `draws` the recorded
`randint(len(adj))` and `choice` indices.  Until round 7 the walk was recorded, not modelled. -/

/-- **whatever the set orders and the draws, a returned walk is a simple cycle of the graph**: no node twice, every node a neighbour
    of its predecessor, the first a neighbour of the last, at least 3 nodes (graph without self-loops: `frustrated_loop` builds `adj`
    from edges `u != v`) — so the loops summed by `frustrated_loop` are cycles of the given graph (`closed_walk_bound`,
    `frustrated_loop_each_loop` apply to them) -/
theorem random_cycle_is_simple_cycle (adj : List (Label × List Label)) (hns : ∀ v, v ∉ Gen.rcNeighbors adj v)
    (draws : List Nat) (c : List Label) (h : Gen.randomCycle adj draws = some (some c)) :
    c.Nodup ∧ c.IsChain (fun a b => b ∈ Gen.rcNeighbors adj a) ∧ 3 ≤ c.length
      ∧ ∃ f l, c.head? = some f ∧ c.getLast? = some l ∧ f ∈ Gen.rcNeighbors adj l := by
  unfold Gen.randomCycle at h
  split at h
  · simp at h
  · split at h
    · simp at h
    · rename_i e _
      exact Gen.rcLoop_spec adj hns _ [e.1] c (List.isChain_singleton _) (List.nodup_singleton _) h

/-- the walk on the triangle 0–1–2 (neighbour sets iterated as listed): start `adj[0]`, then the first candidate each time closes
    `[0, 1, 2]`; on the path 0–1 it walks into the dead end (`None`); the hypothesis "no self-loops" holds for both -/
example : Gen.randomCycle [(.int 0, [.int 1, .int 2]), (.int 1, [.int 0, .int 2]), (.int 2, [.int 0, .int 1])] [0, 0, 0, 0]
      = some (some [.int 0, .int 1, .int 2])
    ∧ Gen.randomCycle [(.int 0, [.int 1]), (.int 1, [.int 0])] [0, 0] = some none
    ∧ Gen.randomCycle [(.int 0, [.int 1, .int 2]), (.int 1, [.int 0, .int 2]), (.int 2, [.int 0, .int 1])] [2, 1, 0, 0]
      = some (some [.int 2, .int 1, .int 0]) := by decide +kernel

end C17
