import DimodProofs.GenProofs

/-! # C17 — problem generators encode exactly the relation they document

Models: `DimodModel/Generators.lean` (namespace `Gen`), coefficient tables in `Generated/Gates.lean`
(rewritten from `dimod/generators/gates.py` on every run by `harness/translators/c17_gates.py`).
`evalBag x bag` is the energy of the model the generator returns, at sample `x` (`Pen.apply_energy`). -/

namespace C17
open Pen Gen GateTable Generated.Gates

/-! ## generated gate tables: finite truth tables (`decide +kernel`, no axioms beyond the usual three) -/

theorem and_gate_table : GateSpec andBinary [0, 1] 3 0 GateKind.and.rel := by decide +kernel
theorem or_gate_table : GateSpec orBinary [0, 1] 3 0 GateKind.or.rel := by decide +kernel
theorem xor_gate_table : GateSpec xorBinary [0, 1] 3 1 GateKind.xor.rel := by decide +kernel
theorem halfadder_gate_table : GateSpec halfadderBinary [0, 1] 4 0 GateKind.halfadder.rel := by decide +kernel
theorem fulladder_gate_table : GateSpec fulladderBinary [0, 1] 5 0 GateKind.fulladder.rel := by decide +kernel

/-- the same tables after `change_vartype('SPIN')`, on ±1 values -/
theorem and_gate_table_spin : GateSpec andSpin [-1, 1] 3 0 (spinRel GateKind.and.rel) := by decide +kernel
theorem or_gate_table_spin : GateSpec orSpin [-1, 1] 3 0 (spinRel GateKind.or.rel) := by decide +kernel
theorem xor_gate_table_spin : GateSpec xorSpin [-1, 1] 3 1 (spinRel GateKind.xor.rel) := by decide +kernel
theorem halfadder_gate_table_spin : GateSpec halfadderSpin [-1, 1] 4 0 (spinRel GateKind.halfadder.rel) := by decide +kernel
theorem fulladder_gate_table_spin : GateSpec fulladderSpin [-1, 1] 5 0 (spinRel GateKind.fulladder.rel) := by decide +kernel

/-- every generated table is well formed (one linear bias per variable, interactions inside the table) -/
theorem tables_wf : ∀ t ∈ [andBinary, orBinary, xorBinary, halfadderBinary, fulladderBinary,
                           andSpin, orSpin, xorSpin, halfadderSpin, fulladderSpin, spinProduct], t.WF = true := by decide +kernel

/-! ## any labels, any strength -/

/-- `scale_energy` + `relabel_eval`: the model a gate generator returns has, at every sample, `strength ×`
    the table energy at the values of the labelled variables -/
theorem scale_relabel_eval (t : GateTable) (labels : List Label) (s : Rat) (x : Label → Rat) :
    evalBag x (tableBag t labels s) = s * t.energy (fun j => x (labels.getD j (.int 0))) := tableBag_eval t labels s x

theorem gate_spec (k : GateKind) : GateSpec k.table [0, 1] k.nvis k.naux k.rel := by
  cases k
  · exact and_gate_table
  · exact or_gate_table
  · exact xor_gate_table
  · exact halfadder_gate_table
  · exact fulladder_gate_table

/-- **gate generators** (`and_gate`, `or_gate`, `xor_gate`, `halfadder_gate`, `fulladder_gate`): whenever the
    call succeeds (distinct labels, positive strength), at every 0/1 sample the energy is ≥ 0, it is
    ≥ strength when the visible variables violate the truth table (whatever the auxiliary), it can be 0
    only on the truth table, and on the truth table some auxiliary value makes it 0 -/
theorem gate_correct (k : GateKind) (labels : List Label) (s : Rat) (bag : List (PTerm Label)) (h : gate k labels s = some bag)
    (x : Label → Rat) (hx : ∀ l ∈ labels, x l ∈ [(0 : Rat), 1]) :
    let e := evalBag x bag
    let vis := (labels.take k.nvis).map x
    0 ≤ e ∧ (k.rel vis = false → s ≤ e) ∧ (e = 0 → k.rel vis = true)
    ∧ (k.rel vis = true → ∃ a ∈ assignments [0, 1] k.naux, s * k.table.energy (ofList (vis ++ a)) = 0) := by
  unfold gate at h
  split at h
  · simp at h
  · rename_i hlen
    split at h
    · simp at h
    · split at h
      · simp at h
      · rename_i hs
        simp only [Option.some.injEq] at h
        subst h
        have hwf : k.table.WF = true := by cases k <;> decide +kernel
        have hn : k.table.n = k.nvis + k.naux := by cases k <;> rfl
        have hlen' : labels.length = k.nvis + k.naux := by
          have : labels.length = k.table.n := by simpa using hlen
          omega
        have := gate_lift k.table [0, 1] k.nvis k.naux k.rel (gate_spec k) hwf hn labels hlen' s (Rat.not_le.1 hs) x hx
        exact ⟨this.1, this.2.1, this.2.2.2, this.2.2.1⟩

/-- the generators refuse exactly: wrong arity, repeated labels, non-positive strength -/
theorem gate_refuses_iff (k : GateKind) (labels : List Label) (s : Rat) :
    gate k labels s = none ↔ (labels.length ≠ k.table.n ∨ hasDup labels = true ∨ s ≤ 0) := by
  unfold gate
  split
  · simp_all
  · split
    · simp_all
    · split <;> simp_all

/-! ## circuits -/

/-- **any circuit of auxiliary-free gates** (and / or / half adder / full adder at strength 1): the total
    energy at a 0/1 sample is 0 iff every gate's relation holds, and at least 1 otherwise -/
theorem gates_sum_zero_iff_all_satisfied (gs : List (GateKind × List Label))
    (hgs : ∀ g ∈ gs, g.2.length = g.1.table.n ∧ g.1.naux = 0)
    (x : Label → Rat) (hx : ∀ v, x v ∈ [(0 : Rat), 1]) :
    (evalBag x (circuitBag gs) = 0 ↔ ∀ g ∈ gs, g.1.rel (g.2.map x) = true)
    ∧ (evalBag x (circuitBag gs) ≠ 0 → 1 ≤ evalBag x (circuitBag gs)) := by
  rw [evalBag_circuit]
  have hg : ∀ g ∈ gs, let e := evalBag x (gateBag g.1.table g.2 1)
      0 ≤ e ∧ (e = 0 ↔ g.1.rel (g.2.map x) = true) ∧ (e ≠ 0 → 1 ≤ e) := by
    intro g hmem
    obtain ⟨hl, ha⟩ := hgs g hmem
    have hwf : g.1.table.WF = true := by cases g.1 <;> decide +kernel
    have hspec : GateSpec g.1.table [0, 1] g.1.table.n 0 g.1.rel := by
      have := gate_spec g.1
      have hv : g.1.nvis = g.1.table.n := by unfold GateKind.nvis; rw [ha]; rfl
      rw [hv, ha] at this; exact this
    exact gate_lift0 g.1.table [0, 1] g.1.rel hspec hwf g.2 hl 1 (by decide) x (fun l _ => hx l)
  have hs := sum_zero_iff (gs.map (fun g => evalBag x (gateBag g.1.table g.2 1)))
    (by intro e he; simp only [List.mem_map] at he; obtain ⟨g, hm, rfl⟩ := he; exact (hg g hm).1)
    (by intro e he; simp only [List.mem_map] at he; obtain ⟨g, hm, rfl⟩ := he; exact (hg g hm).2.2)
  refine ⟨?_, hs.2.1⟩
  rw [hs.1]
  simp only [List.mem_map, forall_exists_index, and_imp, forall_apply_eq_imp_iff₂]
  constructor
  · intro h g hm; exact ((hg g hm).2.1).1 (h g hm)
  · intro h g hm; exact ((hg g hm).2.1).2 (h g hm)

/-- `multiplication_circuit(n, m)`, PARTIAL: energy 0 ⇔ every AND / half-adder / full-adder of the wiring
    is satisfied, ≥ 1 otherwise — proved for all sizes.  That the satisfied wirings are exactly
    `a·b = p` is checked by enumeration up to 3×3 bits (a test), and is *false* when an argument has
    one bit (D36: the product bits are not named `p1, …`). -/
theorem multiplication_circuit_partial (n m : Nat) (gs : List (GateKind × List Label)) (h : mulCircuit n m = some gs)
    (x : Label → Rat) (hx : ∀ v, x v ∈ [(0 : Rat), 1]) :
    (evalBag x (circuitBag gs) = 0 ↔ ∀ g ∈ gs, g.1.rel (g.2.map x) = true)
    ∧ (evalBag x (circuitBag gs) ≠ 0 → 1 ≤ evalBag x (circuitBag gs)) :=
  gates_sum_zero_iff_all_satisfied gs (mulCircuit_lengths n m gs h) x hx

/-! ## combinations(n, k): `strength·(Σx − k)²` for every n, k -/

theorem combinations_energy (labels : List Label) (k : Int) (s : Rat) (x : Label → Rat) (hx : Dom .binary x) :
    evalBag x (combBinaryBag labels k s) = s * ((vsum x labels - (k : Rat)) * (vsum x labels - (k : Rat))) :=
  combBinary_eval x hx s k labels

theorem combinations_energy_spin (labels : List Label) (k : Int) (s : Rat) (x : Label → Rat) (hx : Dom .spin x) :
    evalBag x (toSpinBag (combBinaryBag labels k s))
      = s * ((vsum (viewSample .binary x) labels - (k : Rat)) * (vsum (viewSample .binary x) labels - (k : Rat))) :=
  combSpin_eval x hx s k labels

/-- hence (0/1 sample, `strength ≥ 0`): energy 0 iff exactly `k` variables are selected, at least `strength` otherwise -/
theorem combinations_zero_iff (labels : List Label) (k : Int) (s : Rat) (hs : 0 ≤ s) (z : Label → Int) (hz : Bin01 z) :
    (icount z labels = k → evalBag (toRat z) (combBinaryBag labels k s) = 0)
    ∧ (icount z labels ≠ k → s ≤ evalBag (toRat z) (combBinaryBag labels k s)) := by
  have he : evalBag (toRat z) (combBinaryBag labels k s)
      = s * ((((icount z labels - k) * (icount z labels - k) : Int)) : Rat) := by
    rw [combBinary_eval (toRat z) (dom_toRat z hz), vsum_cast]
    simp [Rat.intCast_sub, Rat.intCast_mul]
  rw [he]
  constructor
  · intro h; exact (penalty_gap s hs _).1 (by omega)
  · intro h; exact (penalty_gap s hs _).2 (by omega)

theorem combinations_refuses_iff (labels : List Label) (k : Int) (s : Rat) (vt : VT) :
    Gen.combinations labels k s vt = none ↔ (k > labels.length ∨ k < 0) := by
  unfold Gen.combinations
  split
  · simp_all
  · cases vt <;> simp_all

/-! ## independent-set family -/

/-- `independent_set`: number of edges (by list multiplicity) with both ends selected -/
theorem independent_set_energy (edges : List (Label × Label)) (nodes : List Label) (bag : List (PTerm Label))
    (h : independentSet edges nodes = some bag) (x : Label → Rat) : evalBag x bag = edgeSum x edges := by
  unfold independentSet at h
  split at h
  · simp at h
  · simp only [Option.some.injEq] at h; subst h
    rw [evalBag_append, evalBag_edges, evalBag_zeros]; grind

/-- `maximum_weight_independent_set` (and `maximum_independent_set`): `strength × violated edges − selected weight`,
    for every graph and weights, with the strength the code derives (`max weight × multiplier` unless given) -/
theorem mwis_energy (edges : List (Label × Label)) (nodes : Option (List (Label × Rat))) (strength : Option Rat) (mult : Rat)
    (bag : List (PTerm Label)) (h : mwis edges nodes strength mult = some bag) (x : Label → Rat) :
    let w := match nodes with | none => (edgeVars edges).map (fun v => (v, (1 : Rat))) | some ns => mwisWeights edges ns
    let maxw : Rat := match nodes with | none => 1 | some _ => maxRat (w.map (·.2))
    let s := match strength with | some s => s | none => maxw * mult
    evalBag x bag = s * edgeSum x edges - lsum x w := by
  unfold mwis at h
  split at h
  · simp at h
  · simp only [Option.some.injEq] at h; subst h
    intro w maxw s
    rw [evalBag_append, evalBag_edges, evalBag_weights]; grind

/-! ## knapsack, multi_knapsack, bin_packing -/

theorem knapsack_objective (values weights : List Rat) (cap : Rat) (q : GCqm) (h : knapsack values weights cap = some q) (x : Label → Rat) :
    evalBag x q.obj = - isumBy x xI (enumFrom values) := by
  unfold knapsack at h
  split at h
  · simp at h
  · simp only [Option.some.injEq] at h; subst h
    exact evalBag_linBy_neg x xI _

/-- feasible ⇔ total selected weight within capacity -/
theorem knapsack_feasible_iff (values weights : List Rat) (cap : Rat) (q : GCqm) (h : knapsack values weights cap = some q) (x : Label → Rat) :
    q.feasible x ↔ isumBy x xI (enumFrom weights) ≤ cap := by
  unfold knapsack at h
  split at h
  · simp at h
  · simp only [Option.some.injEq] at h; subst h
    simp only [GCqm.feasible, List.mem_singleton, forall_eq, GCons.holds, evalBag_append, evalBag_linBy, evalBag, PTerm.eval]
    constructor <;> intro h <;> grind

/-- `bin_packing` objective = number of open bins -/
theorem binpacking_objective (weights : List Rat) (cap : Rat) (x : Label → Rat) :
    evalBag x (binPacking weights cap).obj = rangeSum x yJ (List.range weights.length) := evalBag_ones x yJ _

/-- `bin_packing` feasible ⇔ every item is in exactly one bin and every bin's load is within `capacity·y_j`
    (so a bin holding positive weight is open) -/
theorem binpacking_feasible_iff (weights : List Rat) (cap : Rat) (x : Label → Rat) :
    (binPacking weights cap).feasible x ↔
      (∀ i ∈ List.range weights.length, rangeSum x (xIJ i) (List.range weights.length) = 1)
      ∧ (∀ j ∈ List.range weights.length, isumBy x (fun i => xIJ i j) (enumFrom weights) ≤ cap * x (yJ j)) := by
  simp only [GCqm.feasible, binPacking, List.mem_append, List.mem_map]
  constructor
  · intro h
    constructor
    · intro i hi
      have := h _ (Or.inl ⟨i, hi, rfl⟩)
      simp only [GCons.holds, evalBag_append, evalBag_ones, evalBag, PTerm.eval] at this
      grind
    · intro j hj
      have := h _ (Or.inr ⟨j, hj, rfl⟩)
      simp only [GCons.holds, evalBag_append, evalBag_linBy (f := fun i => xIJ i j), evalBag, PTerm.eval] at this
      grind
  · rintro ⟨h1, h2⟩ c hc
    rcases hc with ⟨i, hi, rfl⟩ | ⟨j, hj, rfl⟩
    · have := h1 i hi
      simp only [GCons.holds, evalBag_append, evalBag_ones, evalBag, PTerm.eval]
      grind
    · have := h2 j hj
      simp only [GCons.holds, evalBag_append, evalBag_linBy (f := fun i => xIJ i j), evalBag, PTerm.eval]
      grind

/-- `multi_knapsack` objective: minus the value of every placed item -/
theorem multi_knapsack_objective (values weights caps : List Rat) (q : GCqm) (h : multiKnapsack values weights caps = some q) (x : Label → Rat) :
    evalBag x q.obj = evalBag x ((enumFrom values).flatMap (fun p => (List.range caps.length).map (fun j => PTerm.lin (xIJ p.1 j) (-p.2)))) := by
  unfold multiKnapsack at h
  split at h
  · simp at h
  · simp only [Option.some.injEq] at h; subst h; rfl

/-- `multi_knapsack` feasible ⇔ every item in at most one knapsack and every knapsack within its capacity -/
theorem multi_knapsack_feasible_iff (values weights caps : List Rat) (q : GCqm) (h : multiKnapsack values weights caps = some q) (x : Label → Rat) :
    q.feasible x ↔
      (∀ i ∈ List.range values.length, rangeSum x (xIJ i) (List.range caps.length) ≤ 1)
      ∧ (∀ c ∈ enumFrom caps, isumBy x (fun i => xIJ i c.1) (enumFrom weights) ≤ c.2) := by
  unfold multiKnapsack at h
  split at h
  · simp at h
  · simp only [Option.some.injEq] at h; subst h
    simp only [GCqm.feasible, List.mem_append, List.mem_map]
    constructor
    · intro h
      constructor
      · intro i hi
        have := h _ (Or.inl ⟨i, hi, rfl⟩)
        simp only [GCons.holds, evalBag_append, evalBag_ones, evalBag, PTerm.eval] at this
        grind
      · intro c hc
        have := h _ (Or.inr ⟨c, hc, rfl⟩)
        simp only [GCons.holds, evalBag_append, evalBag_linBy (f := fun i => xIJ i c.1), evalBag, PTerm.eval] at this
        grind
    · rintro ⟨h1, h2⟩ c hc
      rcases hc with ⟨i, hi, rfl⟩ | ⟨c', hc', rfl⟩
      · have := h1 i hi
        simp only [GCons.holds, evalBag_append, evalBag_ones, evalBag, PTerm.eval]
        grind
      · have := h2 c' hc'
        simp only [GCons.holds, evalBag_append, evalBag_linBy (f := fun i => xIJ i c'.1), evalBag, PTerm.eval]
        grind

/-! ## random generators — PARTIAL: only validated over seeds by the harness (NumPy generator contract) -/

/-! ## non-vacuity -/

example : gate .and [.str "a", .str "b", .str "c"] 2 ≠ none := by decide +kernel
example : (mulCircuit 2 2).map List.length = some 6 := by decide +kernel
example : Gen.combinations [.int 0, .int 1, .int 2] 1 1 .binary ≠ none := by decide +kernel

end C17
