import DimodProofs.LpRound
import DimodProofs.LpVars
import DimodProofs.LpLex
import DimodProofs.LpLexer
import DimodProofs.LpNum
import DimodProofs.LpDec
import DimodProofs.LpClosed
import DimodProofs.LpReader
import DimodProofs.LpCppLex
import DimodProofs.LpCppText
import DimodProofs.LpFamily0
import DimodProofs.LpFamily1
import DimodProofs.LpFamily2
import DimodProofs.LpFamily3
import DimodProofs.LpFamily4
import DimodProofs.LpFamily5
import DimodProofs.LpFamily6
import DimodProofs.LpFamily7
import DimodProofs.LpMalformed0
import DimodProofs.LpMalformed1
import DimodProofs.LpMalformed2

/-! # C12 — LP text round trip preserves the constrained model or is refused

Model: `DimodModel/Lp.lean` — the writer `lp.dump` as a token emitter (one token per `f.write`),
`_WidthLimitedFile`, `_validate_label` over the constants extracted from `dimod/lp.py`
(`Generated/LpLabels.lean`), and a specification-level reader for exactly the writer's token grammar
composed with `cylp.pyx:model_to_cqm` (0.5 factor on objective quadratic terms, bound clamping, types
from the Binary / General sections).  Tied to the code on every run by `harness/props/c12.py`: the
model's text equals `lp.dumps` byte for byte and the model's reading of that text equals `lp.loads`.

Scope of the theorems: `lp_roundtrip` is stated on the token stream (`readToks ∘ dumpToks`), `lp_roundtrip_text` and
`lp_roundtrip_text_closed` on the TEXT: `Lp.loads (Lp.dumps m) = normCqm m`, through rendering, number formatting,
`_WidthLimitedFile`'s line breaks, the blank/newline word splitter and the word→token lexer.
`lp_roundtrip_text` takes the per-token text oracle `TokTextOK` as a hypothesis; `lp_roundtrip_text_closed` *derives* it:
(a) numbers — every coefficient, right-hand side and bound with a terminating decimal expansion of at most 60 places
(every dyadic rational in particular: `dyadic_is_decimal`) is printed as a blank-free word that parses back to exactly
that number (`decimal_numbers_read_back`); what stays outside is that Python's `repr(float)` prints that positional
expansion (exponent notation for |x| ≥ 1e16 or < 1e-4 is not modelled; `±1e+30` is) — the byte-for-byte comparison
with `lp.dumps` on every run covers it; (b) labels — a label `_validate_label` accepts is a blank-free word
(`valid_label_is_word`) and, over the tables regenerated from `dimod/lp.py`, is none of the 17 words of the writer's
grammar except the string `To` (`valid_label_not_grammar_word`; this needs `subject` among the reserved words: before
the repair of D59 a variable called `Subject` passed the validation), and `To` is excluded by hypothesis (the grammar
reads it as a keyword only directly after `Subject`).  The C++ parser `extern/filereaderlp` itself is not modelled: its
agreement with this reader on writer output and on near-miss label layouts is established by the correspondence run.
Interpretation (DESIGN §1): the LP grammar has no constant on a constraint's left side, the writer emits
`lhs − c  sense  rhs − c`; hence `activity = lhs(x) − rhs` is what is preserved, and `rhs`, `lhs` individually when `c = 0`. -/

namespace C12
open Lp

/-- **wrap_preserves_tokens**: `_WidthLimitedFile` emits every write whole and in order; the only thing it
    adds is `"\n "` in front of some writes (text = concatenation of `[“\n ”] ++ write`). -/
theorem wrap_preserves_tokens (ws : List String) :
    (wrapWrites 0 ws).map (·.2) = ws ∧
    joinWrites (wrapWrites 0 ws) = String.join ((wrapWrites 0 ws).map fun (b, s) => (if b then "\n " else "") ++ s) :=
  ⟨wrapWrites_snd 0 ws, rfl⟩

/-- a break is put in front of a write exactly when the tracked line length plus the write's first line
    would exceed the target (79 characters) -/
theorem wrap_break_rule (ll : Nat) (s : String) :
    (writeStep ll s).1 = decide (ll + firstNl s.toList > Generated.LpLabels.targetLineLen - 1) := by
  simp only [writeStep]
  split <;> rfl

/-- **wrap is invisible to the reader** (lexical layer, first half): in everything `dump` writes, two
    consecutive writes are separated by a blank or a newline, hence the `"\n "` that `_WidthLimitedFile`
    inserts never joins or splits a word: the dumped text and the plain concatenation of the writes have the
    same blank-separated words (`Lp.words`, the tokeniser the specification reader uses) -/
theorem wrap_invisible_to_reader (m : LCqm) (ts : List Tok) (h : dumpToks m = .ok ts) :
    List.IsChain TokSep ts ∧
    words (joinWrites (wrapWrites 0 (ts.map Tok.render))) = words (String.join (ts.map Tok.render)) :=
  ⟨dumpToks_separated m ts h, words_wrap_invariant m ts h⟩

/-- **lp_roundtrip on text**: whatever model the writer accepts, the text `lp.dumps` produces (line breaks
    included) is read back by the specification reader — words, lexer, token reader, `model_to_cqm` — as the
    normal form `normCqm m` of the model (whose objective, constraints and variables are related to `m` by
    `roundtrip_objective`, `roundtrip_constraints`, `roundtrip_rhs_lhs`, `roundtrip_variables`), under the
    per-token text oracle `TokTextOK` -/
theorem lp_roundtrip_text (m : LCqm) (text : String) (h : dumps m = .ok text)
    (hok : ∀ ts, dumpToks m = .ok ts → ∀ t ∈ ts, TokTextOK t) : loads text = some (normCqm m) :=
  loads_dumps m text h hok

/-- **lp_roundtrip on text, closed**: no oracle — for every model the writer accepts whose numbers are terminating
    decimals (`NumsOK`: coefficients, doubled objective quadratic coefficients, right-hand sides minus lhs constants,
    bounds) and whose expressions mention only its own variables, none called `To` (`NamesOK`), the specification
    reader reads the text `lp.dumps` produces back as the model's normal form -/
theorem lp_roundtrip_text_closed (m : LCqm) (text : String) (h : dumps m = .ok text) (hn : NumsOK m) (hl : NamesOK m) :
    loads text = some (normCqm m) :=
  loads_dumps_closed m text h hn hl

/-- number formatting ∘ number parsing, for every terminating decimal of at most 60 places: the right-hand side /
    bound text `repr(float(q))` and the coefficient text `_abs(b)` are blank-free words and parse back to `q`, `|b|` -/
theorem decimal_numbers_read_back (q : Rat) (hd : Dec60 q) :
    (Word (showFloat q) ∧ parseDec (showFloat q) = some q) ∧ (Word (showAbs q) ∧ parseDec (showAbs q) = some (absQ q)) :=
  ⟨parseDec_showFloat q hd, parseDec_showAbs q hd⟩

/-- every dyadic rational `k / 2^j`, `j ≤ 60` (every value the harness generates, every float32-exact bias of moderate
    size) has such an expansion -/
theorem dyadic_is_decimal (q : Rat) (j : Nat) (hj : j ≤ 60) (h : (q * (2 : Rat) ^ j).den = 1) : Dec60 q :=
  dec60_of_dyadic q j hj h

/-- a label `_validate_label` accepts is none of the 17 words of the writer's grammar, except the string `To`
    (over the regenerated reserved-word table; false before `subject` was added to it — D59) -/
theorem valid_label_not_grammar_word (s : String) (h : validLabel (.str s) = true) (hne : s ≠ "To") : classify s = .other :=
  classify_other_of_valid s h hne

/-- the two halves separately: the words of the dumped text are the words of the tokens, and the lexer turns
    those words back into exactly the writer's tokens -/
theorem text_words_and_lexer (m : LCqm) (ts : List Tok) (h : dumpToks m = .ok ts) (hok : ∀ t ∈ ts, TokTextOK t) :
    words (joinWrites (wrapWrites 0 (ts.map Tok.render))) = ts.flatMap tokWords ∧
    (ts.flatMap tokWords).foldl lstep {} = { mode := .done, out := ts } :=
  ⟨words_dump m ts h (fun t ht => (hok t ht).1), lex_words m ts h (fun t ht => (hok t ht).2)⟩

/-- for an integral coefficient the oracle is a theorem: the printed magnitude is a word and parses back -/
theorem integer_coefficients_read_back (b : Rat) (h : b.den = 1) : Word (showAbs b) ∧ parseDec (showAbs b) = some (absQ b) :=
  numText_int b h

/-- a label `_validate_label` accepts is a non-empty word without blanks or newlines -/
theorem valid_label_is_word (s : String) (h : validLabel (.str s) = true) : Word s := word_of_validLabel s h

/-- **lp_roundtrip** (token level): whatever model the writer accepts, the reader accepts the writer's
    token stream and returns the normal form `normCqm` of the model -/
theorem lp_roundtrip (m : LCqm) (ts : List Tok) (h : dumpToks m = .ok ts) : readToks ts = some (normCqm m) :=
  read_dump m ts h

/-- … whose objective evaluates identically at every sample -/
theorem roundtrip_objective (m : LCqm) (x : Label → Rat) : (normCqm m).obj.eval x = m.obj.eval x :=
  normObj_eval m.obj x

/-- … whose constraints are the same in number and order, with the same labels and senses, none soft,
    and the same activity `lhs(x) − rhs` at every sample -/
theorem roundtrip_constraints (m : LCqm) :
    (normCqm m).cons.length = m.cons.length ∧
    ∀ i (hi : i < m.cons.length),
      let c := m.cons[i]
      let c' := (normCqm m).cons[i]'(by simp [normCqm]; exact hi)
      c'.label = c.label ∧ c'.sense = c.sense ∧ c'.soft = false ∧ ∀ x, c'.activity x = c.activity x := by
  refine ⟨by simp [normCqm], ?_⟩
  intro i hi
  simp only [normCqm, List.getElem_map]
  exact ⟨rfl, rfl, rfl, fun x => normCon_activity _ x⟩

/-- … and the same right-hand side and left-hand side individually when the lhs has no constant -/
theorem roundtrip_rhs_lhs (m : LCqm) (i : Nat) (hi : i < m.cons.length) (h0 : (m.cons[i]).lhs.off = 0) (x : Label → Rat) :
    ((normCqm m).cons[i]'(by simp [normCqm]; exact hi)).rhs = (m.cons[i]).rhs ∧
    ((normCqm m).cons[i]'(by simp [normCqm]; exact hi)).lhs.eval x = (m.cons[i]).lhs.eval x := by
  simp only [normCqm, List.getElem_map]
  exact normCon_same_when_no_constant _ h0 x

/-- … whose variables are exactly the model's: every variable comes back with its name, vartype and
    bounds (names distinct; BINARY with bounds (0,1), INTEGER/REAL bounds within the vartype's limits), and
    nothing else comes back (expressions mention only the model's variables) -/
theorem roundtrip_variables (m : LCqm) (hnd : (m.vars.map (·.name)).Nodup) (hok : ∀ v ∈ m.vars, VarOK v)
    (hwf : ∀ l ∈ mentioned m, ∃ v ∈ m.vars, v.name = l) :
    (∀ v ∈ m.vars, ∃ v' ∈ (normCqm m).vars, v'.name = v.name ∧ v'.vt = v.vt ∧ v'.lb = v.lb ∧ v'.ub = v.ub) ∧
    (∀ v' ∈ (normCqm m).vars, ∃ v ∈ m.vars, v.name = v'.name) :=
  ⟨fun v hv => vars_roundtrip m hnd v hv (hok v hv), fun v' hv' => vars_no_extra m hwf v' hv'⟩

/-- **lp_refuses**: a soft constraint, a constraint label or variable label `_validate_label` rejects, or a
    SPIN variable make `dump` raise before anything is written (`dumps` returns no text) -/
theorem lp_refuses (m : LCqm)
    (h : (∃ c ∈ m.cons, c.soft = true) ∨ (∃ c ∈ m.cons, validLabel c.label = false) ∨
         (∃ v ∈ m.vars, validLabel v.name = false ∨ v.vt = .spin)) :
    ∃ r, dumps m = .error r := by
  by_cases hs : ∃ c ∈ m.cons, c.soft = true
  · obtain ⟨c, hc, hsoft⟩ := hs
    exact ⟨_, dumps_error_of_dumpToks_error m _ (dump_refuses_soft m c hc hsoft)⟩
  · have hns : ∀ c ∈ m.cons, c.soft = false := by
      intro c hc
      cases hcs : c.soft with
      | false => rfl
      | true => exact absurd ⟨c, hc, hcs⟩ hs
    rcases h with h | ⟨c, hc, hl⟩ | ⟨v, hv, hbad⟩
    · exact absurd h hs
    · exact ⟨_, dumps_error_of_dumpToks_error m _ (dump_refuses_conlabel m hns c hc hl)⟩
    · obtain ⟨r, hr⟩ := dump_refuses_var m v hv hbad
      exact ⟨r, dumps_error_of_dumpToks_error m r hr⟩

/-- labels that are not strings, empty, or longer than 255 characters are rejected -/
theorem label_rules :
    validLabel (.int 3) = false ∧ validLabel (.tup []) = false ∧ validLabel (.str "") = false ∧
    (∀ s : String, s.toList.length > 255 → validLabel (.str s) = false) := by
  refine ⟨rfl, rfl, by decide +kernel, ?_⟩
  intro s hs
  simp only [validLabel]
  cases hcs : s.toList with
  | nil => rfl
  | cons c t =>
    rw [hcs] at hs
    simp only [List.length_cons] at hs
    simp only [List.length_cons, Bool.and_eq_false_imp, Bool.and_eq_true, decide_eq_true_eq]
    intro h; omega

/-! ## non-vacuity -/

/-- a small model is written as the expected text and read back -/
example :
    dumps ⟨[⟨.str "x", .integer, 0, 5⟩, ⟨.str "y", .binary, 0, 1⟩],
           ⟨[(.str "x", 2), (.str "y", -1/2)], [(.str "x", .str "y", 3/4)], 1⟩,
           [⟨.str "c0", ⟨[(.str "x", 1), (.str "y", 1)], [], 1⟩, .le, 3, false⟩]⟩
      = .ok "Minimize\n obj: + 2 x - 0.5 y + [ + 1.5 x * y ]/2 + 1 \n\nSubject To \n c0: + 1 x + 1 y  <= 2.0\n\nBounds\n 0.0 <= x <= 5.0\n\nBinary\n y\nGeneral\n x\nEnd" := by
  decide +kernel

example : validLabel (.str "Subject") = false ∧ validLabel (.str "such") = false ∧ validLabel (.str "To") = true := by
  decide +kernel

example : Dec60 (3 / 8) := ⟨3, by decide, by decide +kernel⟩

example : validLabel (.str "x1") = true ∧ validLabel (.str "1x") = false ∧ validLabel (.str "a b") = false := by
  decide +kernel

/-! ## round 7 — the C++ reader as coded (`DimodModel/LpReader.lean`, namespace `LpCpp`)

`LpCpp.loads` mirrors `extern/filereaderlp/reader.cpp` (character-level tokenizer with `strtod` as the correctly rounded
binary64 value, 3-token look-ahead `processtokens`, `splittokens`, the section processors in the source's order) composed
with `model_to_cqm` / `cyread_lp_file`; its keyword tables, identifier terminators and single-character switch are
regenerated from the C++ source on every run (`Generated/LpKeywords.lean`).  The harness drives it (`lpread`) against
`dimod.lp.loads` on writer output, near misses of writer output, hand-style LP texts and their near misses. -/

open LpCpp in
/-- **no valid label is a word of the real reader's grammar** — `To` included: over the keyword tables of `reader.cpp` /
    `def.hpp` and the label tables of `dimod/lp.py` (both regenerated from the source), a label `_validate_label`
    accepts is not a section keyword, two such labels following each other (`Binary` / `General` sections) do not join
    into a two-word keyword (`subject to`, `such that`: the layout of D59) nor, around a hyphen, into `semi-continuous`,
    and none is read as `free` or as an infinity.  This is the reader-side statement `valid_label_not_grammar_word`
    makes for the specification grammar, without its `To` exception. -/
theorem valid_labels_form_no_reader_keyword (s t : String)
    (hs : validLabel (.str s) = true) (ht : validLabel (.str t) = true) :
    parseKw (lowerAscii s) = none ∧
    parseKw (lowerAscii s ++ " " ++ lowerAscii t) = none ∧
    parseKw (lowerAscii s ++ "-" ++ lowerAscii t) = none ∧
    Generated.LpKeywords.freeWords.contains (lowerAscii s) = false ∧
    Generated.LpKeywords.infWords.contains (lowerAscii s) = false := by
  obtain ⟨hsv, hsr⟩ := valid_parts s hs
  refine ⟨?_, join_no_keyword s t hs ht ' ' (Or.inl rfl), join_no_keyword s t hs ht '-' (Or.inr rfl), ?_, ?_⟩
  · apply parseKw_none
    intro p hp he
    rcases keyword_table_single p hp with h | h | h
    · rw [he, lowerAscii_eq_lowerStr, hsr] at h; cases h
    · rw [he] at h; exact lower_no_sep s hsv ' ' (Or.inl rfl) h
    · rw [he] at h; exact lower_no_sep s hsv '-' (Or.inr rfl) h
  · cases hc : Generated.LpKeywords.freeWords.contains (lowerAscii s) with
    | false => rfl
    | true =>
      have := free_inf_table (lowerAscii s) (List.mem_append_left _ (List.contains_iff_mem.mp hc))
      rw [lowerAscii_eq_lowerStr, hsr] at this; cases this
  · cases hc : Generated.LpKeywords.infWords.contains (lowerAscii s) with
    | false => rfl
    | true =>
      have := free_inf_table (lowerAscii s) (List.mem_append_right _ (List.contains_iff_mem.mp hc))
      rw [lowerAscii_eq_lowerStr, hsr] at this; cases this

/-- the label `To` meets the hypothesis of `valid_labels_form_no_reader_keyword` on either side -/
example : validLabel (.str "To") = true ∧ validLabel (.str "that") = true ∧ validLabel (.str "continuous") = true := by
  decide +kernel

/-- **refusals of the reader, explicit**: each of these texts (no `End`, tokens after `End`, `- [`, `constant [`, an
    objective bracket without `/ 2`, `/ 2` in a constraint, another power than 2, strict comparisons, `=<`, a constant
    on the left of a constraint, a ranged constraint, two constraints with one name, `0 :`, semi-continuous variables,
    a SOS type other than S1/S2, a section kind opened twice, malformed bounds, a number in the Binary section, two
    objective sections, a missing right-hand side) is refused by the reader model; the harness checks on every run
    that `dimod.lp.loads` raises on the same list. -/
theorem cpp_reader_refuses_malformed : ∀ t ∈ LpCpp.malformedTexts, LpCpp.loads t = .error .refused := by
  -- evaluated by the kernel in three parallel modules (`DimodProofs/LpMalformed{0,1,2}.lean`)
  have hsplit : LpCpp.malformedTexts = LpCpp.malformedPart 0 ++ LpCpp.malformedPart 1 ++ LpCpp.malformedPart 2 := by decide +kernel
  intro t ht
  rw [hsplit, List.mem_append, List.mem_append] at ht
  rcases ht with (h | h) | h
  · exact LpCpp.malformed_part_0 t h
  · exact LpCpp.malformed_part_1 t h
  · exact LpCpp.malformed_part_2 t h

/-- `model_to_cqm` refuses semi-continuous and semi-integer variables whatever their bounds -/
theorem cpp_reader_refuses_semi (v : LpCpp.CVar) (h : v.type = .semicont ∨ v.type = .semiint) :
    LpCpp.toVar v = .error .refused := by
  rcases h with h | h <;> simp [LpCpp.toVar, h]

/-- **closed round trip through the C++ reader model, evaluated** (`_partial`: eight concrete models, not every CQM):
    for eight models of `LpCpp.family` (BINARY / INTEGER / REAL variables, one of them called `To`, a constraint called
    `To`, default, fractional, negative and extreme bounds, zero coefficients, squares, 7- and 16-digit and
    10-binary-place numbers, offsets folded into right-hand sides, the three senses) the text `Lp.dumps` writes is read
    by `LpCpp.loads` — characters → raw tokens → processed tokens → sections → `model_to_cqm` — as exactly `normCqm m`,
    the model `lp_roundtrip_text_closed` proves for the specification reader.  For all other CQMs the equation
    `LpCpp.loads (Lp.dumps m) = normCqm m` is established by the correspondence run only (`lpread` on every writer output
    of the harness).  Two models per theorem for elaboration time. -/
theorem cpp_reader_roundtrip_family_a_partial :
    ∀ m ∈ LpCpp.familyPick 0, LpCpp.numsDouble m = true ∧ (Lp.dumps m).toOption.isSome = true ∧ LpCpp.roundTripOK m = true := by
  -- the two models are evaluated by the kernel in their own modules (`DimodProofs/LpFamily0.lean`, `LpFamily1.lean`)
  have hsplit : LpCpp.familyPick 0 = LpCpp.familyOne 0 ++ LpCpp.familyOne 1 := by decide +kernel
  intro m hm
  rw [hsplit, List.mem_append] at hm
  rcases hm with h | h
  · exact LpCpp.famOK_spec m (LpCpp.family_member_0 m h)
  · exact LpCpp.famOK_spec m (LpCpp.family_member_1 m h)

theorem cpp_reader_roundtrip_family_b_partial :
    ∀ m ∈ LpCpp.familyPick 1, LpCpp.numsDouble m = true ∧ (Lp.dumps m).toOption.isSome = true ∧ LpCpp.roundTripOK m = true := by
  -- the two models are evaluated by the kernel in their own modules (`DimodProofs/LpFamily2.lean`, `LpFamily3.lean`)
  have hsplit : LpCpp.familyPick 1 = LpCpp.familyOne 4 ++ LpCpp.familyOne 5 := by decide +kernel
  intro m hm
  rw [hsplit, List.mem_append] at hm
  rcases hm with h | h
  · exact LpCpp.famOK_spec m (LpCpp.family_member_4 m h)
  · exact LpCpp.famOK_spec m (LpCpp.family_member_5 m h)

theorem cpp_reader_roundtrip_family_c_partial :
    ∀ m ∈ LpCpp.familyPick 2, LpCpp.numsDouble m = true ∧ (Lp.dumps m).toOption.isSome = true ∧ LpCpp.roundTripOK m = true := by
  -- the two models are evaluated by the kernel in their own modules (`DimodProofs/LpFamily4.lean`, `LpFamily5.lean`)
  have hsplit : LpCpp.familyPick 2 = LpCpp.familyOne 14 ++ LpCpp.familyOne 15 := by decide +kernel
  intro m hm
  rw [hsplit, List.mem_append] at hm
  rcases hm with h | h
  · exact LpCpp.famOK_spec m (LpCpp.family_member_14 m h)
  · exact LpCpp.famOK_spec m (LpCpp.family_member_15 m h)

theorem cpp_reader_roundtrip_family_d_partial :
    ∀ m ∈ LpCpp.familyPick 3, LpCpp.numsDouble m = true ∧ (Lp.dumps m).toOption.isSome = true ∧ LpCpp.roundTripOK m = true := by
  -- the two models are evaluated by the kernel in their own modules (`DimodProofs/LpFamily6.lean`, `LpFamily7.lean`)
  have hsplit : LpCpp.familyPick 3 = LpCpp.familyOne 22 ++ LpCpp.familyOne 23 := by decide +kernel
  intro m hm
  rw [hsplit, List.mem_append] at hm
  rcases hm with h | h
  · exact LpCpp.famOK_spec m (LpCpp.family_member_22 m h)
  · exact LpCpp.famOK_spec m (LpCpp.family_member_23 m h)

/-- the picks are not vacuous: two models each -/
example : (List.range 4).map (fun i => (LpCpp.familyPick i).length) = [2, 2, 2, 2] := by decide +kernel

/-- binary64 rounding as `strtod` does it: ties to even, subnormals, overflow, and fixed points -/
example :
    LpCpp.roundDouble (1 / 10) = .fin (3602879701896397 / 36028797018963968) ∧
    LpCpp.roundDouble 9007199254740993 = .fin 9007199254740992 ∧
    LpCpp.roundDouble (3 / 8) = .fin (3 / 8) ∧ LpCpp.isDouble realMax = true ∧ LpCpp.isDouble intMax = true := by
  decide +kernel

/-- a hand-style text: aliases, `maximize`, omitted coefficients, `x ^ 2`, `free`, `-inf`, comments -/
example :
    LpCpp.loads "MAX\n obj: 2 x - y + [ 4 x * y + 2 y ^ 2 ] / 2 + 3 \\ note\nst\n c1: x + y >= 1\nBound\n x free\n -inf <= y <= 7\nGenerals\n y\nEND"
      = .ok ⟨[⟨.str "x", .real, -realMax, realMax⟩, ⟨.str "y", .integer, -intMax, 7⟩],
             ⟨[(.str "x", -2), (.str "y", 1)], [(.str "x", .str "y", -2), (.str "y", .str "y", -1)], -3⟩,
             [⟨.str "c1", ⟨[(.str "x", 1), (.str "y", 1)], [], 0⟩, .ge, 1, false⟩]⟩ := by
  decide +kernel

/-! ## round 8 — the lexical step of the general round trip through the C++ reader model

The route to `∀ m, LpCpp.loads (Lp.dumps m) = normCqm m` (notes/r7d-r7.md) starts at the characters: these theorems are that
first step at full generality (every label `_validate_label` accepts, every integral number, any continuation of the line,
any fuel), proved over the generated tables (`LABEL_VALID_CHARS`, `LABEL_INVALID_FIRST_CHARS`, `LABEL_INVALID_PREFIXES` of
`dimod/lp.py`; the identifier terminators and the single-character switch of `reader.cpp`).  The later steps
(`procToks` on the writer's token shapes — whose label half is `valid_labels_form_no_reader_keyword` —, `splitToks`, the
section parsers, `toCqm`) are still established by kernel evaluation on the family and by the correspondence run only. -/

open LpCpp in
/-- **every valid label is read by the C++ tokenizer as one identifier with exactly that text**: for every string
    `_validate_label` accepts (`To`, `e`-less first characters, up to 255 characters, …), followed by the end of the line
    or by a character that ends an identifier (the writer puts a blank, `:` or a newline there), `readnexttoken` — `strtod`
    first, then the identifier rule — produces the token `str s` and continues with the rest of the line.  In particular
    `strtod` converts no prefix of a valid label: this is what the writer's invalid first characters (digits, `.`, `e`, `E`)
    and invalid prefixes (`inf`, `nan`) are there for. -/
theorem cpp_lexer_reads_valid_label (s : String) (hs : validLabel (.str s) = true) (rest : List Char) (hr : Stops rest)
    (fuel : Nat) : lexLine (fuel + 1) (s.toList ++ rest) = (lexLine fuel rest).map (Raw.str s :: ·) :=
  lexLine_label s hs rest hr fuel

open LpCpp in
/-- **`strtod` on the digits the writer prints for a natural number**: all of them are consumed (no `0x`, no exponent, no
    fraction is seen in what follows a stop character) and the value is the binary64 nearest to the number -/
theorem cpp_strtod_reads_natural (n : Nat) (rest : List Char) (hr : Stops rest) :
    strtod ((showNat n).toList ++ rest) = .ok (some (roundDouble (n : Rat), (showNat n).toList.length)) := by
  simp only [showNat, String.toList_ofList]
  exact strtod_natDigits n rest hr

open LpCpp in
/-- **an integral coefficient is read by the C++ tokenizer as one constant token with its exact magnitude**: `_abs(bias)`
    of an integral bias that is a binary64 value (every bias of a real model is) is one `cons` token whose value is
    `|bias|` — the sign is a token of its own in the writer's layout (`+ 3 x`, `- 3 x`). -/
theorem cpp_lexer_reads_integral_coefficient (b : Rat) (hb : b.den = 1) (hd : isDouble (absQ b) = true) (rest : List Char)
    (hr : Stops rest) (fuel : Nat) :
    lexLine (fuel + 1) ((showAbs b).toList ++ rest) = (lexLine fuel rest).map (Raw.cons (.fin (absQ b)) :: ·) := by
  have ha : (absQ b).den = 1 := by unfold absQ; split <;> simp [hb]
  have h0 : 0 ≤ absQ b := by unfold absQ; split <;> grind
  have hs : showAbs b = showNat (absQ b).num.toNat := by
    have : (if b < 0 then -b else b) = absQ b := rfl
    simp only [showAbs, this, ha, if_true]
  have hn : (((absQ b).num.toNat : Nat) : Rat) = absQ b := natCast_of_den_one _ ha h0
  rw [hs]
  simp only [showNat, String.toList_ofList]
  rw [lexLine_natDigits _ rest hr fuel, hn]
  simp only [isDouble, decide_eq_true_eq] at hd
  rw [hd]

open LpCpp in
/-- **every coefficient the writer prints is read by the C++ tokenizer as one constant token with its exact magnitude**:
    `_abs(bias)` — `repr(abs(int(bias)))` for an integral bias, the positional `repr(abs(float(bias)))` otherwise — of a
    bias with a terminating decimal expansion (≤ 60 places: every dyadic rational up to 2⁻⁶⁰) that is a binary64 value
    (every bias of a real model is both) is one `cons` token of value `|bias|`: `strtod` consumes the integer part, the
    point and all fraction digits, sees no exponent, no `0x`, no `inf`/`nan`, and its correctly rounded value is the
    number itself.  Exponent notation (`repr` of magnitudes ≥ 1e16 or < 1e-4) is outside the writer model. -/
theorem cpp_lexer_reads_coefficient (b : Rat) (hd : Dec60 b) (hdb : isDouble (absQ b) = true) (rest : List Char)
    (hr : Stops rest) (fuel : Nat) :
    lexLine (fuel + 1) ((showAbs b).toList ++ rest) = (lexLine fuel rest).map (Raw.cons (.fin (absQ b)) :: ·) := by
  by_cases hi : b.den = 1
  · exact cpp_lexer_reads_integral_coefficient b hi hdb rest hr fuel
  · have hda : Dec60 (absQ b) := by unfold absQ; split; exact dec60_neg b hd; exact hd
    have h0 : 0 ≤ absQ b := by unfold absQ; split <;> grind
    have ha : ¬ (absQ b).den = 1 := by unfold absQ; split <;> simp [hi]
    have hs : showAbs b = showPosDecimal (absQ b) := by
      have : (if b < 0 then -b else b) = absQ b := rfl
      simp only [showAbs, this, ha, if_false]
    simp only [isDouble, decide_eq_true_eq] at hdb
    rw [hs, lexLine_showPosDecimal _ h0 hda rest hr fuel, hdb]

open LpCpp in
/-- **every right-hand side and bound the writer prints is read back exactly**: `repr(float(x))` of a terminating
    decimal that is a binary64 value, other than the two REAL limits `±1e+30` (printed in exponent notation; their
    reading is evaluated in `cpp_reader_roundtrip_family_*_partial`), is the token `cons x` when `x ≥ 0` and the two
    tokens `minus`, `cons (-x)` when `x < 0` (`processtokens` then folds the sign into the constant). -/
theorem cpp_lexer_reads_rhs_and_bounds (q : Rat) (hd : Dec60 q) (hdb : isDouble (absQ q) = true)
    (hne : q ≠ realMax ∧ q ≠ -realMax) (rest : List Char) (hr : Stops rest) (fuel : Nat) :
    lexLine (fuel + 2) ((showFloat q).toList ++ rest) =
      if q < 0 then (lexLine fuel rest).map (fun ts => Raw.minus :: Raw.cons (.fin (-q)) :: ts)
      else (lexLine (fuel + 1) rest).map (Raw.cons (.fin q) :: ·) := by
  simp only [isDouble, decide_eq_true_eq] at hdb
  unfold showFloat
  rw [if_neg hne.1, if_neg hne.2]
  by_cases h3 : q < 0
  · have ha : absQ q = -q := by simp [absQ, h3]
    rw [ha] at hdb
    simp only [h3, if_true]
    have hl : ("-" ++ showPosDecimal (-q)).toList ++ rest = '-' :: ((showPosDecimal (-q)).toList ++ rest) := by
      rw [String.toList_append]; rfl
    rw [hl, lexLine]
    have hm : singleTok '-' = some Raw.minus := by decide
    simp only [hm, show ¬ ('-' = '\\' ∨ '-' = ';' ∨ '-' = '\n') by decide, show ¬ ('-' = ' ' ∨ '-' = '\t') by decide,
      show ¬ ('-' = Char.ofNat 0) by decide, if_false]
    rw [lexLine_showPosDecimal _ (by grind) (dec60_neg q hd) rest hr fuel, hdb]
    cases lexLine fuel rest <;> rfl
  · have ha : absQ q = q := by simp [absQ, h3]
    rw [ha] at hdb
    simp only [h3, if_false]
    rw [lexLine_showPosDecimal _ (by grind) hd rest hr (fuel + 1), hdb]

/-- the hypotheses are met: the writer's continuations (blank, colon, newline, end of line) are stops -/
example : LpCpp.Stops [' ', '<', '='] ∧ LpCpp.Stops [':', ' '] ∧ LpCpp.Stops ['\n'] ∧ LpCpp.Stops [] :=
  ⟨Or.inr ⟨_, _, rfl, by decide +kernel⟩, Or.inr ⟨_, _, rfl, by decide +kernel⟩, Or.inr ⟨_, _, rfl, by decide +kernel⟩, Or.inl rfl⟩

/-- … and the statements compute on a line of a written file (label `To`, a label starting with `Inf` refused: `I.a`) -/
example :
    LpCpp.isDouble (absQ (-9007199254740991)) = true ∧ validLabel (.str "Inf.a") = false ∧
    LpCpp.lexLine 40 " To: + 12 x_1 - 9007199254740991 I.a >= -3".toList =
      .ok [.str "To", .colon, .plus, .cons (.fin 12), .str "x_1", .minus, .cons (.fin 9007199254740991), .str "I.a",
           .greater, .equal, .minus, .cons (.fin 3)] := by
  decide +kernel

/-! ### the whole lexical layer: from the model to the raw tokens of the C++ reader -/

open LpCpp in
/-- **every write of `dump` is read by the C++ tokenizer as that write's raw tokens, in any context**: the text of a
    write (without its final newline) is a newline-free piece that `readnexttoken` turns into `rawOf t` whatever text
    follows (for `" name"` and `End`: provided a blank / newline / the end of the file follows, which the next write of
    `dump` supplies) — for all labels `_validate_label` accepts and all numbers that are terminating decimals and binary64
    values, `1e+30` included. -/
theorem cpp_lexer_reads_every_write (t : Tok) (h : TokCppOK t) : ∀ a ∈ tokAtoms t, a.ok := tokAtoms_ok t h

open LpCpp in
/-- … and the pieces are the write: their text is the text written, their tokens are `rawOf t` -/
theorem cpp_lexer_write_pieces (t : Tok) :
    atomsText (tokAtoms t) = t.render.toList ∧ (tokAtoms t).flatMap Atom.raw = rawOf t :=
  ⟨tokAtoms_text t, tokAtoms_raw t⟩

open LpCpp in
/-- **the C++ reader's tokenizer on the text of `lp.dumps`, for every model** (the first of the four stages of
    `LpCpp.loads`; `_partial` with respect to the general theorem `LpCpp.loads (Lp.dumps m) = normCqm m`, whose later
    stages `processtokens` / `splittokens` / section parsers / `model_to_cqm` are proved only per label
    (`cpp_processtokens_keeps_valid_label`, `valid_labels_form_no_reader_keyword`) and evaluated on the family):
    for every model the writer accepts — any number of variables, terms and constraints, labels of any accepted form
    (`To` included), every line break `_WidthLimitedFile` inserts — whose numbers are terminating decimals (≤ 60 places)
    and binary64 values and whose expressions mention only its own variables, `Reader::readnexttoken` over the
    `std::getline` lines of the written text (comments, `\r` stripping, `strtod` before the identifier rule) yields
    exactly the raw tokens of the writes, in order: no label is split or taken for a number, no number is split, rounded
    or glued to its neighbour, no line break changes a token. -/
theorem cpp_reader_tokenizes_every_dump_partial (m : LCqm) (ts : List Tok) (text : String) (h : dumpToks m = .ok ts)
    (ht : dumps m = .ok text) (hn : CppNumsOK m) (hl : ScopedOK m) :
    rawTokens text = .ok (ts.flatMap rawOf) :=
  rawTokens_dumps m ts text h ht hn hl

open LpCpp in
/-- **`processtokens` keeps every valid label a name, whatever follows**: a label `_validate_label` accepts is never
    turned into a section keyword — alone, joined with the next word (`subject to`) or with `-` and the word after it
    (`semi-continuous`) — nor into `free` or an infinity; it becomes a constraint identifier exactly when one colon
    follows and a variable identifier otherwise (two colons: the SOS syntax, outside the writer's grammar). -/
theorem cpp_processtokens_keeps_valid_label (s : String) (hs : validLabel (.str s) = true) (rest : List Raw) (fuel : Nat)
    (hcc : ∀ r, rest ≠ .colon :: .colon :: r) :
    procToks (fuel + 1) (.str s :: rest) =
      match rest with
      | .colon :: r => (procToks fuel r).map (PTok.conid s :: ·)
      | _ => (procToks fuel rest).map (PTok.varid s :: ·) :=
  procToks_label s hs rest fuel hcc

/-- a model with a variable and a constraint called `To`, a fraction, a 16-digit integer, default REAL bounds (`1e+30`) -/
def exModelR8 : LCqm :=
  ⟨[⟨.str "x", .integer, 0, 5⟩, ⟨.str "To", .binary, 0, 1⟩, ⟨.str "r", .real, -5/2, realMax⟩],
   ⟨[(.str "x", -1/2), (.str "r", 9007199254740991)], [(.str "x", .str "To", 3/2)], 1⟩,
   [⟨.str "To", ⟨[(.str "To", 1), (.str "x", 2)], [], 1/4⟩, .ge, 1, false⟩]⟩

open LpCpp in
/-- the hypotheses of `cpp_reader_tokenizes_every_dump_partial` are met by a model the writer accepts -/
example : CppNumsOK exModelR8 ∧ ScopedOK exModelR8 ∧ (dumps exModelR8).toOption.isSome = true := by
  refine ⟨⟨?_, ?_, ?_, ?_, ?_, ?_, ?_⟩, ⟨?_, ?_, ?_, ?_⟩, by decide +kernel⟩
  all_goals simp only [exModelR8, List.mem_cons, List.mem_nil_iff, or_false, forall_eq_or_imp, forall_eq]
  all_goals first
    | exact numOK_of_dyadic _ 2 (by decide) (by decide +kernel) (by decide +kernel)
    | (refine ⟨?_, ?_⟩ <;> exact numOK_of_dyadic _ 2 (by decide) (by decide +kernel) (by decide +kernel))
    | (intro q hq; exact absurd hq id)
    | (refine ⟨⟨?_, ?_⟩, ⟨?_, ?_⟩, ?_, ?_⟩ <;> exact numOK_of_dyadic _ 2 (by decide) (by decide +kernel) (by decide +kernel))
    | simp

end C12
