import DimodProofs.CqmLiftMore
import DimodProofs.CqmHistory
import DimodProofs.CqmHistory2
import DimodProofs.CqmHistory3
import DimodProofs.CqmHistory4
import DimodProofs.CqmHistory5
import DimodProofs.CqmOnehotTable

/-! # C05 — a CQM keeps every expression attached to the right variables

Model: `DimodModel/Cqm.lean` — `Expr` mirrors `Expression` (`variables_` = `vars`, the hash map
`indices_` = `idx`, base model over local indices = `qb`), `Cqm` mirrors `ConstrainedQuadraticModel`
plus the Python label lists.  `Expr.linear g` / `Expr.quadratic g h` / `Expr.hasVar g` are the C++
accessors `Expression::linear(v)`, `quadratic(u, v)`, `has_variable(v)`: together with `vars` (the
private order) and the offset they are the *plain polynomial* an expression denotes (its `abs`).
`CqmP.shift v u = u - [u > v]`. -/

namespace C05
open CqmP

/-- `Expression::reindex_variables(v)`: every remaining global index `u` becomes `u - [u > v]`, the local
    order is preserved, `indices_` is again the inverse of `variables_`, no term is gained or lost, and the
    expression stays well formed. -/
theorem reindex_spec (e : Expr) (hwf : ExprWF e) (v : Nat) :
    (e.reindex v).vars = (e.vars.filter (· ≠ v)).map (shift v)
    ∧ (∀ g i, (e.reindex v).idx.get? g = some i ↔ (e.reindex v).vars[i]? = some g)
    ∧ (e.reindex v).qb.off = e.qb.off
    ∧ (∀ g, g ≠ v → (e.reindex v).hasVar (shift v g) = e.hasVar g
                   ∧ (e.reindex v).linear (shift v g) = e.linear g)
    ∧ (∀ g h, g ≠ v → h ≠ v → (e.reindex v).quadratic (shift v g) (shift v h) = e.quadratic g h)
    ∧ ExprWF (e.reindex v) :=
  ⟨reindex_vars hwf v, reindex_idxInv hwf v, reindex_off e v,
   fun g hg => ⟨reindex_hasVar hwf v g hg, reindex_linear hwf v g hg⟩,
   fun g h hg hh => reindex_quadratic hwf v g h hg hh, reindex_wf hwf v⟩

/-- "Removing a variable only shifts indices: no expression gains, loses or swaps a term belonging to
    another variable": after the C++ `remove_variable(v)` (+ label removal) the objective and every
    constraint are the same expressions with `v` gone and indices above `v` decremented; sense, rhs,
    weight, penalty and discrete mark of every constraint are untouched; the number and labels of the
    constraints too. -/
theorem remove_only_shifts (m : Cqm) (hwf : CqmWF m) (v : Nat) :
    ExprShifted v m.obj (m.removeVarAt v).obj
    ∧ (m.removeVarAt v).cons.length = m.cons.length
    ∧ (m.removeVarAt v).clabels = m.clabels
    ∧ ∀ k, k < m.cons.length →
        ExprShifted v (m.cons.getD k {}).e ((m.removeVarAt v).cons.getD k {}).e
        ∧ ((m.removeVarAt v).cons.getD k {}).sense = (m.cons.getD k {}).sense
        ∧ ((m.removeVarAt v).cons.getD k {}).rhs = (m.cons.getD k {}).rhs
        ∧ ((m.removeVarAt v).cons.getD k {}).weight = (m.cons.getD k {}).weight
        ∧ ((m.removeVarAt v).cons.getD k {}).quadPenalty = (m.cons.getD k {}).quadPenalty
        ∧ ((m.removeVarAt v).cons.getD k {}).discrete = (m.cons.getD k {}).discrete := by
  refine ⟨exprShifted_reindex hwf.obj v, by rw [removeVarAt_cons, List.length_map], rfl, ?_⟩
  intro k hk
  rw [removeVarAt_cons, getD_map_cons _ _ _ hk]
  exact ⟨exprShifted_reindex (hwf.cons _ (getD_mem _ _ _ hk)) v, rfl, rfl, rfl, rfl, rfl⟩

/-- Type, bounds and label travel with the variable: what was at index `u ≠ v` is at `u - [u > v]`. -/
theorem varinfo_follows (m : Cqm) (v u : Nat) (hu : u ≠ v) (dvt : VT4) (d : Rat) (dl : Label) :
    (m.removeVarAt v).vt.getD (shift v u) dvt = m.vt.getD u dvt
    ∧ (m.removeVarAt v).lb.getD (shift v u) d = m.lb.getD u d
    ∧ (m.removeVarAt v).ub.getD (shift v u) d = m.ub.getD u d
    ∧ (m.removeVarAt v).labels.getD (shift v u) dl = m.labels.getD u dl :=
  ⟨getD_eraseIdx_shift _ hu _, getD_eraseIdx_shift _ hu _, getD_eraseIdx_shift _ hu _, getD_eraseIdx_shift _ hu _⟩

/-- The representation invariant `CqmWF` — in every expression `variables_` is duplicate free and
    `indices_` is its inverse, the bias vectors have one entry per local variable and every neighbourhood
    entry points at a local variable, every expression only mentions variables of the model, `varinfo_`
    and the label list have one entry per variable, `constraint_labels` one per constraint — is preserved
    by **every** public mutation (`Cqm.step`: add/remove/fix/flip/retype/relabel variables, set objective
    from a model or an iterable, add constraints from models / comparisons / iterables, copied or moved,
    discrete constraints, soft weights, remove/relabel constraints (cascade), bounds, mutation through the
    objective / constraint views, deep copy), also by the calls that raise. -/
theorem cqm_inv_preserved (m : Cqm) (hwf : CqmWF m) (op : Cqm.Op) (hop : OpOK op) : CqmWF (m.step op).1 :=
  step_wf hwf op hop

/-- …hence after any history from the empty model. -/
theorem history_inv (ops : List Cqm.Op) (hops : ∀ op ∈ ops, OpOK op) : CqmWF (({} : Cqm).run ops) :=
  run_wf ops cqmWF_empty hops

/-- The variable labels and the constraint labels stay duplicate free under every operation (new labels are
    checked or generated fresh, `relabel_*` is `Variables._relabel`, removal erases) — so `remove_refines`
    below applies at any point of any history. -/
theorem labels_preserved (m : Cqm) (h : CqmLabelsOK m) (op : Cqm.Op) : CqmLabelsOK (m.step op).1 :=
  step_labels h op

theorem history_labels (ops : List Cqm.Op) : CqmLabelsOK (({} : Cqm).run ops) :=
  run_labels ops ⟨List.nodup_nil, List.nodup_nil⟩

/-- In particular after any history every `indices_` map is the inverse of its `variables_`
    (what `enforce_variable`, `linear`, `quadratic`, `energy` rely on), for the objective and every constraint. -/
theorem history_indices_inverse (ops : List Cqm.Op) (hops : ∀ op ∈ ops, OpOK op) :
    (∀ g i, (({} : Cqm).run ops).obj.idx.get? g = some i ↔ (({} : Cqm).run ops).obj.vars[i]? = some g)
    ∧ ∀ c ∈ (({} : Cqm).run ops).cons, ∀ g i, c.e.idx.get? g = some i ↔ c.e.vars[i]? = some g :=
  ⟨(history_inv ops hops).obj.idx, fun c hc => ((history_inv ops hops).cons c hc).idx⟩

/-- Refinement to a plain list of polynomials (`absCqm`: every expression as label-keyed coefficient
    functions + its private variable order; variables with type and bounds by label; constraints with their
    attributes — no index anywhere), for the operation the property singles out: a successful
    `remove_variable(v)` *is* "drop `v` and its terms" on that list; nothing else changes. -/
theorem remove_refines (m m' : Cqm) (hwf : CqmWF m) (hnd : m.labels.Nodup) (v : Label)
    (h : m.step (.removeVariable v) = (m', none)) : absCqm m' = (absCqm m).removeVariable v := by
  have h' : m.removeVariableR v = (m', none) := h
  unfold Cqm.removeVariableR at h'
  cases hidx : m.idx? v with
  | none => rw [hidx] at h'; cases h'
  | some g =>
    rw [hidx] at h'
    simp only [] at h'
    by_cases hd : m.inDiscrete g = true
    · rw [if_pos hd] at h'; cases h'
    · rw [if_neg hd] at h'
      have hm : m.removeVarAt g = m' := (Prod.mk.inj h').1
      have hg : m.labels[g]? = some v := by
        have := findIdx_get hidx; simpa using this
      rw [← hm]
      exact absCqm_removeVarAt hwf hnd hg

/-- After any history every neighbourhood of every expression is strictly sorted by local index — what
    `std::lower_bound` in `asymmetric_quadratic_ref` and the early `break` of `abc::energy` rely on. -/
theorem history_sorted (ops : List Cqm.Op) (hops : ∀ op ∈ ops, OpOK op) : AllExprs ExprSorted (({} : Cqm).run ops) :=
  run_sorted ops hops

/-- `cqm_step_refines`, term insertion: terms written into an expression land on the right variables.
    `add_linear(g, b)` adds `b` to the bias of `g` and to nothing else, appending `g` to the private order iff
    it was not there; `add_quadratic(u, v, b)` (`u ≠ v`) adds `b` to the bias of the pair {u, v} — seen from
    either side — and to no other pair.
    `add_quadratic(g, g, b)` puts `b` on the linear bias of a BINARY `g` (x·x = x), on the offset for a SPIN `g`
    (x·x = 1), on the diagonal entry otherwise — and nowhere else.
    These are the index-level statements; `cqm_step_refines` and its companions below lift them (and the other
    operations) to the label-keyed polynomials. -/
theorem cqm_step_refines_partial (e : Expr) (hwf : ExprWF e) (hs : ExprSorted e) (vt : List VT4) (g gu gv : Nat)
    (hne : gu ≠ gv) (b : Rat) :
    (∀ k, (e.addLinear g b).linear k = if k = g then e.linear g + b else e.linear k)
    ∧ (e.addLinear g b).vars = (if e.hasVar g then e.vars else e.vars ++ [g])
    ∧ ExprWF (e.addLinear g b)
    ∧ (∀ x y, (e.addQuadratic vt gu gv b).quadratic x y
          = e.quadratic x y + (if (x = gu ∧ y = gv) ∨ (x = gv ∧ y = gu) then b else 0))
    ∧ ExprWF (e.addQuadratic vt gu gv b) ∧ ExprSorted (e.addQuadratic vt gu gv b)
    ∧ (vt.getD g .binary = .binary →
        (∀ k, (e.addQuadratic vt g g b).linear k = if k = g then e.linear g + b else e.linear k)
        ∧ (e.addQuadratic vt g g b).qb.off = e.qb.off
        ∧ ∀ x y, (e.addQuadratic vt g g b).quadratic x y = e.quadratic x y)
    ∧ (vt.getD g .binary = .spin →
        (∀ k, (e.addQuadratic vt g g b).linear k = e.linear k)
        ∧ (e.addQuadratic vt g g b).qb.off = e.qb.off + b
        ∧ ∀ x y, (e.addQuadratic vt g g b).quadratic x y = e.quadratic x y)
    ∧ (vt.getD g .binary ≠ .binary → vt.getD g .binary ≠ .spin →
        (∀ k, (e.addQuadratic vt g g b).linear k = e.linear k)
        ∧ (e.addQuadratic vt g g b).qb.off = e.qb.off
        ∧ ∀ x y, (e.addQuadratic vt g g b).quadratic x y = e.quadratic x y + (if x = g ∧ y = g then b else 0)) :=
  ⟨addLinear_linear hwf g b, addLinear_vars e g b, addLinear_wf hwf g b,
   addQuadratic_quadratic hwf hs vt hne b, addQuadratic_wf hwf vt gu gv b, addQuadratic_sorted hs vt gu gv b,
   (addQuadratic_self hwf hs vt g b).1, (addQuadratic_self hwf hs vt g b).2.1, (addQuadratic_self hwf hs vt g b).2.2⟩

/-- **Copied or moved**: the constraint / objective expression built by the copy path of `add_constraint_from_model`
    / `set_objective` (`add_linear` per variable, `add_quadratic` per term, `add_offset`) has the same private
    variable order, the same base model (every linear bias, neighbourhood and the offset, field by field) and the same
    `indices_` lookups as the one the move path installs (the model's own base object + `relabel_variables(mapping)`);
    so every accessor answers the same.  `mi` is the incoming model (distinct labels, one bias per variable, terms between
    its own variables, no self-loop on a BINARY/SPIN variable — true of every BQM / QM), `gs` its mapping into the CQM. -/
theorem copy_eq_move (vt : List VT4) (gs : List Nat) (hnd : gs.Nodup) (mi : Cqm.ModelIn) (hmi : ModelInOK mi)
    (hlen : gs.length = mi.vars.length) (hself : NoBinarySelfLoops vt gs mi) :
    (Cqm.buildCopy vt gs mi).vars = (Cqm.buildMove gs mi).vars
    ∧ (Cqm.buildCopy vt gs mi).qb = (Cqm.buildMove gs mi).qb
    ∧ (∀ g, (Cqm.buildCopy vt gs mi).hasVar g = (Cqm.buildMove gs mi).hasVar g
          ∧ (Cqm.buildCopy vt gs mi).linear g = (Cqm.buildMove gs mi).linear g)
    ∧ (∀ g h, (Cqm.buildCopy vt gs mi).quadratic g h = (Cqm.buildMove gs mi).quadratic g h) := by
  obtain ⟨hv, hq, hi⟩ := buildCopy_eq_move vt hnd hmi hlen hself
  refine ⟨hv, hq, ?_, ?_⟩
  · intro g
    unfold Expr.hasVar Expr.linear
    rw [hi g, hq]
    exact ⟨rfl, rfl⟩
  · intro g h
    unfold Expr.quadratic
    rw [hi g, hi h, hq]

/-- …and that expression carries the model's own data: its variables in the model's order (as mapped into the CQM),
    the model's linear bias for each of them, and the model's offset — on either path. -/
theorem model_terms_carried (vt : List VT4) (gs : List Nat) (hnd : gs.Nodup) (mi : Cqm.ModelIn) (hmi : ModelInOK mi)
    (hlen : gs.length = mi.vars.length) (hself : NoBinarySelfLoops vt gs mi) (i : Nat) (hi : i < gs.length) :
    (Cqm.buildCopy vt gs mi).vars = gs ∧ (Cqm.buildCopy vt gs mi).qb.off = mi.off
    ∧ (Cqm.buildCopy vt gs mi).linear (gs.getD i 0) = mi.lin.getD i 0 := by
  obtain ⟨hv, hq, hl, _⟩ := copy_eq_move vt gs hnd mi hmi hlen hself
  obtain ⟨mv, mo, ml⟩ := buildMove_terms hnd mi hi
  exact ⟨hv.trans mv, by rw [hq]; exact mo, ((hl _).2).trans ml⟩

/-- **`substitute_variable(v, m, c)` is the substitution `x_v ↦ m·x_v + c`** on the stored coefficients of a
    well-formed base model with sorted neighbourhoods (what every expression is after any history: `history_inv`,
    `history_sorted`) — the operation behind `fix_variable` (m = 0), `flip_variable` and `change_vartype`:
    offset += l_v·c + q_vv·c²;  l_v ↦ m·l_v + 2·q_vv·m·c;  l_w ↦ l_w + q_vw·c;  q_vv ↦ m²·q_vv;  q_vw ↦ m·q_vw and the
    mirror entry q_wv ↦ m·q_wv for the neighbours `w` of `v`; entries between two other variables are untouched, so
    no other variable gains, loses or swaps a term.
    Stated for `QB.substitute`, i.e. for the loop *as the source has it*: the flag extracted from abc.h
    (`Generated.AbcSubst.selfLoopBranch`, rewritten on every run) must be on — without the repair of D4 this theorem
    does not build (the q_vv·c² and 2·q_vv·m·c terms are then lost; `DimodProofs/D4Witness.lean`). -/
theorem substitute_is_substitution {n : Nat} (q : QB) (hq : QBOk n q) (hs : AdjSorted q.adj) (v : Nat) (hv : v < n) (m c : Rat) :
    (q.substitute v m c).off = q.off + linAt q v * c + qAt q v v * c * c
    ∧ linAt (q.substitute v m c) v = linAt q v * m + 2 * qAt q v v * m * c
    ∧ (∀ w, w ≠ v → linAt (q.substitute v m c) w = linAt q w + qAt q v w * c)
    ∧ (∀ k, qAt (q.substitute v m c) v k = qAt q v k * (if k = v then m * m else m))
    ∧ (∀ w, w ≠ v → qAt (q.substitute v m c) w v = qAt q w v * (if w ∈ (q.adj.getD v []).map Prod.fst then m else 1))
    ∧ (∀ i k, i ≠ v → k ≠ v → qAt (q.substitute v m c) i k = qAt q i k) := by
  have hflag : q.substitute v m c = q.substituteWith true v m c := by
    unfold QB.substitute; rfl
  rw [hflag]
  exact substitute_coeffs hq hs hv m c

/-! ## `cqm_step_refines`: every step as an operation on the plain list of label-keyed polynomials

`absCqm m : LCqm` forgets every index: the variable labels in order, type and bounds *by label*, the objective and each
constraint (keyed by its label, in order) as `LPoly` — coefficient functions on labels plus the private variable order —
with sense, rhs, weight, penalty type and discrete mark.  Each theorem below says: if the call returns (no exception), the new
`absCqm` is the old one changed by the *specification* operation, which is written without any index
(`LPoly.addLinear`, `LPoly.addQuadratic`, `LPoly.substitute`, `LPoly.drop`, `LCqm.modView` "apply to the objective or to
the constraint labelled l and to nothing else", `LCqm.mapPolys`, `LCqm.removeVariable`, …).  The hypotheses — `CqmWF`,
distinct labels, `ExprKS` (a neighbourhood entry (i, j) has its mirror (j, i)), sorted neighbourhoods — hold at every
point of every history: `history_inv`, `history_labels`, `history_keysym`, `history_sorted`. -/

/-- After any history every stored interaction has its mirror entry (what `remove_interaction` and
    `substitute_variable` rely on when they walk one neighbourhood and patch the other). -/
theorem history_keysym (ops : List Cqm.Op) (hops : ∀ op ∈ ops, OpOK op) : AllExprs ExprKS (({} : Cqm).run ops) :=
  run_keySym ops hops

/-- **Mutation through the objective / constraint views** (`w = none`: `cqm.objective`, `w = some l`:
    `cqm.constraints[l].lhs`): `add_linear`, `set_linear`, `add_quadratic` (the view rejects a self-loop on a SPIN / BINARY
    variable and any REAL variable — then there is no step; an INTEGER self-loop goes on the diagonal), `remove_interaction`, `remove_variable`, `offset =` change that one polynomial as the
    specification says — on the labels named — and nothing else in the model;
    `mark_discrete` / `set_weight` change that attribute of that constraint only. -/
theorem cqm_step_refines (m m' : Cqm) (hwf : CqmWF m) (hl : CqmLabelsOK m) (hk : AllExprs ExprKS m)
    (hs : AllExprs ExprSorted m) :
    (∀ w v b, m.step (.viewAddLinear w v b) = (m', none) → absCqm m' = (absCqm m).modView w (·.addLinear v b))
    ∧ (∀ w v b, m.step (.viewSetLinear w v b) = (m', none) → absCqm m' = (absCqm m).modView w (·.setLinear v b))
    ∧ (∀ w u v b, m.step (.viewAddQuadratic w u v b) = (m', none) →
          absCqm m' = (absCqm m).modView w (·.addQuadratic ((absCqm m).vtOf u) u v b))
    ∧ (∀ w u v, m.step (.viewRemoveInteraction w u v) = (m', none) →
          absCqm m' = (absCqm m).modView w (·.removeInteraction u v))
    ∧ (∀ w v, m.step (.viewRemoveVariable w v) = (m', none) → absCqm m' = (absCqm m).modView w (·.drop v))
    ∧ (∀ w b, m.step (.viewSetOffset w b) = (m', none) → absCqm m' = (absCqm m).modView w (·.setOffset b))
    ∧ (∀ l mark, m.step (.viewMarkDiscrete l mark) = (m', none) →
          absCqm m' = (absCqm m).modAttr l (fun c => { c with discrete := mark }))
    ∧ (∀ l weight pen, m.step (.viewSetWeight l weight pen) = (m', none) →
          absCqm m' = (absCqm m).modAttr l (fun c => { c with weight := weight, quadPenalty := decide (pen = 1) })) :=
  ⟨fun w v b h => refines_viewAddLinear hwf hl w v b h, fun w v b h => refines_viewSetLinear hwf hl w v b h,
   fun w u v b h => refines_viewAddQuadratic hwf hl hs w u v b h, fun w u v h => refines_viewRemoveInteraction hl hk w u v h,
   fun w v h => refines_viewRemoveVariable hwf hl w v h, fun w b h => refines_viewSetOffset hl w b h,
   fun l mark h => refines_viewMarkDiscrete hl l mark h, fun l weight pen h => refines_viewSetWeight hl l weight pen h⟩

/-- **Building from iterables, removing constraints, adding variables.**
    `set_objective(iterable)`: the objective becomes the sum of the terms (added one by one to the zero polynomial, a
    term `(u, u, b)` folded by the type of `u`), nothing else changes.  `add_constraint(iterable, sense, rhs, label)`
    (hard): one more constraint at the end with that label, sense, rhs, no weight, not discrete, whose polynomial is the
    sum of the terms.  `remove_constraint(label)` without cascade: that constraint goes.  `add_variable`: either the label
    existed and nothing changes, or it is appended with the type and bounds, and no polynomial or attribute changes. -/
theorem cqm_step_refines_build (m m' : Cqm) (hwf : CqmWF m) (hl : CqmLabelsOK m) :
    (∀ ts, m.step (.setObjectiveTerms ts) = (m', none) →
        absCqm m' = { absCqm m with obj := ts.foldl (LPoly.addTerm (absCqm m).vtOf) LPoly.empty })
    ∧ (∀ ts sense rhs label, m.step (.addConstraintTerms ts sense rhs label none 0) = (m', none) →
        absCqm m' = { absCqm m with cons := (absCqm m).cons ++
          [(label, { p := ts.foldl (LPoly.addTerm (absCqm m).vtOf) LPoly.empty, sense := sense, rhs := rhs, weight := none,
                     quadPenalty := false, discrete := false })] })
    ∧ (∀ label, m.step (.removeConstraint label false) = (m', none) →
        absCqm m' = { absCqm m with cons := (absCqm m).cons.filter (fun p => p.1 ≠ label) })
    ∧ (∀ vt v lb ub, m.step (.addVariable vt v lb ub) = (m', none) →
        m' = m ∨ ∃ l lbv ubv, l ∉ m.labels ∧ (absCqm m').labels = (absCqm m).labels ++ [l]
          ∧ (∀ x, (absCqm m').info x = if x = l then some (vt, lbv, ubv) else (absCqm m).info x)
          ∧ (absCqm m').obj = (absCqm m).obj ∧ (absCqm m').cons = (absCqm m).cons) :=
  ⟨fun ts h => refines_setObjectiveTerms hwf hl ts h, fun ts sense rhs label h => refines_addConstraintTerms hwf hl ts sense rhs label h,
   fun label h => refines_removeConstraint hl label h, fun vt v lb ub h => refines_addVariable hwf vt v lb ub h⟩

/-- **`fix_variable` / `fix_variables` (in place), `flip_variable`, `change_vartype`** on the list of polynomials:
    the substitution `x_v ↦ a·x_v + c` (`LPoly.substitute`: offset += l_v·c + q_vv·c², l_v ↦ a·l_v + 2·q_vv·a·c,
    l_w ↦ l_w + q_vw·c, q_vv ↦ a²·q_vv, q_vw ↦ a·q_vw, every other coefficient untouched) applied to the objective and to
    every constraint — with (a, c) = (0, value) and the variable dropped afterwards for `fix`, (−1, 0) / (−1, 1) for
    flipping a SPIN / BINARY variable, (2, −1) / (½, ½) for SPIN→BINARY|INTEGER / BINARY→SPIN — while labels, order,
    the other variables' types and bounds, senses, rhs, weights and penalty types stay.  (Needs the D4 repair in the
    source: `LPoly.substitute` has the q_vv terms; see `substitute_is_substitution`.) -/
theorem cqm_step_refines_subst (m m' : Cqm) (hwf : CqmWF m) (hl : CqmLabelsOK m) (hk : AllExprs ExprKS m)
    (hs : AllExprs ExprSorted m) :
    (∀ v a, m.step (.fixVariable v a) = (m', none) →
        absCqm m' = ((absCqm m).mapPolys (·.substitute v 0 a)).removeVariable v)
    ∧ (∀ fixed, m.step (.fixVariables fixed) = (m', none) →
        absCqm m' = fixed.foldl (fun s p => (s.mapPolys (·.substitute p.1 0 p.2)).removeVariable p.1) (absCqm m))
    ∧ (∀ v, m.step (.flipVariable v) = (m', none) →
        ∃ g, m.idx? v = some g ∧
          ((m.vt.getD g .integer = .spin ∧ absCqm m' = (absCqm m).mapPolys (·.substitute v (-1) 0))
           ∨ (m.vt.getD g .integer = .binary ∧ m' = (m.mapExprs (·.substitute g (-1) 1)).unmarkDiscreteWith g
              ∧ absCqm (m.mapExprs (·.substitute g (-1) 1)) = (absCqm m).mapPolys (·.substitute v (-1) 1))))
    ∧ (∀ vt v, m.step (.changeVartype vt v) = (m', none) →
        m' = m
        ∨ (∃ a c t lo hi, (absCqm m').obj = ((absCqm m).mapPolys (·.substitute v a c)).obj
            ∧ (absCqm m').cons = ((absCqm m).mapPolys (·.substitute v a c)).cons
            ∧ (absCqm m').labels = (absCqm m).labels
            ∧ (absCqm m').info = ((absCqm m).setInfo v (t, lo, hi)).info
            ∧ ((a, c, t, lo, hi) = (2, -1, VT4.binary, 0, 1) ∨ (a, c, t, lo, hi) = (1/2, 1/2, VT4.spin, -1, 1)
                ∨ (a, c, t, lo, hi) = (2, -1, VT4.integer, 0, 1)))
        ∨ (∃ g, m.idx? v = some g ∧ m' = { m with vt := Cqm.setAt m.vt g .integer })) :=
  ⟨fun v a h => refines_fixVariable hwf hl hk hs v a h, fun fixed h => refines_fixVariables fixed hwf hl hk hs h,
   fun v h => refines_flipVariable hl hk hs v h, fun vt v h => refines_changeVartype hwf hl hk hs vt v h⟩

/-- **`relabel_variables(mapping)`** when accepted is the renaming `renameOf mapping` (mapped labels renamed, the others
    kept) of the variable labels on the list of polynomials: same order; for every old label its type/bounds and, in the
    objective and every constraint, its linear bias and its quadratic biases are found under the new label, the private
    orders are renamed elementwise, offsets stay; constraint labels, number, senses, rhs, weights, penalty types and marks
    are untouched.  **`relabel_constraints(mapping)`** renames the constraint labels in place and touches nothing else. -/
theorem relabel_refines (m m' : Cqm) (hwf : CqmWF m) (hnd : m.labels.Nodup) (mp : List (Label × Label)) :
    (m.step (.relabelVariables mp) = (m', none) →
      (absCqm m').labels = (absCqm m).labels.map (renameOf mp)
      ∧ (∀ x ∈ m.labels, (absCqm m').info (renameOf mp x) = (absCqm m).info x)
      ∧ (absCqm m').obj.vars = (absCqm m).obj.vars.map (renameOf mp)
      ∧ (absCqm m').obj.off = (absCqm m).obj.off
      ∧ (∀ x ∈ m.labels, (absCqm m').obj.lin (renameOf mp x) = (absCqm m).obj.lin x)
      ∧ (∀ x ∈ m.labels, ∀ y ∈ m.labels, (absCqm m').obj.quad (renameOf mp x) (renameOf mp y) = (absCqm m).obj.quad x y)
      ∧ m'.clabels = m.clabels
      ∧ m'.cons.length = m.cons.length
      ∧ ∀ k, k < m.cons.length →
          (absCons m'.labels (m'.cons.getD k {})).p.vars = (absCons m.labels (m.cons.getD k {})).p.vars.map (renameOf mp)
          ∧ (absCons m'.labels (m'.cons.getD k {})).p.off = (absCons m.labels (m.cons.getD k {})).p.off
          ∧ (∀ x ∈ m.labels, (absCons m'.labels (m'.cons.getD k {})).p.lin (renameOf mp x)
                = (absCons m.labels (m.cons.getD k {})).p.lin x)
          ∧ (∀ x ∈ m.labels, ∀ y ∈ m.labels, (absCons m'.labels (m'.cons.getD k {})).p.quad (renameOf mp x) (renameOf mp y)
                = (absCons m.labels (m.cons.getD k {})).p.quad x y)
          ∧ attrs (m'.cons.getD k {}) = attrs (m.cons.getD k {})
          ∧ (m'.cons.getD k {}).discrete = (m.cons.getD k {}).discrete)
    ∧ (m.step (.relabelConstraints mp) = (m', none) →
      (absCqm m').cons = (absCqm m).cons.map (fun p => (renameOf mp p.1, p.2))
      ∧ (absCqm m').obj = (absCqm m).obj ∧ (absCqm m').labels = (absCqm m).labels ∧ (absCqm m').info = (absCqm m).info) := by
  refine ⟨fun h => ?_, fun h => absCqm_relabelConstraints mp h⟩
  obtain ⟨a1, a2, a3, a4, a5, a6, a7, a8, a9⟩ := absCqm_relabelVariables hwf hnd mp h
  refine ⟨a1, a2, a3, a4, a5, a6, a7, a8, fun k hk => ?_⟩
  obtain ⟨b1, b2, b3, b4, b5, b6, b7, b8, b9⟩ := a9 k hk
  exact ⟨b1, b2, b3, b4, by unfold attrs; rw [b5, b6, b7, b8], b9⟩

/-- **The copying path `fix_variables(fixed, inplace=False)` is "deep copy, then fix in place"** for everything but the
    polynomials themselves: the model it returns (`Cqm.fixVariablesCopy`, the transcription of the C++
    `ConstrainedQuadraticModel::fix_variables` that builds a *new* model term by term) is well formed, has the same
    constraint labels in the same order and, constraint by constraint, the same **sense, rhs, weight and penalty type**
    (`attrs`) as the in-place result; its discrete mark is the in-place mark restricted to constraints that are still
    one-hot (`mark_discrete(old.marked_discrete() && new.is_onehot())`); and it keeps exactly the variables that are not
    fixed — same labels, same order, same type and bounds as the in-place result, which exists (no exception) when the
    labels to fix are distinct.  The polynomials of the two paths are compared by C03 (`fix_inplace_eq_copy`,
    `cqm_fix_copy_eval`) and, term by term, by the harness. -/
theorem fix_copy_is_copy_plus_inplace (m m' : Cqm) (hwf : CqmWF m) (hnd : m.labels.Nodup) (fixed : List (Label × Rat))
    (hdist : (fixed.map (·.1)).Nodup) (h : m.fixVariablesCopy fixed = some m') :
    CqmWF m'
    ∧ (m.step (.fixVariables fixed)).2 = none
    ∧ m'.clabels = (m.step (.fixVariables fixed)).1.clabels
    ∧ m'.cons.map attrs = (m.step (.fixVariables fixed)).1.cons.map attrs
    ∧ (∀ k, k < m.cons.length →
        (m'.cons.getD k {}).discrete
          = (((m.step (.fixVariables fixed)).1.cons.getD k {}).discrete && (m'.cons.getD k {}).isOnehot m'.vt))
    ∧ (absCqm m').labels = (absCqm (m.step (.fixVariables fixed)).1).labels
    ∧ (absCqm m').info = (absCqm (m.step (.fixVariables fixed)).1).info := by
  obtain ⟨a1, a2, a3⟩ := fixCopy_eq_inplace_attrs h
  obtain ⟨b1, b2, b3⟩ := fixCopy_eq_inplace_vars hwf hnd hdist h
  exact ⟨fixCopy_wf hwf h, b1, a1, a2, a3, b2, b3⟩

/-- …and against the *input*: the copy has the input's constraint labels, senses, rhs, weights and penalty types, keeps a
    discrete mark iff the constraint was marked and is still one-hot, and its variables are the input's variables that are
    not fixed, in order, each with its type and bounds. -/
theorem fix_copy_attrs_and_vars (m m' : Cqm) (hwf : CqmWF m) (hnd : m.labels.Nodup) (fixed : List (Label × Rat))
    (h : m.fixVariablesCopy fixed = some m') :
    m'.clabels = m.clabels
    ∧ m'.cons.map attrs = m.cons.map attrs
    ∧ (∀ k, k < m.cons.length →
        (m'.cons.getD k {}).discrete = ((m.cons.getD k {}).discrete && (m'.cons.getD k {}).isOnehot m'.vt))
    ∧ (absCqm m').labels = (absCqm m).labels.filter (fun l => !(fixed.any (·.1 = l)))
    ∧ (∀ x, (absCqm m').info x = if fixed.any (·.1 = x) then none else (absCqm m).info x) := by
  obtain ⟨a1, a2, _, a4⟩ := fixCopy_attrs h
  obtain ⟨b1, b2⟩ := fixCopy_vars hwf hnd h
  exact ⟨a1, a2, a4, b1, b2⟩

/-- The refinement statements apply at every point of every history: all four hypotheses are invariants. -/
theorem refinement_hypotheses_hold (ops : List Cqm.Op) (hops : ∀ op ∈ ops, OpOK op) :
    CqmWF (({} : Cqm).run ops) ∧ CqmLabelsOK (({} : Cqm).run ops)
    ∧ AllExprs ExprKS (({} : Cqm).run ops) ∧ AllExprs ExprSorted (({} : Cqm).run ops) :=
  ⟨history_inv ops hops, history_labels ops, history_keysym ops hops, history_sorted ops hops⟩

/-! ## building from models, at label level

`LPoly.ofModel mi` is the handed-over model's polynomial keyed by its own labels (its variables in its order, `linOf`,
`quadOf`, its offset).  `LCqm.addMissing s mi` appends the model's variables the CQM does not have, in the model's order,
with the model's type and bounds; `LCqm.conflicts s mi` says that a variable of the model exists in the CQM with another
type or other bounds.  `ModelInOK` / `ModelNoSelf`: distinct labels, one bias and one type per variable, terms between the
model's own variables, no self-loop on a BINARY / SPIN variable — true of every BQM / QM. -/

/-- **The expression a model becomes is the model's polynomial keyed by its labels** — on the copy path
    (`add_linear` / `add_quadratic` / `add_offset` term by term) and on the move path (base object taken over +
    `relabel_variables(mapping)`) alike.  (`copy_eq_move`, `model_terms_carried` are the index-level halves.) -/
theorem model_is_its_polynomial (m : Cqm) (hwf : CqmWF m) (hl : CqmLabelsOK m) (mi : Cqm.ModelIn) (hmi : ModelInOK mi)
    (hself : ModelNoSelf mi) (hc : m.conflicts mi = false) :
    absExpr (m.addMissing mi).labels (Cqm.buildCopy (m.addMissing mi).vt ((m.addMissing mi).mapping mi) mi) = LPoly.ofModel mi
    ∧ absExpr (m.addMissing mi).labels (Cqm.buildMove ((m.addMissing mi).mapping mi) mi) = LPoly.ofModel mi
    ∧ (∀ i, i < mi.vars.length → (LPoly.ofModel mi).lin (mi.vars.getD i dl) = mi.lin.getD i 0) :=
  ⟨(absExpr_build hwf hl hmi hself hc).1, (absExpr_build hwf hl hmi hself hc).2, fun _ hi => ofModel_lin_at hmi hi⟩

/-- The variables a model brings along: when nothing conflicts, afterwards every variable of the model is a variable of the
    CQM **with the model's type and bounds**, the CQM's own variables keep theirs (and stay), objective and constraints are
    untouched. -/
theorem model_variables_added (m : Cqm) (hwf : CqmWF m) (mi : Cqm.ModelIn) (hmi : ModelInOK mi) (hc : (absCqm m).conflicts mi = false) :
    absCqm (m.addMissing mi) = (absCqm m).addMissing mi
    ∧ (∀ i, i < mi.vars.length → ((absCqm m).addMissing mi).info (mi.vars.getD i dl) = some (mi.info.getD i (.binary, 0, 0))
        ∧ mi.vars.getD i dl ∈ ((absCqm m).addMissing mi).labels)
    ∧ (∀ x, x ∈ (absCqm m).labels → ((absCqm m).addMissing mi).info x = (absCqm m).info x ∧ x ∈ ((absCqm m).addMissing mi).labels)
    ∧ ((absCqm m).addMissing mi).obj = (absCqm m).obj ∧ ((absCqm m).addMissing mi).cons = (absCqm m).cons := by
  obtain ⟨a, b, c, d, _⟩ := addMissing_spec (infoDom_abs m) hmi hc
  exact ⟨absCqm_addMissing hwf mi, a, b, c, d⟩

/-- **`set_objective(model)`, `add_constraint(model | comparison, …, copy, weight, penalty)`** when they return, and the
    **compatibility check**: a model with a conflicting variable is rejected by both with *nothing changed*; otherwise the
    missing variables are appended and the objective / the new last constraint *is the model's polynomial* (copied or moved),
    with the sense, rhs, and — if `set_weight` accepts them (`LCqm.weightOK`) — weight and penalty type given. -/
theorem cqm_step_refines_model (m m' : Cqm) (hwf : CqmWF m) (hl : CqmLabelsOK m) (mi : Cqm.ModelIn) (hmi : ModelInOK mi)
    (hself : ModelNoSelf mi) :
    ((absCqm m).conflicts mi = true →
        m.step (.setObjectiveModel mi) = (m, some .value)
        ∧ ∀ sense rhs label copy weight pen, m.step (.addConstraintModel mi sense rhs label copy weight pen) = (m, some .value))
    ∧ (m.step (.setObjectiveModel mi) = (m', none) →
        (absCqm m).conflicts mi = false ∧ absCqm m' = { (absCqm m).addMissing mi with obj := LPoly.ofModel mi })
    ∧ (∀ sense rhs label copy weight pen, m.step (.addConstraintModel mi sense rhs label copy weight pen) = (m', none) →
        label ∉ m.clabels ∧ (absCqm m).conflicts mi = false
        ∧ (weight = none ∨ ((absCqm m).addMissing mi).weightOK (LPoly.ofModel mi) weight pen)
        ∧ absCqm m' = { (absCqm m).addMissing mi with cons := ((absCqm m).addMissing mi).cons ++
            [(label, { LCons.hard (LPoly.ofModel mi) sense rhs with
                        weight := weight, quadPenalty := weight.isSome && decide (pen = 1) })] }) :=
  ⟨conflict_rejected m mi, refines_setObjectiveModel hwf hl hmi hself,
   fun sense rhs label copy weight pen h => refines_addConstraintModel hwf hl hmi hself sense rhs label copy weight pen h⟩

/-- **The move path leaves the source empty.**  `Cqm.sourceAfter m op` is what is left of the Python model object handed
    to a model-taking call (the driver prints it; the harness compares it with the real object): `set_objective` and
    `copy=True` never touch it; with `copy=False` a call that returns has moved it — the source is `clear()`ed — and a call
    rejected for a duplicate label or a conflicting variable leaves source and CQM as they were. -/
theorem source_after_move (m m' : Cqm) (mi : Cqm.ModelIn) (sense : Sense) (rhs : Rat) (label : Label) (weight : Option Rat) (pen : Nat) :
    m.sourceAfter (.setObjectiveModel mi) = some mi
    ∧ m.sourceAfter (.addConstraintModel mi sense rhs label true weight pen) = some mi
    ∧ (m.step (.addConstraintModel mi sense rhs label false weight pen) = (m', none) →
        m.sourceAfter (.addConstraintModel mi sense rhs label false weight pen) = some Cqm.ModelIn.cleared)
    ∧ ((label ∈ m.clabels ∨ m.conflicts mi = true) →
        m.sourceAfter (.addConstraintModel mi sense rhs label false weight pen) = some mi
        ∧ m.step (.addConstraintModel mi sense rhs label false weight pen) = (m, some .value)) := by
  refine ⟨rfl, ?_, ?_, ?_⟩
  · show some (m.sourceAfterAdd mi label true) = some mi
    unfold Cqm.sourceAfterAdd; simp
  · intro h
    show some (m.sourceAfterAdd mi label false) = _
    have h' : m.addConstraintModel mi sense rhs label false weight pen = (m', none) := h
    unfold Cqm.addConstraintModel at h'
    unfold Cqm.sourceAfterAdd
    by_cases hlab : label ∈ m.clabels
    · rw [if_pos hlab] at h'; cases (Prod.mk.inj h').2
    · rw [if_neg hlab] at h'
      by_cases hc : m.conflicts mi = true
      · rw [if_pos hc] at h'; cases (Prod.mk.inj h').2
      · simp [hlab, hc]
  · intro h
    refine ⟨?_, ?_⟩
    · show some (m.sourceAfterAdd mi label false) = some mi
      unfold Cqm.sourceAfterAdd
      rcases h with h | h <;> simp [h]
    · show m.addConstraintModel mi sense rhs label false weight pen = _
      unfold Cqm.addConstraintModel
      rcases h with h | h
      · rw [if_pos h]
      · split_ifs <;> rfl

/-- **The `add_discrete` forms** when they return: `add_discrete(model)` needs a linear model with every bias 1 whose
    variables are BINARY (in the CQM if known there, else in the model) and — with `check_overlaps` — in no discrete
    constraint yet; `add_discrete(comparison)` needs `== 1`; `add_discrete(labels)` builds the bias-1 model over the distinct
    labels.  The result is always `add_constraint(model == 1, label)` — the model's polynomial — **with the discrete mark**. -/
theorem cqm_step_refines_discrete (m m' : Cqm) (hwf : CqmWF m) (hl : CqmLabelsOK m) :
    (∀ (mi : Cqm.ModelIn), ModelInOK mi → ∀ label copy chk, m.step (.addDiscreteModel mi label copy chk) = (m', none) →
        mi.quad = []
        ∧ (∀ p ∈ (mi.vars.zip mi.info).zip mi.lin, p.2 = 1
            ∧ (match m.idx? p.1.1 with
               | some g => m.vt.getD g .binary = .binary ∧ (chk = true → m.inDiscrete g = false)
               | none => p.1.2.1 = .binary))
        ∧ label ∉ m.clabels ∧ (absCqm m).conflicts mi = false
        ∧ absCqm m' = { (absCqm m).addMissing mi with cons := ((absCqm m).addMissing mi).cons ++
            [(label, { LCons.hard (LPoly.ofModel mi) .eq 1 with discrete := true })] })
    ∧ (∀ (mi : Cqm.ModelIn) sense rhs label copy chk, m.step (.addDiscreteComparison mi sense rhs label copy chk) = (m', none) →
        sense = .eq ∧ rhs = 1 ∧ m.step (.addDiscreteModel mi label copy chk) = (m', none))
    ∧ (∀ vs label chk, m.step (.addDiscreteVars vs label chk) = (m', none) →
        (∀ v ∈ vs, ∀ g, m.idx? v = some g → m.vt.getD g .binary = .binary ∧ (chk = true → m.inDiscrete g = false))
        ∧ label ∉ m.clabels ∧ (absCqm m).conflicts (Cqm.discreteModelOf vs) = false
        ∧ absCqm m' = { (absCqm m).addMissing (Cqm.discreteModelOf vs) with
            cons := ((absCqm m).addMissing (Cqm.discreteModelOf vs)).cons ++
              [(label, { LCons.hard (LPoly.ofModel (Cqm.discreteModelOf vs)) .eq 1 with discrete := true })] }) :=
  ⟨fun _ hmi label copy chk h => refines_addDiscreteModel hwf hl hmi label copy chk h,
   fun mi sense rhs label copy chk h => refines_addDiscreteComparison mi sense rhs label copy chk h,
   fun vs label chk h => refines_addDiscreteVars hwf hl vs label chk h⟩

/-! ## soft constraints, `set_weight`, bounds, `spin_to_binary`, cascading removal -/

/-- **Soft constraints from an iterable, and what `set_weight` accepts.**  `add_constraint(iterable, sense, rhs, label,
    weight, penalty)` returns with the new last constraint carrying the sum of the terms, the weight and the penalty type,
    provided `LCqm.weightOK`: weight positive; penalty `'linear'`, or `'quadratic'` **with every variable of the constraint
    BINARY or SPIN in the parent model** (the code looks the parent's type up by the constraint's variable indices —
    `Cqm.setWeight`, `setWeight_spec`).  `constraints[l].lhs.set_weight(weight, penalty)` returns iff `l` is a constraint
    and `weightOK` holds for its polynomial; otherwise the model is unchanged (an unknown label is a `KeyError`).
    When `add_constraint(…, weight=…)` is rejected by that check, the constraint is nevertheless already in the model, as
    a hard one (`pushCons_spec`, known finding D34a). -/
theorem cqm_step_refines_soft (m m' : Cqm) (hwf : CqmWF m) (hl : CqmLabelsOK m) :
    (∀ ts sense rhs label weight pen, m.step (.addConstraintTerms ts sense rhs label weight pen) = (m', none) →
        label ∉ m.clabels
        ∧ (weight = none ∨ (absCqm m).weightOK (ts.foldl (LPoly.addTerm (absCqm m).vtOf) LPoly.empty) weight pen)
        ∧ absCqm m' = { absCqm m with cons := (absCqm m).cons ++
            [(label, { LCons.hard (ts.foldl (LPoly.addTerm (absCqm m).vtOf) LPoly.empty) sense rhs with
                        weight := weight, quadPenalty := weight.isSome && decide (pen = 1) })] })
    ∧ (∀ l weight pen,
        ((m.step (.viewSetWeight l weight pen)).2 = none ↔ ∃ c, (absCqm m).consOf l = some c ∧ (absCqm m).weightOK c.p weight pen)
        ∧ ((m.step (.viewSetWeight l weight pen)).2 ≠ none → (m.step (.viewSetWeight l weight pen)).1 = m)
        ∧ ((absCqm m).consOf l = none → (m.step (.viewSetWeight l weight pen)).2 = some .index)) :=
  ⟨fun ts sense rhs label weight pen h => refines_addConstraintTermsW hwf hl ts sense rhs label weight pen h,
   fun l weight pen => viewSetWeight_accepts hwf hl l weight pen⟩

/-- **`set_lower_bound` / `set_upper_bound`** when they return: the variable is INTEGER or REAL, the new bound is within the
    type's limits and on the right side of the other bound (for INTEGER an integer still fits: ⌈lb⌉ ≤ ⌊ub⌋), and only that
    bound of that variable changes. -/
theorem cqm_step_refines_bounds (m m' : Cqm) (hwf : CqmWF m) (hl : CqmLabelsOK m) (v : Label) (x : Rat) :
    (m.step (.setLowerBound v x) = (m', none) →
      ∃ vt lb ub, (absCqm m).info v = some (vt, lb, ub) ∧ vt ≠ .binary ∧ vt ≠ .spin ∧ vt.min ≤ x ∧ x ≤ ub
        ∧ (vt = .integer → x.ceil ≤ ub.floor) ∧ absCqm m' = (absCqm m).setInfo v (vt, x, ub))
    ∧ (m.step (.setUpperBound v x) = (m', none) →
      ∃ vt lb ub, (absCqm m).info v = some (vt, lb, ub) ∧ vt ≠ .binary ∧ vt ≠ .spin ∧ x ≤ vt.max ∧ lb ≤ x
        ∧ (vt = .integer → lb.ceil ≤ x.floor) ∧ absCqm m' = (absCqm m).setInfo v (vt, lb, x)) :=
  ⟨refines_setLowerBound hwf hl v x, refines_setUpperBound hwf hl v x⟩

/-- **`spin_to_binary(inplace=True)`**: in model order, every SPIN variable becomes BINARY (type, bounds [0, 1]) with
    `s = 2x − 1` substituted in the objective and in every constraint; the other variables are left alone. -/
theorem spin_to_binary_refines (m m' : Cqm) (hwf : CqmWF m) (hl : CqmLabelsOK m) (hk : AllExprs ExprKS m)
    (hs : AllExprs ExprSorted m) (h : m.step .spinToBinary = (m', none)) :
    absCqm m' = (absCqm m).labels.foldl LCqm.spinToBinaryAt (absCqm m) :=
  refines_spinToBinary ⟨hwf, hl, hk, hs⟩ h

/-- **`remove_constraint(label, cascade=True)`** when it returns: the constraint goes, and with it **exactly** the
    variables of `LCqm.cascadeLabels`: those variables of the removed constraint that the objective does not use and that
    no *other* constraint uses (every other constraint is looked at — a loop that stopped at the first one would remove
    too much), each removed as `remove_variable` does; everything else stays. -/
theorem cascade_refines (m m' : Cqm) (hwf : CqmWF m) (hl : CqmLabelsOK m) (label : Label)
    (h : m.step (.removeConstraint label true) = (m', none)) :
    absCqm m' = ((absCqm m).cascadeLabels label).foldl LCqm.removeVariable
      { absCqm m with cons := (absCqm m).cons.filter (fun p => p.1 ≠ label) }
    ∧ ∀ c, (absCqm m).consOf label = some c → (absCqm m).cascadeLabels label
        = c.p.vars.filter fun l => decide (l ∉ (absCqm m).obj.vars)
            && !((absCqm m).cons.any fun q => decide (q.1 ≠ label) && decide (l ∈ q.2.p.vars)) := by
  refine ⟨refines_removeConstraintCascade hwf hl label h, ?_⟩
  intro c hc
  unfold LCqm.cascadeLabels; rw [hc]

/-! Every public mutation of `Cqm.Op` now has a label-level statement.  What stays at index level: the private variable
*order* inside an expression built by the move path (`copy_eq_move`), the overlap test of `add_discrete` (`inDiscrete`, i.e.
`is_onehot`, depends on the stored adjacency, which a polynomial does not show), and the polynomial part of the copying
`fix_variables` (C03). -/

/-! ## the label-level refinement folded over histories -/

/-- **History-level refinement (fold over any list of operations of the functional fragment).**  Take any reachable state —
    the model after an arbitrary history `pre` of public mutations — and continue with any list `ops` of operations for which
    the specification's step is a function of the list of label-keyed polynomials (`CqmP.specStep`: every mutation through
    the objective / constraint views, `set_objective` / hard `add_constraint` from term iterables, `remove_constraint` with
    and without cascade, `fix_variable`, `fix_variables` in place) and whose calls all return normally.  Then the labels, types,
    bounds, objective and every constraint (terms, sense, rhs, weight, penalty, mark) of the resulting model are exactly what
    folding the specification over `ops` produces from the abstraction of the state before: `absCqm` commutes with the run.
    Gap (hence `_partial`): operations outside the fragment (`specStep = none`: builders taking models / comparisons /
    discrete forms, soft `add_constraint`, `add_variable`, `remove_variable`, `relabel_*`, `flip_variable`, `change_vartype`,
    `spin_to_binary`, bounds, `deepcopy`) have their per-step statements above (`remove_refines`, `relabel_refines`,
    `cqm_step_refines_model`, …, some of them relational), applicable at every point of every history by
    `refinement_hypotheses_hold`, but are not folded into one specification function here; a history may interleave them
    freely between fragments (`pre` is arbitrary). -/
theorem history_refines_partial (pre ops : List Cqm.Op) (hpre : ∀ op ∈ pre, OpOK op) (hops : ∀ op ∈ ops, OpOK op)
    (hsucc : Succeeds (({} : Cqm).run pre) ops) (s' : LCqm)
    (hspec : specRun (absCqm (({} : Cqm).run pre)) ops = some s') :
    absCqm (({} : Cqm).run (pre ++ ops)) = s' := by
  have hinv : RefInv (({} : Cqm).run pre) :=
    ⟨history_inv pre hpre, history_labels pre, history_keysym pre hpre, history_sorted pre hpre⟩
  have : ({} : Cqm).run (pre ++ ops) = (({} : Cqm).run pre).run ops := by
    unfold Cqm.run; rw [List.foldl_append]
  rw [this]
  exact specRun_refines ops hinv hops hsucc s' hspec

/-- one step of it, from any state satisfying the invariants: where the specification's step is defined and the call
    succeeds, the abstraction of the new state is the specification's step of the abstraction of the old one, and the
    invariants hold again (so the statement applies to the next step) -/
theorem step_refines_spec (m : Cqm) (h : RefInv m) (op : Cqm.Op) (hop : OpOK op) (s' : LCqm)
    (hs : specStep (absCqm m) op = some s') (hok : (m.step op).2 = none) :
    absCqm (m.step op).1 = s' ∧ RefInv (m.step op).1 :=
  ⟨specStep_refines h op s' hs hok, refInv_step h op hop⟩

/-! ## non-vacuity: a concrete history on the executable model -/

/-- variables x(BINARY) i(INTEGER) y(BINARY); objective 2i + 3i² + x·y; constraint `x + i <= 1`; remove `x` -/
def demo : Cqm :=
  (({} : Cqm).run
    [ .addVariable .binary (some (.str "x")) none none,
      .addVariable .integer (some (.str "i")) (some 0) (some 5),
      .addVariable .binary (some (.str "y")) none none,
      .setObjectiveTerms [⟨[.str "i"], 2⟩, ⟨[.str "i", .str "i"], 3⟩, ⟨[.str "x", .str "y"], 1⟩],
      .addConstraintTerms [⟨[.str "x"], 1⟩, ⟨[.str "i"], 1⟩] .le 1 (.str "c") none 0 ])

example : demo.obj.vars = [1, 2, 0] ∧ demo.obj.linear 1 = 2 ∧ demo.obj.quadratic 1 1 = 3 ∧ demo.obj.quadratic 0 2 = 1 := by
  decide +kernel
example : (demo.run [.removeVariable (.str "x")]).obj.vars = [0, 1]
    ∧ (demo.run [.removeVariable (.str "x")]).obj.linear 0 = 2
    ∧ (demo.run [.removeVariable (.str "x")]).obj.quadratic 0 0 = 3
    ∧ (demo.run [.removeVariable (.str "x")]).labels = [.str "i", .str "y"]
    ∧ ((demo.run [.removeVariable (.str "x")]).cons.map (·.e.vars)) = [[0]] := by
  decide +kernel

/-- the refinement theorems are not vacuous: these calls return on `demo`, the copying path yields a model, and the
    demo constraint keeps sense/rhs/weight/penalty through it -/
example : (demo.step (.fixVariable (.str "x") 1)).2 = none ∧ (demo.step (.fixVariables [(.str "x", 1), (.str "i", 2)])).2 = none
    ∧ (demo.step (.viewAddQuadratic (some (.str "c")) (.str "i") (.str "i") 5)).2 = none
    ∧ (demo.step (.viewRemoveInteraction none (.str "x") (.str "y"))).2 = none
    ∧ (demo.step (.relabelVariables [(.str "x", .str "i"), (.str "i", .str "x")])).2 = none
    ∧ (demo.step (.relabelConstraints [(.str "c", .str "d")])).2 = none
    ∧ (demo.step (.flipVariable (.str "y"))).2 = none ∧ (demo.step (.changeVartype .spin (.str "y"))).2 = none := by
  decide +kernel
example : (match demo.fixVariablesCopy [(.str "x", 1)] with
    | some m' => decide (m'.labels = [.str "i", .str "y"]) && decide (m'.clabels = [.str "c"])
                 && decide (m'.cons.map (fun c => (c.rhs, c.weight, c.quadPenalty, c.discrete)) = [(1, none, false, false)])
                 && (m'.cons.map (fun c => match c.sense with | .le => true | _ => false) == [true])
    | none => false) = true := by
  decide +kernel

/-- a handed-over model `2 i + 3 i·x + 3/2` (x BINARY, i INTEGER in [0, 5]) -/
def demoModel : Cqm.ModelIn :=
  { vars := [.str "i", .str "x"], info := [(.integer, 0, 5), (.binary, 0, 1)], lin := [2, 0], quad := [(1, 0, 3)], off := 3/2 }

/-- the round-4 statements are not vacuous either: these calls return on `demo`, the moved source is cleared, a conflicting
    model (i BINARY) is rejected, the cascade takes exactly `i` (x is used by the objective) -/
example : (demo.step (.addConstraintModel demoModel .le 1 (.str "m") false (some 2) 0)).2 = none
    ∧ (demo.step (.setObjectiveModel demoModel)).2 = none
    ∧ (demo.sourceAfter (.addConstraintModel demoModel .le 1 (.str "m") false none 0)).map (·.vars.length) = some 0
    ∧ (demo.step (.setObjectiveModel { demoModel with info := [(.binary, 0, 1), (.binary, 0, 1)] })).2 = some .value
    ∧ (demo.step (.addDiscreteVars [.str "x", .str "y", .str "x"] (.str "d") true)).2 = none
    ∧ (demo.step (.setLowerBound (.str "i") 1)).2 = none
    ∧ (demo.step (.viewSetWeight (.str "c") (some 2) 1)).2 = some .value      -- i is INTEGER: no quadratic penalty
    ∧ ((demo.run [.setObjectiveTerms [⟨[.str "x", .str "y"], 1⟩]]).step (.removeConstraint (.str "c") true)).1.labels
        = [.str "x", .str "y"] := by
  decide +kernel

/-- `history_refines_partial` is not vacuous: on `demo` this continuation lies in the fragment and every call returns -/
example :
    let ops : List Cqm.Op := [.viewAddLinear none (.str "x") 2, .viewAddQuadratic (some (.str "c")) (.str "x") (.str "i") 3,
                              .fixVariable (.str "x") 1, .removeConstraint (.str "c") true]
    (specRun (absCqm demo) ops).isSome = true
    ∧ (demo.step (ops.getD 0 .deepcopy)).2 = none
    ∧ ((demo.run (ops.take 1)).step (ops.getD 1 .deepcopy)).2 = none
    ∧ ((demo.run (ops.take 2)).step (ops.getD 2 .deepcopy)).2 = none
    ∧ ((demo.run (ops.take 3)).step (ops.getD 3 .deepcopy)).2 = none
    ∧ (demo.run ops).labels = [.str "i", .str "y"] := by
  decide +kernel

/-! ## round 7: the history fold over the builders, discrete forms, soft constraints, removal, bounds, relabelled constraints -/

/-- **History-level refinement, extended.**  `specStepAll` is the specification's step on the list of label-keyed polynomials
    for 29 of the 30 `Cqm.Op` constructors (and the SPIN branch of the 30th, `flip_variable`): everything `specStep` covers (now with SOFT `add_constraint` from an iterable too),
    plus `add_variable` (given or generated label, stored bounds), `set_objective(model)`, `add_constraint(model | comparison)` hard and soft, copied or moved (`copy=` does not
    appear in the specification: the two paths denote the same polynomial), the three `add_discrete` forms (the constraint is
    the one-hot equality of the listed variables, marked), `remove_variable`, `spin_to_binary`, `set_lower_bound` /
    `set_upper_bound`, `change_vartype` (`LCqm.changeVartype`: the five accepted type changes as coded, each a substitution and / or
    a change of the variable's info), `flip_variable` of a SPIN variable, `relabel_constraints` and `deepcopy`.  From ANY reachable state (`pre` arbitrary), along ANY list of such
    operations whose calls all return normally, with model arguments well formed and free of BINARY/SPIN self-loops (true of
    every BQM / QM), the abstraction of the model's state is the fold of the specification.
    Gap (hence `_partial`): the BINARY branch of `flip_variable` (it clears the mark of the discrete constraints containing the
    variable, decided by the index-level `is_discrete` — `is_linear` = no STORED interaction — which is not a function of the
    label-keyed polynomials) and `relabel_variables` (per-field statement `relabel_refines`) keep their per-step statements
    and may be interleaved through `pre`. -/
theorem history_refines_builders_partial (pre ops : List Cqm.Op) (hpre : ∀ op ∈ pre, OpOK op) (hops : ∀ op ∈ ops, OpOK2 op)
    (hsucc : Succeeds (({} : Cqm).run pre) ops) (s' : LCqm)
    (hspec : specRunAll (absCqm (({} : Cqm).run pre)) ops = some s') :
    absCqm (({} : Cqm).run (pre ++ ops)) = s' := by
  have hinv : RefInv (({} : Cqm).run pre) :=
    ⟨history_inv pre hpre, history_labels pre, history_keysym pre hpre, history_sorted pre hpre⟩
  have : ({} : Cqm).run (pre ++ ops) = (({} : Cqm).run pre).run ops := by
    unfold Cqm.run; rw [List.foldl_append]
  rw [this]
  exact specRunAll_refines ops hinv hops hsucc s' hspec

/-- **The private variable order of a moved expression is label-level too.**  `add_constraint(model, copy=False)` moves the
    model's storage into the CQM; the constraint it becomes has, as its PRIVATE variable order, the model's own variable order
    (`lhs.variables == model.variables`), the model's polynomial, and the requested sense / rhs / weight / penalty — exactly
    what `copy=True` gives: the two paths are indistinguishable on the list of label-keyed polynomials, private orders
    included, and every earlier constraint and the objective are untouched. -/
theorem moved_expression_private_order (m m1 m2 : Cqm) (h : RefInv m) (mi : Cqm.ModelIn) (hmi : ModelInOK mi) (hself : ModelNoSelf mi)
    (sense : Sense) (rhs : Rat) (label : Label) (weight : Option Rat) (pen : Nat)
    (hmove : m.step (.addConstraintModel mi sense rhs label false weight pen) = (m1, none))
    (hcopy : m.step (.addConstraintModel mi sense rhs label true weight pen) = (m2, none)) :
    absCqm m1 = absCqm m2
    ∧ (∃ c, (absCqm m1).cons = ((absCqm m).addMissing mi).cons ++ [(label, c)]
        ∧ c.p = LPoly.ofModel mi ∧ c.p.vars = mi.vars ∧ c.sense = sense ∧ c.rhs = rhs ∧ c.weight = weight)
    ∧ (absCqm m1).obj = ((absCqm m).addMissing mi).obj := by
  have e1 := (refines_addConstraintModel h.wf h.lab hmi hself sense rhs label false weight pen hmove).2.2.2
  have e2 := (refines_addConstraintModel h.wf h.lab hmi hself sense rhs label true weight pen hcopy).2.2.2
  refine ⟨by rw [e1, e2], ⟨_, by rw [e1], rfl, rfl, rfl, rfl, rfl⟩, by rw [e1]⟩

/-- one step of it; and `specStepAll` agrees with `specStep` wherever that is defined on a hard constraint / non-builder -/
theorem step_refines_spec_all (m : Cqm) (h : RefInv m) (op : Cqm.Op) (hop : OpOK2 op) (s' : LCqm)
    (hs : specStepAll (absCqm m) op = some s') (hok : (m.step op).2 = none) :
    absCqm (m.step op).1 = s' ∧ RefInv (m.step op).1 :=
  ⟨specStepAll_refines h op hop s' hs hok, refInv_step h op hop.ok⟩

/-- not vacuous: on `demo`, a continuation through a model-built soft constraint, a discrete constraint over a new and an
    existing variable, a bound, a relabelled constraint, `spin_to_binary`, a removed variable and a deep copy lies in the
    extended fold, every call returns, and every argument meets `OpOK2` -/
example :
    let mi : Cqm.ModelIn := { vars := [.str "y", .str "s"], info := [(.binary, 0, 1), (.spin, -1, 1)], lin := [1, -2], quad := [(1, 0, 3)], off := 1 }
    let ops : List Cqm.Op := [.addVariable .integer none none (some 7), .addConstraintModel mi .ge 0 (.str "m") false (some 2) 0,
                              .addDiscreteVars [.str "y", .str "z"] (.str "d") true,
                              .setUpperBound (.str "i") 4, .changeVartype .binary (.str "s"), .changeVartype .spin (.str "s"),
                              .flipVariable (.str "s"), .relabelConstraints [(.str "c", .str "c'")], .spinToBinary,
                              .addConstraintTerms [⟨[.str "i"], 1⟩] .le 2 (.str "soft") (some 3) 0,
                              .removeVariable (.str "s"), .deepcopy]
    (specRunAll (absCqm demo) ops).isSome = true
    ∧ (∀ k, k < ops.length → ((demo.run (ops.take k)).step (ops.getD k .deepcopy)).2 = none)
    ∧ (demo.run ops).labels = [.str "x", .str "i", .str "y", .int 3, .str "z"]
    ∧ (demo.run ops).clabels = [.str "c'", .str "m", .str "d", .str "soft"] := by
  decide +kernel

/-- **`relabel_variables(mapping)` is ONE function of the list of polynomials** (`LCqm.relabelVariables`): variable labels,
    the type / bounds table, the private order and every coefficient of the objective and of every constraint are carried to
    the new labels (swaps and cycles included); labels outside the image carry nothing; constraint labels and attributes are
    untouched.  (`relabel_refines` is the per-field form.) -/
theorem relabel_variables_refines (m m' : Cqm) (h : RefInv m) (mp : List (Label × Label))
    (hstep : m.step (.relabelVariables mp) = (m', none)) : absCqm m' = (absCqm m).relabelVariables mp :=
  refines_relabelVariablesF h mp hstep

/-- **The history theorem over every `Cqm.Op`.**  `specStepFull` is a specification step on the list of label-keyed
    polynomials for ALL 30 `Cqm.Op` constructors — `specStepAll` plus `relabel_variables` — with one branch left out:
    `flip_variable` of a BINARY variable.  From any reachable state, along any list of operations whose calls all return
    (model arguments well formed, no BINARY/SPIN self-loops), the abstraction of the CQM's state — variables with types and
    bounds, objective, every constraint with its private order, terms, sense, rhs, weight, penalty and mark — is the fold of that
    one function: "exactly … what the same sequence produces on a plain list of polynomials".
    Gap (hence `_partial`): `flip_variable(v)` with `v` BINARY also clears the discrete mark of the constraints that are
    discrete and contain `v`; `is_discrete` = marked ∧ one-hot needs `is_linear` (no STORED interaction, a zero-bias one
    included), which the coefficient functions of a label-keyed polynomial cannot express; its polynomial part is
    `refines_flipVariable`.  `fix_variables(inplace=False)` is not a mutation of the model (`fix_copy_is_fix_inplace`). -/
theorem history_refines_every_op_partial (pre ops : List Cqm.Op) (hpre : ∀ op ∈ pre, OpOK op) (hops : ∀ op ∈ ops, OpOK2 op)
    (hsucc : Succeeds (({} : Cqm).run pre) ops) (s' : LCqm)
    (hspec : specRunFull (absCqm (({} : Cqm).run pre)) ops = some s') :
    absCqm (({} : Cqm).run (pre ++ ops)) = s' := by
  have hinv : RefInv (({} : Cqm).run pre) :=
    ⟨history_inv pre hpre, history_labels pre, history_keysym pre hpre, history_sorted pre hpre⟩
  have : ({} : Cqm).run (pre ++ ops) = (({} : Cqm).run pre).run ops := by
    unfold Cqm.run; rw [List.foldl_append]
  rw [this]
  exact specRunFull_refines ops hinv hops hsucc s' hspec

/-- the only operations outside `specStepFull` are flips of a non-SPIN variable: for every other operation the specification
    step is defined whenever the call can succeed at all on the arguments' shape (bounds need the variable to exist) -/
theorem specStepFull_defined (s : LCqm) (op : Cqm.Op) :
    (specStepFull s op).isSome = true
    ∨ (∃ v, op = .flipVariable v ∧ s.vtOf v ≠ .spin)
    ∨ (∃ vt v, op = .changeVartype vt v ∧ s.changeVartype vt v = none)
    ∨ (∃ v x, (op = .setLowerBound v x ∨ op = .setUpperBound v x) ∧ s.info v = none) := by
  cases op with
  | flipVariable v =>
    by_cases h : s.vtOf v = .spin
    · left; simp [specStepFull, specStepAll, LCqm.flipSpin, h]
    · right; left; exact ⟨v, rfl, h⟩
  | changeVartype vt v =>
    cases h : s.changeVartype vt v with
    | some x => left; simp [specStepFull, specStepAll, h]
    | none => right; right; left; exact ⟨vt, v, rfl, h⟩
  | setLowerBound v x =>
    cases h : s.info v with
    | some i => left; simp [specStepFull, specStepAll, h]
    | none => right; right; right; exact ⟨v, x, Or.inl rfl, h⟩
  | setUpperBound v x =>
    cases h : s.info v with
    | some i => left; simp [specStepFull, specStepAll, h]
    | none => right; right; right; exact ⟨v, x, Or.inr rfl, h⟩
  | removeConstraint label cascade => left; cases cascade <;> simp [specStepFull, specStepAll, specStep]
  | _ => left; simp [specStepFull, specStepAll, specStep]

/-- not vacuous: a swap and a 3-cycle of variable labels inside a longer continuation on `demo` -/
example :
    let ops : List Cqm.Op := [.relabelVariables [(.str "x", .str "y"), (.str "y", .str "x")],
                              .viewAddLinear (some (.str "c")) (.str "y") 2,
                              .relabelVariables [(.str "x", .str "i"), (.str "i", .str "y"), (.str "y", .str "x")],
                              .changeVartype .spin (.str "i"), .flipVariable (.str "i"), .removeVariable (.str "x")]
    (specRunFull (absCqm demo) ops).isSome = true
    ∧ (∀ k, k < ops.length → ((demo.run (ops.take k)).step (ops.getD k .deepcopy)).2 = none)
    ∧ (demo.run ops).labels = [.str "y", .str "i"] := by
  decide +kernel

/-- **The history theorem, every operation, no side condition on the specification.**  `specRel` is the specification's step
    as a relation on lists of label-keyed polynomials: for every operation but `flip_variable` it is the FUNCTION
    `specStepFull` (`specRel s op s' ↔ specStepFull s op = some s'`, by definition); for `flip_variable(v)` it is `s ↦ −s` in
    every expression (SPIN) or `x ↦ 1 − x` in every expression followed by clearing the discrete mark of some constraints that
    had it (BINARY — which ones is `is_discrete`, an observation of the stored interactions) and nothing else.
    From ANY reachable state, along ANY list of public operations whose calls return normally (model arguments well formed,
    without BINARY/SPIN self-loops — true of every BQM / QM), the abstraction of the CQM after the history is reached from the
    abstraction before it by a run of that specification: variables with their own types and bounds, the objective and every
    constraint with exactly the terms, private order, sense, right-hand side, weight, penalty type and (up to the flip clause)
    mark that the same sequence produces on a plain list of polynomials. -/
theorem history_refines_every_op (pre ops : List Cqm.Op) (hpre : ∀ op ∈ pre, OpOK op) (hops : ∀ op ∈ ops, OpOK2 op)
    (hsucc : Succeeds (({} : Cqm).run pre) ops) :
    RelRun (absCqm (({} : Cqm).run pre)) ops (absCqm (({} : Cqm).run (pre ++ ops))) := by
  have hinv : RefInv (({} : Cqm).run pre) :=
    ⟨history_inv pre hpre, history_labels pre, history_keysym pre hpre, history_sorted pre hpre⟩
  have : ({} : Cqm).run (pre ++ ops) = (({} : Cqm).run pre).run ops := by
    unfold Cqm.run; rw [List.foldl_append]
  rw [this]
  exact relRun_refines ops hinv hops hsucc

/-- the flip clause changes no term: clearing marks keeps labels, types, bounds, the objective, the number and labels of the
    constraints and, constraint by constraint, the polynomial, sense, rhs, weight and penalty type; a mark is only ever cleared,
    never set -/
theorem clearsSomeMarks_keeps_terms (s s' : LCqm) (h : s.ClearsSomeMarks s') :
    s'.labels = s.labels ∧ s'.info = s.info ∧ s'.obj = s.obj ∧ s'.cons.length = s.cons.length
    ∧ ∀ k (hk : k < s.cons.length) (hk' : k < s'.cons.length),
        (s'.cons[k]).1 = (s.cons[k]).1 ∧ (s'.cons[k]).2.p = (s.cons[k]).2.p ∧ (s'.cons[k]).2.sense = (s.cons[k]).2.sense
        ∧ (s'.cons[k]).2.rhs = (s.cons[k]).2.rhs ∧ (s'.cons[k]).2.weight = (s.cons[k]).2.weight
        ∧ (s'.cons[k]).2.quadPenalty = (s.cons[k]).2.quadPenalty
        ∧ ((s'.cons[k]).2.discrete = true → (s.cons[k]).2.discrete = true) := by
  obtain ⟨h1, h2, h3, h4⟩ := h
  refine ⟨h1, h2, h3, h4.length_eq.symm, fun k hk hk' => ?_⟩
  have := List.forall₂_iff_get.mp h4
  obtain ⟨hl, hr⟩ := this.2 k hk hk'
  simp only [List.get_eq_getElem] at hl hr
  rcases hr with hr | ⟨hd, hr⟩
  · rw [hl, hr]; exact ⟨rfl, rfl, rfl, rfl, rfl, rfl, id⟩
  · rw [hl, hr]; exact ⟨rfl, rfl, rfl, rfl, rfl, rfl, fun hf => by simp at hf⟩

/-- not vacuous: a history through a BINARY flip of a variable of a discrete constraint -/
example :
    let ops : List Cqm.Op := [.addDiscreteVars [.str "x", .str "y"] (.str "d") true, .flipVariable (.str "x"),
                              .relabelVariables [(.str "x", .str "y"), (.str "y", .str "x")], .flipVariable (.str "y")]
    (∀ k, k < ops.length → ((demo.run (ops.take k)).step (ops.getD k .deepcopy)).2 = none)
    ∧ ((demo.run (ops.take 1)).cons.map (·.discrete)) = [false, true]
    ∧ ((demo.run ops).cons.map (·.discrete)) = [false, false] := by
  decide +kernel

/-! ## Round 8: `flip_variable` of a BINARY variable as a FUNCTION; every operation, per step and per history -/

/-- **`flip_variable(v)` is a function of what the model shows.**  `LCqm.flipF s lin v`: `s ↦ −s` in every expression when `v`
    is SPIN; when `v` is BINARY, `x ↦ 1 − x` in every expression and then the mark of exactly those constraints is cleared
    that are marked, one-hot AFTER the substitution and mention `v` (`LCons.isOnehotWith`: `is_linear()` of the stored
    expression — the one observation a polynomial does not show, passed in as `lin` —, at least two variables, sense `==`,
    offset 0, every variable BINARY, every linear bias equal to the right-hand side); an error otherwise.  From any reachable
    state, a `flip_variable` call that returns leaves exactly that model; `lin` is `linFlags` = the `is_linear()` observation
    of every constraint BEFORE the call (the substitution keeps every adjacency key: `linFlags_mapSubstitute`).
    This closes the gap of `history_refines_every_op_partial` / `history_refines_builders_partial` (the BINARY branch). -/
theorem flip_variable_is_a_function (pre : List Cqm.Op) (hpre : ∀ op ∈ pre, OpOK op) (v : Label) :
    let m := ({} : Cqm).run pre
    (m.step (.flipVariable v)).2 = none →
      (absCqm m).flipF (linFlags m) v = some (absCqm (m.step (.flipVariable v)).1) := by
  intro m hok
  have hinv : RefInv m := ⟨history_inv pre hpre, history_labels pre, history_keysym pre hpre, history_sorted pre hpre⟩
  exact refines_flipF hinv v (Prod.ext rfl hok)

/-- **The history theorem, every operation, as a function, no `_partial`.**  `specStepObs s lin op` is `specStepFull s op` for
    every operation but `flip_variable` and `LCqm.flipF s lin v` for it.  From ANY reachable state, along ANY list of public
    operations whose calls return normally (model arguments well formed, without BINARY/SPIN self-loops), EVERY step takes the
    abstraction of the CQM to the value of that function at (the abstraction before the step, the `is_linear()` flags of the
    constraints before the step): `ObsRun`.  Nothing relational is left: compare `history_refines_every_op` (`specRel`). -/
theorem history_refines_every_op_function (pre ops : List Cqm.Op) (hpre : ∀ op ∈ pre, OpOK op) (hops : ∀ op ∈ ops, OpOK2 op)
    (hsucc : Succeeds (({} : Cqm).run pre) ops) : ObsRun (({} : Cqm).run pre) ops := by
  have hinv : RefInv (({} : Cqm).run pre) :=
    ⟨history_inv pre hpre, history_labels pre, history_keysym pre hpre, history_sorted pre hpre⟩
  exact obsRun_refines ops hinv hops hsucc

/-- **`flip_variable` — the function is total.**  From any reachable state `LCqm.flipF` is an error EXACTLY when the call raises
    (unknown label, INTEGER or REAL variable), and a call that raises leaves the model as it was; together with
    `flip_variable_is_a_function`: for every label the call and the function on (polynomials, `is_linear()` flags) agree on
    accept / reject and on the resulting model. -/
theorem flip_variable_total (pre : List Cqm.Op) (hpre : ∀ op ∈ pre, OpOK op) (v : Label) :
    let m := ({} : Cqm).run pre
    ((absCqm m).flipF (linFlags m) v = none ↔ (m.step (.flipVariable v)).2 ≠ none)
    ∧ ((m.step (.flipVariable v)).2 ≠ none → (m.step (.flipVariable v)).1 = m) := by
  intro m
  have hinv : RefInv m := ⟨history_inv pre hpre, history_labels pre, history_keysym pre hpre, history_sorted pre hpre⟩
  exact flipF_none_iff hinv v

/-- **The overlap test is a function of what the model shows.**  "`v` is a variable of some discrete constraint" — what
    `remove_variable(v)` refuses on and `add_discrete(…, check_overlaps=True)` tests (`Cqm.inDiscrete`, an index-level walk over
    `is_discrete()` and `has_variable`) — equals `LCqm.inDiscreteWith` on the list of label-keyed polynomials and the
    `is_linear()` flags, from any reachable state; hence `remove_variable(v)` raises exactly when `v` is unknown or that
    label-level test holds, and then leaves the model as it was.  (r7c's open item "the overlap test of add_discrete stays
    index-level": `is_linear` is the one observation needed beyond the polynomials.) -/
theorem overlap_test_is_label_level (pre : List Cqm.Op) (hpre : ∀ op ∈ pre, OpOK op) (v : Label) :
    let m := ({} : Cqm).run pre
    (∀ g, m.idx? v = some g → m.inDiscrete g = (absCqm m).inDiscreteWith (linFlags m) v)
    ∧ ((m.step (.removeVariable v)).2 ≠ none ↔ ((absCqm m).info v = none ∨ (absCqm m).inDiscreteWith (linFlags m) v = true))
    ∧ ((m.step (.removeVariable v)).2 ≠ none → (m.step (.removeVariable v)).1 = m) := by
  intro m
  have hinv : RefInv m := ⟨history_inv pre hpre, history_labels pre, history_keysym pre hpre, history_sorted pre hpre⟩
  have h1 : ∀ g, m.idx? v = some g → m.inDiscrete g = (absCqm m).inDiscreteWith (linFlags m) v :=
    fun g hg => inDiscrete_abs hinv.wf hinv.lab (idx?_get hg)
  have hstep : m.step (.removeVariable v) = m.removeVariableR v := rfl
  refine ⟨h1, ?_, ?_⟩
  · rw [hstep]
    unfold Cqm.removeVariableR
    cases hg : m.idx? v with
    | none =>
      have : (absCqm m).info v = none := by
        show (Cqm.findIdx v m.labels 0).map _ = none
        have : Cqm.findIdx v m.labels 0 = none := hg
        rw [this]; rfl
      simp [this]
    | some g =>
      have hinfo : (absCqm m).info v ≠ none := by
        show (Cqm.findIdx v m.labels 0).map _ ≠ none
        have : Cqm.findIdx v m.labels 0 = some g := hg
        rw [this]; simp
      simp only []
      rw [← h1 g hg]
      by_cases hd : m.inDiscrete g = true
      · rw [if_pos hd]; simp [hd]
      · rw [if_neg hd]; simp [hd, hinfo]
  · rw [hstep]
    unfold Cqm.removeVariableR
    cases hg : m.idx? v with
    | none => intro _; rfl
    | some g =>
      simp only []
      by_cases hd : m.inDiscrete g = true
      · rw [if_pos hd]; intro _; rfl
      · rw [if_neg hd]; intro h; exact absurd rfl h

/-- **The mark-clearing rule is the source's.**  The tests of `Constraint::is_onehot` (constraint.h: every `if (<test>) return
    false;` in source order and the final `return`) and the statements of the Python `ConstrainedQuadraticModel.flip_variable`
    (constrained.py) are EXTRACTED on every run into `Generated/OnehotTable.lean` (`harness/translators/c05_onehot.py`).  Read as
    "the first test that fires returns false", the extracted list IS the model's `Cons.isOnehot` for every constraint and variable
    table (an unrecognised, dropped, added or altered test breaks this theorem); the Python statement list is the one the model's
    BINARY branch follows: the substitution FIRST, then for every label that `is_discrete()` at that moment, the mark goes if the
    constraint mentions `v` (`flip_variable_is_a_function` is stated about exactly that). -/
theorem generated_onehot_is_the_model (vt : List VT4) (c : Cons) :
    OnehotTab.onehotBy Generated.OnehotTable.finalReturn vt c Generated.OnehotTable.rejects = some (c.isOnehot vt)
    ∧ Generated.OnehotTable.flipPython = OnehotTab.flipPythonModelled :=
  ⟨OnehotTab.onehotBy_generated vt c, OnehotTab.flipPython_generated⟩

/-- **The mark the copying `fix_variables` leaves, at label level.**  `fix_variables(fixed, inplace=False)` keeps the discrete
    mark of a constraint iff it was marked and the NEW constraint `is_onehot()` (`mark_discrete(old.marked_discrete() &&
    new.is_onehot())`): with `LCons.isOnehotWith` that test is a function of the returned model's label-keyed polynomial, its
    variable table and its `is_linear()` observation — no index-level notion is left in the statement. -/
theorem fix_copy_mark_label_level (m m' : Cqm) (hwf : CqmWF m) (hl : CqmLabelsOK m) (fixed : List (Label × Rat))
    (h : m.fixVariablesCopy fixed = some m') :
    ∀ k, k < m.cons.length →
      (m'.cons.getD k {}).discrete
        = ((m.cons.getD k {}).discrete
            && (absCons m'.labels (m'.cons.getD k {})).isOnehotWith (absCqm m').info ((linFlags m').getD k false)) := by
  intro k hk
  obtain ⟨_, a2, a3, a4, _⟩ := fix_copy_attrs_and_vars m m' hwf hl.labels_nodup fixed h
  have hwf' : CqmWF m' := fixCopy_wf hwf h
  have hlen : m'.cons.length = m.cons.length := by
    have := congrArg List.length a2
    simpa using this
  have hk' : k < m'.cons.length := by rw [hlen]; exact hk
  have hnd' : m'.labels.Nodup := by
    have : m'.labels = m.labels.filter (fun l => !(fixed.any (·.1 = l))) := a4
    rw [this]; exact hl.labels_nodup.filter _
  have hc : m'.cons.getD k {} = m'.cons[k] := by
    rw [List.getD_eq_getElem?_getD, List.getElem?_eq_getElem hk']; rfl
  have hmem : m'.cons.getD k {} ∈ m'.cons := by rw [hc]; exact List.getElem_mem hk'
  have hoh := flipfn_isOnehot_abs (hwf'.cons _ hmem) m'.vt m'.lb m'.ub m'.labels hnd' hwf'.labels_len (hwf'.cons_lt _ hmem)
  have hfl : (linFlags m').getD k false = (m'.cons.getD k {}).e.qb.isLinear := by
    unfold linFlags
    rw [List.getD_eq_getElem?_getD, List.getElem?_map, List.getElem?_eq_getElem hk', hc]; rfl
  rw [a3 k hk, hoh, hfl]
  rfl

/-- **`add_discrete(labels, check_overlaps=True)` accepts only labels outside every discrete constraint — at label level.**  From
    any reachable state, when the call returns, every given label the model already knows fails the label-level overlap test
    `LCqm.inDiscreteWith` (on the list of polynomials and the `is_linear()` flags): the index-level condition of
    `cqm_step_refines_discrete` restated without indices. -/
theorem add_discrete_overlap_label_level (pre : List Cqm.Op) (hpre : ∀ op ∈ pre, OpOK op) (vs : List Label) (label : Label) :
    let m := ({} : Cqm).run pre
    (m.step (.addDiscreteVars vs label true)).2 = none →
      ∀ v ∈ vs, (absCqm m).info v ≠ none → (absCqm m).inDiscreteWith (linFlags m) v = false := by
  intro m hok v hv hknown
  have hinv : RefInv m := ⟨history_inv pre hpre, history_labels pre, history_keysym pre hpre, history_sorted pre hpre⟩
  have hstep : m.step (.addDiscreteVars vs label true) = ((m.step (.addDiscreteVars vs label true)).1, none) := Prod.ext rfl hok
  obtain ⟨h1, _⟩ := (cqm_step_refines_discrete m _ hinv.wf hinv.lab).2.2 vs label true hstep
  cases hg : m.idx? v with
  | none =>
    exfalso; apply hknown
    show (Cqm.findIdx v m.labels 0).map _ = none
    have : Cqm.findIdx v m.labels 0 = none := hg
    rw [this]; rfl
  | some g =>
    rw [← (overlap_test_is_label_level pre hpre v).1 g hg]
    exact (h1 v hv g hg).2 rfl

/-- not vacuous, both outcomes of the BINARY branch on `demo` + a discrete constraint `d` over x, y: the first flip of `x`
    makes `d` no longer one-hot, so `is_discrete()` is False when the marks are examined and the mark STAYS; the second flip
    restores the one-hot form and the mark is cleared — the function gives the marks the model has, and `is_linear()` is what
    it needs (with the flag forced to False nothing is cleared) -/
example :
    let m1 := demo.run [.addDiscreteVars [.str "x", .str "y"] (.str "d") true]
    let m2 := (m1.step (.flipVariable (.str "x"))).1
    let m3 := (m2.step (.flipVariable (.str "x"))).1
    (((absCqm m1).flipF (linFlags m1) (.str "x")).map (·.cons.map (·.2.discrete))) = some (m2.cons.map (·.discrete))
    ∧ (((absCqm m2).flipF (linFlags m2) (.str "x")).map (·.cons.map (·.2.discrete))) = some (m3.cons.map (·.discrete))
    ∧ m2.cons.map (·.discrete) = [false, true] ∧ m3.cons.map (·.discrete) = [false, false]
    ∧ (((absCqm m2).flipF [true, false] (.str "x")).map (·.cons.map (·.2.discrete))) = some [false, true]
    ∧ ((absCqm m1).flipF (linFlags m1) (.str "nope")).isNone = true := by
  decide +kernel

end C05
