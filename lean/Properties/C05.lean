import DimodProofs.CqmSubst

/-! # C05 — a CQM keeps every expression attached to the right variables

Model: `DimodModel/Cqm.lean` — `Expr` mirrors `Expression` (`variables_` = `vars`, the hash map
`indices_` = `idx`, base model over local indices = `qb`), `Cqm` mirrors `ConstrainedQuadraticModel`
plus the Python label lists.  `Expr.linear g` / `Expr.quadratic g h` / `Expr.hasVar g` are the C++
accessors `Expression::linear(v)`, `quadratic(u, v)`, `has_variable(v)`: together with `vars` (the
private order) and the offset they are the *plain polynomial* an expression denotes (its `abs`).
`CqmP.shift v u = u - [u > v]`. -/

namespace C05
open CqmP

/-- `Expression::reindex_variables(v)`: every remaining global index `u` becomes `u - [u > v]`, the local
    order is preserved, `indices_` is again the inverse of `variables_`, no term is gained or lost, and the
    expression stays well formed. -/
theorem reindex_spec (e : Expr) (hwf : ExprWF e) (v : Nat) :
    (e.reindex v).vars = (e.vars.filter (· ≠ v)).map (shift v)
    ∧ (∀ g i, (e.reindex v).idx.get? g = some i ↔ (e.reindex v).vars[i]? = some g)
    ∧ (e.reindex v).qb.off = e.qb.off
    ∧ (∀ g, g ≠ v → (e.reindex v).hasVar (shift v g) = e.hasVar g
                   ∧ (e.reindex v).linear (shift v g) = e.linear g)
    ∧ (∀ g h, g ≠ v → h ≠ v → (e.reindex v).quadratic (shift v g) (shift v h) = e.quadratic g h)
    ∧ ExprWF (e.reindex v) :=
  ⟨reindex_vars hwf v, reindex_idxInv hwf v, reindex_off e v,
   fun g hg => ⟨reindex_hasVar hwf v g hg, reindex_linear hwf v g hg⟩,
   fun g h hg hh => reindex_quadratic hwf v g h hg hh, reindex_wf hwf v⟩

/-- "Removing a variable only shifts indices: no expression gains, loses or swaps a term belonging to
    another variable": after the C++ `remove_variable(v)` (+ label removal) the objective and every
    constraint are the same expressions with `v` gone and indices above `v` decremented; sense, rhs,
    weight, penalty and discrete mark of every constraint are untouched; the number and labels of the
    constraints too. -/
theorem remove_only_shifts (m : Cqm) (hwf : CqmWF m) (v : Nat) :
    ExprShifted v m.obj (m.removeVarAt v).obj
    ∧ (m.removeVarAt v).cons.length = m.cons.length
    ∧ (m.removeVarAt v).clabels = m.clabels
    ∧ ∀ k, k < m.cons.length →
        ExprShifted v (m.cons.getD k {}).e ((m.removeVarAt v).cons.getD k {}).e
        ∧ ((m.removeVarAt v).cons.getD k {}).sense = (m.cons.getD k {}).sense
        ∧ ((m.removeVarAt v).cons.getD k {}).rhs = (m.cons.getD k {}).rhs
        ∧ ((m.removeVarAt v).cons.getD k {}).weight = (m.cons.getD k {}).weight
        ∧ ((m.removeVarAt v).cons.getD k {}).quadPenalty = (m.cons.getD k {}).quadPenalty
        ∧ ((m.removeVarAt v).cons.getD k {}).discrete = (m.cons.getD k {}).discrete := by
  refine ⟨exprShifted_reindex hwf.obj v, by rw [removeVarAt_cons, List.length_map], rfl, ?_⟩
  intro k hk
  rw [removeVarAt_cons, getD_map_cons _ _ _ hk]
  exact ⟨exprShifted_reindex (hwf.cons _ (getD_mem _ _ _ hk)) v, rfl, rfl, rfl, rfl, rfl⟩

/-- Type, bounds and label travel with the variable: what was at index `u ≠ v` is at `u - [u > v]`. -/
theorem varinfo_follows (m : Cqm) (v u : Nat) (hu : u ≠ v) (dvt : VT4) (d : Rat) (dl : Label) :
    (m.removeVarAt v).vt.getD (shift v u) dvt = m.vt.getD u dvt
    ∧ (m.removeVarAt v).lb.getD (shift v u) d = m.lb.getD u d
    ∧ (m.removeVarAt v).ub.getD (shift v u) d = m.ub.getD u d
    ∧ (m.removeVarAt v).labels.getD (shift v u) dl = m.labels.getD u dl :=
  ⟨getD_eraseIdx_shift _ hu _, getD_eraseIdx_shift _ hu _, getD_eraseIdx_shift _ hu _, getD_eraseIdx_shift _ hu _⟩

/-- The representation invariant `CqmWF` — in every expression `variables_` is duplicate free and
    `indices_` is its inverse, the bias vectors have one entry per local variable and every neighbourhood
    entry points at a local variable, every expression only mentions variables of the model, `varinfo_`
    and the label list have one entry per variable, `constraint_labels` one per constraint — is preserved
    by **every** public mutation (`Cqm.step`: add/remove/fix/flip/retype/relabel variables, set objective
    from a model or an iterable, add constraints from models / comparisons / iterables, copied or moved,
    discrete constraints, soft weights, remove/relabel constraints (cascade), bounds, mutation through the
    objective / constraint views, deep copy), also by the calls that raise. -/
theorem cqm_inv_preserved (m : Cqm) (hwf : CqmWF m) (op : Cqm.Op) (hop : OpOK op) : CqmWF (m.step op).1 :=
  step_wf hwf op hop

/-- …hence after any history from the empty model. -/
theorem history_inv (ops : List Cqm.Op) (hops : ∀ op ∈ ops, OpOK op) : CqmWF (({} : Cqm).run ops) :=
  run_wf ops cqmWF_empty hops

/-- The variable labels and the constraint labels stay duplicate free under every operation (new labels are
    checked or generated fresh, `relabel_*` is `Variables._relabel`, removal erases) — so `remove_refines`
    below applies at any point of any history. -/
theorem labels_preserved (m : Cqm) (h : CqmLabelsOK m) (op : Cqm.Op) : CqmLabelsOK (m.step op).1 :=
  step_labels h op

theorem history_labels (ops : List Cqm.Op) : CqmLabelsOK (({} : Cqm).run ops) :=
  run_labels ops ⟨List.nodup_nil, List.nodup_nil⟩

/-- In particular after any history every `indices_` map is the inverse of its `variables_`
    (what `enforce_variable`, `linear`, `quadratic`, `energy` rely on), for the objective and every constraint. -/
theorem history_indices_inverse (ops : List Cqm.Op) (hops : ∀ op ∈ ops, OpOK op) :
    (∀ g i, (({} : Cqm).run ops).obj.idx.get? g = some i ↔ (({} : Cqm).run ops).obj.vars[i]? = some g)
    ∧ ∀ c ∈ (({} : Cqm).run ops).cons, ∀ g i, c.e.idx.get? g = some i ↔ c.e.vars[i]? = some g :=
  ⟨(history_inv ops hops).obj.idx, fun c hc => ((history_inv ops hops).cons c hc).idx⟩

/-- Refinement to a plain list of polynomials (`absCqm`: every expression as label-keyed coefficient
    functions + its private variable order; variables with type and bounds by label; constraints with their
    attributes — no index anywhere), for the operation the property singles out: a successful
    `remove_variable(v)` *is* "drop `v` and its terms" on that list; nothing else changes. -/
theorem remove_refines (m m' : Cqm) (hwf : CqmWF m) (hnd : m.labels.Nodup) (v : Label)
    (h : m.step (.removeVariable v) = (m', none)) : absCqm m' = (absCqm m).removeVariable v := by
  have h' : m.removeVariableR v = (m', none) := h
  unfold Cqm.removeVariableR at h'
  cases hidx : m.idx? v with
  | none => rw [hidx] at h'; cases h'
  | some g =>
    rw [hidx] at h'
    simp only [] at h'
    by_cases hd : m.inDiscrete g = true
    · rw [if_pos hd] at h'; cases h'
    · rw [if_neg hd] at h'
      have hm : m.removeVarAt g = m' := (Prod.mk.inj h').1
      have hg : m.labels[g]? = some v := by
        have := findIdx_get hidx; simpa using this
      rw [← hm]
      exact absCqm_removeVarAt hwf hnd hg

/-- After any history every neighbourhood of every expression is strictly sorted by local index — what
    `std::lower_bound` in `asymmetric_quadratic_ref` and the early `break` of `abc::energy` rely on. -/
theorem history_sorted (ops : List Cqm.Op) : AllExprs ExprSorted (({} : Cqm).run ops) := run_sorted ops

/-- `cqm_step_refines`, term insertion: terms written into an expression land on the right variables.
    `add_linear(g, b)` adds `b` to the bias of `g` and to nothing else, appending `g` to the private order iff
    it was not there; `add_quadratic(u, v, b)` (`u ≠ v`) adds `b` to the bias of the pair {u, v} — seen from
    either side — and to no other pair.
    `add_quadratic(g, g, b)` puts `b` on the linear bias of a BINARY `g` (x·x = x), on the offset for a SPIN `g`
    (x·x = 1), on the diagonal entry otherwise — and nowhere else.
    **Partial**: the statements here and in `substitute_is_substitution` / `copy_eq_move` are on indices; only
    `remove_refines` is lifted to the label-keyed polynomials.  For all operations
    `cqm_inv_preserved` proves that the representation invariant survives, and the harness compares every term after
    every operation with the list-of-polynomials reference. -/
theorem cqm_step_refines_partial (e : Expr) (hwf : ExprWF e) (hs : ExprSorted e) (vt : List VT4) (g gu gv : Nat)
    (hne : gu ≠ gv) (b : Rat) :
    (∀ k, (e.addLinear g b).linear k = if k = g then e.linear g + b else e.linear k)
    ∧ (e.addLinear g b).vars = (if e.hasVar g then e.vars else e.vars ++ [g])
    ∧ ExprWF (e.addLinear g b)
    ∧ (∀ x y, (e.addQuadratic vt gu gv b).quadratic x y
          = e.quadratic x y + (if (x = gu ∧ y = gv) ∨ (x = gv ∧ y = gu) then b else 0))
    ∧ ExprWF (e.addQuadratic vt gu gv b) ∧ ExprSorted (e.addQuadratic vt gu gv b)
    ∧ (vt.getD g .binary = .binary →
        (∀ k, (e.addQuadratic vt g g b).linear k = if k = g then e.linear g + b else e.linear k)
        ∧ (e.addQuadratic vt g g b).qb.off = e.qb.off
        ∧ ∀ x y, (e.addQuadratic vt g g b).quadratic x y = e.quadratic x y)
    ∧ (vt.getD g .binary = .spin →
        (∀ k, (e.addQuadratic vt g g b).linear k = e.linear k)
        ∧ (e.addQuadratic vt g g b).qb.off = e.qb.off + b
        ∧ ∀ x y, (e.addQuadratic vt g g b).quadratic x y = e.quadratic x y)
    ∧ (vt.getD g .binary ≠ .binary → vt.getD g .binary ≠ .spin →
        (∀ k, (e.addQuadratic vt g g b).linear k = e.linear k)
        ∧ (e.addQuadratic vt g g b).qb.off = e.qb.off
        ∧ ∀ x y, (e.addQuadratic vt g g b).quadratic x y = e.quadratic x y + (if x = g ∧ y = g then b else 0)) :=
  ⟨addLinear_linear hwf g b, addLinear_vars e g b, addLinear_wf hwf g b,
   addQuadratic_quadratic hwf hs vt hne b, addQuadratic_wf hwf vt gu gv b, addQuadratic_sorted hs vt gu gv b,
   (addQuadratic_self hwf hs vt g b).1, (addQuadratic_self hwf hs vt g b).2.1, (addQuadratic_self hwf hs vt g b).2.2⟩

/-- **Copied or moved**: the constraint / objective expression built by the copy path of `add_constraint_from_model`
    / `set_objective` (`add_linear` per variable, `add_quadratic` per term, `add_offset`) has the same private
    variable order, the same base model (every linear bias, neighbourhood and the offset, field by field) and the same
    `indices_` lookups as the one the move path installs (the model's own base object + `relabel_variables(mapping)`);
    so every accessor answers the same.  `mi` is the incoming model (distinct labels, one bias per variable, terms between
    its own variables, no self-loop on a BINARY/SPIN variable — true of every BQM / QM), `gs` its mapping into the CQM. -/
theorem copy_eq_move (vt : List VT4) (gs : List Nat) (hnd : gs.Nodup) (mi : Cqm.ModelIn) (hmi : ModelInOK mi)
    (hlen : gs.length = mi.vars.length) (hself : NoBinarySelfLoops vt gs mi) :
    (Cqm.buildCopy vt gs mi).vars = (Cqm.buildMove gs mi).vars
    ∧ (Cqm.buildCopy vt gs mi).qb = (Cqm.buildMove gs mi).qb
    ∧ (∀ g, (Cqm.buildCopy vt gs mi).hasVar g = (Cqm.buildMove gs mi).hasVar g
          ∧ (Cqm.buildCopy vt gs mi).linear g = (Cqm.buildMove gs mi).linear g)
    ∧ (∀ g h, (Cqm.buildCopy vt gs mi).quadratic g h = (Cqm.buildMove gs mi).quadratic g h) := by
  obtain ⟨hv, hq, hi⟩ := buildCopy_eq_move vt hnd hmi hlen hself
  refine ⟨hv, hq, ?_, ?_⟩
  · intro g
    unfold Expr.hasVar Expr.linear
    rw [hi g, hq]
    exact ⟨rfl, rfl⟩
  · intro g h
    unfold Expr.quadratic
    rw [hi g, hi h, hq]

/-- …and that expression carries the model's own data: its variables in the model's order (as mapped into the CQM),
    the model's linear bias for each of them, and the model's offset — on either path. -/
theorem model_terms_carried (vt : List VT4) (gs : List Nat) (hnd : gs.Nodup) (mi : Cqm.ModelIn) (hmi : ModelInOK mi)
    (hlen : gs.length = mi.vars.length) (hself : NoBinarySelfLoops vt gs mi) (i : Nat) (hi : i < gs.length) :
    (Cqm.buildCopy vt gs mi).vars = gs ∧ (Cqm.buildCopy vt gs mi).qb.off = mi.off
    ∧ (Cqm.buildCopy vt gs mi).linear (gs.getD i 0) = mi.lin.getD i 0 := by
  obtain ⟨hv, hq, hl, _⟩ := copy_eq_move vt gs hnd mi hmi hlen hself
  obtain ⟨mv, mo, ml⟩ := buildMove_terms hnd mi hi
  exact ⟨hv.trans mv, by rw [hq]; exact mo, ((hl _).2).trans ml⟩

/-- **`substitute_variable(v, m, c)` is the substitution `x_v ↦ m·x_v + c`** on the stored coefficients of a
    well-formed base model with sorted neighbourhoods (what every expression is after any history: `history_inv`,
    `history_sorted`) — the operation behind `fix_variable` (m = 0), `flip_variable` and `change_vartype`:
    offset += l_v·c + q_vv·c²;  l_v ↦ m·l_v + 2·q_vv·m·c;  l_w ↦ l_w + q_vw·c;  q_vv ↦ m²·q_vv;  q_vw ↦ m·q_vw and the
    mirror entry q_wv ↦ m·q_wv for the neighbours `w` of `v`; entries between two other variables are untouched, so
    no other variable gains, loses or swaps a term.
    Stated for `QB.substitute`, i.e. for the loop *as the source has it*: the flag extracted from abc.h
    (`Generated.AbcSubst.selfLoopBranch`, rewritten on every run) must be on — without the repair of D4 this theorem
    does not build (the q_vv·c² and 2·q_vv·m·c terms are then lost; `DimodProofs/D4Witness.lean`). -/
theorem substitute_is_substitution {n : Nat} (q : QB) (hq : QBOk n q) (hs : AdjSorted q.adj) (v : Nat) (hv : v < n) (m c : Rat) :
    (q.substitute v m c).off = q.off + linAt q v * c + qAt q v v * c * c
    ∧ linAt (q.substitute v m c) v = linAt q v * m + 2 * qAt q v v * m * c
    ∧ (∀ w, w ≠ v → linAt (q.substitute v m c) w = linAt q w + qAt q v w * c)
    ∧ (∀ k, qAt (q.substitute v m c) v k = qAt q v k * (if k = v then m * m else m))
    ∧ (∀ w, w ≠ v → qAt (q.substitute v m c) w v = qAt q w v * (if w ∈ (q.adj.getD v []).map Prod.fst then m else 1))
    ∧ (∀ i k, i ≠ v → k ≠ v → qAt (q.substitute v m c) i k = qAt q i k) := by
  have hflag : q.substitute v m c = q.substituteWith true v m c := by
    unfold QB.substitute; rfl
  rw [hflag]
  exact substitute_coeffs hq hs hv m c

/-! ## non-vacuity: a concrete history on the executable model -/

/-- variables x(BINARY) i(INTEGER) y(BINARY); objective 2i + 3i² + x·y; constraint `x + i <= 1`; remove `x` -/
def demo : Cqm :=
  (({} : Cqm).run
    [ .addVariable .binary (some (.str "x")) none none,
      .addVariable .integer (some (.str "i")) (some 0) (some 5),
      .addVariable .binary (some (.str "y")) none none,
      .setObjectiveTerms [⟨[.str "i"], 2⟩, ⟨[.str "i", .str "i"], 3⟩, ⟨[.str "x", .str "y"], 1⟩],
      .addConstraintTerms [⟨[.str "x"], 1⟩, ⟨[.str "i"], 1⟩] .le 1 (.str "c") none 0 ])

example : demo.obj.vars = [1, 2, 0] ∧ demo.obj.linear 1 = 2 ∧ demo.obj.quadratic 1 1 = 3 ∧ demo.obj.quadratic 0 2 = 1 := by
  decide +kernel
example : (demo.run [.removeVariable (.str "x")]).obj.vars = [0, 1]
    ∧ (demo.run [.removeVariable (.str "x")]).obj.linear 0 = 2
    ∧ (demo.run [.removeVariable (.str "x")]).obj.quadratic 0 0 = 3
    ∧ (demo.run [.removeVariable (.str "x")]).labels = [.str "i", .str "y"]
    ∧ ((demo.run [.removeVariable (.str "x")]).cons.map (·.e.vars)) = [[0]] := by
  decide +kernel

end C05
