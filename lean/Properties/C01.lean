import DimodProofs.C01Energy
import DimodProofs.C01Loops
import DimodProofs.C01Samples
import DimodProofs.C01Dqm
import DimodProofs.C01Witness
import DimodProofs.C01Py
import DimodProofs.C01Vars
import DimodProofs.C01Forms
import DimodModel.EnergyGen
import DimodProofs.C01Reads
import Properties.C05

/-! # C01 — energy/energies is the value of the model's own polynomial at the sample

Models: `DimodModel/Energy.lean` (namespace `En`), mirrored from `abc.h::energy`, `cyqmbase _energies`,
`expression.h` / `cyexpression._energies`, `cydiscrete_quadratic_model.pyx::energies`,
`polynomial.py::energies`, `sampleset.py::as_samples`.
Specification: `En.polyEval` (offset + Σ linear·value + Σ interaction·value·value over the *reported*
coefficients `linear`, `iter_quadratic`, `offset`), `evalR` (the same over the dense coefficient view),
`En.SL.value` (the value a samples-like assigns to a label in a row).  `R` is any commutative ring.

`VartypeView.energies` (map the sample values, call the data's `energies`) is covered by `C02.view_energies_sample_map`
together with the theorems below; SampleSet / unlabelled arrays are the identity in `as_samples`. -/

namespace C01

open En Finset

section Loops
variable {R : Type} [CommRing R]

/-! ## the lower-triangle loop (BQM float64/float32, QM, and the base of every CQM expression) -/

/-- The loop of `abc.h::energy` (both branches of `has_adj()`) returns the polynomial of the coefficients the
    model itself reports (`offset()`, `linear(u)`, the `iter_quadratic()` triples) — for every model, sorted or
    not, squared terms included, as long as an allocated adjacency has one row per variable. -/
theorem energy_adj_eq_reported (m : QMB R) (x : Nat → R)
    (hlen : ∀ a, m.adj = some a → a.length = m.lin.length) :
    m.energy x = polyEval m.off m.lin m.iterQuadratic x :=
  QMB.energy_eq_reported m x hlen

/-- On a well-formed sparse adjacency (sorted, symmetric, in range) the loop equals the dense polynomial
    `off + Σ_u L u · x u + Σ_u Σ_{v ≤ u} Q u v · x u · x v` of the coefficient lookups `linear(u)`, `quadratic(u,v)`
    ("sum over a strictly sorted neighbourhood = sum over all indices of the coefficient lookup"). -/
theorem energy_adj_eq_eval (m : QMB R) (hm : m.WF) (x : Nat → R) :
    m.energy x = evalR m.n m.off m.L m.T x :=
  QMB.energy_eq_evalR m hm x

/-- The Cython loop of `cyQMBase._energies` (one row) computes the same value as the C++ loop. -/
theorem cy_loop_eq_cpp_loop (m : QMB R) (x : Nat → R) : m.cyEnergy x = m.energy x :=
  QMB.cyEnergy_eq_energy m x

/-- `BQM.energies` / `QM.energies` at label level: if every model variable occurs among the sample labels, the
    call succeeds and row `r` gets the reported polynomial at `x u = row[sampleLabels.index(label u)]`
    (`qmToSample_ok` states that `q[u]` is that index). Extra sample labels are ignored. -/
theorem energies_labelled (m : QMB R) (hlen : ∀ a, m.adj = some a → a.length = m.lin.length)
    (ml sl : List Label) (samples : List (List R)) (hrows : ∀ r ∈ samples, r.length = sl.length)
    (hall : ∀ v ∈ ml, v ∈ sl) :
    ∃ q, qmToSample ml sl = .ok q ∧
      (∀ u, u < ml.length → indexOf? sl (ml.getD u (.int 0)) = some (q.getD u 0)) ∧
      cyEnergies m ml samples sl = .ok (samples.map fun row => polyEval m.off m.lin m.iterQuadratic (pick row q)) := by
  obtain ⟨q, hq⟩ := qmToSample_total ml sl hall
  exact ⟨q, hq, (qmToSample_ok ml sl q hq).2, cyEnergies_eq m hlen ml sl samples hrows q hq⟩

/-- **the column used for a model variable is the column labelled with that variable**, for the array back-ends as coded:
    `qm_to_sample[si] = labels.index(self.variables.at(si))` on two sparse `cyVariables` objects (`at`: `_index_to_label` with
    the identity as default; `index`: `count`, then the `_is_range()` fast path or `_label_to_index.get(v, v)`) equals the
    resolution by label lists, whatever the order in which the model stores its variables (e.g. `[2, 0, 1]`) and whatever
    the sample labels are (exactly `0..k−1` — unlabelled arrays, sorted dict keys — or anything else); hence
    `energies_labelled` applies to `energies` as coded -/
theorem energies_column_is_label (m : QMB R) (mv sv : VState) (hs : sv.Inv) (samples : List (List R)) :
    qmToSampleV mv sv = qmToSample mv.abs sv.abs ∧
    cyEnergiesV m mv samples sv = cyEnergies m mv.abs samples sv.abs :=
  ⟨qmToSampleV_eq mv sv hs, cyEnergiesV_eq m mv sv hs samples⟩

/-- … spelled out: with every model label among the sample labels, model variable `u` is read from column `q[u]`, and
    `q[u]` is the position of `u`'s label in the list of sample labels -/
theorem energies_as_coded (m : QMB R) (hlen : ∀ a, m.adj = some a → a.length = m.lin.length)
    (mv sv : VState) (hs : sv.Inv) (samples : List (List R)) (hrows : ∀ r ∈ samples, r.length = sv.abs.length)
    (hall : ∀ v ∈ mv.abs, v ∈ sv.abs) :
    ∃ q, qmToSampleV mv sv = .ok q ∧
      (∀ u, u < mv.abs.length → sv.abs[q.getD u 0]? = some (mv.abs.getD u (.int 0))) ∧
      cyEnergiesV m mv samples sv = .ok (samples.map fun row => polyEval m.off m.lin m.iterQuadratic (pick row q)) := by
  obtain ⟨q, hq, hidx, hen⟩ := energies_labelled m hlen mv.abs sv.abs samples hrows hall
  refine ⟨q, by rw [qmToSampleV_eq mv sv hs]; exact hq, ?_, by rw [cyEnergiesV_eq m mv sv hs]; exact hen⟩
  intro u hu
  exact (indexOf?_spec sv.abs _ _ (hidx u hu)).1

/-- A sample that omits one of the model's variables is rejected (`ValueError`), not evaluated. -/
theorem energies_missing_rejected (m : QMB R) (ml sl : List Label) (samples : List (List R))
    (hrows : ∀ r ∈ samples, r.length = sl.length) (h : ∃ v ∈ ml, v ∉ sl) :
    cyEnergies m ml samples sl = .error .value :=
  cyEnergies_missing m ml sl samples hrows h

/-! ## the dict back-end (`dtype=object`) -/

/-- `energy_py_eq_eval`: `pyBQM.energies` (`samples.dot(ldata)` + products over `irow/icol` + offset) gives every row the
    polynomial of the dict model's own coefficients (`_adj[v][v]`, `iter_quadratic()`, `offset`) at the values found under
    the model's labels; sample columns that carry no model variable contribute nothing -/
theorem energy_py_eq_eval (m : PyBqm R) (ml sl : List Label) (samples : List (List R))
    (hrows : ∀ r ∈ samples, r.length = sl.length) (hml : ml.length = m.rows.length) (hnd : ml.Nodup)
    (q : List Nat) (hq : qmToSample ml sl = .ok q) :
    m.energies ml samples sl
      = .ok (samples.map fun row => polyEval m.off (m.rows.map (·.1)) m.iterQuadratic (pick row q)) :=
  PyBqm.energies_eq m ml sl samples hrows hml hnd q hq

/-- a sample that omits a variable of the dict model is rejected -/
theorem energy_py_missing_rejected (m : PyBqm R) (ml sl : List Label) (samples : List (List R)) (h : ∃ v ∈ ml, v ∉ sl) :
    m.energies ml samples sl = .error .value :=
  PyBqm.energies_missing m ml sl samples h

/-! ## CQM objective and constraint left-hand sides -/

/-- `energy_expr_eq_eval`: `cyexpression._energies` (repaired, D2) gives every row the expression's reported
    polynomial at the values of the expression's own variables — including the expression *without variables*,
    whose value is its offset (`reportedEval_no_variables`). -/
theorem energy_expr_eq_eval (e : Expr R) (hlen : ∀ a, e.qb.adj = some a → a.length = e.qb.lin.length)
    (hv : e.vars.length = e.qb.lin.length)
    (pl sl : List Label) (samples : List (List R)) (q : List Nat) (hq : exprReindex e pl sl = .ok q) :
    exprEnergies e pl samples sl
      = .ok (samples.map fun row => polyEval e.qb.off e.qb.lin e.qb.iterQuadratic (pick row q)) :=
  exprEnergies_eq e hlen hv pl sl samples q hq

/-- the zero-variable case spelled out: every row evaluates to the offset -/
theorem energy_expr_no_variables (e : Expr R) (hvars : e.vars = [])
    (pl sl : List Label) (samples : List (List R)) :
    exprEnergies e pl samples sl = .ok (samples.map fun _ => e.qb.off) := by
  unfold exprEnergies exprReindex
  simp [hvars, qmToSample]

/-- a sample that omits a variable *of the expression* is rejected -/
theorem energy_expr_missing_rejected (e : Expr R) (pl sl : List Label) (samples : List (List R))
    (h : ∃ g ∈ e.vars, pl.getD g (.int (-1)) ∉ sl) :
    exprEnergies e pl samples sl = .error .value :=
  exprEnergies_missing e pl sl samples h

/-- `Expression::energy` (the C++ entry point): base loop on the sub-sample in the expression's own order -/
theorem energy_expr_cpp (e : Expr R) (hlen : ∀ a, e.qb.adj = some a → a.length = e.qb.lin.length) (x : Nat → R) :
    e.energyCpp x = polyEval e.qb.off e.qb.lin e.qb.iterQuadratic (fun i => x (e.vars.getD i 0)) :=
  Expr.energyCpp_eq e hlen x

/-! ## DQM -/

/-- `energy_dqm_eq_eval`: for a sample whose cases are all in range, the loop of
    `cyDiscreteQuadraticModel.energies` returns offset + Σ_u linear(u, case_u) + Σ_u Σ_{v<u} quadratic(u, case_u, v, case_v)
    (case-level lookups at `case_starts_[u] + case_u`), given the invariant of the variable-level adjacency. -/
theorem energy_dqm_eq_eval (d : Dqm R) (hd : d.WF) (row : List Int) (h : d.InRange row 0 d.numVariables) :
    Dqm.rowLoop d row 0 d.adj d.off
      = some (d.off + ∑ u ∈ range d.numVariables,
          (d.caseLin (d.cs row u) + ∑ v ∈ range u, d.caseQuad (d.cs row u) (d.cs row v))) :=
  Dqm.rowLoop_eq_spec d hd row h

/-- `dqm_rejects_out_of_range`: a sample that names a negative case or a case `≥ num_cases(u)` for some variable
    makes `energies` raise `ValueError` whatever the other rows are (repaired range check, D3). -/
theorem dqm_rejects_out_of_range (d : Dqm R) (samples : List (List Int)) (row : List Int) (hrow : row ∈ samples)
    (u : Nat) (hu : u < d.numVariables)
    (hbad : row.getD u 0 < 0 ∨ row.getD u 0 ≥ (d.numCases u : Int)) :
    d.cyEnergies samples = .error .value :=
  Dqm.cyEnergies_rejects d samples row hrow u hu hbad

/-! ## BinaryPolynomial -/

/-- `energy_poly_eq_sum`: the loop of `BinaryPolynomial.energies` (constant term handled by its own branch) is
    Σ_terms bias · Π_{v ∈ term} value(v) -/
theorem energy_poly_eq_sum (terms : List (List Nat × R)) (x : Nat → R) :
    polyEnergy terms x = polySpec x terms :=
  polyEnergy_eq terms x

end Loops

section Samples
variable {R : Type}

/-! ## `as_samples`: whatever form the sample takes -/

/-- `as_samples_row_values`, list of dicts in arbitrary (differing) key orders, e.g. any label permutation: one row
    per dict, and the value delivered in row `r` under label `ℓ` is the value the `r`-th dict assigns to `ℓ`
    (repaired re-indexing, D1). -/
theorem as_samples_row_values_dicts [Zero R] (l : List (List (Label × R))) (rows : List (List R)) (labels : List Label)
    (hnd : ∀ d ∈ l, (d.map (·.1)).Nodup)
    (h : asSamples (.dicts l) = .ok (rows, labels)) :
    rows.length = l.length ∧ labels = (l.head?.getD []).map (·.1) ∧
    ∀ r, r < l.length → ∀ j (hj : j < labels.length),
      (SL.dicts l).value r labels[j] = some ((rows.getD r []).getD j 0) :=
  asSamples_dicts_values l rows labels hnd h

/-- dicts with unequal key sets are rejected -/
theorem as_samples_dicts_mismatch_rejected [Zero R] (first d : List (Label × R)) (pre post : List (List (Label × R)))
    (hpre : ∀ x ∈ pre, sameSet (x.map (·.1)) (first.map (·.1)) = true)
    (hd : sameSet (d.map (·.1)) (first.map (·.1)) = false) :
    asSamples (.dicts (first :: (pre ++ d :: post))) = .error .value :=
  asSamples_dicts_mismatch first d pre post hpre hd

/-- a single dict -/
theorem as_samples_row_values_dict [Zero R] (items : List (Label × R)) (hnd : (items.map (·.1)).Nodup) :
    ∃ rows labels, asSamples (.dict items) = .ok (rows, labels) ∧ rows.length = 1 ∧ labels = items.map (·.1) ∧
      ∀ j (hj : j < labels.length), (SL.dict items).value 0 labels[j] = some ((rows.getD 0 []).getD j 0) :=
  asSamples_dict_values items hnd

/-- a labelled array in any column order (distinct labels): the value under `ℓ` is the entry of the column labelled `ℓ` -/
theorem as_samples_row_values_labelled [Zero R] (rows : List (List R)) (labels : List Label) (hnd : labels.Nodup)
    (out : List (List R)) (labels' : List Label) (hne : rows.length * widthOf rows ≠ 0)
    (h : asSamples (.labelled rows labels) = .ok (out, labels')) :
    out = rows ∧ labels' = labels ∧ labels.length = widthOf rows ∧
    ∀ r (hr : r < rows.length) j (hj : j < labels.length), j < rows[r].length →
      (SL.labelled rows labels).value r labels[j] = some ((out.getD r []).getD j 0) :=
  asSamples_labelled_values rows labels hnd out labels' hne h

/-- an unlabelled 2-d array: labels `0 … width−1`, the value under label `j` is column `j` -/
theorem as_samples_row_values_array [Zero R] (rows : List (List R)) :
    asSamples (.arr rows) = .ok (rows, rangeLabels (widthOf rows)) ∧
    ∀ r (hr : r < rows.length) j (hj : j < rows[r].length),
      (SL.arr rows).value r (.int (Int.ofNat j)) = some ((rows.getD r []).getD j 0) :=
  asSamples_arr_values rows

/-- a SampleSet: record and variables as they are -/
theorem as_samples_row_values_sampleset [Zero R] (rows : List (List R)) (labels : List Label) (hnd : labels.Nodup) :
    asSamples (.sampleset rows labels) = .ok (rows, labels) ∧
    ∀ r (hr : r < rows.length) j (hj : j < labels.length), j < rows[r].length →
      (SL.sampleset rows labels).value r labels[j] = some ((rows.getD r []).getD j 0) :=
  asSamples_sampleset_values rows labels hnd

/-- a labelled 1-d array-like: one sample -/
theorem as_samples_row_values_labelled1 [Zero R] (row : List R) (labels : List Label) (hnd : labels.Nodup) (hne : row ≠ [])
    (out : List (List R)) (labels' : List Label)
    (h : asSamples (.labelled1 row labels) = .ok (out, labels')) :
    out = [row] ∧ labels' = labels ∧ labels.length = row.length ∧
    ∀ j (hj : j < labels.length), (SL.labelled1 row labels).value 0 labels[j] = some ((out.getD 0 []).getD j 0) :=
  asSamples_labelled1_values row labels hnd hne out labels' h

end Samples

/-! ## the pre-repair code violated the statements above (witnesses; see `DimodProofs/C01Witness.lean`) -/

/-- D1: with the inverse permutation, `as_samples` delivered 2 under label `a` where the second dict assigns 3 -/
theorem d1_witness :
    ((asSamplesOld C01Witness.twoDicts).toOption.map fun p => (p.1.getD 1 []).getD 0 0)
      ≠ C01Witness.twoDicts.value 1 C01Witness.a :=
  C01Witness.d1_old_misplaces

/-- D2: the variable-free expression `3` evaluated to 0 -/
theorem d2_witness : (exprEnergiesOld C01Witness.constExpr [C01Witness.a] [[1]] [C01Witness.a]).toOption
    ≠ some [C01Witness.constExpr.qb.off] :=
  C01Witness.d2_old_wrong

/-- D3: case −1 was evaluated (as the previous variable's last case) instead of rejected -/
theorem d3_witness : C01Witness.dqm2.rowLoopOld [0, -1] 0 C01Witness.dqm2.adj C01Witness.dqm2.off = some 3 :=
  C01Witness.d3_old_accepts

/-! ## non-vacuity -/

/-- a model without variables: its energy is its offset -/
example : ({ lin := [], adj := none, off := 5 } : QMB Rat).energy (fun _ => 0) = 5 := by decide +kernel

/-- a squared INTEGER term 3·i² + 2·i + 1 at i = 2 -/
example : ({ lin := [2], adj := some [[(0, 3)]], off := 1 } : QMB Rat).energy (fun _ => 2) = 17 := by decide +kernel

/-- the well-formedness hypothesis of `energy_adj_eq_eval` is satisfiable by a model with an interaction and a squared term -/
example : ({ lin := [1, 2], adj := some [[(1, 3)], [(0, 3), (1, 4)]], off := 0 } : QMB Rat).WF := by
  refine ⟨?_, ?_, ?_, ?_⟩
  · intro a h; cases h; rfl
  · intro u
    match u with
    | 0 => simp [QMB.nbh, Nbh.Sorted]
    | 1 => simp [QMB.nbh, Nbh.Sorted]
    | (u+2) => simp [QMB.nbh, Nbh.Sorted]
  · intro u p hp
    match u with
    | 0 => simp [QMB.nbh] at hp; subst hp; simp [QMB.n]
    | 1 => simp [QMB.nbh] at hp; rcases hp with rfl | rfl <;> simp [QMB.n]
    | (u+2) => simp [QMB.nbh] at hp
  · intro u v b h
    match u with
    | 0 => simp [QMB.nbh] at h; obtain ⟨rfl, rfl⟩ := h; simp [QMB.nbh]
    | 1 => simp [QMB.nbh] at h; rcases h with ⟨rfl, rfl⟩ | ⟨rfl, rfl⟩ <;> simp [QMB.nbh]
    | (u+2) => simp [QMB.nbh] at h

/-- model variables stored as `[2, 1, 0]` (sparse maps), linear biases 1, 2, 4, sample `[10, 20, 30]` labelled `0, 1, 2` on the range fast path -/
example : cyEnergiesV ({ lin := [1, 2, 4], adj := none, off := 0 } : QMB Rat)
    { i2l := [(0, .int 2), (2, .int 0)], l2i := [(.int 2, 0), (.int 0, 2)], stop := 3 } [[10, 20, 30]]
    { i2l := [], l2i := [], stop := 3 } = .ok [110] := by decide +kernel

/-- the 3-cycle of label orders through the repaired `as_samples` -/
example : (asSamples C01Witness.twoDicts).toOption = some ([[3, 1, 2], [3, 1, 2]], [C01Witness.a, C01Witness.b, C01Witness.c]) :=
  C01Witness.d1_new_rows

/-- a constant-only constraint left-hand side -/
example : (exprEnergies C01Witness.constExpr [C01Witness.a] [[1]] [C01Witness.a]).toOption = some [3] :=
  C01Witness.d2_new_value


/-! ## round 7: loops over the guards regenerated from the source; the remaining `as_samples` forms; the dtype choice -/

section Round7
variable {R : Type} [CommRing R]

open Generated.EnergyLoops

/-- The loops of `abc.h::energy` and `cyQMBase._energies` **with the guards regenerated from the source on every run**
    (`Generated/EnergyLoops.lean`: `if (term.v > u) break;`, `while … deref(it).v <= ui`) return the polynomial of the reported
    coefficients, and agree with each other.  A change of either guard in the source changes the definitions this theorem is
    about. -/
theorem energy_loops_over_generated_guards (m : QMB R) (x : Nat → R)
    (hlen : ∀ a, m.adj = some a → a.length = m.lin.length) :
    m.energyGen x = polyEval m.off m.lin m.iterQuadratic x ∧ m.cyEnergyGen x = m.energyGen x := by
  rw [QMB.energyGen_eq, QMB.cyEnergyGen_eq]
  exact ⟨QMB.energy_eq_reported m x hlen, QMB.cyEnergy_eq_energy m x⟩

/-- the header of the outer loop as extracted: `for (index_type u = 0; u < num_variables(); ++u)` -/
theorem energy_loop_header_generated : cppFirst = 0 ∧ ∀ u n, cppInBounds u n = decide (u < n) := ⟨rfl, fun _ _ => rfl⟩

/-- **`as_samples` of any iterator** (`iter(…)`, generator, `map` object) **or of a sequence containing a mapping**, with elements of
    any form (dicts, labelled arrays with several rows, SampleSets, …) each of which delivers its own values: the result has the
    first element's labels, all rows in order, and row `r` of element `i` carries under every label the value that element
    assigns there — whatever order each element lists its labels in. -/
theorem as_samples_iterator_any_elements (l : List (SL R)) (rows : List (List R)) (labels : List Label)
    (hel : ∀ s ∈ l, ∀ rs ls, asSamples s = .ok (rs, ls) → Delivers s rs ls)
    (h : asSamplesF (.iterOf l) = .ok (rows, labels)) :
    rows.length = (l.map SL.numRows).sum ∧
    (∀ s t, l = s :: t → ∃ rs, asSamples s = .ok (rs, labels)) ∧
    ∀ i (hi : i < l.length) r, r < l[i].numRows → ∀ j v, labels[j]? = some v →
      l[i].value r v = some ((rows.getD (rowOffset l i + r) []).getD j 0) :=
  asSamplesIter_values l rows labels hel h

/-- the hypothesis on the elements holds for dicts with distinct keys … -/
theorem as_samples_element_dict_delivers (items : List (Label × R)) (hnd : (items.map (·.1)).Nodup) (rs : List (List R)) (ls : List Label)
    (h : asSamples (.dict items) = .ok (rs, ls)) : Delivers (.dict items) rs ls :=
  delivers_dict items hnd rs ls h

/-- … and for SampleSets / labelled rectangular arrays with distinct labels -/
theorem as_samples_element_sampleset_delivers (rows : List (List R)) (labels : List Label) (hnd : labels.Nodup)
    (hrect : ∀ row ∈ rows, row.length = labels.length) (rs : List (List R)) (ls : List Label)
    (h : asSamples (.sampleset rows labels) = .ok (rs, ls)) : Delivers (.sampleset rows labels) rs ls :=
  delivers_sampleset rows labels hnd hrect rs ls h

/-- … for `(array, labels)` tuples with several rows (non-empty, rectangular, distinct labels) … -/
theorem as_samples_element_labelled_delivers (rows : List (List R)) (labels : List Label) (hnd : labels.Nodup)
    (hne : rows.length * widthOf rows ≠ 0) (hrect : ∀ row ∈ rows, row.length = labels.length) (rs : List (List R)) (ls : List Label)
    (h : asSamples (.labelled rows labels) = .ok (rs, ls)) : Delivers (.labelled rows labels) rs ls :=
  delivers_labelled rows labels hnd hne hrect rs ls h

/-- … and for an element that is itself a list of dicts (a sequence containing mappings, nested once) -/
theorem as_samples_element_dicts_delivers (l : List (List (Label × R))) (hnd : ∀ d ∈ l, (d.map (·.1)).Nodup) (rs : List (List R))
    (ls : List Label) (h : asSamples (.dicts l) = .ok (rs, ls)) : Delivers (.dicts l) rs ls :=
  delivers_dicts l hnd rs ls h

/-- a later element with another label SET is rejected (`ValueError`), wherever it stands -/
theorem as_samples_iterator_mismatch_rejected (F : List Label) (s : SL R) (t : List (SL R)) (rs : List (List R)) (ls : List Label)
    (hs : asSamples s = .ok (rs, ls)) (hne : ls ≠ F) (hset : sameSet ls F = false) :
    stackRest F (s :: t) = .error .value :=
  stackRest_mismatch F s t rs ls hs hne hset

/-- **one-shot iterables**: a successful `as_samples(it)` consumes the iterator object; asked again, the same object yields zero
    samples (the harness replays this on the real `as_samples`) -/
theorem as_samples_iterator_one_shot (it : List (SL R)) (res : List (List R) × List Label)
    (h : (asSamplesIterState it).1 = .ok res) :
    (asSamplesIterState it).2 = [] ∧ asSamplesIter (asSamplesIterState it).2 = .ok ([], []) :=
  asSamplesIter_one_shot it res h

/-- the deprecated **`(Mapping, labels)`** form -/
theorem as_samples_mapping_labels (items : List (Label × R)) (labels : List Label) (hnd : labels.Nodup) :
    (∀ rows labels', asSamplesF (.mappingLabels items labels) = .ok (rows, labels') →
      labels' = labels ∧ rows.length = 1 ∧
      ∀ j v, labels[j]? = some v → lookupLabel items v = some ((rows.getD 0 []).getD j 0)) ∧
    ((∃ v ∈ labels, lookupLabel items v = none) → asSamplesF (.mappingLabels items labels) = .error .value) :=
  asSamplesMappingLabels_values items labels hnd

/-- `(iterator, labels)` is a `TypeError`, a tuple of another length a `ValueError` -/
theorem as_samples_tuple_errors (labels : List Label) :
    asSamplesF (.tupleOfIterator labels : SLF R) = .error .type ∧ asSamplesF (.tupleNot2 : SLF R) = .error .value := ⟨rfl, rfl⟩

/-- **samples given without a dtype** (dict, list of dicts, nested list, `(list, labels)`): `_sample_array` picks the first type of
    the regenerated candidate list that passes the regenerated fit test, and the cast to it **changes no entry** — for every
    integer array, in particular when the largest magnitude is exactly `2^7`, `2^15`, `2^31` -/
theorem sample_array_dtype_keeps_values (rows : List (List Int)) (w : Nat) (out : List (List Int))
    (h : sampleArrayInt rows = .ok (w, out)) : out = rows ∧ w ∈ sampleWidths :=
  sampleArrayInt_values rows w out h

/-- a type is found exactly when the largest magnitude fits `int64`, or — where the source keeps an int64 array as it is (flag
    regenerated from the `except StopIteration` branch; the fix of D-r7b1) — every entry is an int64, i.e. the extreme is `-2^63`;
    otherwise `ValueError` -/
theorem sample_array_dtype_ok_iff (rows : List (List Int)) :
    (∃ r, sampleArrayInt rows = .ok r) ↔
      (sampleMax rows ≤ 2 ^ 63 - 1 ∨ (sampleKeepsInt64 = true ∧ inInt64 rows = true)) :=
  sampleArrayInt_ok_iff rows

end Round7

/-- a generator yielding a dict, then a two-row SampleSet whose columns are in the other order: three rows under the dict's labels -/
example : asSamplesF (.iterOf [.dict [(C01Witness.a, (1 : Rat)), (C01Witness.b, 2)],
                                .sampleset [[3, 4], [5, 6]] [C01Witness.b, C01Witness.a]])
    = .ok ([[1, 2], [4, 3], [6, 5]], [C01Witness.a, C01Witness.b]) := by decide +kernel

/-- the element hypothesis of `as_samples_iterator_any_elements` is met by a concrete mixed iterator (a dict, then a two-row SampleSet
    with the columns in the other order): both elements deliver their own values -/
example : ∀ s ∈ ([.dict [(C01Witness.a, (1 : Rat)), (C01Witness.b, 2)], .sampleset [[3, 4], [5, 6]] [C01Witness.b, C01Witness.a]] : List (SL Rat)),
    ∀ rs ls, asSamples s = .ok (rs, ls) → Delivers s rs ls := by
  intro s hs rs ls h
  simp only [List.mem_cons, List.not_mem_nil, or_false] at hs
  rcases hs with rfl | rfl
  · exact delivers_dict _ (by decide) rs ls h
  · exact delivers_sampleset _ _ (by decide) (by decide) rs ls h

/-- +128 as the largest magnitude: `int16` is chosen and 128 stays 128; −128 with 127: `max_` is 128 as well -/
example : sampleArrayInt [[128, -5]] = .ok (16, [[128, -5]]) ∧ sampleArrayInt [[-128, 127]] = .ok (16, [[-128, 127]]) ∧
    sampleArrayInt [[127, -127]] = .ok (8, [[127, -127]]) ∧ sampleArrayInt [[2147483648]] = .ok (64, [[2147483648]]) := by decide +kernel

/-- the rule of seeded change C01-8 (smallest type holding the NEGATED maximum) picks `int8` for 128, and the cast wraps it -/
example : pickWidthNegated 128 = some 8 ∧ wrapTo 8 128 = -128 := by decide +kernel


/-! ## round 8 — every read accessor of a CQM expression reports the polynomial `energies` evaluates

`Expression` keeps `variables_` (position → model index) and `indices_` (model index → position).  The energy loops and
`iter_quadratic` walk positions; `get_linear` (→ `iter_linear`, the `linear` mapping, `to_polystring`), `get_quadratic`
(→ the `quadratic` mapping's and `adj`'s `__getitem__`), `degree`, `has_variable` look labels up in `indices_`.  The theorems
below are about the second reading (`ExprReads.labelPoly`: linear biases read as `[get_linear(v) for v in variables]`,
every listed interaction re-read as `get_quadratic(u, v)`), on C05's state model, whose `idx` is updated exactly as the three
loops of `reindex_variables` update `indices_` — here restated over the guards regenerated from expression.h. -/

section Reads
open ExprReads CqmP

/-- `reindex_variables` over the guards the translator `c01_expr_reindex.py` regenerates from expression.h (`start` default,
    erase guard, "before start" guard) is the model C05's theorems are about; a changed guard breaks this proof. -/
theorem reindex_over_generated_guards (e : Expr) (v : Nat) : reindexGen e v = e.reindex v := reindexGen_eq e v

/-- On a well-formed state with sorted neighbourhoods the label-based readings ARE the positional ones: the list
    `[get_linear(v) for v in variables]` is the base's linear vector, and every interaction `iter_quadratic` lists, re-read
    through `get_quadratic`, has the bias the iterator reported. -/
theorem expr_label_reads_are_positional (e : Expr) (hwf : ExprWF e) (hs : ExprSorted e) :
    labelLin e = e.qb.lin ∧ labelQuad e = (toEn e).qb.iterQuadratic :=
  ⟨labelLin_eq hwf, labelQuad_eq hwf hs⟩

/-- **Energy = polynomial of the label readings.**  The C++ loop of `Expression::energy` on a sample (indexed by model index)
    returns offset + Σ get_linear(v)·x_v + Σ get_quadratic(u, v)·x_u·x_v over the expression's variables / listed interactions. -/
theorem expr_energy_is_polynomial_of_label_reads (e : Expr) (hwf : ExprWF e) (hs : ExprSorted e) (x : Nat → Rat) :
    (toEn e).energyCpp x = labelPoly e x :=
  energy_eq_labelPoly hwf hs x

/-- … and both polynomials (label readings, positional readings) are one. -/
theorem expr_label_polynomial_is_positional (e : Expr) (hwf : ExprWF e) (hs : ExprSorted e) (x : Nat → Rat) :
    labelPoly e x = positionPoly e x :=
  labelPoly_eq_positionPoly hwf hs x

/-- **After the parent removed a variable** (`remove_variable(v)`; `fix_variable(v, a)` is `substitute_variable` then this):
    whatever the private order of the expression — `v+1` listed before `v`, descending, interleaved — the energy of the
    re-indexed expression is the polynomial of what its label-based accessors report. -/
theorem reindex_keeps_label_reads (e : Expr) (hwf : ExprWF e) (hs : ExprSorted e) (v : Nat) (x : Nat → Rat) :
    (toEn (reindexGen e v)).energyCpp x = labelPoly (reindexGen e v) x := by
  rw [reindex_over_generated_guards]
  exact energy_eq_labelPoly (reindex_wf hwf v) (reindex_sorted hs v) x

/-- the same for a fix: `substitute_variable(v, 0, a)` followed by `reindex_variables(v)` -/
theorem fix_keeps_label_reads (e : Expr) (hwf : ExprWF e) (hs : ExprSorted e) (v : Nat) (a : Rat) (x : Nat → Rat) :
    (toEn (applyOp e (.fix v a))).energyCpp x = labelPoly (applyOp e (.fix v a)) x := by
  show (toEn (reindexGen (e.substitute v 0 a) v)).energyCpp x = labelPoly (reindexGen (e.substitute v 0 a) v) x
  exact reindex_keeps_label_reads _ (substitute_wf hwf v 0 a) (substitute_sorted hs v 0 a) v x

/-- the view's own `remove_variable(v)` (`Expression::remove_variable`: positions behind `v` move up, `indices_[*it] -= 1`) and
    the view's mutators that may append a variable new to the expression (`enforce_variable`): label readings stay the polynomial
    the loop evaluates -/
theorem view_mutators_keep_label_reads (e : Expr) (hwf : ExprWF e) (hs : ExprSorted e) (vt : List VT4) (g h : Nat) (b : Rat)
    (x : Nat → Rat) :
    (toEn (applyOp e (.viewRemove g))).energyCpp x = labelPoly (applyOp e (.viewRemove g)) x
    ∧ (toEn (e.addLinear g b)).energyCpp x = labelPoly (e.addLinear g b) x
    ∧ (toEn (e.setLinear g b)).energyCpp x = labelPoly (e.setLinear g b) x
    ∧ (toEn (e.addQuadratic vt g h b)).energyCpp x = labelPoly (e.addQuadratic vt g h b) x :=
  ⟨energy_eq_labelPoly (removeVar_wf hwf g) (removeVar_sorted hs g) x,
   energy_eq_labelPoly (addLinear_wf hwf g b) (addLinear_sorted hs g b) x,
   energy_eq_labelPoly (setLinear_wf hwf g b) (setLinear_sorted hs g b) x,
   energy_eq_labelPoly (addQuadratic_wf hwf vt g h b) (addQuadratic_sorted hs vt g h b) x⟩

/-- **Along every history of public CQM operations** (C05's `Cqm.Op`: building from handed-over models in their own variable
    order or through the views' mutators, `fix_variable(s)` in place, `remove_variable`, `relabel_variables`, `flip_variable`,
    the views' `remove_variable` / `remove_interaction`, …), for the objective and every constraint: the energy loop returns
    the polynomial of the coefficients the label-based accessors report. -/
theorem cqm_history_energy_is_polynomial_of_label_reads (ops : List Cqm.Op) (hops : ∀ op ∈ ops, OpOK op) (x : Nat → Rat) :
    (toEn (({} : Cqm).run ops).obj).energyCpp x = labelPoly (({} : Cqm).run ops).obj x ∧
    ∀ c ∈ (({} : Cqm).run ops).cons, (toEn c.e).energyCpp x = labelPoly c.e x := by
  have hwf := C05.history_inv ops hops
  have hs := C05.history_sorted ops hops
  exact ⟨energy_eq_labelPoly hwf.obj hs.1 x, fun c hc => energy_eq_labelPoly (hwf.cons c hc) (hs.2 c hc) x⟩

/-- `degree(v)` by label is the length of the neighbourhood at the position of `v` -/
theorem expr_degree_by_label (e : Expr) (hwf : ExprWF e) (i : Nat) (hi : i < e.vars.length) :
    ExprReads.degree e (e.vars.getD i 0) = (e.qb.adj.getD i []).length :=
  degree_at hwf hi

/-- the expression `3·x₁ + 5·x₀ + 2·x₀x₁` written with `x₁` FIRST (private order `[1, 0]`), parent removes variable 0 -/
def succFirst : Expr := rebuild 2 [1, 0] [3, 5] [(0, 1, 2)] 0

/-- as coded: the former variable 1 now carries label 0, is found by label, and the energy at `x = 1` is its bias -/
example : (reindexGen succFirst 0).vars = [0] ∧ (reindexGen succFirst 0).linear 0 = 3
    ∧ (toEn (reindexGen succFirst 0)).energyCpp (fun _ => 1) = 3 ∧ labelPoly (reindexGen succFirst 0) (fun _ => 1) = 3 := by
  decide +kernel

/-- **witness of the class of seeded change C01-9** (`start` defaults to 0, loop 2 re-inserts only labels `> v`): the energy
    loop still returns 3 but `get_linear` reports 0 — energy ≠ polynomial of the reported coefficients. -/
theorem seeded_reindex_loses_label_read :
    (reindexSeed succFirst 0).vars = [0] ∧ (reindexSeed succFirst 0).linear 0 = 0
    ∧ (toEn (reindexSeed succFirst 0)).energyCpp (fun _ => 1) = 3 ∧ labelPoly (reindexSeed succFirst 0) (fun _ => 1) = 0 := by
  decide +kernel

/-- hypotheses of `cqm_history_energy_is_polynomial_of_label_reads` met by a concrete history with a private order: objective
    written `y` before `x`, then `x` fixed; the model returns normally at every step and the objective keeps a variable -/
example :
    let ops : List Cqm.Op := [.addVariable .binary (some (.str "x")) none none, .addVariable .integer (some (.str "y")) (some 0) (some 5),
                              .viewAddLinear none (.str "y") 3, .viewAddLinear none (.str "x") 5,
                              .viewAddQuadratic none (.str "x") (.str "y") 2, .fixVariable (.str "x") 1]
    (∀ op ∈ ops, OpOK op) ∧ (({} : Cqm).run (ops.take 5)).obj.vars = [1, 0] ∧ (({} : Cqm).run ops).obj.vars = [0]
    ∧ (({} : Cqm).run ops).obj.linear 0 = 5 ∧ (({} : Cqm).run ops).obj.qb.off = 5 := by
  refine ⟨?_, ?_⟩
  · intro op hop
    simp only [List.mem_cons, List.not_mem_nil, or_false] at hop
    rcases hop with h | h | h | h | h | h <;> subst h <;> trivial
  · decide +kernel

end Reads

end C01
