import DimodProofs.GrayRows
import DimodProofs.EnumProd
import DimodProofs.EnumCqm
import DimodProofs.EnumEnergy
import DimodProofs.EnumPoly
import DimodProofs.EnumInit
import DimodProofs.EnumPost
import DimodProofs.Anneal
import DimodProofs.AnnealDelta
import DimodProofs.AnnealColor
import DimodProofs.AnnealSweep
import DimodProofs.EnumComposite
import DimodProofs.AnnealClass
import DimodProofs.EnumFixedVars
import DimodProofs.EnumExact

/-! # C07 — samplers and composites report each row's true energy over the right variables

Model: `DimodModel/Enumerate.lean` (mirror of `reference/samplers/exact_solver.py`, the mixins of
`core/sampler.py`, `polymorph_response`, `PolyScaleComposite`, `PolyFixedVariableComposite`,
`TruncateComposite`); tied to the code by `harness/props/c07.py` through `enumdriver` on every run.

Child samplers are parameters: a theorem about a composite assumes of its child exactly what the
corresponding theorem proves of the composite (every returned row carries the energy of the problem the
child was given), so the statements compose along any stack.  The stochastic samplers (`DimodModel/Anneal.lean`) are
state machines over an explicit stream of random draws — the pseudo-random generator is the only contract — and
their theorems hold for every stream; on every run the real samplers are executed with the generator replaced by
recorded draws and the model is fed the same draws. -/

namespace C07
open Enum

/-- `_graycode` for `n` variables returns `2^n` rows, no row twice, and a row is returned iff it is a
    0/1 vector of length `n`: the whole search space, every assignment exactly once. -/
theorem graycode_enumerates (n : Nat) :
    (graycode n).length = 2 ^ n ∧ (graycode n).Nodup ∧
    ∀ row : List Nat, row ∈ graycode n ↔ (row.length = n ∧ ∀ b ∈ row, b ≤ 1) :=
  ⟨graycode_length n, graycode_nodup n,
   fun row => ⟨graycode_sound n row, fun h => graycode_complete n row h.1 h.2⟩⟩

/-- `_all_cases_dqm` (the meshgrid expression) returns each vector of cases exactly once -/
theorem product_enumerates_dqm (numCases : List Nat) :
    (allCasesDqm numCases).Nodup ∧
    ∀ row : List Nat, row ∈ allCasesDqm numCases ↔ List.Forall₂ (fun c k => c < k) row numCases :=
  ⟨nodup_allCasesDqm numCases, mem_allCasesDqm numCases⟩

/-- the meshgrid expression over arbitrary duplicate-free domains: every assignment exactly once -/
theorem product_enumerates (doms : List (List Int)) (h : ∀ d ∈ doms, d.Nodup) :
    (meshRows doms).Nodup ∧ ∀ row, row ∈ meshRows doms ↔ IsAssignment row doms :=
  ⟨nodup_meshRows doms h, mem_meshRows doms⟩

/-- `_all_cases_cqm`: a row is returned iff it is, for every constraint marked discrete, a one-hot block
    (in constraint order) followed by one in-domain value for each remaining variable; and no row is
    returned twice.  (The model has at least one variable — the solver returns early otherwise — and no
    domain is empty: `ceil(lb) ≤ floor(ub)` is enforced when an INTEGER variable is created.) -/
theorem product_enumerates_cqm (dsizes : List Nat) (doms : List (List Int))
    (hvars : ¬ (dsizes = [] ∧ doms = [])) (hne : ∀ d ∈ doms, d ≠ []) (hnd : ∀ d ∈ doms, d.Nodup) :
    (allCasesCqm dsizes doms).Nodup ∧
    ∀ row, row ∈ allCasesCqm dsizes doms ↔
      ∃ hs r, IsAssignment hs (dsizes.map oneHot) ∧ IsAssignment r doms ∧ row = hs.flatten ++ r :=
  ⟨nodup_allCasesCqm dsizes doms hnd, fun row => mem_allCasesCqm dsizes doms row hvars hne⟩

/-- the blocks of a discrete constraint are exactly the one-hot vectors: one entry 1, the others 0 -/
theorem discrete_one_hot (d : Nat) (v : List Int) (h : v ∈ oneHot d) :
    v.length = d ∧ v.sum = 1 ∧ ∀ b ∈ v, b = 0 ∨ b = 1 := by
  obtain ⟨i, hi, rfl⟩ := (mem_oneHot d v).mp h
  exact ⟨hotVec_length d i, hotVec_sum d i hi, hotVec_entries d i⟩

/-- `_iterator_by_vartype` (INTEGER, repaired): exactly the integers within the bounds, each once -/
theorem integer_domain (lb ub : Rat) :
    (intDomain lb ub).Nodup ∧ ∀ z : Int, z ∈ intDomain lb ub ↔ (lb ≤ (z : Rat) ∧ (z : Rat) ≤ ub) :=
  ⟨nodup_intDomain lb ub, mem_intDomain lb ub⟩

/-- the lowest row of an exact enumeration is a global optimum: whatever the energy function, a returned
    row that is lowest among the returned rows is lowest among all assignments -/
theorem lowest_is_global_min (n : Nat) (E : List Nat → Rat) (best : List Nat) (hb : best ∈ graycode n)
    (hlow : ∀ r ∈ graycode n, E best ≤ E r) :
    ∀ x : List Nat, x.length = n → (∀ b ∈ x, b ≤ 1) → E best ≤ E x :=
  fun x hl hx => hlow x (graycode_complete n x hl hx)

/-- the same for the CQM product, restricted to feasible rows -/
theorem lowest_feasible_is_global_min (dsizes : List Nat) (doms : List (List Int))
    (hvars : ¬ (dsizes = [] ∧ doms = [])) (hne : ∀ d ∈ doms, d ≠ [])
    (E : List Int → Rat) (feas : List Int → Prop) (best : List Int)
    (hlow : ∀ r ∈ allCasesCqm dsizes doms, feas r → E best ≤ E r) :
    ∀ hs r, IsAssignment hs (dsizes.map oneHot) → IsAssignment r doms → feas (hs.flatten ++ r) →
      E best ≤ E (hs.flatten ++ r) :=
  fun hs r h1 h2 hf => hlow _ ((mem_allCasesCqm dsizes doms _ hvars hne).mpr ⟨hs, r, h1, h2, rfl⟩) hf

/-- a sampler class implementing only one of `sample` / `sample_ising` / `sample_qubo`: the rows that the
    inherited `sample(bqm)` returns carry the energy of the submitted `bqm`, offset included -/
theorem mixin_energy_offset (impl : Impl) (child : Bqm → List Row) (hc : ChildOK child) (m : Bqm) :
    ∀ r ∈ mixinSample impl child m, r.energy = m.energy r.val :=
  Enum.mixin_energy_offset impl child hc m

/-- … and `sample_ising(h, J)` / `sample_qubo(Q)` the energy of the Ising / QUBO problem -/
theorem mixin_energy_ising (impl : Impl) (child : Bqm → List Row) (hc : ChildOK child)
    (h : List (Label × Rat)) (J : List (Label × Label × Rat)) :
    ∀ r ∈ mixinIsing impl child h J, r.energy = linE r.val h + quadE r.val J :=
  mixinIsing_energy impl child hc h J

theorem mixin_energy_qubo (impl : Impl) (child : Bqm → List Row) (hc : ChildOK child)
    (lin : List (Label × Rat)) (quad : List (Label × Label × Rat)) :
    ∀ r ∈ mixinQubo impl child lin quad, r.energy = linE r.val lin + quadE r.val quad :=
  mixinQubo_energy impl child hc lin quad

/-- `polymorph_response`: each returned row is a row of the child response; under every returned label
    (all of them with `keep_penalty_variables`, the polynomial's otherwise) it holds the value the child's
    row holds under that label; `discard_unsatisfied` keeps only rows with `product = u·v` -/
theorem polymorph_columns (keep discard : Bool) (respVars polyVars : List Label) (reds : List Red) (p : Poly)
    (rows : List (List Rat)) :
    let out := polymorph none keep discard respVars polyVars reds p rows
    ∀ o ∈ out.2, ∃ vals ∈ rows,
      (discard = true → penaltyOK reds (Row.mk (respVars.zip vals) 0) = true) ∧
      (∀ l, (keep = true ∨ l ∈ polyVars) →
        (Row.mk (out.1.zip o.1) 0).val l = (Row.mk (respVars.zip vals) 0).val l) := by
  intro out o ho
  obtain ⟨vals, hv, _, h2, h3⟩ := polymorph_spec keep discard respVars polyVars reds p rows o ho
  exact ⟨vals, hv, h2, h3⟩

/-- … and its energy is the submitted polynomial's energy of the returned row read by its own labels -/
theorem polymorph_energy (keep discard : Bool) (respVars polyVars : List Label) (reds : List Red) (p : Poly)
    (rows : List (List Rat)) (hp : ∀ t ∈ p, ∀ l ∈ t.1, l ∈ polyVars) :
    let out := polymorph none keep discard respVars polyVars reds p rows
    ∀ o ∈ out.2, o.2.1 = polyEnergy (Row.mk (out.1.zip o.1) 0).val p :=
  polymorph_energy_own_labels keep discard respVars polyVars reds p rows hp

/-- `PolyScaleComposite` with an explicit non-zero scalar: child energies (of the scaled polynomial)
    divided by the scalar are energies of the submitted polynomial; with ignored terms they are recomputed -/
theorem polyscale_energy (child : Poly → List Row) (p : Poly) (s : Rat) (hs : s ≠ 0) (ign : List (List Label))
    (hchild : ∀ q, ∀ r ∈ child q, r.energy = polyEnergy r.val q) :
    ∀ r ∈ polyScaleSample child p s ign, r.energy = polyEnergy r.val p := by
  cases ign with
  | nil => exact Enum.polyscale_energy child p s hs hchild
  | cons a t => exact polyscale_energy_ignored child p s (a :: t) (by simp)

/-- `PolyFixedVariableComposite` (repaired `fix_variables`): the returned rows — the child's rows with
    the fixed values appended as columns — carry the energy of the submitted polynomial, and the fixed
    values sit under their own labels.  Terms are sets (`Nodup`), the polynomial is a dict (one constant). -/
theorem polyfixed_energy (child : Poly → List Row) (p : Poly) (fixed : List (Label × Rat))
    (hp : ∀ t ∈ p, t.1.Nodup) (hc : OneConst p)
    (hchild : ∀ q, ∀ r ∈ child q, r.energy = polyEnergy r.val q)
    (hdisj : ∀ q, ∀ r ∈ child q, ∀ f ∈ fixed, r.x.find? (fun e => e.1 = f.1) = none) :
    ∀ r ∈ polyFixedSample true child p fixed,
      r.energy = polyEnergy r.val p ∧ ∀ l e, fixed.find? (fun p => p.1 = l) = some e → r.val l = e.2 :=
  fun r hr => ⟨Enum.polyfixed_energy child p fixed hp hc hchild hdisj r hr,
               polyfixed_columns child p fixed hdisj r hr⟩

/-- the polynomial `fix_variables` hands to the child, at any assignment of the free variables, has the
    energy of the submitted polynomial with the fixed values filled in -/
theorem poly_fix_eval (p : Poly) (fixed : List (Label × Rat)) (x : Label → Rat)
    (hp : ∀ t ∈ p, t.1.Nodup) (hc : OneConst p) :
    polyEnergy x (fixVariables true p fixed) = polyEnergy (override x fixed) p :=
  fixVariables_energy p fixed x hp hc

/-- `expand_initial_state` (HigherOrderComposite with `initial_state=`): with the reductions listed in the
    order they were made (factors known, product / auxiliary labels new), the given values are kept and
    every product variable ends up as the product of its factors — the expanded state satisfies every
    penalty `p = u·v` -/
theorem expand_initial_state_products (reds : List RedX) (st : List (Label × Rat)) (known : List Label) (hf : Fresh reds known) :
    (∀ l ∈ known, stVal (expandInitialState reds st) l = stVal st l) ∧
    ∀ d ∈ reds, stVal (expandInitialState reds st) d.p =
      stVal (expandInitialState reds st) d.u * stVal (expandInitialState reds st) d.v :=
  expandInitialState_spec reds st known hf

/-- … and the auxiliary spin a SPIN reduction writes is ±1 and minimises its penalty term `en·aux` -/
theorem expand_initial_state_aux (st : List (Label × Rat)) (d : RedX) (known : List Label)
    (hu : d.u ∈ known) (hv : d.v ∈ known) (hp : d.p ∉ known) (a : Label) (cu cv cp : Rat)
    (haux : d.aux = some (a, cu, cv, cp)) (hak : a ∉ known) (hap : a ≠ d.p) :
    let s := expandStep st d
    let en := stVal s d.u * cu + stVal s d.v * cv + stVal s d.p * cp
    (stVal s a = 1 ∨ stVal s a = -1) ∧ en * stVal s a ≤ en * (- stVal s a) :=
  expandStep_aux_minimises st d known hu hv hp a cu cv cp haux hak hap

/-- Truncate / PolyTruncate with `sorted_by=None`: the returned rows are a sub-list of the child's rows
    (energies and labels untouched) -/
theorem truncate_rows_subset (n : Nat) (rows : List Row) : (truncateRows n rows).Sublist rows :=
  truncateRows_sublist n rows

/-! ## result assembly and row post-processing of the non-exact samplers and composites -/

/-- **columns by label** (`as_samples` / `parse_initial_states`, every permutation): a sample given under labels
    in any order — any permutation of the first sample's labels, with or without extra labels — is re-indexed so
    that under every label of the sample set stands the value the sample gave *that* label -/
theorem columns_carry_their_label (first labels : List Label) (row : List Rat) (v : Label) (hv : v ∈ first) :
    labelled first (reindexRow first labels row) v = labelled labels row v :=
  reindex_columns first labels row v hv

/-- IdentitySampler / RandomSampler (`parse_initial_states`: vartype conversion, `none` / `tile` / `random`
    generator, truncation to `num_reads`, `from_samples_bqm`): every returned row carries the energy of the
    submitted bqm at the row read by its labels (states and PRNG rows have one value per label) -/
theorem identity_rows_energy (m : Bqm) (labels : List Label) (rows : List (List Rat)) (sp : Option Bool) (g : Generator)
    (nr : Option Nat) (fresh : List (List Rat)) (out : List Row)
    (h : parseInitialStates m labels rows sp g nr fresh = .ok out) (hlab : ∀ l ∈ m.labels, l ∈ labels)
    (hrows : ∀ r ∈ rows, r.length = labels.length) (hfresh : ∀ r ∈ fresh, r.length = labels.length) :
    ∀ ro ∈ out, ro.energy = m.energy ro.val :=
  pis_energy m labels rows sp g nr fresh out h hlab hrows hfresh

/-- the `tile` generator: exactly `num_reads` rows, read `i` is the given state `i mod m` -/
theorem tile_generator (rows : List (List Rat)) (n : Nat) :
    (tileRows rows n).length = n ∧ ∀ i (hi : i < n), (tileRows rows n)[i]'(by simp [tileRows]; exact hi) = rows.getD (i % rows.length) [] :=
  tileRows_spec rows n

/-- SimulatedAnnealingSampler's result assembly (`to_ising`, Ising energies of the final spins,
    `change_vartype(bqm.vartype, offset)`): whatever spins the annealer ends in, the returned rows carry the
    energy of the submitted bqm -/
theorem sa_rows_energy (m : Bqm) (spins : List (List (Label × Rat)))
    (hcov : ∀ x ∈ spins, (Row.mk x 0).Covers ({ m.toSpin with off := 0 } : Bqm).labels) :
    ∀ r ∈ saAssemble m spins, r.energy = m.energy r.val :=
  sa_energy m spins hcov

/-- `SampleSet.aggregate`: distinct sample rows, each once; the total number of occurrences is kept; a sample
    row is present afterwards iff it was before; sample and energy of an aggregated row are those of an original row -/
theorem aggregate_rows (rows : List ORow) :
    ((aggregate rows).map (·.vals)).Nodup ∧ occSum (aggregate rows) = occSum rows ∧
    (∀ v, v ∈ (aggregate rows).map (·.vals) ↔ v ∈ rows.map (·.vals)) ∧
    ∀ a ∈ aggregate rows, ∃ r ∈ rows, r.vals = a.vals ∧ r.energy = a.energy :=
  ⟨(aggregate_spec rows).1, (aggregate_spec rows).2.1, (aggregate_spec rows).2.2, aggregate_rows_from rows⟩

/-- TruncateComposite / PolyTruncateComposite (`n`, `sorted_by`, `aggregate`): `min(n, len)` rows, a sub-list of a
    permutation of the (aggregated) child rows; with `sorted_by='energy'` no dropped row has a lower energy than a
    kept one; every returned row has the sample and energy of a child row -/
theorem truncate_composite (n : Nat) (b agg : Bool) (rows : List ORow) :
    (∃ l', l'.Perm (if agg then aggregate rows else rows) ∧ (truncateComposite n b agg rows).Sublist l' ∧
      (b = true → ∀ k ∈ truncateComposite n b agg rows, ∀ d ∈ l'.drop n, k.energy ≤ d.energy)) ∧
    (truncateComposite n b agg rows).length = min n (if agg then aggregate rows else rows).length ∧
    ∀ k ∈ truncateComposite n b agg rows, ∃ r ∈ rows, r.vals = k.vals ∧ r.energy = k.energy :=
  ⟨(truncate_spec n b _).1, (truncate_spec n b _).2, truncateComposite_rows n b agg rows⟩

/-- StructureComposite (`bqm_structured`): accepted iff every variable is a node and every interaction an edge
    (either orientation); an accepted bqm goes to the child unchanged and the child's rows come back unchanged -/
theorem structure_composite (child : Bqm → List Row) (nodes : List Label) (edges : List (Label × Label)) (m : Bqm) :
    (structureOK nodes edges m = true ↔
      (∀ p ∈ m.lin, p.1 ∈ nodes) ∧
      (∀ t ∈ m.quad, t.1 ∈ nodes ∧ t.2.1 ∈ nodes ∧ ∃ e ∈ edges, (e.1 = t.1 ∧ e.2 = t.2.1) ∨ (e.1 = t.2.1 ∧ e.2 = t.1))) ∧
    (structureOK nodes edges m = true → structureSample child nodes edges m = .ok (child m)) ∧
    (structureOK nodes edges m = false → structureSample child nodes edges m = .error ()) :=
  ⟨structureOK_iff nodes edges m, (structureSample_spec child nodes edges m).1, (structureSample_spec child nodes edges m).2⟩

/-- TrackingComposite: the answer is the child's; the log gains exactly this input and output -/
theorem tracking_composite (child : Bqm → List Row) (log : List (Bqm × List Row)) (m : Bqm) :
    (trackingSample child log m).1 = child m ∧ (trackingSample child log m).2 = log ++ [(m, child m)] :=
  trackingSample_spec child log m

/-! ## the stochastic samplers, for every stream of random draws -/

/-- **one annealing run** (`ising_simulated_annealing`: β schedule, greedy colouring, random initial guess, per sweep
    `energy_diff_h`, per colour class `energy_diff_J` and the acceptance test, as coded): whatever the draws and
    whatever the options, if it returns, the final spins are over exactly the keys of `h`, in order, each −1 or +1 -/
theorem sa_run_spins (h : List (Label × Rat)) (J : List (Label × Label × Rat)) (br : Option (Rat × Rat)) (ns : Int) (np : Bool)
    (d : Draws) (sp : List (Label × Rat)) (hr : isingSA h J br ns np d = .ok sp) :
    sp.map (·.1) = h.map (·.1) ∧ ∀ p ∈ sp, p.2 = 1 ∨ p.2 = -1 :=
  isingSA_spec h J br ns np d sp hr

/-- **the annealer's bookkeeping equals recomputation**: the energy difference the acceptance test uses for a variable,
    `energy_diff_h[v] + energy_diff_J[v]` as coded (own bias times spin; over the adjacency *set* of `v`, both
    orientations of the dict key looked up), is exactly the change of `ising_energy(spins, h, J)` when the spin of `v`
    is flipped and every other spin is kept — for `h` a dict (distinct keys) and `J` as `to_ising()` delivers it (no
    self-loops, every unordered pair at most once), whatever the spins -/
theorem sa_delta_is_energy_change (h : List (Label × Rat)) (J : List (Label × Label × Rat)) (spins : List (Label × Rat)) (v : Label)
    (hh : (h.map (·.1)).Nodup) (hJ : SimpleJ J) :
    diffH h spins v + diffJ J spins v = isingE h J (flipSpin (dictGet spins) v) - isingE h J (dictGet spins) :=
  delta_is_energy_change h J spins v hh hJ

/-- **greedy_coloring, as coded** (first variable with the fewest remaining colours, its smallest colour, that colour
    struck from its uncoloured neighbours): the loop never gets stuck, every variable ends up in exactly one colour
    class, and two variables of one class are never adjacent — so within a class the energy differences computed before
    the flips stay valid while the class is processed, and a variable is visited exactly once per sweep -/
theorem greedy_coloring_total_and_proper (h : List (Label × Rat)) (J : List (Label × Label × Rat))
    (hh : (h.map (·.1)).Nodup) (hJ : ∀ t ∈ J, t.1 ≠ t.2.1) :
    ((colouring (colorClasses h J)).map (·.1)).Perm (h.map (·.1)) ∧
    (∀ c ∈ colorClasses h J, ∀ u ∈ c.2, ∀ w ∈ c.2, w ∉ nbrs J u) ∧
    (∀ v w, w ∈ nbrs J v ↔ v ∈ nbrs J w) :=
  ⟨colorClasses_total h J hh hJ, colorClasses_proper h J hh hJ, fun v w => nbrs_symm J v w⟩

/-- **inside a sweep the acceptance test uses the true energy change**: when the colour class of `v` is reached (state
    `sp`: the earlier classes of `greedy_coloring` processed from the sweep's initial state `sp0`, whatever the draws and β),
    `energy_diff_h[v]` — computed once at the start of the sweep — plus `energy_diff_J[v]` — computed from `sp` — is exactly
    `ising_energy(sp with v flipped) − ising_energy(sp)`: the spin of `v` has not been touched yet because `v` lies in no
    earlier class -/
theorem sa_sweep_test_is_true_delta (h : List (Label × Rat)) (J : List (Label × Label × Rat)) (hh : (h.map (·.1)).Nodup)
    (hJ : SimpleJ J) (pre post : List (Nat × List Label)) (c : Nat × List Label)
    (hc : colorClasses h J = pre ++ c :: post) (beta : Option Rat) (draw : Label → Rat) (sp0 : List (Label × Rat))
    (v : Label) (hv : v ∈ c.2) :
    let sp := pre.foldl (fun sp c => classStep J beta (diffH h sp0) draw sp c.2) sp0
    diffH h sp0 v + diffJ J sp v = isingE h J (flipSpin (dictGet sp) v) - isingE h J (dictGet sp) :=
  sweep_test_is_true_delta h J hh hJ pre post c hc beta draw sp0 v hv

/-- **SimulatedAnnealingSampler.sample**, whatever the draws: one row per read; every row is over exactly the
    problem's variables, every value lies in the domain of the problem's vartype, and the reported energy is the
    submitted problem's energy of that row (`h, J` = the Ising form `bqm.to_ising()` hands to the annealer: it has an
    entry for every label of the problem) -/
theorem sa_sampler_rows (m : Bqm) (h : List (Label × Rat)) (J : List (Label × Label × Rat)) (br : Option (Rat × Rat)) (ns : Int)
    (np : Bool) (reads : List Draws) (out : List Row) (hs : saSample m h J br ns np reads = .ok out)
    (hkeys : ∀ l ∈ ({ m.toSpin with off := 0 } : Bqm).labels, l ∈ h.map (·.1)) :
    out.length = reads.length ∧
    ∀ r ∈ out, r.energy = m.energy r.val ∧ r.x.map (·.1) = h.map (·.1) ∧ ∀ p ∈ r.x, InVartype m.spin p.2 :=
  saSample_rows m h J br ns np reads out hs hkeys

/-- … and what it refuses: no reads, a non-positive β or number of sweeps (`ValueError`); a single sweep divides by
    zero in the schedule — an exception for Python floats, a `nan` β (no flip at all) for NumPy scalars -/
theorem sa_sampler_refusals (m : Bqm) (h : List (Label × Rat)) (J : List (Label × Label × Rat)) (br : Option (Rat × Rat)) (ns : Int) (np : Bool) :
    saSample m h J br ns np [] = .error .value ∧
    (∀ b0 b1 f, ns ≤ 0 → betaSchedule b0 b1 ns f = .error .value) ∧
    (∀ b0 b1, betaSchedule b0 b1 1 false = .error .zerodiv ∧ betaSchedule b0 b1 1 true = .ok [none]) ∧
    (∀ a b, (a ≤ 0 ∨ b ≤ 0) → betaEnds h J (some (a, b)) = .error .value) :=
  saSample_refuses m h J br ns np

/-- **RandomSampler.sample**, whatever the PRNG delivers (`np_rand.choice(values, size=(num_reads, n))` as an index
    stream): `num_reads` rows, each over exactly the problem's variables in their order, each value in the domain of
    the problem's vartype, each energy the submitted problem's energy of that row; `num_reads < 1` is refused -/
theorem random_sampler_rows (m : Bqm) (labels : List Label) (nr : Nat) (σ : Nat → Rat) (hlab : ∀ l ∈ m.labels, l ∈ labels) :
    (nr < 1 → randomSample m labels nr σ = .error ()) ∧
    ∀ out, randomSample m labels nr σ = .ok out →
      out.length = nr ∧
      ∀ ro ∈ out, ro.energy = m.energy ro.val ∧ ro.x.map (·.1) = labels ∧ ∀ p ∈ ro.x, InVartype m.spin p.2 :=
  randomSample_spec m labels nr σ hlab

/-- **sample_hising / sample_hubo** (`PolySampler`): the rows carry the energy of the polynomial built from the
    arguments — `Σ h_v·x_v + Σ_J b·Π x` when no term of `J` is a single variable of `h`; **NullSampler** returns no rows -/
theorem hising_hubo_null (child : Poly → List Row) (hchild : ∀ q, ∀ r ∈ child q, r.energy = polyEnergy r.val q)
    (h : List (Label × Rat)) (J H : Poly) (m : Bqm) :
    (∀ r ∈ sampleHising child h J, r.energy = polyEnergy r.val (fromHising h J)) ∧
    (∀ r ∈ sampleHubo child H, r.energy = polyEnergy r.val H) ∧
    ((∀ p ∈ h, ∀ t ∈ J, t.1 ≠ [p.1]) → ∀ x, polyEnergy x (fromHising h J) = linE x h + polyEnergy x J) ∧
    nullSample m = [] :=
  ⟨(hising_hubo_energy child hchild h J H).1, (hising_hubo_energy child hchild h J H).2.1,
   (hising_hubo_energy child hchild h J H).2.2, rfl⟩

/-- D1-style slip (inverse permutation in the re-indexing): values end up under the wrong labels -/
theorem d1_witness :
    labelled [.str "a", .str "b", .str "c"] (reindexRowInverse [.str "a", .str "b", .str "c"] [.str "b", .str "c", .str "a"] [1, 2, 3]) (.str "a") = 2 ∧
    labelled [.str "b", .str "c", .str "a"] [1, 2, 3] (.str "a") = 3 :=
  reindex_inverse_wrong

/-! ## the defects the faithful (unrepaired) models exhibit — witnesses -/

/-- D5: before the repair the constant term is counted twice -/
theorem d5_witness :
    polyEnergy (fun _ => 0) (fixVariables false [([], 5), ([.str "a"], 1)] [(.str "a", 1)]) = 11 ∧
    polyEnergy (override (fun _ => 0) [(.str "a", 1)]) [([], 5), ([.str "a"], 1)] = 6 :=
  fixVariables_unrepaired_wrong

/-- D19: `range(int(lb), int(ub + 1))` leaves the domain for a fractional lower bound -/
theorem d19_witness : (0 : Int) ∈ intDomainTrunc (1/2) 3 ∧ ¬ ((1/2 : Rat) ≤ ((0 : Int) : Rat)) :=
  intDomainTrunc_wrong

/-! ## non-vacuity -/

example : graycode 2 = [[0, 0], [1, 0], [1, 1], [0, 1]] := by decide +kernel
example : allCasesDqm [2, 3] = [[0, 0], [0, 1], [0, 2], [1, 0], [1, 1], [1, 2]] := by decide +kernel
example : allCasesCqm [2] [[5, 6]] = [[1, 0, 5], [1, 0, 6], [0, 1, 5], [0, 1, 6]] := by decide +kernel
/-- discrete constraints of different sizes: blocks of 2 and 3 columns -/
example : allCasesCqm [2, 3] [] = [[1, 0, 1, 0, 0], [1, 0, 0, 1, 0], [1, 0, 0, 0, 1], [0, 1, 1, 0, 0], [0, 1, 0, 1, 0], [0, 1, 0, 0, 1]] := by decide +kernel
example : intDomain (1/2) 3 = [1, 2, 3] := by decide +kernel
example : expandInitialState [⟨.str "a", .str "b", .str "p", some (.str "x", 2, 2, 2)⟩] [(.str "a", 1), (.str "b", -1)]
    = [(.str "a", 1), (.str "b", -1), (.str "p", -1), (.str "x", 1)] := by decide +kernel
example : OneConst [([], 5), ([.str "a"], 1)] := by unfold OneConst; decide +kernel
/-- an annealing run over explicit draws: two coupled spins, both start at −1 (index draws 0), the acceptance draw
    `log p = −1/2` flips `a` in the first sweep (`Δh + ΔJ = −6`, threshold `−β·Δ = 3`) and nothing afterwards -/
example : isingSA [(.str "a", -1), (.str "b", 0)] [(.str "a", .str "b", 2)] (some (1/2, 1)) 2 false
    ⟨fun _ => 0, fun _ _ => -1/2⟩ = .ok [(.str "a", 1), (.str "b", -1)] := by decide +kernel
example : colorClasses [(.str "a", 0), (.str "b", 0), (.str "c", 0)] [(.str "a", .str "b", 1), (.str "b", .str "c", 1)]
    = [(0, [.str "a", .str "c"]), (1, [.str "b"])] := by decide +kernel
example : randomRows false 2 2 (fun i => if i = 1 then 1 else 0) = [[0, 1], [0, 0]] := by decide +kernel

/-! ## round 7: the remaining branches of the polynomial composites (`DimodModel/EnumComposite.lean`) -/

/-- **PolyScaleComposite with `scalar=None`** (`BinaryPolynomial.normalize` with `bias_range` / `poly_range` as numbers or
    pairs and `ignored_terms`, recovery of the scalar from the first non-zero non-ignored term, division or recomputation
    of the energies — all as coded), for every child whose rows carry the energy of the polynomial it was given and
    every polynomial (a dict: distinct keys): the call is refused (`ZeroDivisionError`) exactly when a range end is 0;
    otherwise the child was given a polynomial with the same terms (keys), its rows come back with their columns
    untouched, and every returned row carries the energy of the SUBMITTED polynomial. -/
theorem polyscale_normalize (child : Poly → List Row) (p : Poly) (hk : (p.map (·.1)).Nodup)
    (hchild : ∀ q, ∀ r ∈ child q, r.energy = polyEnergy r.val q)
    (br : RangeArg) (pr : Option RangeArg) (ign : List (List Label)) :
    (polyNormalizeSample child p br pr ign = none ↔
      ((rangeEnds br pr).1.1 = 0 ∨ (rangeEnds br pr).1.2 = 0 ∨ (rangeEnds br pr).2.1 = 0 ∨ (rangeEnds br pr).2.2 = 0)) ∧
    ∀ out, polyNormalizeSample child p br pr ign = some out →
      (∃ scaled, scaled.map (·.1) = p.map (·.1) ∧ out.map (·.x) = (child scaled).map (·.x)) ∧
      ∀ r ∈ out, r.energy = polyEnergy r.val p := by
  refine ⟨(polyNormalizeSample_none_iff child p br pr ign).trans (polyNormalize_none_iff br pr ign p), fun out h => ⟨?_, ?_⟩⟩
  · obtain ⟨scaled, h1, h2⟩ := polyNormalizeSample_columns child p br pr ign out h
    exact ⟨scaled, polyNormalize_keys br pr ign p scaled h1, h2⟩
  · exact polyNormalizeSample_energy child p hk hchild br pr ign out h

/-- **PolyScaleComposite.sample_poly, both ways in** (`scalar` given and non-zero, or `None` → normalisation): every
    returned row carries the energy of the submitted polynomial -/
theorem polyscale_composite (child : Poly → List Row) (p : Poly) (hk : (p.map (·.1)).Nodup)
    (hchild : ∀ q, ∀ r ∈ child q, r.energy = polyEnergy r.val q)
    (scalar : Option Rat) (hs : scalar ≠ some 0) (br : RangeArg) (pr : Option RangeArg) (ign : List (List Label)) (out : List Row)
    (h : polyScaleComposite child p scalar br pr ign = some out) : ∀ r ∈ out, r.energy = polyEnergy r.val p := by
  cases scalar with
  | none => exact polyNormalizeSample_energy child p hk hchild br pr ign out h
  | some s =>
    have hs0 : s ≠ 0 := fun e => hs (by rw [e])
    simp only [polyScaleComposite, Option.some.injEq] at h
    subst h
    exact polyscale_energy child p s hs0 ign hchild

/-- **PolyFixedVariableComposite.sample_poly, every branch as coded** (`fixed_variables=None`; a non-empty child answer →
    `append_variables`; an empty answer with no free variable left → the one row `from_samples_bqm(fixed, poly)`; an empty
    answer otherwise → no rows): every returned row carries the energy of the submitted polynomial and holds every fixed
    value under its own label.  Terms are sets, the polynomial is a dict (one constant term), the child does not return a
    fixed variable (it is not in the polynomial the child gets). -/
theorem polyfixed_composite (child : Poly → List Row) (p : Poly) (fixed : Option (List (Label × Rat)))
    (hp : ∀ t ∈ p, t.1.Nodup) (hc : OneConst p)
    (hchild : ∀ q, ∀ r ∈ child q, r.energy = polyEnergy r.val q)
    (hdisj : ∀ fx, fixed = some fx → ∀ q, ∀ r ∈ child q, ∀ f ∈ fx, r.x.find? (fun e => e.1 = f.1) = none) :
    ∀ r ∈ polyFixedFull child p fixed,
      r.energy = polyEnergy r.val p ∧
      ∀ fx, fixed = some fx → ∀ l e, fx.find? (fun p => p.1 = l) = some e → r.val l = e.2 :=
  polyFixedFull_spec child p fixed hp hc hchild hdisj

/-- … and the number of rows of each branch: the child's rows, one for one; for an empty child answer one row iff
    something is fixed and no variable is left, none otherwise -/
theorem polyfixed_composite_rows (child : Poly → List Row) (p : Poly) (fx : List (Label × Rat)) :
    (polyFixedFull child p none = child p) ∧
    ((child (fixVariables true p fx)).length ≠ 0 →
      (polyFixedFull child p (some fx)).length = (child (fixVariables true p fx)).length) ∧
    ((child (fixVariables true p fx)).length = 0 →
      (polyFixedFull child p (some fx)).length = if !fx.isEmpty && polyNoVars (fixVariables true p fx) then 1 else 0) :=
  polyFixedFull_length child p fx

/-- `TruncateComposite(child, n)` / `PolyTruncateComposite(child, n)`: `n < 1` is refused, otherwise `sample` is
    `truncateComposite` (theorem `truncate_composite`) -/
theorem truncate_init (n : Int) (b agg : Bool) (rows : List ORow) :
    (n < 1 → truncateInit n b agg rows = .error ()) ∧
    (1 ≤ n → truncateInit n b agg rows = .ok (truncateComposite n.toNat b agg rows)) :=
  truncateInit_spec n b agg rows

/-! ### non-vacuity of the round-7 statements -/

example : ∀ q, ∀ r ∈ demoChild q, r.energy = polyEnergy r.val q := by
  intro q r hr; simp only [demoChild, List.mem_singleton] at hr; subst hr; rfl
example : (([([.str "a"], 4), ([.str "a", .str "b"], -2), ([], 3)] : Poly).map (·.1)).Nodup := by decide +kernel
/-- normalisation to `bias_range = 1`: `inv_scalar = 4`, the child sees `a - b·a/2 + 3/4` (energy 9/4), the composite
    reports 9 = 4 + 2 + 3 -/
example : (polyNormalizeSample demoChild [([.str "a"], 4), ([.str "a", .str "b"], -2), ([], 3)] (.num 1) none []).map
      (·.map fun r => (r.x, r.energy)) = some [([(.str "a", 1), (.str "b", -1)], 9)] := by decide +kernel
/-- separate ranges: linear 4/2 = 2, higher-order |-2|/(1/2) = 4 → `inv_scalar = 4` -/
example : polyNormalize (.num 2) (some (.pair (-1/2) 1)) [] [([.str "a"], 4), ([.str "a", .str "b"], -2)]
    = some [([.str "a"], 1), ([.str "a", .str "b"], -1/2)] := by decide +kernel
example : (polyNormalizeSample demoChild [([.str "a"], 4)] (.num 0) none []).isNone = true := by decide +kernel
/-- everything fixed and a child without rows: the one row of the fixed values, with the polynomial's energy -/
example : (polyFixedFull (fun _ => []) [([.str "a"], 4), ([.str "a", .str "b"], -2), ([], 3)] (some [(.str "a", 1), (.str "b", -1)])).map
      (fun r => (r.x, r.energy)) = [([(.str "a", 1), (.str "b", -1)], 9)] := by decide +kernel
example : (polyFixedFull (fun _ => []) [([.str "a"], 4), ([.str "a", .str "b"], -2)] (some [(.str "a", 1)])).length = 0 := by decide +kernel
example : (match truncateInit 0 true false [] with | .error _ => true | .ok _ => false) = true := by decide +kernel

/-! ## round 7: the simultaneous flips of one colour class add up -/

/-- **one colour class, one energy equation** (closes the gap left after `greedy_coloring_total_and_proper` and
    `sa_sweep_test_is_true_delta`): in any sweep, whatever the draws and β, when the colour class `c` is processed from
    the state `sp` reached after the earlier classes, `ising_energy` after the class minus `ising_energy` before it is the
    sum, over the variables flipped in that class, of exactly the differences `energy_diff_h[v] + energy_diff_J[v]` the
    acceptance test compared with their draws; the flipped variables are distinct members of the class that passed the
    test.  (`h` a dict, `J` as `to_ising()` delivers it, the spins a dict.) -/
theorem sa_class_flips_add_up (h : List (Label × Rat)) (J : List (Label × Label × Rat)) (hh : (h.map (·.1)).Nodup)
    (hJ : SimpleJ J) (pre post : List (Nat × List Label)) (c : Nat × List Label)
    (hc : colorClasses h J = pre ++ c :: post) (beta : Option Rat) (draw : Label → Rat) (sp0 : List (Label × Rat))
    (hsp0 : (sp0.map (·.1)).Nodup) :
    let sp := pre.foldl (fun sp c => classStep J beta (diffH h sp0) draw sp c.2) sp0
    let flipped := flippedIn J beta (diffH h sp0) draw sp c.2
    isingE h J (dictGet (classStep J beta (diffH h sp0) draw sp c.2)) - isingE h J (dictGet sp) =
        sumL (flipped.map fun v => diffH h sp0 v + diffJ J sp v) ∧
      flipped.Nodup ∧
      ∀ v ∈ flipped, v ∈ c.2 ∧ accept beta (draw v) (diffH h sp0 v + diffJ J sp v) = true :=
  sweep_class_flips_add_up h J hh hJ pre post c hc beta draw sp0 hsp0

/-- flipping ANY set of pairwise non-adjacent variables changes `ising_energy` by the sum of the one-flip differences -/
theorem nonadjacent_flips_add_up (h : List (Label × Rat)) (J : List (Label × Label × Rat)) (hh : (h.map (·.1)).Nodup)
    (hs : ∀ t ∈ J, t.1 ≠ t.2.1) (s : Label → Rat) (F : List Label) (hF : F.Nodup) (hind : ∀ u ∈ F, ∀ w ∈ F, w ∉ nbrs J u) :
    isingE h J (flipSet s F) - isingE h J s = sumL (F.map fun v => isingE h J (flipSpin s v) - isingE h J s) :=
  flipSet_energy h J hh hs s F hF hind

/-- non-vacuity: the chain a—b—c, class `[a, c]` (see the colouring example above), all spins +1, both flips accepted:
    the energy goes from 4 to −4 and each tested difference is −4 -/
example : SimpleJ [(.str "a", .str "b", 1), (.str "b", .str "c", 1)] := by
  unfold SimpleJ; constructor <;> decide +kernel
example :
    let h : List (Label × Rat) := [(.str "a", 1), (.str "b", 0), (.str "c", 1)]
    let J : List (Label × Label × Rat) := [(.str "a", .str "b", 1), (.str "b", .str "c", 1)]
    let sp0 : List (Label × Rat) := [(.str "a", 1), (.str "b", 1), (.str "c", 1)]
    colorClasses h J = [] ++ (0, [.str "a", .str "c"]) :: [(1, [.str "b"])] ∧
    flippedIn J (some 1) (diffH h sp0) (fun _ => -100) sp0 [.str "a", .str "c"] = [.str "a", .str "c"] ∧
    isingE h J (dictGet (classStep J (some 1) (diffH h sp0) (fun _ => -100) sp0 [.str "a", .str "c"])) - isingE h J (dictGet sp0) = -8 ∧
    diffH h sp0 (.str "a") + diffJ J sp0 (.str "a") = -4 := by decide +kernel

/-! ## round 7: the all-fixed branch of PolyFixedVariableComposite is over the problem's variables -/

/-- `PolyFixedVariableComposite`, child answer empty, `fixed_variables` non-empty, `not poly_copy.variables`: the answer is
    exactly one row, its columns are the fixed variables with their values, its energy is the submitted polynomial's — and
    every variable of the submitted polynomial is among those columns (no variable left ⇒ everything is fixed) -/
theorem polyfixed_all_fixed_row (child : Poly → List Row) (p : Poly) (fx : List (Label × Rat))
    (hempty : (child (fixVariables true p fx)).length = 0) (hfx : fx ≠ [])
    (hno : polyNoVars (fixVariables true p fx) = true) :
    (polyFixedFull child p (some fx)).map (fun r => (r.x, r.energy)) = [(fx, polyEnergy (Row.val ⟨fx, 0⟩) p)] ∧
    ∀ t ∈ p, ∀ l ∈ t.1, l ∈ fx.map (·.1) := by
  refine ⟨?_, noVars_all_fixed p fx hno⟩
  have h1 : ¬ (child (fixVariables true p fx)).length ≠ 0 := by simp [hempty]
  have h2 : (!fx.isEmpty && polyNoVars (fixVariables true p fx)) = true := by
    cases fx with
    | nil => exact absurd rfl hfx
    | cons a t => simpa using hno
  unfold polyFixedFull
  simp only [if_neg h1, h2, if_true, List.map_cons, List.map_nil]
  rfl

example : polyNoVars (fixVariables true [([.str "a"], 4), ([.str "a", .str "b"], -2), ([], 3)] [(.str "a", 1), (.str "b", -1)]) = true := by
  decide +kernel

/-! ## round 7: ExactSolver.sample / ExactPolySolver.sample_poly as coded (`exactRows`) -/

/-- **ExactPolySolver.sample_poly as coded** (`ExactSolver().sample(polynomial)`: empty answer without variables, otherwise the
    `_graycode` rows — `2·x − 1` for SPIN — under `list(polynomial.variables)` with `from_samples_bqm` energies): `2^n` rows, no
    sample twice; every row over exactly the variables in that order, every value in the vartype's domain, the reported energy is
    the submitted polynomial's energy of the row; and every assignment of the variables is returned -/
theorem exact_poly_solver_rows (spin : Bool) (vars : List Label) (p : Poly) :
    (vars = [] → exactPolySolver spin vars p = []) ∧
    (vars ≠ [] → (exactPolySolver spin vars p).length = 2 ^ vars.length) ∧
    ((exactPolySolver spin vars p).map (·.x)).Nodup ∧
    (∀ r ∈ exactPolySolver spin vars p,
      r.x.map (·.1) = vars ∧ (∀ q ∈ r.x, InVartype spin q.2) ∧ r.energy = polyEnergy r.val p) ∧
    (vars ≠ [] → ∀ vals : List Rat, vals.length = vars.length → (∀ v ∈ vals, InVartype spin v) →
      ∃ r ∈ exactPolySolver spin vars p, r.x = vars.zip vals) :=
  exactRows_spec spin vars (fun x => polyEnergy x p)

/-- **ExactSolver.sample as coded**: the same for a binary quadratic model -/
theorem exact_solver_rows (vars : List Label) (m : Bqm) :
    (vars = [] → exactBqmSolver vars m = []) ∧
    (vars ≠ [] → (exactBqmSolver vars m).length = 2 ^ vars.length) ∧
    ((exactBqmSolver vars m).map (·.x)).Nodup ∧
    (∀ r ∈ exactBqmSolver vars m,
      r.x.map (·.1) = vars ∧ (∀ q ∈ r.x, InVartype m.spin q.2) ∧ r.energy = m.energy r.val) ∧
    (vars ≠ [] → ∀ vals : List Rat, vals.length = vars.length → (∀ v ∈ vals, InVartype m.spin v) →
      ∃ r ∈ exactBqmSolver vars m, r.x = vars.zip vals) :=
  exactRows_spec m.spin vars m.energy

example : (exactPolySolver true [.str "a", .str "b"] [([.str "a"], 4), ([.str "a", .str "b"], -2), ([], 3)]).map (fun r => (r.x.map (·.2), r.energy))
    = [([-1, -1], -3), ([1, -1], 9), ([1, 1], 5), ([-1, 1], 1)] := by decide +kernel

/-! ## Round 8: `PolyScaleComposite.sample_poly` total over `scalar` — the refusal of `scalar = 0` is part of the model

`polyscale_composite` above excludes `scalar = 0` by hypothesis (the code of that time divided the energies by zero).
The repository now refuses it (`if not scalar: raise ValueError`, fix cca1a20); `polyScaleCompositeFull` models that
branch as coded (outcome = error) and the statements below have no hypothesis on `scalar`. -/

/-- the refusal branch is taken exactly for `scalar = 0` (an explicit zero; `None` is the normalisation path), for every
    child, polynomial, ranges and ignored terms — in particular also with `ignored_terms`, where the energies would be
    recomputed and the old code was accidentally right -/
theorem polyscale_refuses_iff_scalar_zero (child : Poly → List Row) (p : Poly) (scalar : Option Rat) (br : RangeArg)
    (pr : Option RangeArg) (ign : List (List Label)) :
    polyScaleCompositeFull child p scalar br pr ign = .error .scalarZero ↔ scalar = some 0 := by
  cases scalar with
  | none =>
    simp only [polyScaleCompositeFull]
    cases polyNormalizeSample child p br pr ign <;> simp
  | some s =>
    by_cases h : s = 0 <;> simp [polyScaleCompositeFull, h]

/-- away from `scalar = 0` the total model is the model `polyscale_composite` speaks about -/
theorem polyscale_full_agrees (child : Poly → List Row) (p : Poly) (scalar : Option Rat) (hs : scalar ≠ some 0) (br : RangeArg)
    (pr : Option RangeArg) (ign : List (List Label)) :
    polyScaleCompositeFull child p scalar br pr ign =
      (match polyScaleComposite child p scalar br pr ign with
       | some out => .ok out
       | none => .error .rangeZero) := by
  cases scalar with
  | none =>
    simp only [polyScaleCompositeFull, polyScaleComposite]
    cases polyNormalizeSample child p br pr ign <;> rfl
  | some s =>
    have h : s ≠ 0 := fun e => hs (by rw [e])
    simp [polyScaleCompositeFull, polyScaleComposite, h]

/-- **PolyScaleComposite.sample_poly, total statement**: for every `scalar` (given or `None`), every child whose rows
    carry the energy of the polynomial it was given, every polynomial (a dict: distinct keys), ranges and ignored terms,
    exactly one of three things happens:
    * `scalar = 0` and the composite refuses (`ValueError`; the child's rows are never reported with a wrong energy);
    * `scalar` is `None`, a range end is 0 and `normalize` refuses (`ZeroDivisionError`);
    * rows are returned, and every row carries the energy of the SUBMITTED polynomial. -/
theorem polyscale_composite_total (child : Poly → List Row) (p : Poly) (hk : (p.map (·.1)).Nodup)
    (hchild : ∀ q, ∀ r ∈ child q, r.energy = polyEnergy r.val q)
    (scalar : Option Rat) (br : RangeArg) (pr : Option RangeArg) (ign : List (List Label)) :
    (scalar = some 0 ∧ polyScaleCompositeFull child p scalar br pr ign = .error .scalarZero) ∨
    (scalar = none ∧ polyScaleCompositeFull child p scalar br pr ign = .error .rangeZero ∧
      ((rangeEnds br pr).1.1 = 0 ∨ (rangeEnds br pr).1.2 = 0 ∨ (rangeEnds br pr).2.1 = 0 ∨ (rangeEnds br pr).2.2 = 0)) ∨
    (scalar ≠ some 0 ∧ ∃ out, polyScaleCompositeFull child p scalar br pr ign = .ok out ∧
      ∀ r ∈ out, r.energy = polyEnergy r.val p) := by
  by_cases hs : scalar = some 0
  · exact Or.inl ⟨hs, (polyscale_refuses_iff_scalar_zero child p scalar br pr ign).2 hs⟩
  · right
    rw [polyscale_full_agrees child p scalar hs br pr ign]
    cases hc : polyScaleComposite child p scalar br pr ign with
    | some out => exact Or.inr ⟨hs, out, rfl, polyscale_composite child p hk hchild scalar hs br pr ign out hc⟩
    | none =>
      left
      cases scalar with
      | some s => simp [polyScaleComposite] at hc
      | none =>
        simp only [polyScaleComposite] at hc
        exact ⟨rfl, rfl, ((polyscale_normalize child p hk hchild br pr ign).1).1 hc⟩

/-- rows are returned only for a non-zero (or absent) scalar, and then with the submitted polynomial's energy: the
    form the harness checks (`ValueError` or every row right) -/
theorem polyscale_rows_only_when_nonzero (child : Poly → List Row) (p : Poly) (hk : (p.map (·.1)).Nodup)
    (hchild : ∀ q, ∀ r ∈ child q, r.energy = polyEnergy r.val q)
    (scalar : Option Rat) (br : RangeArg) (pr : Option RangeArg) (ign : List (List Label)) (out : List Row)
    (h : polyScaleCompositeFull child p scalar br pr ign = .ok out) :
    scalar ≠ some 0 ∧ ∀ r ∈ out, r.energy = polyEnergy r.val p := by
  rcases polyscale_composite_total child p hk hchild scalar br pr ign with ⟨_, h0⟩ | ⟨_, h0, _⟩ | ⟨hs, out', h1, h2⟩
  · rw [h0] at h; cases h
  · rw [h0] at h; cases h
  · rw [h1] at h; cases h; exact ⟨hs, h2⟩

/-- non-vacuity: an explicit zero is refused with and without ignored terms, for the demo child that does return a row -/
example : polyScaleErrOf (polyScaleCompositeFull demoChild [([.str "a"], 4), ([.str "a", .str "b"], -2), ([], 3)] (some 0) (.num 1) none [])
    = some .scalarZero := by decide +kernel
example : polyScaleErrOf (polyScaleCompositeFull demoChild [([.str "a"], 4), ([.str "a", .str "b"], -2), ([], 3)] (some 0) (.num 1) none [[.str "a", .str "b"]])
    = some .scalarZero := by decide +kernel
/-- a non-zero scalar: the child sees the scaled polynomial (energy 9/2), the row comes back with the submitted energy 9 -/
example : (match polyScaleCompositeFull demoChild [([.str "a"], 4), ([.str "a", .str "b"], -2), ([], 3)] (some (1/2)) (.num 1) none [] with
    | .ok out => out.map (fun r => (r.x, r.energy)) | .error _ => []) = [([(.str "a", 1), (.str "b", -1)], 9)] := by decide +kernel
/-- `None` with a range end 0: the other refusal -/
example : polyScaleErrOf (polyScaleCompositeFull demoChild [([.str "a"], 4)] none (.num 0) none []) = some .rangeZero := by decide +kernel

/-! ## Round 8: `TrackingComposite` through all three entry points, with its log -/

/-- **TrackingComposite.sample / sample_ising / sample_qubo as coded** (`self.child.<same method>` and the log), for every
    child class implementing one of the three methods with the energy contract: the returned rows are the child's answer to
    the same call and carry the energy of the submitted problem (BQM with offset / Ising / QUBO); the log grows by exactly
    this input and this output and nothing logged before changes; `output` afterwards is the returned answer. -/
theorem tracking_composite_entries (impl : Impl) (child : Bqm → List Row) (hc : ChildOK child) (log : TrackLog) (inp : TrackedInput) :
    (match inp with
     | .bqm m => (trackingCall impl child log inp).1 = mixinSample impl child m ∧
                 ∀ r ∈ (trackingCall impl child log inp).1, r.energy = m.energy r.val
     | .ising h J => (trackingCall impl child log inp).1 = mixinIsing impl child h J ∧
                 ∀ r ∈ (trackingCall impl child log inp).1, r.energy = linE r.val h + quadE r.val J
     | .qubo lin quad => (trackingCall impl child log inp).1 = mixinQubo impl child lin quad ∧
                 ∀ r ∈ (trackingCall impl child log inp).1, r.energy = linE r.val lin + quadE r.val quad) ∧
    (trackingCall impl child log inp).2.length = log.length + 1 ∧
    (trackingCall impl child log inp).2.take log.length = log ∧
    trackingOutput (trackingCall impl child log inp).2 = some (trackingCall impl child log inp).1 := by
  refine ⟨?_, ?_, ?_, ?_⟩
  · cases inp with
    | bqm m => exact ⟨rfl, mixin_energy_offset impl child hc m⟩
    | ising h J => exact ⟨rfl, mixin_energy_ising impl child hc h J⟩
    | qubo lin quad => exact ⟨rfl, mixin_energy_qubo impl child hc lin quad⟩
  · simp [trackingCall]
  · simp [trackingCall]
  · simp [trackingCall, trackingOutput]

/-- the log accessors: `input` / `output` on an empty log are refused (`ValueError`), `clear` empties the log, and after
    any sequence of calls the log has one entry per call, every entry pairing an input with the rows returned for it -/
theorem tracking_log_history (impl : Impl) (child : Bqm → List Row) (inputs : List TrackedInput) :
    trackingOutput [] = none ∧ trackingInput [] = none ∧ (∀ log, trackingClear log = []) ∧
    (inputs.foldl (fun log inp => (trackingCall impl child log inp).2) []).length = inputs.length ∧
    ∀ e ∈ inputs.foldl (fun log inp => (trackingCall impl child log inp).2) [], e.2 = (trackingCall impl child [] e.1).1 := by
  refine ⟨rfl, rfl, fun _ => rfl, ?_, ?_⟩
  · have h : ∀ (l : List TrackedInput) (log : TrackLog),
        (l.foldl (fun log inp => (trackingCall impl child log inp).2) log).length = log.length + l.length := by
      have hl : ∀ (log : TrackLog) (a : TrackedInput), (trackingCall impl child log a).2.length = log.length + 1 := by
        intro log a; simp [trackingCall]
      intro l
      induction l with
      | nil => intro log; simp
      | cons a t ih => intro log; rw [List.foldl_cons, ih, hl, List.length_cons]; omega
    simpa using h inputs []
  · have h : ∀ (l : List TrackedInput) (log : TrackLog), (∀ e ∈ log, e.2 = (trackingCall impl child [] e.1).1) →
        ∀ e ∈ l.foldl (fun log inp => (trackingCall impl child log inp).2) log, e.2 = (trackingCall impl child [] e.1).1 := by
      intro l
      induction l with
      | nil => intro log hl; simpa using hl
      | cons a t ih =>
        intro log hl
        simp only [List.foldl_cons]
        apply ih
        intro e he
        simp only [trackingCall, List.mem_append, List.mem_singleton] at he
        rcases he with he | he
        · exact hl e he
        · subst he; simp [trackingCall]
    exact h inputs [] (by simp)

end C07
