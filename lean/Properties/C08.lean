import DimodProofs.FeasCqm
import DimodProofs.FeasOptions
import DimodProofs.FeasMore
import DimodProofs.FeasGather

/-! # C08 — CQM feasibility and violation reports agree with the constraint definition

Model: `DimodModel/Feasibility.lean` (namespace `Feas`):
* the definition — `activity`, `violation`, `satisfied`, `feasible`, `energy`;
* the per-sample implementation — `iterConstraintData`, `iterViolations`, `checkFeasible`
  (`constrained.py`), and `iterConstraintDataL` / `iterViolationsL` with the `labels=` argument;
* the vectorised implementation — `fromSamplesCqm` (`SampleSet.from_samples_cqm`) with the
  `is_satisfied.all()` short-cut over the whole `np.empty` array (`garbage` = the content of the
  columns not yet written) and the `soft` label set;
* `exprEnergy` — `_cyExpression._energies` with its branch for an expression without variables.

All statements are for every list of constraints, every number of rows `n`, every tolerance, every
content of the uninitialised array. Numbers are `Rat` (an ordered field; the harness feeds dyadic
rationals on which float64 arithmetic is exact). -/

namespace C08
open Feas

/-- Per-sample path = definition: every field of `iter_constraint_data`, the three modes of
    `iter_violations` / `violations`, and `check_feasible`. -/
theorem perSample_eq_def (atol rtol : Rat) (cs : List CEval) (r : Nat) :
    (iterConstraintData cs r).map (fun d => (d.label, d.lhsEnergy, d.rhsEnergy, d.sense, d.activity, d.violation))
        = cs.map (fun c => (c.label, c.lhs r, c.rhs, c.sense, activity c r, violation c r))
    ∧ iterViolations false false cs r = cs.map (fun c => (c.label, violation c r))
    ∧ (∀ clip, iterViolations true clip cs r
        = (cs.filter (fun c => decide (violation c r > 0))).map (fun c => (c.label, violation c r)))
    ∧ iterViolations false true cs r = cs.map (fun c => (c.label, maxR (violation c r) 0))
    ∧ checkFeasible atol rtol cs r = feasible atol rtol cs r := by
  refine ⟨?_, iterViolations_plain cs r, fun clip => iterViolations_skip clip cs r, iterViolations_clip cs r,
    checkFeasible_eq atol rtol cs r⟩
  unfold iterConstraintData
  rw [List.map_map]
  apply List.map_congr_left
  intro c _
  simp only [Function.comp, datum_violation, datum_activity]
  rfl

/-- **The `labels=` argument** of `iter_constraint_data` / `iter_violations` (`Feas.selectCons`).
    * `labels=None` (the default) is the plain call: every constraint, in model order.
    * An explicit **empty** selection visits nothing (it is *not* the default).
    * Known labels `ls`: exactly those constraints are visited, **in the order given**; each visited constraint is a
      constraint of the model (with distinct labels: *the* one with that label), so by `perSample_eq_def` on the selection
      every field yielded is the definition's; the three modes of `iter_violations` are those of the plain call on the
      selection.
    * A label that is no constraint ends the iteration with `ValueError`. -/
theorem perSample_labels (cs : List CEval) (hnd : (cs.map (·.label)).Nodup) (r : Nat) :
    (iterConstraintDataL none cs r = (iterConstraintData cs r, false)
      ∧ ∀ skip clip, iterViolationsL skip clip none cs r = (iterViolations skip clip cs r, false))
    ∧ (iterConstraintDataL (some []) cs r = ([], false) ∧ ∀ skip clip, iterViolationsL skip clip (some []) cs r = ([], false))
    ∧ (∀ ls, (∀ l ∈ ls, ∃ c ∈ cs, c.label = l) →
        ∃ sel, sel.map (·.label) = ls ∧ (∀ c ∈ sel, c ∈ cs ∧ ∀ c' ∈ cs, c'.label = c.label → c' = c)
          ∧ iterConstraintDataL (some ls) cs r = (iterConstraintData sel r, false)
          ∧ (iterConstraintData sel r).map (fun d => (d.label, d.lhsEnergy, d.rhsEnergy, d.sense, d.activity, d.violation))
              = sel.map (fun c => (c.label, c.lhs r, c.rhs, c.sense, activity c r, violation c r))
          ∧ ∀ skip clip, iterViolationsL skip clip (some ls) cs r = (iterViolations skip clip sel r, false))
    ∧ (∀ ls, (∃ l ∈ ls, ∀ c ∈ cs, c.label ≠ l) →
        (iterConstraintDataL (some ls) cs r).2 = true ∧ ∀ skip clip, (iterViolationsL skip clip (some ls) cs r).2 = true) := by
  refine ⟨⟨rfl, fun _ _ => rfl⟩, ⟨rfl, fun skip clip => ?_⟩, ?_, ?_⟩
  · unfold iterViolationsL selectCons selectGo iterViolations iterConstraintData
    cases skip <;> cases clip <;> rfl
  · intro ls hls
    obtain ⟨a1, a2, a3⟩ := selectGo_known cs ls hls
    refine ⟨(selectGo cs ls).1, a2, fun c hc => ⟨a3 c hc, fun c' hc' h => selectGo_unique cs hnd ls c hc c' hc' h⟩, ?_,
      (perSample_eq_def 0 0 _ r).1, fun skip clip => ?_⟩
    · show (iterConstraintData (selectGo cs ls).1 r, (selectGo cs ls).2) = _
      rw [a1]
    · show (iterViolations skip clip (selectGo cs ls).1 r, (selectGo cs ls).2) = _
      rw [a1]
  · intro ls hls
    exact ⟨selectGo_unknown cs ls hls, fun _ _ => selectGo_unknown cs ls hls⟩

/-- Vectorised path = definition, whatever the uninitialised part of `is_satisfied` holds: the
    short-cut `not is_satisfied.all()` never changes a result (when it skips a soft constraint, that
    constraint's column is all-true, so its penalty is 0 on every row and counting it as hard is
    harmless).  Constraint labels are distinct, as `constraint_labels` guarantees. -/
theorem vectorised_eq_def (n : Nat) (atol rtol : Rat) (garbage : Nat → Nat → Bool) (obj : Nat → Rat)
    (cs : List CEval) (hnd : (cs.map (·.label)).Nodup) :
    (fromSamplesCqm n atol rtol garbage obj cs).isSatisfied = cs.map (fun c r => satisfied atol rtol c r)
    ∧ (∀ r, r < n → (fromSamplesCqm n atol rtol garbage obj cs).isFeasible r = feasible atol rtol cs r)
    ∧ (∀ r, r < n → (fromSamplesCqm n atol rtol garbage obj cs).energies r = energy atol rtol obj cs r) :=
  ⟨vec_isSatisfied n atol rtol garbage obj cs,
   fun r hr => vec_isFeasible n atol rtol garbage obj cs hnd r hr,
   fun r hr => vec_energy n atol rtol garbage obj cs r hr⟩

/-- The short-cut is irrelevant: two runs with different uninitialised memory give the same rows. -/
theorem shortcut_irrelevant (n : Nat) (atol rtol : Rat) (g1 g2 : Nat → Nat → Bool) (obj : Nat → Rat)
    (cs : List CEval) (hnd : (cs.map (·.label)).Nodup) (r : Nat) (hr : r < n) :
    (fromSamplesCqm n atol rtol g1 obj cs).isFeasible r = (fromSamplesCqm n atol rtol g2 obj cs).isFeasible r
    ∧ (fromSamplesCqm n atol rtol g1 obj cs).energies r = (fromSamplesCqm n atol rtol g2 obj cs).energies r
    ∧ (fromSamplesCqm n atol rtol g1 obj cs).isSatisfied = (fromSamplesCqm n atol rtol g2 obj cs).isSatisfied := by
  obtain ⟨s1, f1, e1⟩ := vectorised_eq_def n atol rtol g1 obj cs hnd
  obtain ⟨s2, f2, e2⟩ := vectorised_eq_def n atol rtol g2 obj cs hnd
  exact ⟨by rw [f1 r hr, f2 r hr], by rw [e1 r hr, e2 r hr], by rw [s1, s2]⟩

/-- The two paths agree with each other: `check_feasible` on a row is `is_feasible` of that row, and
    a constraint's `violation <= atol + rtol*|rhs_energy|` is its `is_satisfied` entry. -/
theorem paths_agree (n : Nat) (atol rtol : Rat) (garbage : Nat → Nat → Bool) (obj : Nat → Rat)
    (cs : List CEval) (hnd : (cs.map (·.label)).Nodup) (r : Nat) (hr : r < n) :
    checkFeasible atol rtol cs r = (fromSamplesCqm n atol rtol garbage obj cs).isFeasible r
    ∧ (iterConstraintData cs r).map (fun d => decide (d.violation ≤ atol + rtol * absR d.rhsEnergy))
        = (fromSamplesCqm n atol rtol garbage obj cs).isSatisfied.map (· r) := by
  obtain ⟨s, f, _⟩ := vectorised_eq_def n atol rtol garbage obj cs hnd
  refine ⟨by rw [f r hr, checkFeasible_eq], ?_⟩
  rw [s]
  unfold iterConstraintData
  rw [List.map_map, List.map_map]
  apply List.map_congr_left
  intro c _
  simp only [Function.comp, datum_violation]
  rfl

/-- Constant-only expressions are evaluated like any other: what `_energies` returns for an expression
    is the value of its polynomial at the row — in particular the offset when it has no variables. -/
theorem constant_only_ok (e : Expr) (row : Nat → Rat) (hlen : e.qb.lin.length = e.vars.length) :
    exprEnergy e row = polyValue e row ∧ (e.vars = [] → exprEnergy e row = e.qb.off) := by
  refine ⟨exprEnergy_eq_polyValue e row hlen, ?_⟩
  intro h
  unfold exprEnergy exprEnergyWith
  simp [h]

/-- End to end on the CQM model of C05: after **any history** of public mutations (`Cqm.run`), for any rows,
    tolerances and uninitialised memory, what `from_samples_cqm` (hence `ExactCQMSolver.sample_cqm`, which hands
    its enumerated cases to it — the enumeration itself is property C07's) and `check_feasible` report is the
    definition applied to the *values of the polynomials* the objective and the constraints denote — constant-only
    expressions included. -/
theorem exact_cqm_agrees (ops : List Cqm.Op) (hops : ∀ op ∈ ops, CqmP.OpOK op)
    (n : Nat) (atol rtol : Rat) (garbage : Nat → Nat → Bool) (rows : Nat → Nat → Rat) (r : Nat) (hr : r < n) :
    let m := ({} : Cqm).run ops
    (fromSamplesCqm n atol rtol garbage (evalObj m rows) (evalCons m rows)).isSatisfied
        = (defCons m rows).map (fun c r => satisfied atol rtol c r)
    ∧ (fromSamplesCqm n atol rtol garbage (evalObj m rows) (evalCons m rows)).isFeasible r
        = feasible atol rtol (defCons m rows) r
    ∧ (fromSamplesCqm n atol rtol garbage (evalObj m rows) (evalCons m rows)).energies r
        = energy atol rtol (fun r => polyValue m.obj (rows r)) (defCons m rows) r
    ∧ checkFeasible atol rtol (evalCons m rows) r = feasible atol rtol (defCons m rows) r := by
  intro m
  have hwf : CqmP.CqmWF m := CqmP.run_wf ops CqmP.cqmWF_empty hops
  have hlab : CqmP.CqmLabelsOK m := CqmP.run_labels ops ⟨List.nodup_nil, List.nodup_nil⟩
  have hnd : ((defCons m rows).map (·.label)).Nodup := by rw [labels_defCons hwf]; exact hlab.clabels_nodup
  have h := vectorised_eq_def n atol rtol garbage (fun r => polyValue m.obj (rows r)) (defCons m rows) hnd
  rw [evalCons_eq_def hwf, evalObj_eq_def hwf]
  exact ⟨h.1, h.2.1 r hr, h.2.2 r hr, checkFeasible_eq atol rtol _ r⟩

/-! ## every option combination of `iter_violations` / `violations` (`skip_satisfied` × `clip` × `labels=`) -/

/-- **Reported set / value = definition for every option combination.**  For every `skip_satisfied`, `clip` and `labels=`
    (None, any selection, with repeats, with unknown labels), `iter_violations` as coded (three loops) yields, over the
    constraints `labels=` selects and in that order, exactly `Feas.reportDef`: a constraint is listed iff `skip_satisfied` is
    off or its violation (the definition's) is strictly positive, and the value listed is the violation, replaced by 0 when
    `clip` is on and it is negative — in particular with BOTH options a strictly slack inequality is skipped, not listed with
    0.  `violations(…)` (`dict(iter_violations(…))`) is the same list when constraint labels are distinct, as
    `constraint_labels` guarantees. -/
theorem options_eq_def (skip clip : Bool) (labels : Option (List Label)) (cs : List CEval) (r : Nat) :
    iterViolationsL skip clip labels cs r = (reportDef skip clip (selectCons labels cs).1 r, (selectCons labels cs).2)
    ∧ iterViolations skip clip cs r = reportDef skip clip cs r
    ∧ ((cs.map (·.label)).Nodup → violationsDict skip clip cs r = reportDef skip clip cs r) := by
  refine ⟨?_, iterViolations_eq_reportDef skip clip cs r, fun hnd => ?_⟩
  · unfold iterViolationsL
    rw [iterViolations_eq_reportDef]
  · unfold violationsDict
    rw [iterViolations_eq_reportDef]
    exact dictOf_nodup _ (hnd.sublist (reportDef_labels_sublist skip clip cs r))

/-- The reported *set*: with `skip_satisfied` (whatever `clip`) a pair is yielded iff it is (label, violation) of a
    constraint whose violation is strictly positive; without it every constraint is yielded; with `clip` no yielded value
    is negative, and a yielded value differs from the violation only where the violation is negative. -/
theorem options_reported_set (clip : Bool) (cs : List CEval) (r : Nat) :
    (∀ l v, (l, v) ∈ iterViolations true clip cs r ↔ ∃ c ∈ cs, c.label = l ∧ violation c r = v ∧ v > 0)
    ∧ (∀ skip, (iterViolations false skip cs r).map Prod.fst = cs.map (·.label))
    ∧ (∀ skip, ∀ p ∈ iterViolations skip true cs r, 0 ≤ p.2)
    ∧ (∀ skip l v, (l, v) ∈ iterViolations skip clip cs r → ∃ c ∈ cs, c.label = l ∧ (v = violation c r ∨ (violation c r < 0 ∧ v = 0))) := by
  refine ⟨fun l v => ?_, fun clip' => ?_, fun skip p hp => ?_, fun skip l v h => ?_⟩
  · rw [iterViolations_eq_reportDef, mem_reportDef]
    constructor
    · rintro ⟨c, hc, hl, hs, hv⟩
      have hpos := hs rfl
      refine ⟨c, hc, hl, ?_, ?_⟩
      · cases clip
        · simpa using hv.symm
        · simp only [if_true] at hv; rw [hv, maxR_of_pos hpos]
      · cases clip
        · simp only [Bool.false_eq_true, if_false] at hv; rw [hv]; exact hpos
        · simp only [if_true] at hv; rw [hv, maxR_of_pos hpos]; exact hpos
    · rintro ⟨c, hc, hl, hv, hpos⟩
      refine ⟨c, hc, hl, fun _ => hv ▸ hpos, ?_⟩
      cases clip
      · simpa using hv.symm
      · simp only [if_true]; rw [maxR_of_pos (hv ▸ hpos)]; exact hv.symm
  · rw [iterViolations_eq_reportDef]
    unfold reportDef
    simp [List.map_map, Function.comp_def]
  · rw [iterViolations_eq_reportDef] at hp
    obtain ⟨l, v⟩ := p
    obtain ⟨c, _, _, _, hv⟩ := (mem_reportDef skip true cs r l v).mp hp
    simp only [if_true] at hv
    rw [hv]
    exact maxR_nonneg _
  · rw [iterViolations_eq_reportDef] at h
    obtain ⟨c, hc, hl, _, hv⟩ := (mem_reportDef skip clip cs r l v).mp h
    refine ⟨c, hc, hl, ?_⟩
    cases clip
    · left; simpa using hv
    · simp only [if_true] at hv
      unfold maxR at hv
      split at hv
      · right; exact ⟨by assumption, hv⟩
      · left; exact hv

/-- **Tolerances over `Rat`** (any rationals — the documented defaults `1e-6`, `1e-8` taken as the exact values of those
    floats included): satisfied iff `violation ≤ atol + rtol·|rhs|` with the mathematical absolute value; a violation exactly
    at the tolerance is satisfied; enlarging either (non-negatively weighted) tolerance never turns a satisfied constraint
    unsatisfied, so `check_feasible` is monotone in both. -/
theorem tolerance_rat (atol rtol : Rat) (c : CEval) (r : Nat) :
    (satisfied atol rtol c r = true ↔ violation c r ≤ atol + rtol * |c.rhs|)
    ∧ (violation c r = atol + rtol * |c.rhs| → satisfied atol rtol c r = true)
    ∧ (∀ atol' rtol', atol ≤ atol' → rtol ≤ rtol' → satisfied atol rtol c r = true → satisfied atol' rtol' c r = true)
    ∧ (∀ atol' rtol' cs, atol ≤ atol' → rtol ≤ rtol' → checkFeasible atol rtol cs r = true → checkFeasible atol' rtol' cs r = true) := by
  have habs : ∀ x : Rat, absR x = |x| := by
    intro x
    unfold absR
    split
    · rename_i h; exact (abs_of_neg h).symm
    · rename_i h; exact (abs_of_nonneg (not_lt.mp h)).symm
  have hiff : ∀ a b : Rat, (satisfied a b c r = true ↔ violation c r ≤ a + b * |c.rhs|) := by
    intro a b
    unfold satisfied tol
    rw [habs]
    exact decide_eq_true_iff
  have hmono : ∀ (c : CEval) (a b a' b' : Rat), a ≤ a' → b ≤ b' → satisfied a b c r = true → satisfied a' b' c r = true := by
    intro c a b a' b' ha hb h
    unfold satisfied tol at h ⊢
    rw [habs] at h ⊢
    have h1 := of_decide_eq_true h
    apply decide_eq_true
    have : b * |c.rhs| ≤ b' * |c.rhs| := mul_le_mul_of_nonneg_right hb (abs_nonneg _)
    linarith
  refine ⟨hiff atol rtol, fun h => (hiff atol rtol).mpr (le_of_eq h), fun a' b' ha hb h => hmono c _ _ _ _ ha hb h, ?_⟩
  intro a' b' cs ha hb h
  rw [checkFeasible_eq] at h ⊢
  unfold feasible at h ⊢
  rw [List.all_eq_true] at h ⊢
  intro c' hc'
  have := h c' hc'
  rcases Bool.or_eq_true _ _ |>.mp this with h1 | h2
  · simp [h1]
  · simp [hmono c' _ _ _ _ ha hb h2]


/-! ## non-vacuity and the defects the model was built against -/

/-- objective x + y, soft `x + y <= 1` (weight 2, linear), hard `x - y >= 0`, constant-only hard `3 <= 5` -/
def demo : List CEval :=
  [ { label := .str "soft", sense := .le, rhs := 1, weight := some 2, quad := false, lhs := fun r => [2, 1, 0].getD r 0 },
    { label := .str "hard", sense := .ge, rhs := 0, weight := none, quad := false, lhs := fun r => [0, -1, 0].getD r 0 },
    { label := .str "const", sense := .le, rhs := 5, weight := none, quad := false, lhs := fun _ => 3 } ]
def demoObj : Nat → Rat := fun r => [2, 1, 0].getD r 0

-- rows (1,1), (0,1), (0,0): feasible / infeasible / feasible; energies 2 + 2·1, 1, 0
example : (List.range 3).map (feasible 0 0 demo) = [true, false, true] := by decide +kernel
example : (List.range 3).map (energy 0 0 demoObj demo) = [4, 1, 0] := by decide +kernel
example : (List.range 3).map (fromSamplesCqm 3 0 0 (fun _ _ => true) demoObj demo).energies = [4, 1, 0] := by decide +kernel
/-- D36: before the repair `check_feasible` also demanded the soft constraints -/
example : checkFeasibleWith false 0 0 demo 0 = false ∧ feasible 0 0 demo 0 = true := by decide +kernel
/-- D2: before the repair an expression without variables evaluated to 0 instead of its offset -/
example : exprEnergyWith false { qb := { off := 3 } } (fun _ => 0) = 0
    ∧ exprEnergy { qb := { off := 3 } } (fun _ => 0) = 3 := by decide +kernel

/-- `labels=`: order given, repeats, the empty selection, an unknown label -/
example : (iterViolationsL false false (some [.str "hard", .str "soft", .str "hard"]) demo 1)
      = ([(.str "hard", 1), (.str "soft", 0), (.str "hard", 1)], false)
    ∧ (iterViolationsL false false (some []) demo 1) = ([], false)
    ∧ (iterViolationsL false false none demo 1).1.length = 3
    ∧ (iterConstraintDataL (some [.str "soft", .str "nope", .str "hard"]) demo 1).2 = true := by decide +kernel

/-- the option logic is not vacuous: the collapsed single loop (clip test first, skip test in its `elif`) is a different
    function — on row 2 (`soft`: 0 ≤ 1 with slack 1, `hard`: 0 ≥ 0 met exactly, `const`: 3 ≤ 5 with slack 2) with both options
    it lists the two strictly slack inequalities with 0, the code as written lists nothing -/
example : iterViolations true true demo 2 = [] ∧ reportDef true true demo 2 = []
    ∧ iterViolationsOneLoop true true demo 2 = [(.str "soft", 0), (.str "const", 0)]
    ∧ iterViolations false true demo 2 = [(.str "soft", 0), (.str "hard", 0), (.str "const", 0)]
    ∧ iterViolations true false demo 1 = [(.str "hard", 1)]
    ∧ violationsDict true true demo 1 = [(.str "hard", 1)] := by decide +kernel

/-! ## round 7: cross-consistency of every report path, senses, soft penalties, discrete constraints, tolerances, exact solver

Everything below is stated against ONE definition, `Feas.violation c r` (activity `lhs r - rhs`; `|activity|`, `activity`,
`-activity` by sense), and the one satisfaction test `violation ≤ atol + rtol * |rhs|`. -/

/-- **All feasibility reports are the same statement.**  For a row `r < n`, with distinct constraint labels (as
    `constraint_labels` guarantees), the following are equivalent to *every hard constraint's violation is at most
    `atol + rtol·|rhs|`*: `check_feasible` (the generator over `iter_constraint_data`, soft constraints skipped), the
    `is_feasible` entry of `from_samples_cqm` (whatever the uninitialised `is_satisfied` memory held), and the definition's
    `feasible`.  And `iter_violations(skip_satisfied=True)` (with or without `clip`) lists no hard constraint exactly when
    `check_feasible` holds with both tolerances 0; for non-negative tolerances "nothing hard listed" implies `check_feasible`. -/
theorem feasibility_cross_consistent (n : Nat) (atol rtol : Rat) (garbage : Nat → Nat → Bool) (obj : Nat → Rat)
    (cs : List CEval) (hnd : (cs.map (·.label)).Nodup) (r : Nat) (hr : r < n) :
    (checkFeasible atol rtol cs r = true ↔ ∀ c ∈ cs, c.weight = none → violation c r ≤ atol + rtol * |c.rhs|)
    ∧ ((fromSamplesCqm n atol rtol garbage obj cs).isFeasible r = true ↔ ∀ c ∈ cs, c.weight = none → violation c r ≤ atol + rtol * |c.rhs|)
    ∧ (feasible atol rtol cs r = true ↔ ∀ c ∈ cs, c.weight = none → violation c r ≤ atol + rtol * |c.rhs|)
    ∧ (∀ clip, hardListed clip cs r = [] ↔ checkFeasible 0 0 cs r = true)
    ∧ (∀ clip, 0 ≤ atol → 0 ≤ rtol → hardListed clip cs r = [] → checkFeasible atol rtol cs r = true) := by
  have hf := feasible_iff atol rtol cs r
  refine ⟨by rw [checkFeasible_eq]; exact hf, by rw [vec_isFeasible n atol rtol garbage obj cs hnd r hr]; exact hf, hf, fun clip => ?_,
    fun clip ha hrt h => ?_⟩
  · rw [hardListed_nil_iff clip cs hnd r, checkFeasible_eq, feasible_iff]
    simp
  · rw [checkFeasible_eq, feasible_iff]
    intro c hc hw
    have h0 := (hardListed_nil_iff clip cs hnd r).mp h c hc hw
    have : 0 ≤ atol + rtol * |c.rhs| := add_nonneg ha (mul_nonneg hrt (abs_nonneg _))
    linarith

/-- **Per-constraint reports are the same statement**: the `is_satisfied` entry of `from_samples_cqm`, the test
    `violation <= atol + rtol*abs(rhs_energy)` on the datum `iter_constraint_data` yields, and the same test on the value
    `violations(sample)` stores under the constraint's label all equal the definition's `satisfied`. -/
theorem satisfaction_cross_consistent (n : Nat) (atol rtol : Rat) (garbage : Nat → Nat → Bool) (obj : Nat → Rat)
    (cs : List CEval) (hnd : (cs.map (·.label)).Nodup) (r : Nat) (c : CEval) (hc : c ∈ cs) :
    violationsGet (violationsDict false false cs r) c.label = some (violation c r)
    ∧ ((datum c r).violation ≤ atol + rtol * absR (datum c r).rhsEnergy ↔ satisfied atol rtol c r = true)
    ∧ (∀ j : Nat, cs[j]? = some c →
        ((fromSamplesCqm n atol rtol garbage obj cs).isSatisfied[j]?).map (fun col : Nat → Bool => col r) = some (satisfied atol rtol c r)) := by
  refine ⟨?_, ?_, fun j hj => ?_⟩
  · rw [(options_eq_def false false none cs r).2.2 hnd]
    unfold violationsGet reportDef
    simp only [Bool.not_false, Bool.true_or, List.filter_true, Bool.false_eq_true, if_false]
    have : List.find? (fun p : Label × Rat => decide (p.1 = c.label)) (cs.map fun c => (c.label, violation c r))
        = some (c.label, violation c r) := by
      rw [List.find?_map]
      have hfind : cs.find? ((fun p : Label × Rat => decide (p.1 = c.label)) ∘ fun c => (c.label, violation c r)) = some c := by
        induction cs with
        | nil => cases hc
        | cons a t ih =>
          rw [List.find?_cons]
          by_cases hac : a.label = c.label
          · have : a = c := eq_of_nodup_map (·.label) (a :: t) hnd a (List.mem_cons_self ..) c hc hac
            subst this; simp
          · simp only [Function.comp, hac, decide_false]
            rcases List.mem_cons.mp hc with h | h
            · exact absurd (h ▸ rfl) hac
            · exact ih (List.nodup_cons.mp (by simpa using hnd)).2 h
      rw [hfind]; rfl
    rw [this]; rfl
  · rw [datum_violation]
    show _ ↔ decide (violation c r ≤ tol atol rtol c) = true
    unfold tol
    simp [datum]
  · rw [vec_isSatisfied, List.getElem?_map, hj]
    rfl

/-- **Senses.**  Satisfaction spelled out for each `Sense`, with `t = atol + rtol·|rhs|`: `==` is `|lhs − rhs| ≤ t`, i.e.
    `rhs − t ≤ lhs ≤ rhs + t`; `<=` is `lhs ≤ rhs + t`; `>=` is `rhs − t ≤ lhs`.  The violation of an equality is never negative,
    and an equality is satisfied exactly when both inequalities with the same right-hand side are. -/
theorem satisfied_by_sense (atol rtol : Rat) (c : CEval) (r : Nat) :
    (c.sense = .eq → (satisfied atol rtol c r = true ↔ |c.lhs r - c.rhs| ≤ atol + rtol * |c.rhs|)
        ∧ (satisfied atol rtol c r = true ↔ c.rhs - (atol + rtol * |c.rhs|) ≤ c.lhs r ∧ c.lhs r ≤ c.rhs + (atol + rtol * |c.rhs|))
        ∧ 0 ≤ violation c r
        ∧ (satisfied atol rtol c r = (satisfied atol rtol { c with sense := .le } r && satisfied atol rtol { c with sense := .ge } r)))
    ∧ (c.sense = .le → (satisfied atol rtol c r = true ↔ c.lhs r ≤ c.rhs + (atol + rtol * |c.rhs|)))
    ∧ (c.sense = .ge → (satisfied atol rtol c r = true ↔ c.rhs - (atol + rtol * |c.rhs|) ≤ c.lhs r)) := by
  have hle : ∀ c : CEval, c.sense = .le → (satisfied atol rtol c r = true ↔ c.lhs r ≤ c.rhs + (atol + rtol * |c.rhs|)) := by
    intro c h
    rw [satisfied_iff]; unfold violation activity; rw [h]
    constructor <;> intro h <;> linarith
  have hge : ∀ c : CEval, c.sense = .ge → (satisfied atol rtol c r = true ↔ c.rhs - (atol + rtol * |c.rhs|) ≤ c.lhs r) := by
    intro c h
    rw [satisfied_iff]; unfold violation activity; rw [h]
    constructor <;> intro h <;> linarith
  have heq : c.sense = .eq → (satisfied atol rtol c r = true ↔ |c.lhs r - c.rhs| ≤ atol + rtol * |c.rhs|) := by
    intro h
    rw [satisfied_iff]; unfold violation activity; rw [h]
    simp only [absR_eq_abs]
  have heq2 : c.sense = .eq → (satisfied atol rtol c r = true ↔
      c.rhs - (atol + rtol * |c.rhs|) ≤ c.lhs r ∧ c.lhs r ≤ c.rhs + (atol + rtol * |c.rhs|)) := by
    intro h
    rw [heq h, abs_le]
    constructor <;> rintro ⟨a, b⟩ <;> constructor <;> linarith
  refine ⟨fun h => ⟨heq h, heq2 h, ?_, ?_⟩, hle c, hge c⟩
  · unfold violation; rw [h]; simp only [absR_eq_abs]; exact abs_nonneg _
  · rw [Bool.eq_iff_iff, Bool.and_eq_true, heq2 h, hle { c with sense := .le } rfl, hge { c with sense := .ge } rfl]
    exact And.comm

/-- **Soft constraints and their penalties.**  The reported energy is the objective plus, over the soft constraints that are
    NOT satisfied (at the given tolerances), `weight × violation` (linear penalty) or `weight × violation²` (quadratic); hard
    constraints never contribute; when every soft constraint is satisfied it is the objective; with non-negative tolerances and
    weights it is never below the objective.  `from_samples_cqm` reports exactly this for every row, whatever the
    uninitialised memory held. -/
theorem soft_penalties (n : Nat) (atol rtol : Rat) (garbage : Nat → Nat → Bool) (obj : Nat → Rat) (cs : List CEval) (r : Nat) (hr : r < n) :
    (fromSamplesCqm n atol rtol garbage obj cs).energies r = energy atol rtol obj cs r
    ∧ energy atol rtol obj cs r = obj r + ((cs.filter (fun c => c.weight.isSome && !satisfied atol rtol c r)).map
          (fun c => c.weight.getD 0 * (if c.quad then violation c r * violation c r else violation c r))).sum
    ∧ energy atol rtol obj cs r = energy atol rtol obj (cs.filter (·.weight.isSome)) r
    ∧ ((∀ c ∈ cs, c.weight.isSome = true → satisfied atol rtol c r = true) → energy atol rtol obj cs r = obj r)
    ∧ (0 ≤ atol → 0 ≤ rtol → (∀ c ∈ cs, ∀ w, c.weight = some w → 0 ≤ w) → obj r ≤ energy atol rtol obj cs r) := by
  refine ⟨vec_energy n atol rtol garbage obj cs r hr, by unfold energy; rw [sum_penaltyTerm], by unfold energy; rw [sum_penalty_filter_soft],
    fun h => ?_, fun ha hrt hw => ?_⟩
  · unfold energy
    rw [sum_penaltyTerm]
    have : cs.filter (fun c => c.weight.isSome && !satisfied atol rtol c r) = [] := by
      rw [List.filter_eq_nil_iff]
      intro c hc
      cases hw : c.weight.isSome with
      | false => simp
      | true => simp [h c hc hw]
    rw [this]; simp
  · unfold energy
    have : 0 ≤ (cs.map (penaltyTerm atol rtol · r)).sum := by
      apply sum_nonneg_of_forall
      intro x hx
      obtain ⟨c, hc, rfl⟩ := List.mem_map.mp hx
      exact penaltyTerm_nonneg ha hrt c r (hw c hc)
    linarith

/-- **Discrete (one-hot) constraints.**  A discrete constraint is the equality `Σ xᵢ == 1` over binary variables.  On a row
    whose values `xs` of those variables are 0/1 — with any tolerance `0 ≤ t < 1` (the defaults give `t ≈ 1.01e-6`) — it is
    reported satisfied exactly when exactly one of them is 1; in particular on every row `ExactCQMSolver` enumerates for the
    discrete variables (a one-hot vector) its violation is exactly 0 and it is satisfied at every non-negative tolerance. -/
theorem discrete_is_onehot (atol rtol : Rat) (c : CEval) (r : Nat) (xs : List Rat) (hx : ∀ x ∈ xs, x = 0 ∨ x = 1)
    (hs : c.sense = .eq) (hrhs : c.rhs = 1) (hl : c.lhs r = xs.sum) :
    (0 ≤ atol + rtol → atol + rtol < 1 → (satisfied atol rtol c r = true ↔ xs.count 1 = 1))
    ∧ (xs.count 1 = 1 → violation c r = 0 ∧ (0 ≤ atol → 0 ≤ rtol → satisfied atol rtol c r = true)) := by
  have hsum := sum_zero_one xs hx
  have hv : violation c r = |(xs.count 1 : Rat) - 1| := by
    unfold violation activity; rw [hs, hl, hrhs, hsum]; simp only [absR_eq_abs]
  have ht : atol + rtol * |c.rhs| = atol + rtol := by rw [hrhs]; simp
  refine ⟨fun h0 h1 => ?_, fun h => ?_⟩
  · rw [satisfied_iff, hv, ht]
    exact nat_near_one h0 h1
  · have : violation c r = 0 := by rw [hv, h]; simp
    refine ⟨this, fun ha hr' => ?_⟩
    rw [satisfied_iff, this]
    exact add_nonneg ha (mul_nonneg hr' (abs_nonneg _))

/-- **Where float rounding is excluded.**  The theorems of this file are over `Rat`; the code computes in binary64.  Let `fl`
    be the rounding applied to each arithmetic result of the test (`fl(violation) ≤ fl(atol + fl(rtol·|rhs|))`):
    * if the three results are representable (`fl` fixes them — the harness's dyadic inputs) the float verdict IS the rational
      one;
    * if every rounding is off by at most `δ` and the violation is further than `3δ` from the tolerance, the verdicts agree;
      so the float and the rational verdict can differ only for violations within `3δ` of `atol + rtol·|rhs|`;
    * if `fl` is monotone (IEEE rounding is) and the product `rtol·|rhs|` is exact, a constraint satisfied over `Rat` is
      never reported violated.
    The rounding inside the left-hand-side energy (`lhs r`) is outside these statements: `violation` is the violation of the
    energy value the expression returned. -/
theorem tolerance_float_excluded (fl : Rat → Rat) (atol rtol : Rat) (c : CEval) (r : Nat) :
    (fl (rtol * absR c.rhs) = rtol * absR c.rhs → fl (atol + rtol * absR c.rhs) = atol + rtol * absR c.rhs →
        fl (violation c r) = violation c r → satisfiedFl fl atol rtol c r = satisfied atol rtol c r)
    ∧ (∀ δ, (∀ x, |fl x - x| ≤ δ) → 3 * δ < |violation c r - (atol + rtol * |c.rhs|)| →
        satisfiedFl fl atol rtol c r = satisfied atol rtol c r)
    ∧ ((∀ x y, x ≤ y → fl x ≤ fl y) → fl (rtol * absR c.rhs) = rtol * absR c.rhs →
        satisfied atol rtol c r = true → satisfiedFl fl atol rtol c r = true) := by
  refine ⟨fun h1 h2 h3 => ?_, fun δ hδ hgap => ?_, fun hmono h1 hs => ?_⟩
  · unfold satisfiedFl satisfied tol
    rw [h1, h2, h3]
  · unfold satisfiedFl satisfied tol
    rw [absR_eq_abs]
    have e1 := abs_le.mp (hδ (violation c r))
    have e2 := abs_le.mp (hδ (rtol * |c.rhs|))
    have e3 := abs_le.mp (hδ (atol + fl (rtol * |c.rhs|)))
    rw [decide_eq_decide]
    rcases lt_or_ge (violation c r) (atol + rtol * |c.rhs|) with hlt | hge
    · rw [abs_of_neg (by linarith)] at hgap
      constructor <;> intro _ <;> linarith [e1.1, e1.2, e2.1, e2.2, e3.1, e3.2]
    · rw [abs_of_nonneg (by linarith)] at hgap
      constructor <;> intro _ <;> linarith [e1.1, e1.2, e2.1, e2.2, e3.1, e3.2]
  · unfold satisfiedFl
    unfold satisfied tol at hs
    rw [h1]
    exact decide_eq_true (hmono _ _ (of_decide_eq_true hs))

/-- **`from_samples_cqm` with its first branch.**  `len(samples_like) == 0` (the length of the ARGUMENT: number of rows for an
    array or list, 2 for a `(samples, labels)` pair, number of variables for one dict) returns an empty sample set — one column
    of `is_satisfied` per constraint, nothing evaluated, no `constraint_labels` in `info`; any other argument goes through the
    loop, which is the definition (`vectorised_eq_def`).  The number of `is_satisfied` columns is the number of constraints in
    both branches. -/
theorem from_samples_cqm_branches (lenArg n : Nat) (atol rtol : Rat) (garbage : Nat → Nat → Bool) (obj : Nat → Rat) (cs : List CEval) :
    (fromSamplesCqmTop lenArg n atol rtol garbage obj cs).1.isSatisfied.length = cs.length
    ∧ (lenArg ≠ 0 → fromSamplesCqmTop lenArg n atol rtol garbage obj cs = (fromSamplesCqm n atol rtol garbage obj cs, true))
    ∧ (lenArg = 0 → fromSamplesCqmTop lenArg n atol rtol garbage obj cs = (emptyResult obj cs, false)) := by
  refine ⟨?_, fun h => by unfold fromSamplesCqmTop; rw [if_neg h], fun h => by unfold fromSamplesCqmTop; rw [if_pos h]⟩
  unfold fromSamplesCqmTop
  split
  · simp [emptyResult]
  · simp [vec_isSatisfied]

/-- **`ExactCQMSolver.sample_cqm`** on the CQM model after any history: it raises iff a variable outside the discrete
    constraints is REAL (only when there is a variable at all); a model without variables gives the empty sample set
    *without* feasibility fields; otherwise, for every enumerated case `r` (rows in the order `_all_cases_cqm` produces them,
    columns `d_vars + var_list`), `is_satisfied`, `is_feasible` and `energy` are the definition applied to the values of the
    polynomials at that case, and `constraint_labels` is present. -/
theorem exact_solver_agrees (ops : List Cqm.Op) (hops : ∀ op ∈ ops, CqmP.OpOK op) (atol rtol : Rat) (garbage : Nat → Nat → Bool) :
    let m := ({} : Cqm).run ops
    (exactSolve m atol rtol garbage = .noFields ↔ m.vt.length = 0)
    ∧ (exactSolve m atol rtol garbage = .raises ↔ m.vt.length ≠ 0 ∧ exactCases m = none)
    ∧ (∀ cases res lbl, exactSolve m atol rtol garbage = .result cases res lbl →
        exactCases m = some cases ∧ lbl = true ∧
        let rows := rowsOfCases (exactColumns m) cases
        res.isSatisfied = (defCons m rows).map (fun c r => satisfied atol rtol c r)
        ∧ ∀ r, r < cases.length →
            res.isFeasible r = feasible atol rtol (defCons m rows) r
            ∧ res.energies r = energy atol rtol (fun r => polyValue m.obj (rows r)) (defCons m rows) r) := by
  intro m
  refine ⟨?_, ?_, ?_⟩
  · unfold exactSolve
    split
    · simp [*]
    · split <;> simp [*]
  · unfold exactSolve
    split
    · simp [*]
    · split <;> simp [*]
  · intro cases res lbl h
    unfold exactSolve at h
    split at h
    · cases h
    · split at h
      · cases h
      · rename_i cs' hc
        simp only [ExactOut.result.injEq] at h
        obtain ⟨rfl, rfl, rfl⟩ := h
        refine ⟨hc, by simp [fromSamplesCqmTop], ?_⟩
        intro rows
        have hx := fun r hr => exact_cqm_agrees ops hops cs'.length atol rtol garbage rows r hr
        have htop : (fromSamplesCqmTop 2 cs'.length atol rtol garbage (evalObj m rows) (evalCons m rows)).1
            = fromSamplesCqm cs'.length atol rtol garbage (evalObj m rows) (evalCons m rows) := by
          simp [fromSamplesCqmTop]
        rw [htop]
        refine ⟨?_, fun r hr => ⟨(hx r hr).2.1, (hx r hr).2.2.1⟩⟩
        have hwf : CqmP.CqmWF m := CqmP.run_wf ops CqmP.cqmWF_empty hops
        rw [evalCons_eq_def hwf, vec_isSatisfied]

/-- **The source's own branch tables are the definition** (tie to the code: `Generated/FeasTable.lean` is rewritten from the
    source on every run by `harness/translators/c08_feas_table.py`).  The `if sense is Sense.X: violation = …` chains of
    `iter_constraint_data` and of `from_samples_cqm` both compute the definition's `violation` for every sense (no sense falls
    through to `RuntimeError`); `check_feasible`, `from_samples_cqm` and `ExactCQMSolver.sample_cqm` have the same default
    tolerances, the binary64 values of `1e-6` and `1e-8` (each within 2⁻⁵² relative of the decimal); both satisfaction tests are
    `violation <= atol + rtol*abs(rhs)`; `skip_satisfied` keeps `violation > 0`; the penalty names are `linear` (violation) and
    `quadratic` (violation²).  Any change of one of these in the source changes the generated file and breaks this theorem. -/
theorem generated_tables_are_the_definition (c : CEval) (r : Nat) :
    violationByTable Generated.FeasTable.perSample c r = some (violation c r)
    ∧ violationByTable Generated.FeasTable.vectorised c r = some (violation c r)
    ∧ (∀ p ∈ Generated.FeasTable.defaults, p.2 = (defaultRtol, defaultAtol))
    ∧ Generated.FeasTable.defaults.map (·.1) = ["check_feasible", "from_samples_cqm", "ExactCQMSolver.sample_cqm"]
    ∧ |defaultRtol - 1 / 1000000| ≤ 1 / 1000000 / 2 ^ 52 ∧ |defaultAtol - 1 / 100000000| ≤ 1 / 100000000 / 2 ^ 52
    ∧ Generated.FeasTable.satTest = [("check_feasible", "LtE", "atol+rtol*abs(rhs)"), ("from_samples_cqm", "LtE", "atol+rtol*abs(rhs)")]
    ∧ Generated.FeasTable.skipOp = "Gt"
    ∧ Generated.FeasTable.penalties = [("linear", 1), ("quadratic", 2)] := by
  refine ⟨?_, ?_, by decide +kernel, by decide +kernel, ?_, ?_, by decide +kernel, by decide +kernel, by decide +kernel⟩
  · unfold violationByTable violation
    cases h : c.sense <;> simp [Generated.FeasTable.perSample, senseName, evalForm]
  · unfold violationByTable violation
    cases h : c.sense <;> simp [Generated.FeasTable.vectorised, senseName, evalForm]
  · unfold defaultRtol; rw [abs_le]; constructor <;> norm_num
  · unfold defaultAtol; rw [abs_le]; constructor <;> norm_num

/-- **The single-sample guard.**  Every per-sample report starts with `if sample.shape[0] != 1: raise ValueError`: with any
    number of rows other than one `iter_constraint_data`, `iter_violations` (hence `violations`) and `check_feasible` raise
    before yielding anything; with exactly one row they are the reports of the theorems above. -/
theorem single_sample_guard (nrows : Nat) (skip clip : Bool) (labels : Option (List Label)) (atol rtol : Rat) (cs : List CEval) (r : Nat) :
    (nrows ≠ 1 → iterConstraintDataG nrows labels cs r = ([], true) ∧ iterViolationsG nrows skip clip labels cs r = ([], true)
        ∧ checkFeasibleG nrows atol rtol cs r = none)
    ∧ (nrows = 1 → iterConstraintDataG nrows labels cs r = iterConstraintDataL labels cs r
        ∧ iterViolationsG nrows skip clip labels cs r = (reportDef skip clip (selectCons labels cs).1 r, (selectCons labels cs).2)
        ∧ checkFeasibleG nrows atol rtol cs r = some (feasible atol rtol cs r)) := by
  refine ⟨fun h => ?_, fun h => ?_⟩
  · simp [iterConstraintDataG, iterViolationsG, checkFeasibleG, h]
  · subst h
    refine ⟨by simp [iterConstraintDataG], ?_, by simp [checkFeasibleG, checkFeasible_eq]⟩
    simp only [iterViolationsG, ne_eq, not_true_eq_false, if_false]
    exact (options_eq_def skip clip labels cs r).1

/-- **Samples wider than the model.**  `_cyExpression._energies` gathers, for every row, the expression's variables BY LABEL
    from the labelled sample array (`reindex[i] = labels.index(…)`, `samples[:, reindex]`) and hands that sub-sample, in the
    expression's private order, to `abc::energy`.  So the energy of a row is the value of the expression at the assignment
    "label ↦ the row's entry in that label's column" (`sampleVal`; the column of a label is found wherever it stands), and two
    labelled samples that give the same value to every variable of the expression — with superfluous columns before, between
    or after, in any column order — give the same energy; every report of this file is a function of those energies. -/
theorem samples_wider_than_model (modelLabels s1 s2 : List Label) (r1 r2 : List Rat) (e : Expr)
    (hlen : e.qb.lin.length = e.vars.length) :
    exprEnergyOfSample modelLabels s1 r1 e = exprEnergy e (fun g => sampleVal s1 r1 (modelLabels.getD g (.int 0)))
    ∧ ((∀ g ∈ e.vars, sampleVal s1 r1 (modelLabels.getD g (.int 0)) = sampleVal s2 r2 (modelLabels.getD g (.int 0))) →
        exprEnergyOfSample modelLabels s1 r1 e = exprEnergyOfSample modelLabels s2 r2 e)
    ∧ (s1.Nodup → ∀ j l, s1[j]? = some l → sampleVal s1 r1 l = r1.getD j 0) := by
  refine ⟨exprEnergyOfSample_eq modelLabels s1 r1 e hlen, fun h => ?_, fun hnd j l hj => sampleVal_get hnd r1 hj⟩
  unfold exprEnergyOfSample
  have : gatherRow modelLabels s1 r1 e = gatherRow modelLabels s2 r2 e := by
    unfold gatherRow
    exact List.map_congr_left h
  rw [this]

/-- objective `x + 2·i` over model labels [x, i]: the sample `[9, x=1, 7, i=3]` with two superfluous columns and the sample
    `[i=3, x=1]` in another order both give 7 -/
example :
    let e : Expr := { vars := [0, 1], idx := [(0, 0), (1, 1)], qb := { lin := [1, 2], adj := [[], []], off := 0 } }
    exprEnergyOfSample [.str "x", .str "i"] [.str "a", .str "x", .str "b", .str "i"] [9, 1, 7, 3] e = 7
    ∧ exprEnergyOfSample [.str "x", .str "i"] [.str "i", .str "x"] [3, 1] e = 7
    ∧ gatherMissing [.str "x", .str "i"] [.str "i"] e = true := by decide +kernel

/-- row 1 of `demo` (`soft` x+y<=1 met, `hard` x−y>=0 violated by 1): nothing soft is violated, the one hard constraint is
    listed by `skip_satisfied`, `check_feasible` is False at tolerance 0 and True at `atol = 1`; the float test with an exact
    `fl` is the rational one; a 2-variable one-hot row satisfies its discrete constraint -/
example : hardListed false demo 1 = [.str "hard"] ∧ hardListed true demo 0 = [] ∧ checkFeasible 0 0 demo 1 = false
    ∧ checkFeasible 1 0 demo 1 = true ∧ (demo.map (satisfiedFl id 0 0 · 1)) = [true, false, true] := by decide +kernel

/-! ## Round 8: one sample given as an (empty) mapping -/

/-- **`from_samples_cqm` agrees with the per-sample reports for EVERY sample, the empty dict included.**  With the repaired first
    branch (`not isinstance(samples_like, abc.Mapping) and len(samples_like) == 0`) one sample given as a mapping — whatever its
    length, so also `{}` for a model without variables — goes through the loop: `constraint_labels` is present, there is one
    `is_satisfied` column per constraint, and for row 0 (distinct constraint labels) `is_feasible` is `check_feasible` of the same
    sample, every `is_satisfied` entry is the definition's `satisfied`, the energy is the definition's.  An argument that is not a
    mapping behaves as before (`fromSamplesCqmTop`, theorem `from_samples_cqm_branches`). -/
theorem from_samples_cqm_one_mapping_sample (lenArg n : Nat) (atol rtol : Rat) (garbage : Nat → Nat → Bool) (obj : Nat → Rat)
    (cs : List CEval) (hnd : (cs.map (·.label)).Nodup) (hn : 0 < n) :
    fromSamplesCqmArg true lenArg n atol rtol garbage obj cs = (fromSamplesCqm n atol rtol garbage obj cs, true)
    ∧ fromSamplesCqmArg false lenArg n atol rtol garbage obj cs = fromSamplesCqmTop lenArg n atol rtol garbage obj cs
    ∧ (fromSamplesCqmArg true lenArg n atol rtol garbage obj cs).1.isSatisfied.length = cs.length
    ∧ ((fromSamplesCqmArg true lenArg n atol rtol garbage obj cs).1.isFeasible 0 = checkFeasible atol rtol cs 0)
    ∧ ((fromSamplesCqmArg true lenArg n atol rtol garbage obj cs).1.isFeasible 0 = true
        ↔ ∀ c ∈ cs, c.weight = none → violation c 0 ≤ atol + rtol * |c.rhs|) := by
  have h1 : fromSamplesCqmArg true lenArg n atol rtol garbage obj cs = (fromSamplesCqm n atol rtol garbage obj cs, true) := by
    simp [fromSamplesCqmArg]
  have hx := feasibility_cross_consistent n atol rtol garbage obj cs hnd 0 hn
  refine ⟨h1, ?_, ?_, ?_, ?_⟩
  · unfold fromSamplesCqmArg fromSamplesCqmTop
    by_cases h : lenArg = 0 <;> simp [h]
  · rw [h1]; simp [vec_isSatisfied]
  · rw [h1]
    cases hc : checkFeasible atol rtol cs 0 with
    | true => exact hx.2.1.mpr (hx.1.mp hc)
    | false =>
      cases hf : (fromSamplesCqm n atol rtol garbage obj cs).isFeasible 0 with
      | false => rfl
      | true => exact absurd (hx.1.mpr (hx.2.1.mp hf)) (by simp [hc])
  · rw [h1]; exact hx.2.1

/-- a model without variables: objective 3/2, hard `2 <= 1` (violated), soft `1/2 <= 1` (met): the empty dict is one row,
    infeasible, first constraint not satisfied, second satisfied; the empty LIST has no rows -/
example :
    let cs : List CEval := [{ label := .str "c", lhs := fun _ => 2, rhs := 1, sense := .le, weight := none, quad := false },
                            { label := .str "d", lhs := fun _ => 1/2, rhs := 1, sense := .le, weight := some 2, quad := false }]
    let res := fromSamplesCqmArg true 0 1 0 0 (fun _ _ => true) (fun _ => 3/2) cs
    res.2 = true ∧ res.1.isFeasible 0 = false ∧ res.1.isSatisfied.map (· 0) = [false, true] ∧ res.1.energies 0 = 3/2
    ∧ (fromSamplesCqmArg false 0 0 0 0 (fun _ _ => true) (fun _ => 3/2) cs).2 = false := by decide +kernel

end C08
