import DimodProofs.FeasCqm
import DimodProofs.FeasOptions

/-! # C08 — CQM feasibility and violation reports agree with the constraint definition

Model: `DimodModel/Feasibility.lean` (namespace `Feas`):
* the definition — `activity`, `violation`, `satisfied`, `feasible`, `energy`;
* the per-sample implementation — `iterConstraintData`, `iterViolations`, `checkFeasible`
  (`constrained.py`), and `iterConstraintDataL` / `iterViolationsL` with the `labels=` argument;
* the vectorised implementation — `fromSamplesCqm` (`SampleSet.from_samples_cqm`) with the
  `is_satisfied.all()` short-cut over the whole `np.empty` array (`garbage` = the content of the
  columns not yet written) and the `soft` label set;
* `exprEnergy` — `_cyExpression._energies` with its branch for an expression without variables.

All statements are for every list of constraints, every number of rows `n`, every tolerance, every
content of the uninitialised array. Numbers are `Rat` (an ordered field; the harness feeds dyadic
rationals on which float64 arithmetic is exact). -/

namespace C08
open Feas

/-- Per-sample path = definition: every field of `iter_constraint_data`, the three modes of
    `iter_violations` / `violations`, and `check_feasible`. -/
theorem perSample_eq_def (atol rtol : Rat) (cs : List CEval) (r : Nat) :
    (iterConstraintData cs r).map (fun d => (d.label, d.lhsEnergy, d.rhsEnergy, d.sense, d.activity, d.violation))
        = cs.map (fun c => (c.label, c.lhs r, c.rhs, c.sense, activity c r, violation c r))
    ∧ iterViolations false false cs r = cs.map (fun c => (c.label, violation c r))
    ∧ (∀ clip, iterViolations true clip cs r
        = (cs.filter (fun c => decide (violation c r > 0))).map (fun c => (c.label, violation c r)))
    ∧ iterViolations false true cs r = cs.map (fun c => (c.label, maxR (violation c r) 0))
    ∧ checkFeasible atol rtol cs r = feasible atol rtol cs r := by
  refine ⟨?_, iterViolations_plain cs r, fun clip => iterViolations_skip clip cs r, iterViolations_clip cs r,
    checkFeasible_eq atol rtol cs r⟩
  unfold iterConstraintData
  rw [List.map_map]
  apply List.map_congr_left
  intro c _
  simp only [Function.comp, datum_violation, datum_activity]
  rfl

/-- **The `labels=` argument** of `iter_constraint_data` / `iter_violations` (`Feas.selectCons`).
    * `labels=None` (the default) is the plain call: every constraint, in model order.
    * An explicit **empty** selection visits nothing (it is *not* the default).
    * Known labels `ls`: exactly those constraints are visited, **in the order given**; each visited constraint is a
      constraint of the model (with distinct labels: *the* one with that label), so by `perSample_eq_def` on the selection
      every field yielded is the definition's; the three modes of `iter_violations` are those of the plain call on the
      selection.
    * A label that is no constraint ends the iteration with `ValueError`. -/
theorem perSample_labels (cs : List CEval) (hnd : (cs.map (·.label)).Nodup) (r : Nat) :
    (iterConstraintDataL none cs r = (iterConstraintData cs r, false)
      ∧ ∀ skip clip, iterViolationsL skip clip none cs r = (iterViolations skip clip cs r, false))
    ∧ (iterConstraintDataL (some []) cs r = ([], false) ∧ ∀ skip clip, iterViolationsL skip clip (some []) cs r = ([], false))
    ∧ (∀ ls, (∀ l ∈ ls, ∃ c ∈ cs, c.label = l) →
        ∃ sel, sel.map (·.label) = ls ∧ (∀ c ∈ sel, c ∈ cs ∧ ∀ c' ∈ cs, c'.label = c.label → c' = c)
          ∧ iterConstraintDataL (some ls) cs r = (iterConstraintData sel r, false)
          ∧ (iterConstraintData sel r).map (fun d => (d.label, d.lhsEnergy, d.rhsEnergy, d.sense, d.activity, d.violation))
              = sel.map (fun c => (c.label, c.lhs r, c.rhs, c.sense, activity c r, violation c r))
          ∧ ∀ skip clip, iterViolationsL skip clip (some ls) cs r = (iterViolations skip clip sel r, false))
    ∧ (∀ ls, (∃ l ∈ ls, ∀ c ∈ cs, c.label ≠ l) →
        (iterConstraintDataL (some ls) cs r).2 = true ∧ ∀ skip clip, (iterViolationsL skip clip (some ls) cs r).2 = true) := by
  refine ⟨⟨rfl, fun _ _ => rfl⟩, ⟨rfl, fun skip clip => ?_⟩, ?_, ?_⟩
  · unfold iterViolationsL selectCons selectGo iterViolations iterConstraintData
    cases skip <;> cases clip <;> rfl
  · intro ls hls
    obtain ⟨a1, a2, a3⟩ := selectGo_known cs ls hls
    refine ⟨(selectGo cs ls).1, a2, fun c hc => ⟨a3 c hc, fun c' hc' h => selectGo_unique cs hnd ls c hc c' hc' h⟩, ?_,
      (perSample_eq_def 0 0 _ r).1, fun skip clip => ?_⟩
    · show (iterConstraintData (selectGo cs ls).1 r, (selectGo cs ls).2) = _
      rw [a1]
    · show (iterViolations skip clip (selectGo cs ls).1 r, (selectGo cs ls).2) = _
      rw [a1]
  · intro ls hls
    exact ⟨selectGo_unknown cs ls hls, fun _ _ => selectGo_unknown cs ls hls⟩

/-- Vectorised path = definition, whatever the uninitialised part of `is_satisfied` holds: the
    short-cut `not is_satisfied.all()` never changes a result (when it skips a soft constraint, that
    constraint's column is all-true, so its penalty is 0 on every row and counting it as hard is
    harmless).  Constraint labels are distinct, as `constraint_labels` guarantees. -/
theorem vectorised_eq_def (n : Nat) (atol rtol : Rat) (garbage : Nat → Nat → Bool) (obj : Nat → Rat)
    (cs : List CEval) (hnd : (cs.map (·.label)).Nodup) :
    (fromSamplesCqm n atol rtol garbage obj cs).isSatisfied = cs.map (fun c r => satisfied atol rtol c r)
    ∧ (∀ r, r < n → (fromSamplesCqm n atol rtol garbage obj cs).isFeasible r = feasible atol rtol cs r)
    ∧ (∀ r, r < n → (fromSamplesCqm n atol rtol garbage obj cs).energies r = energy atol rtol obj cs r) :=
  ⟨vec_isSatisfied n atol rtol garbage obj cs,
   fun r hr => vec_isFeasible n atol rtol garbage obj cs hnd r hr,
   fun r hr => vec_energy n atol rtol garbage obj cs r hr⟩

/-- The short-cut is irrelevant: two runs with different uninitialised memory give the same rows. -/
theorem shortcut_irrelevant (n : Nat) (atol rtol : Rat) (g1 g2 : Nat → Nat → Bool) (obj : Nat → Rat)
    (cs : List CEval) (hnd : (cs.map (·.label)).Nodup) (r : Nat) (hr : r < n) :
    (fromSamplesCqm n atol rtol g1 obj cs).isFeasible r = (fromSamplesCqm n atol rtol g2 obj cs).isFeasible r
    ∧ (fromSamplesCqm n atol rtol g1 obj cs).energies r = (fromSamplesCqm n atol rtol g2 obj cs).energies r
    ∧ (fromSamplesCqm n atol rtol g1 obj cs).isSatisfied = (fromSamplesCqm n atol rtol g2 obj cs).isSatisfied := by
  obtain ⟨s1, f1, e1⟩ := vectorised_eq_def n atol rtol g1 obj cs hnd
  obtain ⟨s2, f2, e2⟩ := vectorised_eq_def n atol rtol g2 obj cs hnd
  exact ⟨by rw [f1 r hr, f2 r hr], by rw [e1 r hr, e2 r hr], by rw [s1, s2]⟩

/-- The two paths agree with each other: `check_feasible` on a row is `is_feasible` of that row, and
    a constraint's `violation <= atol + rtol*|rhs_energy|` is its `is_satisfied` entry. -/
theorem paths_agree (n : Nat) (atol rtol : Rat) (garbage : Nat → Nat → Bool) (obj : Nat → Rat)
    (cs : List CEval) (hnd : (cs.map (·.label)).Nodup) (r : Nat) (hr : r < n) :
    checkFeasible atol rtol cs r = (fromSamplesCqm n atol rtol garbage obj cs).isFeasible r
    ∧ (iterConstraintData cs r).map (fun d => decide (d.violation ≤ atol + rtol * absR d.rhsEnergy))
        = (fromSamplesCqm n atol rtol garbage obj cs).isSatisfied.map (· r) := by
  obtain ⟨s, f, _⟩ := vectorised_eq_def n atol rtol garbage obj cs hnd
  refine ⟨by rw [f r hr, checkFeasible_eq], ?_⟩
  rw [s]
  unfold iterConstraintData
  rw [List.map_map, List.map_map]
  apply List.map_congr_left
  intro c _
  simp only [Function.comp, datum_violation]
  rfl

/-- Constant-only expressions are evaluated like any other: what `_energies` returns for an expression
    is the value of its polynomial at the row — in particular the offset when it has no variables. -/
theorem constant_only_ok (e : Expr) (row : Nat → Rat) (hlen : e.qb.lin.length = e.vars.length) :
    exprEnergy e row = polyValue e row ∧ (e.vars = [] → exprEnergy e row = e.qb.off) := by
  refine ⟨exprEnergy_eq_polyValue e row hlen, ?_⟩
  intro h
  unfold exprEnergy exprEnergyWith
  simp [h]

/-- End to end on the CQM model of C05: after **any history** of public mutations (`Cqm.run`), for any rows,
    tolerances and uninitialised memory, what `from_samples_cqm` (hence `ExactCQMSolver.sample_cqm`, which hands
    its enumerated cases to it — the enumeration itself is property C07's) and `check_feasible` report is the
    definition applied to the *values of the polynomials* the objective and the constraints denote — constant-only
    expressions included. -/
theorem exact_cqm_agrees (ops : List Cqm.Op) (hops : ∀ op ∈ ops, CqmP.OpOK op)
    (n : Nat) (atol rtol : Rat) (garbage : Nat → Nat → Bool) (rows : Nat → Nat → Rat) (r : Nat) (hr : r < n) :
    let m := ({} : Cqm).run ops
    (fromSamplesCqm n atol rtol garbage (evalObj m rows) (evalCons m rows)).isSatisfied
        = (defCons m rows).map (fun c r => satisfied atol rtol c r)
    ∧ (fromSamplesCqm n atol rtol garbage (evalObj m rows) (evalCons m rows)).isFeasible r
        = feasible atol rtol (defCons m rows) r
    ∧ (fromSamplesCqm n atol rtol garbage (evalObj m rows) (evalCons m rows)).energies r
        = energy atol rtol (fun r => polyValue m.obj (rows r)) (defCons m rows) r
    ∧ checkFeasible atol rtol (evalCons m rows) r = feasible atol rtol (defCons m rows) r := by
  intro m
  have hwf : CqmP.CqmWF m := CqmP.run_wf ops CqmP.cqmWF_empty hops
  have hlab : CqmP.CqmLabelsOK m := CqmP.run_labels ops ⟨List.nodup_nil, List.nodup_nil⟩
  have hnd : ((defCons m rows).map (·.label)).Nodup := by rw [labels_defCons hwf]; exact hlab.clabels_nodup
  have h := vectorised_eq_def n atol rtol garbage (fun r => polyValue m.obj (rows r)) (defCons m rows) hnd
  rw [evalCons_eq_def hwf, evalObj_eq_def hwf]
  exact ⟨h.1, h.2.1 r hr, h.2.2 r hr, checkFeasible_eq atol rtol _ r⟩

/-! ## every option combination of `iter_violations` / `violations` (`skip_satisfied` × `clip` × `labels=`) -/

/-- **Reported set / value = definition for every option combination.**  For every `skip_satisfied`, `clip` and `labels=`
    (None, any selection, with repeats, with unknown labels), `iter_violations` as coded (three loops) yields, over the
    constraints `labels=` selects and in that order, exactly `Feas.reportDef`: a constraint is listed iff `skip_satisfied` is
    off or its violation (the definition's) is strictly positive, and the value listed is the violation, replaced by 0 when
    `clip` is on and it is negative — in particular with BOTH options a strictly slack inequality is skipped, not listed with
    0.  `violations(…)` (`dict(iter_violations(…))`) is the same list when constraint labels are distinct, as
    `constraint_labels` guarantees. -/
theorem options_eq_def (skip clip : Bool) (labels : Option (List Label)) (cs : List CEval) (r : Nat) :
    iterViolationsL skip clip labels cs r = (reportDef skip clip (selectCons labels cs).1 r, (selectCons labels cs).2)
    ∧ iterViolations skip clip cs r = reportDef skip clip cs r
    ∧ ((cs.map (·.label)).Nodup → violationsDict skip clip cs r = reportDef skip clip cs r) := by
  refine ⟨?_, iterViolations_eq_reportDef skip clip cs r, fun hnd => ?_⟩
  · unfold iterViolationsL
    rw [iterViolations_eq_reportDef]
  · unfold violationsDict
    rw [iterViolations_eq_reportDef]
    exact dictOf_nodup _ (hnd.sublist (reportDef_labels_sublist skip clip cs r))

/-- The reported *set*: with `skip_satisfied` (whatever `clip`) a pair is yielded iff it is (label, violation) of a
    constraint whose violation is strictly positive; without it every constraint is yielded; with `clip` no yielded value
    is negative, and a yielded value differs from the violation only where the violation is negative. -/
theorem options_reported_set (clip : Bool) (cs : List CEval) (r : Nat) :
    (∀ l v, (l, v) ∈ iterViolations true clip cs r ↔ ∃ c ∈ cs, c.label = l ∧ violation c r = v ∧ v > 0)
    ∧ (∀ skip, (iterViolations false skip cs r).map Prod.fst = cs.map (·.label))
    ∧ (∀ skip, ∀ p ∈ iterViolations skip true cs r, 0 ≤ p.2)
    ∧ (∀ skip l v, (l, v) ∈ iterViolations skip clip cs r → ∃ c ∈ cs, c.label = l ∧ (v = violation c r ∨ (violation c r < 0 ∧ v = 0))) := by
  refine ⟨fun l v => ?_, fun clip' => ?_, fun skip p hp => ?_, fun skip l v h => ?_⟩
  · rw [iterViolations_eq_reportDef, mem_reportDef]
    constructor
    · rintro ⟨c, hc, hl, hs, hv⟩
      have hpos := hs rfl
      refine ⟨c, hc, hl, ?_, ?_⟩
      · cases clip
        · simpa using hv.symm
        · simp only [if_true] at hv; rw [hv, maxR_of_pos hpos]
      · cases clip
        · simp only [Bool.false_eq_true, if_false] at hv; rw [hv]; exact hpos
        · simp only [if_true] at hv; rw [hv, maxR_of_pos hpos]; exact hpos
    · rintro ⟨c, hc, hl, hv, hpos⟩
      refine ⟨c, hc, hl, fun _ => hv ▸ hpos, ?_⟩
      cases clip
      · simpa using hv.symm
      · simp only [if_true]; rw [maxR_of_pos (hv ▸ hpos)]; exact hv.symm
  · rw [iterViolations_eq_reportDef]
    unfold reportDef
    simp [List.map_map, Function.comp_def]
  · rw [iterViolations_eq_reportDef] at hp
    obtain ⟨l, v⟩ := p
    obtain ⟨c, _, _, _, hv⟩ := (mem_reportDef skip true cs r l v).mp hp
    simp only [if_true] at hv
    rw [hv]
    exact maxR_nonneg _
  · rw [iterViolations_eq_reportDef] at h
    obtain ⟨c, hc, hl, _, hv⟩ := (mem_reportDef skip clip cs r l v).mp h
    refine ⟨c, hc, hl, ?_⟩
    cases clip
    · left; simpa using hv
    · simp only [if_true] at hv
      unfold maxR at hv
      split at hv
      · right; exact ⟨by assumption, hv⟩
      · left; exact hv

/-- **Tolerances over `Rat`** (any rationals — the documented defaults `1e-6`, `1e-8` taken as the exact values of those
    floats included): satisfied iff `violation ≤ atol + rtol·|rhs|` with the mathematical absolute value; a violation exactly
    at the tolerance is satisfied; enlarging either (non-negatively weighted) tolerance never turns a satisfied constraint
    unsatisfied, so `check_feasible` is monotone in both. -/
theorem tolerance_rat (atol rtol : Rat) (c : CEval) (r : Nat) :
    (satisfied atol rtol c r = true ↔ violation c r ≤ atol + rtol * |c.rhs|)
    ∧ (violation c r = atol + rtol * |c.rhs| → satisfied atol rtol c r = true)
    ∧ (∀ atol' rtol', atol ≤ atol' → rtol ≤ rtol' → satisfied atol rtol c r = true → satisfied atol' rtol' c r = true)
    ∧ (∀ atol' rtol' cs, atol ≤ atol' → rtol ≤ rtol' → checkFeasible atol rtol cs r = true → checkFeasible atol' rtol' cs r = true) := by
  have habs : ∀ x : Rat, absR x = |x| := by
    intro x
    unfold absR
    split
    · rename_i h; exact (abs_of_neg h).symm
    · rename_i h; exact (abs_of_nonneg (not_lt.mp h)).symm
  have hiff : ∀ a b : Rat, (satisfied a b c r = true ↔ violation c r ≤ a + b * |c.rhs|) := by
    intro a b
    unfold satisfied tol
    rw [habs]
    exact decide_eq_true_iff
  have hmono : ∀ (c : CEval) (a b a' b' : Rat), a ≤ a' → b ≤ b' → satisfied a b c r = true → satisfied a' b' c r = true := by
    intro c a b a' b' ha hb h
    unfold satisfied tol at h ⊢
    rw [habs] at h ⊢
    have h1 := of_decide_eq_true h
    apply decide_eq_true
    have : b * |c.rhs| ≤ b' * |c.rhs| := mul_le_mul_of_nonneg_right hb (abs_nonneg _)
    linarith
  refine ⟨hiff atol rtol, fun h => (hiff atol rtol).mpr (le_of_eq h), fun a' b' ha hb h => hmono c _ _ _ _ ha hb h, ?_⟩
  intro a' b' cs ha hb h
  rw [checkFeasible_eq] at h ⊢
  unfold feasible at h ⊢
  rw [List.all_eq_true] at h ⊢
  intro c' hc'
  have := h c' hc'
  rcases Bool.or_eq_true _ _ |>.mp this with h1 | h2
  · simp [h1]
  · simp [hmono c' _ _ _ _ ha hb h2]


/-! ## non-vacuity and the defects the model was built against -/

/-- objective x + y, soft `x + y <= 1` (weight 2, linear), hard `x - y >= 0`, constant-only hard `3 <= 5` -/
def demo : List CEval :=
  [ { label := .str "soft", sense := .le, rhs := 1, weight := some 2, quad := false, lhs := fun r => [2, 1, 0].getD r 0 },
    { label := .str "hard", sense := .ge, rhs := 0, weight := none, quad := false, lhs := fun r => [0, -1, 0].getD r 0 },
    { label := .str "const", sense := .le, rhs := 5, weight := none, quad := false, lhs := fun _ => 3 } ]
def demoObj : Nat → Rat := fun r => [2, 1, 0].getD r 0

-- rows (1,1), (0,1), (0,0): feasible / infeasible / feasible; energies 2 + 2·1, 1, 0
example : (List.range 3).map (feasible 0 0 demo) = [true, false, true] := by decide +kernel
example : (List.range 3).map (energy 0 0 demoObj demo) = [4, 1, 0] := by decide +kernel
example : (List.range 3).map (fromSamplesCqm 3 0 0 (fun _ _ => true) demoObj demo).energies = [4, 1, 0] := by decide +kernel
/-- D36: before the repair `check_feasible` also demanded the soft constraints -/
example : checkFeasibleWith false 0 0 demo 0 = false ∧ feasible 0 0 demo 0 = true := by decide +kernel
/-- D2: before the repair an expression without variables evaluated to 0 instead of its offset -/
example : exprEnergyWith false { qb := { off := 3 } } (fun _ => 0) = 0
    ∧ exprEnergy { qb := { off := 3 } } (fun _ => 0) = 3 := by decide +kernel

/-- `labels=`: order given, repeats, the empty selection, an unknown label -/
example : (iterViolationsL false false (some [.str "hard", .str "soft", .str "hard"]) demo 1)
      = ([(.str "hard", 1), (.str "soft", 0), (.str "hard", 1)], false)
    ∧ (iterViolationsL false false (some []) demo 1) = ([], false)
    ∧ (iterViolationsL false false none demo 1).1.length = 3
    ∧ (iterConstraintDataL (some [.str "soft", .str "nope", .str "hard"]) demo 1).2 = true := by decide +kernel

/-- the option logic is not vacuous: the collapsed single loop (clip test first, skip test in its `elif`) is a different
    function — on row 2 (`soft`: 0 ≤ 1 with slack 1, `hard`: 0 ≥ 0 met exactly, `const`: 3 ≤ 5 with slack 2) with both options
    it lists the two strictly slack inequalities with 0, the code as written lists nothing -/
example : iterViolations true true demo 2 = [] ∧ reportDef true true demo 2 = []
    ∧ iterViolationsOneLoop true true demo 2 = [(.str "soft", 0), (.str "const", 0)]
    ∧ iterViolations false true demo 2 = [(.str "soft", 0), (.str "hard", 0), (.str "const", 0)]
    ∧ iterViolations true false demo 1 = [(.str "hard", 1)]
    ∧ violationsDict true true demo 1 = [(.str "hard", 1)] := by decide +kernel

end C08
