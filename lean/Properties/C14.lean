import DimodProofs.Aggregate
import DimodProofs.Slice
import DimodProofs.Stack
import DimodProofs.SampleSetMore
import DimodProofs.AsSamplesDispatch
import DimodProofs.SortStable
import DimodProofs.SamplesObject
import Generated.SamplesState

/-! # C14 — sample-set operations move whole rows and columns and never alter data

Model: `DimodModel/SampleSet.lean` (`SSM`), mirror of `dimod/sampleset.py`: a record array is a
list of `Row`s; `gather` = integer-array indexing, `maskSelect` = boolean indexing, `sliceIndices` =
basic slicing.  `np.unique` and `np.argsort` enter as *specified* functions: every theorem that uses
them holds for any result satisfying the contract (`UniqueSpec`, `IsSortingPerm`). -/

namespace C14
open SSM

/-! ## aggregate -/

/-- `aggregate()` — the code (np.unique, argsort of the first indices, scatter of the inverse,
    accumulation loop) computes the specification `aggSpec`, whatever order `np.unique` lists the
    distinct rows in -/
theorem aggregate_spec (rows : List Row) (U : Unique) (hU : UniqueSpec (rows.map (·.sample)) U) :
    aggregateWith U rows = aggSpec rows :=
  aggregateWith_eq_aggSpec rows U hU

/-- the executable `np.unique` of the model satisfies the contract, so the model's `aggregate` is the
    specification -/
theorem aggregate_model_spec (s : SS) : s.aggregate.rows = aggSpec s.rows ∧ s.aggregate.labels = s.labels ∧
    s.aggregate.vt = s.vt ∧ s.aggregate.fields = s.fields :=
  ⟨aggregateWith_eq_aggSpec s.rows _ (npUnique_spec _), rfl, rfl, rfl⟩

/-- first-seen order, no duplicates left -/
theorem aggregate_first_seen (rows : List Row) :
    (aggSpec rows).map (·.sample) = firsts (rows.map (·.sample)) ∧ ((aggSpec rows).map (·.sample)).Nodup := by
  rw [aggSpec_samples]; exact ⟨rfl, nodup_firsts _⟩

/-- the multiset of samples weighted by `num_occurrences` is preserved -/
theorem aggregate_weighted_multiset (rows : List Row) (x : List Rat) :
    (((aggSpec rows).filter (·.sample = x)).map (·.occ)).sum = ((rows.filter (·.sample = x)).map (·.occ)).sum :=
  aggSpec_weight rows x

/-- energies (and every other field) are those of the first row carrying the sample -/
theorem aggregate_fields_of_first (rows : List Row) (r : Row) (hr : r ∈ aggSpec rows) :
    ∃ k, ∃ hk : k < rows.length, rows[k].sample = r.sample ∧
      (∀ j (hj : j < rows.length), j < k → rows[j].sample ≠ r.sample) ∧
      r.energy = rows[k].energy ∧ r.extra = rows[k].extra := by
  rw [aggSpec_eq] at hr
  obtain ⟨x, hx, rfl⟩ := List.mem_map.mp hr
  have hx' := mem_firsts.mp hx
  rw [aggRow_sample rows x hx']
  exact aggRow_fields rows x hx'

/-! ## slice / truncate / first / lowest / filter -/

/-- `slice(..., sorted_by=None)` selects by position -/
theorem slice_unsorted_spec (rows : List Row) (sl : PySlice) :
    sliceRows rows none sl = (sliceIndices sl rows.length).map (gather rows) := rfl

/-- `slice(..., sorted_by=k)`: the record is permuted into key order, then sliced by position -/
theorem slice_spec (rows : List Row) (k : Key) (sl : PySlice) :
    (gather rows (argsort (rows.map (·.key k)))).Perm rows ∧
    (gather rows (argsort (rows.map (·.key k)))).Pairwise (fun a b => a.key k ≤ b.key k) ∧
    sliceRows rows (some k) sl = (sliceIndices sl rows.length).map (gather (gather rows (argsort (rows.map (·.key k))))) := by
  have hs := argsort_isSortingPerm (rows.map (·.key k))
  have hlt : ∀ i ∈ argsort (rows.map (·.key k)), i < rows.length := fun i hi => by
    have := argsort_lt _ i hi; simpa using this
  refine ⟨gather_perm _ _ (by simpa using hs.1), ?_, ?_⟩
  · have := hs.2
    rw [gather_map, List.pairwise_map] at this
    exact this
  · simp only [sliceRows]
    cases sliceIndices sl rows.length with
    | none => rfl
    | some sel => simp [gather_gather rows _ sel hlt]

/-- any sorting permutation of tie-free keys selects the same rows as the model's stable one, so
    `np.argsort`'s unspecified tie order is the only freedom -/
theorem slice_tiefree (rows : List Row) (k : Key) (p : List Nat) (hk : (rows.map (·.key k)).Nodup)
    (hp : IsSortingPerm (· ≤ ·) (rows.map (·.key k)) p) : p = argsort (rows.map (·.key k)) := by
  exact sortingPerm_unique (· ≤ ·) (fun a b => Rat.le_antisymm) _ hk p _ hp (argsort_isSortingPerm _)

/-- a slice never invents or alters a row: every row of the result is a row of the receiver -/
theorem slice_rows_mem (rows : List Row) (by_ : Option Key) (sl : PySlice) (out : List Row)
    (h : sliceRows rows by_ sl = some out) : ∀ r ∈ out, r ∈ rows := by
  intro r hr
  cases by_ with
  | none =>
    simp only [sliceRows, Option.map_eq_some_iff] at h
    obtain ⟨sel, _, rfl⟩ := h
    exact mem_gather hr
  | some k =>
    simp only [sliceRows, Option.map_eq_some_iff] at h
    obtain ⟨sel, _, rfl⟩ := h
    exact mem_gather hr

/-- `truncate(n)` keeps the first `n` rows of the sorted record -/
theorem truncate_spec (rows : List Row) (k : Key) (n : Int) (hn : 0 ≤ n) :
    sliceRows rows (some k) ⟨none, some n, none⟩ = some ((gather rows (argsort (rows.map (·.key k)))).take n.toNat) := by
  have h3 := (slice_spec rows k ⟨none, some n, none⟩).2.2
  have hlen : (gather rows (argsort (rows.map (·.key k)))).length = rows.length :=
    (slice_spec rows k ⟨none, some n, none⟩).1.length_eq
  rw [h3, sliceIndices_truncate n rows.length hn, Option.map_some]
  congr 1
  rw [gather_range_take _ _ (by rw [hlen]; exact Nat.min_le_right _ _), List.take_eq_take_iff]
  omega

/-- `truncate(n, sorted_by=None)` keeps the first `n` rows -/
theorem truncate_unsorted_spec (rows : List Row) (n : Int) (hn : 0 ≤ n) :
    sliceRows rows none ⟨none, some n, none⟩ = some (rows.take n.toNat) := by
  rw [slice_unsorted_spec, sliceIndices_truncate n rows.length hn, Option.map_some]
  congr 1
  rw [gather_range_take _ _ (Nat.min_le_right _ _), List.take_eq_take_iff]
  omega

/-- `first` is a row of the receiver with the lowest energy -/
theorem first_spec (s : SS) (r : Row) (h : s.first = some r) : r ∈ s.rows ∧ ∀ r' ∈ s.rows, r.energy ≤ r'.energy := by
  have hs := slice_spec s.rows .energy ⟨none, none, none⟩
  unfold SS.first at h
  have hk : (fun r : Row => r.key .energy) = (fun r : Row => r.energy) := rfl
  rw [hk] at hs
  generalize gather s.rows (argsort (s.rows.map (·.energy))) = sorted at hs h
  cases sorted with
  | nil => simp at h
  | cons a t =>
    simp only [List.head?_cons, Option.some.injEq] at h
    subst h
    refine ⟨hs.1.mem_iff.mp (by simp), ?_⟩
    intro r' hr'
    have hm : r' ∈ a :: t := hs.1.mem_iff.mpr hr'
    rcases List.mem_cons.mp hm with rfl | ht
    · exact Rat.le_refl
    · exact (List.pairwise_cons.mp hs.2.1).1 r' ht

/-- `filter(pred)` keeps exactly the rows satisfying the predicate, in record order -/
theorem filter_spec (rows : List Row) (pred : Row → Bool) : filterRows rows pred = rows.filter pred :=
  maskSelect_map rows pred

/-- `lowest(rtol, atol)` keeps exactly the rows whose energy is close to the minimum, in record order -/
theorem lowest_spec (rows : List Row) (rtol atol : Rat) :
    lowestRows rows rtol atol = rows.filter (fun r => isclose r.energy (minList (rows.map (·.energy))) rtol atol) := by
  unfold lowestRows
  split
  · rename_i h; simp only [List.isEmpty_iff] at h; subst h; rfl
  · exact maskSelect_map rows _

/-- membership in `lowest`: the band around the least energy `m` has half-width `atol + rtol·|m|` — scaled by the
    minimum as in `np.isclose(energy, min)`, not by each row's own energy -/
theorem lowest_band (rows : List Row) (rtol atol : Rat) (r : Row) :
    r ∈ lowestRows rows rtol atol ↔
      r ∈ rows ∧ rabs (r.energy - minList (rows.map (·.energy))) ≤ atol + rtol * rabs (minList (rows.map (·.energy))) :=
  mem_lowestRows rows rtol atol r

/-- a predicate returning numbers selects the rows where the number is non-zero (the mask is coerced to bool) -/
theorem filter_truthy_spec (rows : List Row) (val : Row → Rat) :
    filterTruthy rows val = rows.filter (fun r => decide (val r ≠ 0)) :=
  filterTruthy_spec rows val

/-- the reference energy of `lowest` is the least energy of the record, it is attained, and with
    non-negative tolerances every row attaining it is kept -/
theorem lowest_contains_min (rows : List Row) (rtol atol : Rat) (hr : 0 ≤ rtol) (ha : 0 ≤ atol) (hne : rows ≠ []) :
    (∀ r ∈ rows, minList (rows.map (·.energy)) ≤ r.energy) ∧
    (∃ r ∈ rows, r.energy = minList (rows.map (·.energy))) ∧
    (∀ r ∈ rows, r.energy = minList (rows.map (·.energy)) → r ∈ lowestRows rows rtol atol) := by
  refine ⟨fun r hr => minList_le _ _ (List.mem_map_of_mem hr), ?_, ?_⟩
  · have := minList_mem (rows.map (·.energy)) (by simpa using hne)
    obtain ⟨r, hr, e⟩ := List.mem_map.mp this
    exact ⟨r, hr, e⟩
  · intro r hrm e
    rw [lowest_spec, List.mem_filter]
    refine ⟨hrm, ?_⟩
    simp only [isclose, e, decide_eq_true_eq, Rat.sub_self]
    have h1 : rabs 0 = 0 := by decide +kernel
    have h2 : 0 ≤ rabs (minList (rows.map (·.energy))) := by unfold rabs; split <;> grind
    rw [h1]
    have := Rat.mul_nonneg hr h2
    grind

/-! ## column operations -/

/-- `relabel_variables`: only the labels change, position by position; no datum moves -/
theorem relabel_frame (s s' : SS) (m : List (Label × Label)) (h : s.relabel m = some s') :
    s'.rows = s.rows ∧ s'.vt = s.vt ∧ s'.fields = s.fields ∧
    s'.labels = s.labels.map (fun l => (LSpec.lookup (LSpec.dictOf m) l).getD l) := by
  unfold SS.relabel at h
  split at h
  · simp only [Option.some.injEq] at h; subst h; exact ⟨rfl, rfl, rfl, rfl⟩
  · cases h

/-- … and each value is found under the *new* label of its column (given that the relabelled labels are
    still distinct, which is C13's guarantee for an accepted mapping) -/
theorem relabel_values (s s' : SS) (m : List (Label × Label)) (h : s.relabel m = some s') (hnd' : s'.labels.Nodup)
    (r : Row) (v : Label) (hv : v ∈ s.labels) :
    cell s'.labels r.sample ((LSpec.lookup (LSpec.dictOf m) v).getD v) = cell s.labels r.sample v :=
  relabel_cells s s' m h hnd' r v hv

/-- row-selecting operations (slice, truncate, lowest, filter) keep a sample set well-formed -/
theorem row_selection_wf (s : SS) (hwf : s.WF) (by_ : Option Key) (sl : PySlice) (s' : SS) (h : s.slice by_ sl = some s') : s'.WF := by
  simp only [SS.slice, Option.map_eq_some_iff] at h
  obtain ⟨rows', hr, rfl⟩ := h
  exact wf_of_rows_subset s _ hwf rfl (slice_rows_mem s.rows by_ sl rows' hr)

/-- `keep_variables`: the kept labels (possibly re-sorted) carry their columns; energies,
    occurrences and extra fields stay with their rows -/
theorem keep_frame (s : SS) (hwf : s.WF) (vars : List Label) (sort : Bool) (s' : SS) (h : s.keep vars sort = some s') :
    s'.labels.Perm vars ∧ s'.vt = s.vt ∧ s'.fields = s.fields ∧ RowsCarry vars s.labels s.rows s'.labels s'.rows ∧ s'.WF :=
  let ⟨a, b, c, d⟩ := keep_spec s hwf vars sort s' h
  ⟨a, b, c, d, keep_wf s hwf vars sort s' h⟩

theorem drop_frame (s : SS) (hwf : s.WF) (vars : List Label) (s' : SS) (h : s.drop vars = some s') :
    s'.labels = s.labels.filter (· ∉ vars) ∧ s'.vt = s.vt ∧ s'.fields = s.fields ∧
    RowsCarry (s.labels.filter (· ∉ vars)) s.labels s.rows s'.labels s'.rows :=
  drop_spec s hwf vars s' h

theorem append_variables_frame (s : SS) (hwf : s.WF) (newLabels : List Label) (newRows : List (List Rat)) (sort : Bool)
    (hnew : ∀ x ∈ newRows, x.length = newLabels.length) (s' : SS) (h : s.appendVars newLabels newRows sort = some s') :
    s'.labels.Perm (s.labels ++ newLabels) ∧ s'.vt = s.vt ∧ s'.fields = s.fields ∧
    ∃ nr : List (List Rat), nr.length = s.rows.length ∧ (∀ x ∈ nr, x ∈ newRows) ∧
      (newRows.length = s.rows.length → nr = newRows) ∧
      ∃ g : Row × List Rat → Row, s'.rows = (s.rows.zip nr).map g ∧
        ∀ p ∈ s.rows.zip nr, (g p).energy = p.1.energy ∧ (g p).occ = p.1.occ ∧ (g p).extra = p.1.extra ∧
          (∀ v ∈ s.labels, cell s'.labels (g p).sample v = cell s.labels p.1.sample v) ∧
          (∀ v ∈ newLabels, cell s'.labels (g p).sample v = cell newLabels p.2 v) :=
  appendVars_spec s hwf newLabels newRows sort hnew s' h

/-- `change_vartype`: labels, occurrences, extra fields and the shape are untouched; energies move by
    the offset -/
theorem change_vartype_frame (s : SS) (vt : VT) (off : Rat) :
    (s.changeVartype vt off).1.labels = s.labels ∧ (s.changeVartype vt off).1.fields = s.fields ∧
    (s.changeVartype vt off).1.rows.map (fun r => (r.occ, r.extra, r.energy)) = s.rows.map (fun r => (r.occ, r.extra, r.energy + off)) ∧
    (s.changeVartype vt off).1.rows.map (·.sample.length) = s.rows.map (·.sample.length) :=
  changeVartype_frame s vt off

/-- … and the samples are converted value by value with the documented affine maps -/
theorem change_vartype_values (s : SS) (off : Rat) :
    s.changeVartype s.vt off = (s.shiftEnergy off, true) ∧
    (s.vt = .binary → s.changeVartype .spin off = ({ ((s.shiftEnergy off).mapSamples fun x => 2 * x - 1) with vt := .spin }, true)) ∧
    (s.vt = .spin → s.changeVartype .binary off
      = ({ ((s.shiftEnergy off).mapSamples fun x => (((x + 1) / 2).floor : Rat)) with vt := .binary }, true)) :=
  ⟨changeVartype_same s off, changeVartype_to_spin s off, changeVartype_to_binary s off⟩

theorem append_data_vectors_frame (s : SS) (name : String) (vals : List (List Rat)) (s' : SS) (h : s.appendVec name vals = some s') :
    s'.labels = s.labels ∧ s'.vt = s.vt ∧ s'.fields = s.fields ++ [name] ∧ vals.length = s.rows.length ∧
    s'.rows = (s.rows.zip vals).map (fun p => { p.1 with extra := p.1.extra ++ [p.2] }) :=
  appendVec_spec s name vals s' h

/-- `concatenate`: the rows of the first set, then one block per further set -/
theorem concatenate_rows (first : SS) (rest : List SS) (s' : SS) (h : concatenate (first :: rest) = some s') :
    s'.labels = first.labels ∧ s'.vt = first.vt ∧ s'.fields = first.fields ∧
    ∃ blocks : List (List Row), blocks.length = rest.length ∧ s'.rows = first.rows ++ blocks.flatten ∧
      ∀ (j : Nat) (s : SS), rest[j]? = some s → ∃ b, blocks[j]? = some b ∧ coerceTo first.vt first.labels s = some b :=
  concatenate_spec first rest s' h

/-- … and in each block the columns are permuted to the first set's label order *by label* -/
theorem concatenate_columns (vt : VT) (labels : List Label) (s : SS) (hwf : s.WF) (rows' : List Row)
    (h : coerceTo vt labels s = some rows') :
    ∃ s1 : SS, (s1 = s ∨ s1 = (s.changeVartype vt 0).1) ∧ s1.WF ∧ RowsCarry labels s1.labels s1.rows labels rows' :=
  coerceTo_spec vt labels s hwf rows' h

/-- `concatenate` of sample sets whose data vectors differ (`stack_arrays(defaults=…)`): the fields are the
    union in order of first appearance; every row keeps sample (re-ordered by label as above), energy,
    occurrences and each field its set has; exactly the missing fields hold the fill value -/
theorem concatenate_defaults (fill : String → List Rat) (first : SS) (rest : List SS) (s' : SS)
    (h : concatenateD fill (first :: rest) = some s') :
    s'.labels = first.labels ∧ s'.vt = first.vt ∧ s'.fields = unionFields (first :: rest) ∧
    ∃ blocks : List (List Row), blocks.length = rest.length ∧
      s'.rows = first.rows.map (relayExtra (unionFields (first :: rest)) fill first) ++ blocks.flatten ∧
      ∀ (j : Nat) (s : SS), rest[j]? = some s → ∃ b rows, blocks[j]? = some b ∧ coerceTo first.vt first.labels s = some rows ∧
        b = rows.map (relayExtra (unionFields (first :: rest)) fill s) :=
  concatenateD_spec fill first rest s' h

theorem concatenate_defaults_row (U : List String) (fill : String → List Rat) (s : SS) (r : Row) :
    (relayExtra U fill s r).sample = r.sample ∧ (relayExtra U fill s r).energy = r.energy ∧ (relayExtra U fill s r).occ = r.occ ∧
    ∀ f ∈ U, (relayExtra U fill s r).extra[U.idxOf f]? =
      some (if f ∈ s.fields then r.extra.getD (s.fields.idxOf f) [] else fill f) :=
  relayExtra_spec U fill s r

/-! ## data() / samples() -/

/-- `data(sorted_by, reverse, index=True)` yields every row exactly once, each with its own record index,
    in ascending key order (descending with `reverse`) -/
theorem data_spec (s : SS) (by_ : Option Key) (rev : Bool) :
    ((s.data by_ rev).map (·.1)).Perm s.rows ∧ (∀ r i, (r, i) ∈ s.data by_ rev → s.rows[i]? = some r) :=
  ⟨data_rows_perm s by_ rev, fun r i h => data_index s by_ rev r i h⟩

theorem data_sorted_spec (s : SS) (k : Key) :
    ((gather s.rows (dataOrder s.rows (some k) false)).Pairwise fun a b => a.key k ≤ b.key k) ∧
    ((gather s.rows (dataOrder s.rows (some k) true)).Pairwise fun a b => b.key k ≤ a.key k) :=
  data_sorted s k

/-- `samples(n, sorted_by)` are the sample columns of `truncate(n, sorted_by)` -/
theorem samples_spec (s : SS) (n : Int) (hn : 0 ≤ n) (k : Key) :
    s.samplesView (some n) (some k) = some (((gather s.rows (argsort (s.rows.map (·.key k)))).take n.toNat).map (·.sample)) := by
  simp only [SS.samplesView, truncate_spec s.rows k n hn, Option.map_some]

/-! ## deferred results -/

theorem lazy_eq_eager_relabel (x : LSS) (m : List (Label × Label)) (inplace : Bool) :
    (x.relabelOp m inplace).bind LSS.resolve = x.resolve.bind (·.relabel m) :=
  lazy_relabel x m inplace

theorem lazy_eq_eager_change_vartype (x : LSS) (vt : VT) (off : Rat) (inplace : Bool) :
    (x.changeVtOp vt off inplace).bind LSS.resolve = x.resolve.bind (Hook.changeVt vt off).run :=
  lazy_changeVt x vt off inplace

/-! ## as_samples -/

/-- stacking rows given as mappings in any key order: every label finds its own value in every row -/
theorem as_samples_canonical (f : SampleLike) (rest : List SampleLike) (labels : List Label) (rows : List (List Rat))
    (hnd : ∀ s ∈ f :: rest, s.labels.Nodup) (h : asSamplesIter true (f :: rest) = some (labels, rows)) :
    labels = f.labels ∧ rows.length = (f :: rest).length ∧
    ∀ (j : Nat) (s : SampleLike), (f :: rest)[j]? = some s →
      ∃ row, rows[j]? = some row ∧ ∀ v ∈ labels, cell labels row v = cell s.labels s.vals v :=
  asSamplesIter_spec f rest labels rows hnd h

/-- a mapping row *is* its lookup: `cell` of a dict's own key/value lists is the dict lookup -/
theorem as_samples_tuple_spec (rows : List (List Rat)) (labels : List Label) (t : List Label × List (List Rat))
    (h : asSamplesTuple rows labels = some t) : t = (labels, rows) := by
  unfold asSamplesTuple at h
  split at h
  · simp only [Option.some.injEq] at h; exact h.symm
  · cases h

/-! ## non-vacuity / witnesses -/

/-- the unrepaired `_as_samples_iterator` (D1) violates `as_samples_canonical` on the input of DESIGN.md -/
example : asSamplesIter false [.dict [(.str "a", 3), (.str "b", 1), (.str "c", 2)], .dict [(.str "b", 1), (.str "c", 2), (.str "a", 3)]]
    = some ([.str "a", .str "b", .str "c"], [[3, 1, 2], [2, 3, 1]]) := asSamplesIter_unrepaired_witness

example : asSamplesIter true [.dict [(.str "a", 3), (.str "b", 1), (.str "c", 2)], .dict [(.str "b", 1), (.str "c", 2), (.str "a", 3)]]
    = some ([.str "a", .str "b", .str "c"], [[3, 1, 2], [3, 1, 2]]) := by decide +kernel

example : (aggregateRows [⟨[1, -1], 1/2, 1, []⟩, ⟨[-1, 1], -1, 2, []⟩, ⟨[1, -1], 1/2, 3, []⟩]).map (·.occ) = [4, 2] := by
  rw [aggregateRows, aggregate_spec _ _ (npUnique_spec _)]; decide +kernel

example : sliceIndices ⟨some 3, some (-3), some 2⟩ 10 = some [3, 5] := by decide +kernel
example : sliceIndices ⟨none, none, some (-1)⟩ 3 = some [2, 1, 0] := by decide +kernel

/-! ## audit additions: exact raise conditions, negative slices, degenerate `concatenate`, chains of deferred calls -/

/-- `first` raises exactly on an empty sample set -/
theorem first_raises_iff_empty (s : SS) : s.first = none ↔ s.rows = [] := first_eq_none_iff s

/-- `slice` raises exactly for a zero step, whatever the bounds, the record and `sorted_by` -/
theorem slice_raises_iff_zero_step (rows : List Row) (by_ : Option Key) (sl : PySlice) :
    sliceRows rows by_ sl = none ↔ sl.step = some 0 := sliceRows_eq_none_iff rows by_ sl

/-- every position a slice selects exists (oversize and negative bounds are clipped, never wrapped twice) -/
theorem slice_indices_in_range (sl : PySlice) (n : Nat) (idx : List Nat) (h : sliceIndices sl n = some idx) :
    ∀ i ∈ idx, i < n := sliceIndices_lt sl n idx h

/-- a negative step walks backwards: `slice(None, None, -1)` returns the rows (of the sorted record when
    `sorted_by` is given) in reverse order -/
theorem slice_reverse_spec (rows : List Row) (k : Key) :
    sliceRows rows none ⟨none, none, some (-1)⟩ = some rows.reverse ∧
    sliceRows rows (some k) ⟨none, none, some (-1)⟩ = some (gather rows (argsort (rows.map (·.key k)))).reverse :=
  ⟨sliceRows_reverse rows, sliceRows_sorted_reverse rows k⟩

/-- `truncate(n)` / `slice(n)` with negative `n` drops the last `-n` rows of the (sorted) record -/
theorem truncate_negative_spec (rows : List Row) (k : Key) (n : Int) (hn : n < 0) :
    sliceRows rows none ⟨none, some n, none⟩ = some (rows.take (rows.length - n.natAbs)) ∧
    sliceRows rows (some k) ⟨none, some n, none⟩
      = some ((gather rows (argsort (rows.map (·.key k)))).take (rows.length - n.natAbs)) :=
  ⟨sliceRows_truncate_neg rows none n hn, sliceRows_truncate_neg rows (some k) n hn⟩

/-- `append_variables` raises exactly when the new rows are neither one per sample nor a single row for a
    non-empty set, or a new label is already a variable, or the new labels repeat -/
theorem append_variables_raises_iff (s : SS) (labels : List Label) (newRows : List (List Rat)) (sort : Bool) :
    s.appendVars labels newRows sort = none ↔
      (newRows.length ≠ s.rows.length ∧ ¬ (newRows.length = 1 ∧ s.rows.length ≠ 0)) ∨
      (∃ v ∈ labels, v ∈ s.labels) ∨ ¬ labels.Nodup :=
  appendVars_eq_none_iff s labels newRows sort

/-- `append_data_vectors` raises exactly for a vector of the wrong length or a name already in the record -/
theorem append_data_vectors_raises_iff (s : SS) (name : String) (vals : List (List Rat)) :
    s.appendVec name vals = none ↔
      vals.length ≠ s.rows.length ∨ name ∈ s.fields ∨ name = "sample" ∨ name = "energy" ∨ name = "num_occurrences" :=
  appendVec_eq_none_iff s name vals

/-- `concatenate` of a single sample set returns its content; of no sample set it raises -/
theorem concatenate_degenerate (s : SS) (fill : String → List Rat) :
    concatenate [s] = some s ∧ concatenate [] = none ∧ concatenateD fill [] = none :=
  ⟨concatenate_single s, rfl, rfl⟩

/-- `concatenate` raises when a later sample set is not over exactly the variables of the first one -/
theorem concatenate_mismatched_variables_raises (first : SS) (rest : List SS) (s : SS) (hs : s ∈ rest)
    (h : (∃ v ∈ first.labels, v ∉ s.labels) ∨ s.labels.length ≠ first.labels.length) :
    concatenate (first :: rest) = none :=
  concatenate_none_of_labels first rest s hs h

/-- any chain of `relabel_variables` / `change_vartype` calls (each with either `inplace` value and any
    `energy_offset`) on a sample set object — resolved, or still waiting for its future — gives, once resolved,
    what the same calls give on the resolved sample set, and raises exactly when those raise -/
theorem lazy_chain_eq_eager (ops : List LOp) (x : LSS) :
    (chainObject ops (some x)).bind LSS.resolve = chainValue ops x.resolve :=
  lazy_chain ops (some x)

/-- while the future is pending nothing is computed at call time: the returned object is still pending and the
    call cannot raise (errors surface at resolution) -/
theorem lazy_pending_defers (x : LSS) (hx : x.done = false) (m : List (Label × Label)) (ip : Bool) (vt : VT) (off : Rat) :
    (∃ y, x.relabelOp m ip = some y ∧ y.done = false) ∧ (∃ y, x.changeVtOp vt off true = some y ∧ y.done = false) :=
  pending_defers x hx m ip vt off

/-! ### non-vacuity of the additions -/

example : sliceRows [⟨[1], 3, 1, []⟩, ⟨[0], 1, 1, []⟩, ⟨[1], 2, 1, []⟩] none ⟨none, none, some (-1)⟩
    = some [⟨[1], 2, 1, []⟩, ⟨[0], 1, 1, []⟩, ⟨[1], 3, 1, []⟩] := by decide +kernel
example : sliceRows [⟨[1], 3, 1, []⟩, ⟨[0], 1, 1, []⟩, ⟨[1], 2, 1, []⟩] none ⟨none, some (-1), none⟩
    = some [⟨[1], 3, 1, []⟩, ⟨[0], 1, 1, []⟩] := by decide +kernel
example : sliceRows [⟨[1], 3, 1, []⟩] none ⟨some 5, some (-9), some 0⟩ = none := by decide +kernel
example : (SS.mk [.str "a"] [] .spin []).first = none := by decide +kernel
example : lowestRows [⟨[1], -8, 1, []⟩, ⟨[0], -6, 1, []⟩, ⟨[1], -3, 1, []⟩] (1/4) 0 = [⟨[1], -8, 1, []⟩, ⟨[0], -6, 1, []⟩] := by
  decide +kernel
example : (SS.mk [.str "a"] [⟨[1], 0, 1, []⟩, ⟨[-1], 1, 1, []⟩] .spin []).appendVars [.str "a"] [[1]] true = none := by decide +kernel
example : ((SS.mk [.str "b"] [⟨[1], 0, 1, []⟩, ⟨[-1], 1, 1, []⟩] .spin []).appendVars [.str "a"] [[1]] false).map (·.rows)
    = some [⟨[1, 1], 0, 1, []⟩, ⟨[-1, 1], 1, 1, []⟩] := by decide +kernel
example : (SS.mk [.str "a"] [⟨[1], 0, 1, []⟩] .spin ["ex"]).appendVec "ex" [[1]] = none := by decide +kernel
example : (SS.mk [.str "a"] [⟨[1], 0, 1, []⟩] .spin []).appendVec "nv" [[1], [2]] = none := by decide +kernel
/-- a pending future, two deferred calls (relabel not in place, then change_vartype with an offset), resolved late -/
example : ((chainObject [.relabel [(.str "a", .str "b")] false, .changeVt .binary (1/2) true]
      (some (.fut false (SS.mk [.str "a"] [⟨[1], 0, 1, []⟩, ⟨[-1], 1, 1, []⟩] .spin []) []))).bind LSS.resolve)
    = some (SS.mk [.str "b"] [⟨[1], 1/2, 1, []⟩, ⟨[0], 3/2, 1, []⟩] .binary []) := by decide +kernel


/-! ## round 7: `as_samples` overload by overload (`DimodModel/AsSamplesDispatch.lean`), concrete `np.unique` / stable `np.argsort` -/

open SSM.Dispatch in
/-- **every accepted form, every nesting** (dict, list of dicts, generator, `(array_like, labels)`, `(dict, labels)`,
    SampleSet, 0/1/2-d array-likes, lists of rows, iterators of any of these, any `dtype` / `copy` / `order` /
    `labels_type`): whenever `as_samples` returns, the labels are distinct, there is one row per row the input denotes,
    every row is as wide as the labels and holds, under every label, the value the input gives that label in that row -/
theorem as_samples_every_form (f : Form) (args : Args) (o : Out) (hc : f.Clean) (h : run args f = .ok o) :
    o.labels.Nodup ∧ o.rows.length = f.denote.length ∧
    ∀ (j : Nat) (row : List Rat) (d : List (Label × Rat)), o.rows[j]? = some row → f.denote[j]? = some d →
      row.length = o.labels.length ∧ ∀ v ∈ o.labels, cell o.labels row v = lookup d v := by
  have hg := run_good f args o hc h
  exact ⟨hg.1, hg.2.length, fun j row d hr hd => hg.2.get j row d hr hd⟩

open SSM.Dispatch in
/-- **the same values for equivalent inputs in every accepted form**: two inputs (of any two forms, under any two
    argument sets) that denote the same table come back with the same number of rows and, under every common label, the
    same value in every row -/
theorem as_samples_all_forms_agree (f g : Form) (a b : Args) (o p : Out) (hf : f.Clean) (hg : g.Clean)
    (h1 : run a f = .ok o) (h2 : run b g = .ok p) (hlen : f.denote.length = g.denote.length)
    (hsame : ∀ (j : Nat) d e, f.denote[j]? = some d → g.denote[j]? = some e → ∀ v, lookup d v = lookup e v) :
    o.rows.length = p.rows.length ∧
    ∀ (j : Nat) (r s : List Rat), o.rows[j]? = some r → p.rows[j]? = some s →
      ∀ v, v ∈ o.labels → v ∈ p.labels → cell o.labels r v = cell p.labels s v := by
  obtain ⟨_, hl1, hv1⟩ := as_samples_every_form f a o hf h1
  obtain ⟨_, hl2, hv2⟩ := as_samples_every_form g b p hg h2
  refine ⟨by rw [hl1, hl2, hlen], ?_⟩
  intro j r s hr hs v hvo hvp
  have hj : j < f.denote.length := by rw [← hl1]; exact (List.getElem?_eq_some_iff.mp hr).1
  have hj' : j < g.denote.length := by rw [← hlen]; exact hj
  have hd := List.getElem?_eq_getElem hj
  have he := List.getElem?_eq_getElem hj'
  rw [(hv1 j r _ hr hd).2 v hvo, (hv2 j s _ hs he).2 v hvp]
  exact hsame j _ _ hd he v

open SSM.Dispatch in
/-- `copy` and `order` are passed through every overload and read by none of them: the result is the same array -/
theorem as_samples_copy_order_irrelevant (f : Form) (args : Args) (cp ord : Bool) :
    run { args with copy := cp, fOrder := ord } f = run args f :=
  run_congr f _ _ rfl rfl

open SSM.Dispatch in
/-- the accepted label containers: `labels_type=Variables` gives the labels of `labels_type=list` whenever the input's
    own label lists have no repetitions (with repetitions `Variables` drops them and the tuple overload refuses) -/
theorem as_samples_tuple_labels_type (a : ArrLike) (labels : List Label) (args : Args) (hnd : labels.Nodup) :
    (run { args with labelsVariables := true } (.tuple a labels)).toOption.map (fun o => (o.rows, o.labels)) =
    (run { args with labelsVariables := false } (.tuple a labels)).toOption.map (fun o => (o.rows, o.labels)) := by
  simp only [run, tupleTail, sampleArray_congr a { args with labelsVariables := true } { args with labelsVariables := false } rfl,
    asLabels_of_nodup _ _ hnd]
  split
  · rfl
  · split
    · split <;> rfl
    · split <;> rfl

open SSM.Dispatch in
/-- **`append_variables` with ANY samples-like** (mapping of constants, another SampleSet, list of dicts, generator, `(array, labels)` …):
    whenever it returns, `as_samples` accepted the input with distinct labels and rows that carry, label by label, the values the input
    denotes, and the result is `append_variables` of exactly those labels and rows — so `append_variables_frame` /
    `append_variables_raises_iff` speak about every form -/
theorem append_variables_every_form (s : SS) (f : Form) (sortLabels : Bool) (s' : SS) (hc : f.Clean)
    (h : appendVariablesForm s f sortLabels = some s') :
    ∃ o, run {} f = .ok o ∧ s.appendVars o.labels o.rows sortLabels = some s' ∧ o.labels.Nodup ∧ o.rows.length = f.denote.length ∧
      ∀ (j : Nat) (row : List Rat) (d : List (Label × Rat)), o.rows[j]? = some row → f.denote[j]? = some d →
        row.length = o.labels.length ∧ ∀ v ∈ o.labels, cell o.labels row v = lookup d v := by
  unfold appendVariablesForm at h
  split at h
  · rename_i o ho
    obtain ⟨h1, h2, h3⟩ := as_samples_every_form f {} o hc ho
    exact ⟨o, ho, h, h1, h2, h3⟩
  · cases h

/-- **`np.argsort(kind='stable')` of the model is stable** (`IsSortingPerm` alone leaves the order of ties open): of two
    positions whose keys are in order the earlier one comes first, so `truncate` / `slice` / `first` / `samples(sorted_by=…)`
    are determined also among equal keys -/
theorem argsort_concrete_stable (keys : List Rat) (i j : Nat) (hij : i < j) (hj : j < keys.length)
    (hle : keys[i]'(Nat.lt_trans hij hj) ≤ keys[j]) : List.Sublist [i, j] (argsort keys) :=
  argsort_stable keys i j hij hj hle

/-- **the concrete `np.unique(axis=0, return_index=True, return_inverse=True)`** that `aggregate_model_spec` runs on: distinct
    rows in lexicographic order, satisfying the contract, `indices[k]` the FIRST position of `u[k]` in the input -/
theorem np_unique_concrete (xs : List (List Rat)) :
    (npUnique xs).u.Pairwise (fun a b => lexLe a b = true) ∧ UniqueSpec xs (npUnique xs) ∧
    (∀ (k i : Nat), (npUnique xs).indices[k]? = some i → xs[i]? = (npUnique xs).u[k]? ∧ ∀ j < i, xs[j]? ≠ (npUnique xs).u[k]?) :=
  npUnique_concrete xs

/-- `lowest` / `first` / `truncate(sorted_by)` run on the concrete stable `argsort`: no assumed specification is left -/
theorem sorted_selection_concrete (rows : List Row) (k : Key) :
    IsSortingPerm (· ≤ ·) (rows.map (·.key k)) (argsort (rows.map (·.key k))) ∧
    ∀ (i j : Nat) (hij : i < j) (hj : j < (rows.map (·.key k)).length),
      (rows.map (·.key k))[i]'(Nat.lt_trans hij hj) ≤ (rows.map (·.key k))[j] → List.Sublist [i, j] (argsort (rows.map (·.key k))) :=
  ⟨argsort_isSortingPerm _, fun i j hij hj hle => argsort_stable _ i j hij hj hle⟩

section examples
open SSM.Dispatch

/-- which exception a call raises -/
def errOf (r : Except Err Out) : Option Err := match r with | .error e => some e | .ok _ => none

/-- list of dicts in differing key orders, generator of `(row, labels)` pairs and a sample set next to a dict: one table -/
example : (run {} (.sequence [.mapping [(.str "a", 3), (.str "b", 1)] false, .mapping [(.str "b", 1), (.str "a", 3)] false])).toOption
    = some ⟨[[3, 1], [3, 1]], 2, .int8, [.str "a", .str "b"], false⟩ := by decide +kernel
example : (run {} (.iterator [.tuple ⟨.py .int64, .d1 [3, 1]⟩ [.str "a", .str "b"], .sampleset [.str "b", .str "a"] [[1, 3]] .int32])).toOption
    = some ⟨[[3, 1], [3, 1]], 2, .int32, [.str "a", .str "b"], false⟩ := by decide +kernel
/-- the smallest integer type: `-128` needs `int16` (the code compares `-min` with `iinfo.max`); `-2^63` fits no candidate and
    stays the int64 it already is (repair ecd6256: `except StopIteration: if arr.dtype != np.int64: raise ...; dtype = np.int64`) -/
example : (run {} (.array ⟨.py .int64, .d1 [-128, 5]⟩)).toOption.map (·.dtype) = some .int16 := by decide +kernel
example : (run {} (.array ⟨.py .int64, .d1 [-9223372036854775808]⟩)).toOption.map (fun o => (o.dtype, o.rows))
    = some (.int64, [[-9223372036854775808]]) := by decide +kernel
/-- refusals: a repeated label under `labels_type=Variables`, rows over different variables, `(iterator, labels)` -/
example : errOf (run { labelsVariables := true } (.tuple ⟨.py .int64, .d1 [1, 2]⟩ [.str "a", .str "a"])) = some .value := by decide +kernel
example : errOf (run {} (.iterator [.mapping [(.str "a", 1)] false, .mapping [(.str "b", 1)] false])) = some .value := by decide +kernel
example : errOf (run {} (.tupleIterator [])) = some .type := by decide +kernel
/-- the generated source facts the model is written over: the four candidates in ascending order, `<=`, the exact `max_`
    (the repaired `-int(arr.min(...))`), the four registered overloads in the order of the model's `Form` dispatch -/
example : intCandidates = [.int8, .int16, .int32, .int64] := by decide +kernel
example : Generated.SampleArray.candidateTestIsLe = true ∧ Generated.SampleArray.maxComputedExactly = true := by decide +kernel
example : Generated.SampleArray.registered.map (·.1) = ["Iterator", "Mapping", "tuple", "SampleSet"] := by decide +kernel
/-- the hypotheses of `as_samples_every_form` are met by a nested input -/
example : (Form.iterator [.sequence [.mapping [(.str "a", 1)] false], .tuple ⟨.nd .int8, .d2 [[2]] 1⟩ [.str "a"]]).Clean := by
  simp [Form.Clean, Form.CleanAll]
/-- equal keys keep their order: position 0 comes before position 2 -/
example : List.Sublist [0, 2] (argsort [2, 1, 2, 1]) := argsort_concrete_stable _ 0 2 (by decide) (by decide) (by decide +kernel)
end examples

/-! ## r8f — label-addressed reads on ONE sample-set object along a history of lookups and in-place calls

`keep_variables` / `drop_variables` / `samples()[rows, [labels…]]` resolve labels through the `Variables` object the
`SamplesArray` shares with the sample set (`SamplesArray._getmultiindex`: `[variables.index(v) for v in col]`).  The object
model `ObjOp` / `runObj` (`DimodModel/SamplesObject.lean`): in-place `relabel_variables` / `change_vartype` change the object,
lookups leave it as it is — as coded no lookup stores anything on the instance (`Generated.SamplesState`, regenerated from
the source on every run). -/
section object_histories

/-- a multi-column read returns, for every selected row and every requested label, the value the sample set holds in that
    row under that label NOW (and is refused — `KeyError` — exactly when a requested label is not a current label) -/
theorem getMulti_reads_current_cells (s : SS) (hwf : s.WF) (rowIdx : List Nat) (cols : List Label) :
    (s.getMulti rowIdx cols = none ↔ ∃ v ∈ cols, v ∉ s.labels) ∧
    ∀ out, s.getMulti rowIdx cols = some out →
      out.map (·.map some) = (gather s.rows rowIdx).map fun r => cols.map (cell s.labels r.sample) :=
  ⟨getMulti_none_iff s rowIdx cols, fun out h => (getMulti_spec s hwf rowIdx cols out h).2⟩

/-- lookups are invisible: after ANY history of in-place calls and lookups on one object, the object is the one that saw the
    in-place calls alone, and it is well-formed -/
theorem object_history_lookups_invisible (ops : List ObjOp) (s : SS) (hwf : s.WF) :
    runObj ops s = runObj (ops.filter (·.mutates)) s ∧ (runObj ops s).WF :=
  ⟨runObj_filter ops s, runObj_wf ops s hwf⟩

/-- … hence a read after any history of earlier lookups and in-place relabels / vartype changes answers for the labels and
    values the object has at that moment (all histories, all sizes) -/
theorem getMulti_after_history (ops : List ObjOp) (s : SS) (hwf : s.WF) (rowIdx : List Nat) (cols : List Label) (out : List (List Rat))
    (h : (runObj ops s).getMulti rowIdx cols = some out) :
    (∀ v ∈ cols, v ∈ (runObj (ops.filter (·.mutates)) s).labels) ∧
    out.map (·.map some) = (gather (runObj (ops.filter (·.mutates)) s).rows rowIdx).map
      fun r => cols.map (cell (runObj (ops.filter (·.mutates)) s).labels r.sample) := by
  rw [runObj_filter ops s] at h
  exact getMulti_spec _ (runObj_wf _ s hwf) rowIdx cols out h

/-- an in-place relabel moves no datum: the value read under the NEW label of a column is the value that was under its old
    label (one step of the history; with `getMulti_after_history` this fixes what every later lookup returns) -/
theorem relabel_in_place_then_read (s : SS) (hwf : s.WF) (m : List (Label × Label)) (s' : SS) (h : s.relabel m = some s')
    (r : Row) (v : Label) (hv : v ∈ s.labels) :
    (ObjOp.relabelIp m).next s = s' ∧ s'.WF ∧ s'.rows = s.rows ∧
    cell s'.labels r.sample ((LSpec.lookup (LSpec.dictOf m) v).getD v) = cell s.labels r.sample v := by
  have hwf' := ssobj_relabel_wf s s' hwf m h
  refine ⟨by simp [ObjOp.next, h], hwf', (relabel_frame s s' m h).1, relabel_cells s s' m h hwf'.1 r v hv⟩

private def demo : SS :=
  { labels := [.str "a", .str "b", .str "c"], vt := .binary, fields := [],
    rows := [⟨[0, 0, 1], 3, 1, []⟩, ⟨[0, 1, 1], 1, 2, []⟩, ⟨[1, 0, 1], 2, 3, []⟩, ⟨[0, 0, 0], 0, 4, []⟩] }
private def swap : List (Label × Label) := [(.str "a", .str "c"), (.str "c", .str "a")]

/-- the hypotheses are met by a concrete object -/
example : demo.WF := ⟨by decide +kernel, by intro r hr; simp only [demo, List.mem_cons, List.not_mem_nil, or_false] at hr; rcases hr with rfl | rfl | rfl | rfl <;> rfl⟩
/-- keep [a, b] — swap a and c in place — read [a, b] again: column `a` is now the old column `c` -/
example : (runObj [.keep [.str "a", .str "b"] false, .relabelIp swap, .getMulti [0, 1, 2, 3] [.str "a"]] demo).getMulti [0, 1, 2, 3] [.str "a", .str "b"]
    = some [[1, 0], [1, 1], [1, 0], [0, 0]] := by decide +kernel
/-- the same history on an object that keeps a label→index table checked by length only (the seeded variant): the second
    read still returns the column that USED to be called `a` -/
example : ((((CachedSS.mk demo none).getMulti [0, 1, 2, 3] [.str "a", .str "b"]).1.relabelIp swap).getMulti [0, 1, 2, 3] [.str "a", .str "b"]).2
    = some [[0, 0], [0, 1], [1, 0], [0, 0]] := by decide +kernel
/-- a label that was renamed away is refused, the new one is accepted -/
example : ((runObj [.relabelIp [(.str "b", .str "z")]] demo).getMulti [0] [.str "b"],
           (runObj [.relabelIp [(.str "b", .str "z")]] demo).getMulti [0] [.str "z", .str "c"]) = (none, some [[0, 1]]) := by decide +kernel
/-- the source as it stands: no lookup stores anything on `SampleView` / `SamplesArray` / `Variables` (the only store outside
    `__init__` is the counter of the deprecated iterator protocol), `_getmultiindex` resolves labels with `Variables.index`
    only, and the object state of `SampleSet` / `cyVariables` is the modelled one -/
example : Generated.SamplesState.storesOutsideInit = [("SamplesArray", "__next__", "_itercount")] := by decide +kernel
example : Generated.SamplesState.getMultiCallsOnVariables = ["index"] := by decide +kernel
example : Generated.SamplesState.sampleSetAttrs = ["_future_wait_id_result", "_info", "_record", "_result_hook", "_variables", "_vartype"] := by decide +kernel
example : Generated.SamplesState.cyVariablesAttrs = ["_index_to_label", "_label_to_index", "_stop"] := by decide +kernel

end object_histories

end C14
